"""C03 - the resolver selects the deepest command named by the leading tokens."""
import itertools, re
from hutil import S, unS, err, exc_code, canon_floats, canon_floats_w
import parsergen as G
import treegen as T

MODEL = "C03"
PROP_FILES = ["Props/C03.v"]
RULE = ("seeded command trees (fan-out <= 3, aliases, default / anonymous / hidden / disabled / lenient commands, 0-2 options and "
        "arguments per command): regular trees of depth <= 2 (quick) / <= 3 (thorough), trees forced to hold a path of 3 named "
        "commands (both tiers), trees with one sibling collision the code accepts (alias = a sibling's name or alias, duplicate "
        "sibling names; below the top level and, where accepted, at the top level), trees with a global argument and one top-level "
        "collision the configuration rejects; x all "
        "lines of <= 3 tokens over the tree's names and aliases + a wrong name, '-v', a known and an unknown option, '--', '' and a "
        "value; all lines of <= 2 tokens and the lines of 3 tokens with one such token among names, over a case variant of a "
        "name, a proper prefix of a name, '-5' and '-'; for every named path and every single-alias / all-alias spelling of it "
        "the lines path, path + option, path + '--' x, path + values, path + unknown; random lines of 4-6 tokens; "
        "non-trivial = a line whose path has >= 1 matched name; distinct by (tree, line)")
TRUSTED = ["parsability of default sub-commands (first parsable, else first) is observed on the real commands for the oracle",
           "every case builds its own application object (the verdict is a function of the case)"]
ASSUMPTIONS = ["sibling names/aliases pairwise distinct for the oracle's deepest-path, alias and option/tail clauses (the code does "
               "not enforce it below the top level; trees violating it are generated and compared model vs implementation, and "
               "the undefined-first-token clause is still evaluated on them)",
               "plain ApplicationConfig + DefaultResolver; DefaultApplicationConfig (help pre-resolve listener) is not in the "
               "quantifier of C03 and is C09's subject; a few trees carry a global argument"]
EXTRA = ["zz"]
BASE_EXTRA = ["zz", "-v", "--", "", "val", "--zz", "-a", "--ls"]


def outside_tokens(names):
    """tokens that are NOT spellings of the tree: a case variant of a name, a proper prefix of a name, '-5', '-'"""
    out = []
    for n in names:
        v = n[0].upper() + n[1:]
        if v not in names:
            out.append(v)
            break
    for n in sorted(names, key=lambda x: -len(x)):
        if len(n) >= 2 and n[:-1] not in names:
            out.append(n[:-1])
            break
    return out + ["-5", "-"]


def own_option_tokens(o):
    if o["flags"] & G.NO_VALUE:
        return ["--" + o["long"]]
    return ["--" + o["long"], "5"]


def forced_lines(t):
    """for every path of named commands, spelled by names, with one name replaced by an alias (every position, every
    alias) and with every name replaced by its first alias: the path alone, followed by a global option, by the last
    command's own option, by '--' x, by one and two values, by a token naming nothing"""
    lines = []
    for p, nodes in T.named_paths(t):
        spells = [list(p)]
        for i, n in enumerate(nodes):
            for a in n["aliases"]:
                spells.append(p[:i] + [a] + p[i + 1:])
        if any(n["aliases"] for n in nodes):
            spells.append([(n["aliases"][0] if n["aliases"] else n["name"]) for n in nodes])
        last = nodes[-1]
        for sp in spells:
            lines.append(sp)
            lines.append(sp + ["-v"])
            lines.append(sp + ["--", "x"])
            lines.append(sp + ["x"])
            lines.append(sp + ["x", "y"])
            lines.append(sp + ["zz", "-v"])
            for o in last["opts"][:1]:
                lines.append(sp + own_option_tokens(o))
                lines.append(sp + own_option_tokens(o) + ["--", "x"])
    seen, out = set(), []
    for l in lines:
        if tuple(l) not in seen:
            seen.add(tuple(l))
            out.append(l)
    return out


def tree_cases(rng, t, nrand, kmax=3, outside=True):
    names, opts = T.tree_tokens(t)
    al = names[:7] + BASE_EXTRA
    if opts:
        o = opts[0]
        al.append("--" + o["long"] + ("=5" if not (o["flags"] & G.NO_VALUE or o["flags"] & 60 == 0) else ""))
    lines = []
    for k in range(0, kmax + 1):
        lines.extend(list(seq) for seq in itertools.product(al, repeat=k))
    out_t = outside_tokens(names) if outside else []
    if out_t:
        full = al + out_t
        for k in (1, 2):
            lines.extend(list(seq) for seq in itertools.product(full, repeat=k) if any(x in out_t for x in seq))
        nm = names[:7] + ["zz"]
        for pos in range(3):
            for x in out_t:
                for y in nm:
                    for z in nm:
                        l = [y, z]
                        l.insert(pos, x)
                        lines.append(l)
    lines.extend(forced_lines(t))
    full = al + out_t
    for _ in range(nrand):
        lines.append([rng.choice(full) for _ in range(rng.randint(4, 6))])
    seen, cases = set(), []
    for l in lines:
        if tuple(l) not in seen:
            seen.add(tuple(l))
            cases.append({"tree": t, "toks": l})
    return cases


def gen(rng, tier, info):
    #            regular  depth-3  colliding  rejected
    plan = {"quick": (20, 4, 8, 1), "thorough": (150, 20, 32, 4), "search": (10, 2, 4, 0)}[tier]
    maxdepth = {"quick": 2, "thorough": 3, "search": 2}[tier]
    nrand = {"quick": 400, "thorough": 1500, "search": 200}[tier]
    cases = []
    shapes = {"regular": plan[0], "with-a-path-of-3": plan[1], "rejected-top-level-collision": plan[3]}
    for _ in range(plan[0]):
        cases.extend(tree_cases(rng, T.rand_tree(rng, maxdepth, True), nrand))
    for _ in range(plan[1]):
        cases.extend(tree_cases(rng, T.rand_tree_depth(rng, 3), nrand))
    for i in range(plan[2]):
        kind = T.COLLISION_KINDS[i % 4]
        # every second round of the kinds the top level accepts is made there
        top_ok = kind in ("alias-is-earlier-name", "alias-is-alias") and (i // 4) % 2 == 1
        t = T.rand_tree_colliding(rng, maxdepth if tier != "quick" else (2 + (i // 4) % 2), kind, 1 if top_ok else 2, 1 if top_ok else 99)
        key = "colliding:" + kind
        shapes[key] = shapes.get(key, 0) + 1
        cases.extend(tree_cases(rng, t, nrand))
    nglob = {"quick": 2, "thorough": 12, "search": 1}[tier]
    shapes["with-a-global-argument"] = nglob
    for i in range(nglob):
        # a global argument (required / optional) in front of every command's own arguments
        t = T.rand_tree(rng, maxdepth, True)
        t["args"] = [G.arg("g0", G.A_OPT if i % 2 else G.A_REQ, None)]
        cases.extend(tree_cases(rng, t, nrand))
    for _ in range(plan[3]):
        # a top-level alias equal to a LATER top-level name: the configuration is rejected (CannotAddCommandException)
        cases.extend(tree_cases(rng, T.rand_tree(rng, 2, False), 20, kmax=2, outside=False))
    info["exhaustive"] = True
    info["distribution"] = {"trees": sum(plan) + nglob, "max_depth": 3, "tree_shapes": shapes, "cases": len(cases),
                            "exhaustive_line_length": 3}
    return cases


def wire(c):
    return [T.wire_app(c["tree"]), [S(t) for t in c["toks"]], [S(x) for x in EXTRA]]


def describe(c):
    def d(x, ind=0):
        flags = "".join(f for f, k in (("D", "default"), ("A", "anonymous"), ("h", "hidden"), ("L", "lenient")) if x[k]) + ("" if x["enabled"] else "X")
        s = "  " * ind + "%s%s%s opts=%s args=%s" % (x["name"], x["aliases"] or "", ("[" + flags + "]") if flags else "",
                                                   [o["long"] for o in x["opts"]], [a["name"] for a in x["args"]])
        return "\n".join([s] + [d(y, ind + 1) for y in x["subs"]])
    return "line=%r\n" % (c["toks"],) + "\n".join(d(x) for x in c["tree"]["cmds"])


def _app(t):
    """a new application for every case: the verdict is a function of the case, not of what the worker resolved before"""
    try:
        return (T.mk_app(t), None)
    except Exception as e:
        return (None, e)


def _resolve(app, toks):
    from clikit.args import ArgvArgs
    rc = app.resolve_command(ArgvArgs(["script"] + list(toks)))
    return rc


def _lead(toks):
    lead = []
    for tk in toks:
        if tk == "" or tk == "--" or tk.startswith("-"):
            break
        lead.append(tk)
    return lead


def _named(c):
    return c["enabled"] and not c["anonymous"]


def _spells(c):
    return [c["name"]] + list(c["aliases"])


def run_impl(c):
    app, e = _app(c["tree"])
    if app is None:
        return [[-3, exc_code(e)], None]
    from clikit.args import ArgvArgs
    toks = c["toks"]
    try:
        rc = _resolve(app, toks)
        path = rc.command.full_name.split(" ")
        out = [0, [[S(p) for p in path], G.observe_args(rc.command.args_format, rc.args, EXTRA)]]
    except Exception as ex:
        return [err(ex), {"msg": str(ex)}]
    # facts for the oracle: parsability of the default sub-commands of the parent of the selected command,
    # and the selection for metamorphic variants of the line
    def sel(tk):
        try:
            return _resolve(app, tk).command.full_name.split(" ")
        except Exception as ex:
            return ["!%d" % exc_code(ex)]
    facts = {}
    raw = ArgvArgs(["script"] + list(toks))
    node = rc.command.parent_command
    defaults = list(node.default_sub_commands) if node is not None else list(app.default_commands)
    pars = []
    for d in defaults:
        try:
            d.parse(raw)
            pars.append([d.name, 1])
        except Exception as ex:
            pars.append([d.name, 0 if type(ex).__name__ == "CannotParseArgsException" else 2])
    facts["defaults_of_parent"] = pars
    # tail variants: every token after the first "--" replaced by another one (same number of tokens); a longer tail
    if "--" in toks:
        i = toks.index("--")
        tail = toks[i + 1:]
        if tail:
            facts["tail_same_length"] = sel(toks[:i + 1] + [("server" if x != "server" else "zz") for x in tail])
        facts["tail_variant"] = sel(toks[:i + 1] + ["server", "-x", "zz"])
    lead = _lead(toks)
    # metamorphic variants: global flags inserted right after the named path; each path token
    # replaced by each other spelling (name / alias) of the same command
    k = 0
    cmds = c["tree"]["cmds"]
    nodes = []
    for tk in lead:
        nxt = [x for x in cmds if _named(x) and tk in _spells(x)]
        if not nxt:
            break
        k += 1
        nodes.append(nxt[0])
        cmds = nxt[0]["subs"]
    facts["named"] = k
    facts["with_option_after_path"] = sel(toks[:k] + ["-v", "-a"] + toks[k:])
    alts = []
    for i, n in enumerate(nodes):
        for sp in _spells(n):
            if sp != toks[i]:
                alts.append(sel(toks[:i] + [sp] + toks[i + 1:]))
    if k >= 2:
        alts.append(sel([(n["aliases"][0] if n["aliases"] else n["name"]) for n in nodes] + toks[k:]))
    facts["alias_variants"] = alts
    return [out, facts]


def canon_impl(c, o):
    return canon_floats(o[0])


def canon_model_w(c, w):
    return canon_floats_w(w)


def spec_path(tree, toks):
    """the property's reading, for trees with distinct sibling names: (named path, node) or None"""
    lead = _lead(toks)
    cmds = tree["cmds"]
    path, node = [], None
    for tk in lead:
        nxt = [c for c in cmds if _named(c) and tk in _spells(c)]
        if not nxt:
            break
        node = nxt[0]
        path.append(node["name"])
        cmds = node["subs"]
    return lead, path, node


_UNDEF = re.compile(r'^The command "(.*?)" is not defined\.', re.S)


def oracle(c, o):
    r, facts = o
    tree = c["tree"]
    if r[0] == -3:
        return None      # the configuration itself is invalid (both sides agree on the error; not a resolve question)
    lead, path, node = spec_path(tree, c["toks"])
    if lead and not path:
        # the first leading token is no name and no alias of a named top-level command: an undefined command, and the
        # report names THAT token (this clause does not need distinct sibling names)
        if r != [-1, 7]:
            return "undefined-command-not-reported"
        m = _UNDEF.match(facts["msg"])
        if not m or m.group(1) != lead[0]:
            return "undefined-command-report-names-another-token"
        return None
    if not T.siblings_distinct(tree["cmds"]):
        return None
    if r[0] == -1:
        if r[1] not in (1, 2, 3, 7):
            return "unexpected-exception:%d" % r[1]
        if r[1] == 7 and path:
            return "named-command-not-found"
        return None
    got = [unS(p) for p in r[1][0]]
    subs = (node["subs"] if node else tree["cmds"])
    defaults = [s for s in subs if s["enabled"] and s["default"]]
    if not defaults:
        if got != path or not path:
            return "wrong-command-selected"
    else:
        if got[:-1] != path or got[-1] not in [d["name"] for d in defaults]:
            return "wrong-command-selected"
        # first parsable default, else the first
        pars = facts["defaults_of_parent"]
        firstp = next((n for n, p in pars if p == 1), None)
        exp = firstp if firstp is not None else (pars[0][0] if pars else None)
        if exp is not None and got[-1] != exp:
            return "wrong-default-sub-command"
    k = facts["named"]
    v = facts["with_option_after_path"]
    if v != got:
        return "option-after-path-changes-selection"
    for av in facts["alias_variants"]:
        if av != got:
            return "alias-changes-selection"
    # tokens after "--" are never read as command names by the resolver: the named path stays, and resolution cannot
    # start to fail (code 7).  They are still arguments of the selected command (the parser may even take one that
    # spells the command's own name as the command name: "-- run" parses where "-- zz" has one argument too many), so a
    # parse error or another default sub-command are legitimate differences.
    for key in ("tail_same_length", "tail_variant"):
        if key in facts:
            tv = facts[key]
            if tv[0] == "!7" or (not tv[0].startswith("!") and tv[:len(path)] != got[:len(path)]):
                return "tail-after-double-dash-changes-path"
    return None


def nontrivial_key(c, o):
    r = o[0]
    if r[0] == 0 and len(r[1][0]) >= 1 and c["toks"]:
        import json
        return [json.dumps(c["tree"], sort_keys=True), c["toks"]]
    return None


def shrink(c):
    t = c["toks"]
    for i in range(len(t)):
        yield {"tree": c["tree"], "toks": t[:i] + t[i + 1:]}
