(* Generic driver: reads one S-expression of integers per line on stdin, applies the
   extracted model entry point selected by argv[1], prints one S-expression per line. *)
open Model

let rec pos_of_int (n : int) : positive =
  if n = 1 then XH
  else if n land 1 = 0 then XO (pos_of_int (n lsr 1))
  else XI (pos_of_int (n lsr 1))
let z_of_int (n : int) : z =
  if n = 0 then Z0 else if n > 0 then Zpos (pos_of_int n) else Zneg (pos_of_int (- n))
let rec int_of_pos (p : positive) : int =
  match p with XH -> 1 | XO q -> 2 * int_of_pos q | XI q -> 2 * int_of_pos q + 1
let int_of_z (x : z) : int =
  match x with Z0 -> 0 | Zpos p -> int_of_pos p | Zneg p -> - (int_of_pos p)

(* parser: tokens are "(", ")" and decimal integers separated by blanks *)
let parse_line (s : string) : sexp =
  let n = String.length s in
  let pos = ref 0 in
  let rec skip () = if !pos < n && (s.[!pos] = ' ' || s.[!pos] = '\t' || s.[!pos] = '\r') then (incr pos; skip ()) in
  let rec item () : sexp =
    skip ();
    if !pos >= n then failwith "unexpected end";
    if s.[!pos] = '(' then begin
      incr pos;
      let acc = ref [] in
      let fin = ref false in
      while not !fin do
        skip ();
        if !pos >= n then failwith "unclosed";
        if s.[!pos] = ')' then (incr pos; fin := true)
        else acc := item () :: !acc
      done;
      L (List.rev !acc)
    end else begin
      let st = !pos in
      if s.[!pos] = '-' then incr pos;
      while !pos < n && s.[!pos] >= '0' && s.[!pos] <= '9' do incr pos done;
      if !pos = st then failwith "bad token";
      let tok = String.sub s st (!pos - st) in
      if String.length tok <= 17 then A (z_of_int (int_of_string tok))
      else begin
        let neg = tok.[0] = '-' in
        let ds = ref [] in
        String.iteri (fun i c -> if not (i = 0 && neg) then ds := z_of_int (Char.code c - 48) :: !ds) tok;
        A (z_of_digits neg (List.rev !ds))
      end
    end in
  item ()

let rec print_sexp (b : Buffer.t) (x : sexp) : unit =
  match x with
  | A z ->
    let rec depth p = match p with XH -> 1 | XO q -> 1 + depth q | XI q -> 1 + depth q in
    let small = match z with Z0 -> true | Zpos p -> depth p <= 60 | Zneg p -> depth p <= 60 in
    if small then Buffer.add_string b (string_of_int (int_of_z z))
    else List.iter (fun c -> Buffer.add_char b (Char.chr (int_of_z (match c with N0 -> Z0 | Npos p -> Zpos p)))) (z_to_text z)
  | L l ->
    Buffer.add_char b '(';
    List.iteri (fun i y -> if i > 0 then Buffer.add_char b ' '; print_sexp b y) l;
    Buffer.add_char b ')'

(* C14: int(round((length / actual) * available)) as CPython computes it: IEEE double division and
   multiplication, then round-half-to-even (float.__round__).  The Coq model is parametric in this function. *)
let float_share (len : z) (actual : z) (avail : z) : z =
  let f x = float_of_int (int_of_z x) in
  let v = (f len /. f actual) *. f avail in
  let r = Float.round v in
  let r = if Float.abs (v -. r) = 0.5 then 2.0 *. Float.round (v /. 2.0) else r in
  z_of_int (int_of_float r)

let table : (string * (sexp -> sexp)) list = [
  ("C12", run_C12XN);
  ("C10", run_C10IO);
  ("C07", run_C07);
  ("C08", run_C08);
  ("C06", run_C06);
  ("C01", run_C01T);
  ("C02", run_C02);
  ("C05", run_C05);
  ("C03", run_C03);
  ("C04", run_C04);
  ("C09", run_C09);
  ("C15", run_C15);
  ("C16", run_C16);
  ("C18", run_C18T);
  ("C17", run_C17);
  ("C19", run_C19F);
  ("C11", run_C11IO);
  ("C13", run_C13G);
  ("C13P", run_C13);
  ("C14", run_C14 float_share);
  ("C20", run_C20);
]

let () =
  let name = Sys.argv.(1) in
  let f = try List.assoc name table with Not_found -> (prerr_endline ("unknown model " ^ name); exit 2) in
  let b = Buffer.create 65536 in
  (try
    while true do
      let line = input_line stdin in
      if String.length line > 0 then begin
        print_sexp b (f (parse_line line));
        Buffer.add_char b '\n';
        if Buffer.length b > 60000 then (print_string (Buffer.contents b); Buffer.clear b)
      end
    done
  with End_of_file -> ());
  print_string (Buffer.contents b)
