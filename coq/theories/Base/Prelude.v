(* Base definitions shared by all models: strings as code-point lists, results,
   Python-dict-like association lists, S-expressions (the wire format). *)
From Coq Require Export List NArith ZArith Bool.
Export ListNotations.

Definition str := list N.

Fixpoint str_eqb (a b : str) : bool :=
  match a, b with
  | [], [] => true
  | x :: a', y :: b' => N.eqb x y && str_eqb a' b'
  | _, _ => false
  end.

(* ---- S-expressions over integers: the only wire format ---- *)
Inductive sexp := A (z : Z) | L (l : list sexp).

Definition sN (n : N) : sexp := A (Z.of_N n).
Definition sB (b : bool) : sexp := A (if b then 1 else 0)%Z.
Definition sStr (s : str) : sexp := L (map sN s).
Definition sList {X} (f : X -> sexp) (l : list X) : sexp := L (map f l).
Definition sOpt {X} (f : X -> sexp) (o : option X) : sexp :=
  match o with None => L [] | Some x => L [f x] end.
Definition sBad : sexp := L [A (-999)%Z].

Definition dZ (s : sexp) : option Z := match s with A z => Some z | _ => None end.
Definition dN (s : sexp) : option N :=
  match s with A z => if (z <? 0)%Z then None else Some (Z.to_N z) | _ => None end.
Definition dB (s : sexp) : option bool :=
  match s with A 0%Z => Some false | A 1%Z => Some true | _ => None end.
Fixpoint dAll {X} (f : sexp -> option X) (l : list sexp) : option (list X) :=
  match l with
  | [] => Some []
  | x :: r => match f x, dAll f r with Some a, Some b => Some (a :: b) | _, _ => None end
  end.
Definition dList {X} (f : sexp -> option X) (s : sexp) : option (list X) :=
  match s with L l => dAll f l | _ => None end.
Definition dStr (s : sexp) : option str := dList dN s.
Definition dOpt {X} (f : sexp -> option X) (s : sexp) : option (option X) :=
  match s with
  | L [] => Some None
  | L [x] => match f x with Some a => Some (Some a) | None => None end
  | _ => None end.

(* ---- association lists with Python dict semantics (insertion ordered) ---- *)
Section Assoc.
  Context {K V : Type} (eqb : K -> K -> bool).
  Fixpoint aget (k : K) (d : list (K * V)) : option V :=
    match d with
    | [] => None
    | (k', v) :: r => if eqb k k' then Some v else aget k r
    end.
  Definition ahas (k : K) (d : list (K * V)) : bool :=
    match aget k d with Some _ => true | None => false end.
  (* d[k] = v : keeps the position of an existing key, else appends *)
  Fixpoint aset (k : K) (v : V) (d : list (K * V)) : list (K * V) :=
    match d with
    | [] => [(k, v)]
    | (k', v') :: r => if eqb k k' then (k', v) :: r else (k', v') :: aset k v r
    end.
  (* del d[k] (keys are unique in a dict; removing every occurrence keeps lemmas unconditional) *)
  Fixpoint adel (k : K) (d : list (K * V)) : list (K * V) :=
    match d with
    | [] => []
    | (k', v') :: r => if eqb k k' then adel k r else (k', v') :: adel k r
    end.
End Assoc.
