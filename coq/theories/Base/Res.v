(* Exceptions as values. *)
From Clikit Require Import Base.Prelude.

Inductive ekind :=
| ValueError | CannotParse | NoSuchOption | NoSuchArgument | CannotAddOption | CannotAddArgument
| CannotResolve | NoSuchCommand
| Other (tag : N).      (* TypeError / KeyError / IndexError / AttributeError ...: never intended *)

Inductive res (X : Type) := Ok (x : X) | Err (k : ekind).
Arguments Ok {X}. Arguments Err {X}.
Definition bind {X Y} (r : res X) (f : X -> res Y) : res Y :=
  match r with Ok a => f a | Err k => Err k end.
Notation "'do' x <- r ; k" := (bind r (fun x => k)) (at level 200, x name, r at level 100, k at level 200).
Notation "'check' b 'else' e ; k" := (if b then k else Err e) (at level 200, b at level 100, k at level 200).

Definition ekind_code (k : ekind) : Z :=
  match k with
  | ValueError => 1 | CannotParse => 2 | NoSuchOption => 3 | NoSuchArgument => 4
  | CannotAddOption => 5 | CannotAddArgument => 6 | CannotResolve => 7 | NoSuchCommand => 8
  | Other t => (100 + Z.of_N t)
  end%Z.
Definition sErr (k : ekind) : sexp := L [A (-1)%Z; A (ekind_code k)].
Definition sRes {X} (f : X -> sexp) (r : res X) : sexp :=
  match r with Ok x => L [A 0%Z; f x] | Err k => sErr k end.

(* ---- character classes ---- *)
(* str.isspace(): exactly these 29 code points in CPython 3.12 (re-checked over 0..0x10FFFF by the C08 harness) *)
Definition is_space (c : N) : bool :=
  existsb (N.eqb c) [9;10;11;12;13;28;29;30;31;32;133;160;5760;8192;8193;8194;8195;8196;8197;8198;
                     8199;8200;8201;8202;8232;8233;8239;8287;12288]%N.
Arguments is_space : simpl never.
Definition is_upper (c : N) : bool := (65 <=? c)%N && (c <=? 90)%N.
Definition is_lower (c : N) : bool := (97 <=? c)%N && (c <=? 122)%N.
Definition is_ascii_alpha (c : N) : bool := is_upper c || is_lower c.
Definition is_digit (c : N) : bool := (48 <=? c)%N && (c <=? 57)%N.
Definition DASH : N := 45.
(* [a-zA-Z0-9-] *)
Definition name_char (c : N) : bool := is_ascii_alpha c || is_digit c || N.eqb c DASH.
Definition lower_char (c : N) : N := if is_upper c then (c + 32)%N else c.
