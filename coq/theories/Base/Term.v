(* A character-level terminal of width w (w >= 1), infinite height: rows of cells, a cursor, deferred
   auto-wrap, LF = next row column 0, CR, cursor up, erase below; a colour/attribute sequence (SGR, ESC [ params m)
   occupies no cell and moves nothing.  Used by C15 / C16 / C19. *)
From Clikit Require Import Base.Prelude.

Notation row := (list N) (only parsing).
Record term := { rows : list row; cr : nat; cc : nat }.
Definition BLANK : N := 32.
Definition term_init : term := {| rows := [[]]; cr := 0; cc := 0 |}.

Fixpoint put_cell (r : row) (c : nat) (ch : N) : row :=
  match c, r with
  | O, [] => [ch]
  | O, _ :: t => ch :: t
  | S c', [] => BLANK :: put_cell [] c' ch
  | S c', x :: t => x :: put_cell t c' ch
  end.
Fixpoint upd_row (rs : list row) (i : nat) (f : row -> row) : list row :=
  match i, rs with
  | O, [] => [f []]
  | O, r :: t => f r :: t
  | S i', [] => [] :: upd_row [] i' f
  | S i', r :: t => r :: upd_row t i' f
  end.

Inductive emit := Ch (c : N) | Nl | Cr | Up (n : nat) | EraseBelow | EraseLine | Sgr (params : list N).

Definition feed1 (w : nat) (t : term) (e : emit) : term :=
  match e with
  | Ch c =>
      let '(r, k) := if Nat.eqb (cc t) w then (S (cr t), 0) else (cr t, cc t) in
      {| rows := upd_row (rows t) r (fun x => put_cell x k c); cr := r; cc := S k |}
  | Nl => {| rows := upd_row (rows t) (S (cr t)) (fun x => x); cr := S (cr t); cc := 0 |}
  | Cr => {| rows := rows t; cr := cr t; cc := 0 |}
  | Up n => {| rows := rows t; cr := cr t - n; cc := cc t |}
  | EraseBelow =>
      {| rows := firstn (cr t) (rows t) ++ [firstn (cc t) (nth (cr t) (rows t) [])]; cr := cr t; cc := cc t |}
  | EraseLine =>   (* ESC[2K: the whole current row *)
      {| rows := upd_row (rows t) (cr t) (fun _ => []); cr := cr t; cc := cc t |}
  | Sgr _ => t     (* ESC [ params m: the look of the cells written next, no cell and no cursor movement *)
  end.
Definition feed (w : nat) (t : term) (es : list emit) : term := fold_left (feed1 w) es t.

(* rows produced by writing s starting in a current row cur *)
Fixpoint fill (w : nat) (cur : row) (s : list N) : list row :=
  match s with
  | [] => [cur]
  | c :: s' => if Nat.eqb (length cur) w then cur :: fill w [c] s' else fill w (cur ++ [c]) s'
  end.

(* text -> emits: LF becomes Nl, everything else a cell *)
Definition LF : N := 10.
Definition emits_of_text (s : str) : list emit := map (fun c => if N.eqb c LF then Nl else Ch c) s.

Definition enc_emit (e : emit) : sexp :=
  match e with
  | Ch c => L [A 0%Z; sN c] | Nl => L [A 1%Z] | Cr => L [A 2%Z] | Up n => L [A 3%Z; A (Z.of_nat n)]
  | EraseBelow => L [A 4%Z] | EraseLine => L [A 5%Z]
  | Sgr p => L [A 9%Z; sStr ((27 :: 91 :: p) ++ [109])%N]     (* the whole sequence, as harness/termemu.py reports it *)
  end.
Definition enc_term (t : term) : sexp :=
  L [sList sStr (rows t); A (Z.of_nat (cr t)); A (Z.of_nat (cc t))].
