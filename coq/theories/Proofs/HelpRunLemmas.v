(* C13 at RUN level: "help <path>", "<path> --help" and "<path> -h" make the run do the same thing (Model/Switches.v
   run_summary): print the same command page, or fail alike.

   HelpSamePageLemmas.help_same_target equates the help TARGETS.  What a run does with the line is more: the built-in
   help command is reached in two different ways -
     "help <path>"    : no help switch among the tokens; the resolver walks to the command "help" and parses the whole line
                        with the help command's format, under the command's own leniency; HelpTextHandler then asks
                        whether the argument "command" is set;
     "<path> --help"  : the PRE_RESOLVE listener sees the switch and parses the line LENIENTLY with the help command's
                        format; the first token lands on the pseudo-argument of the command name "help", is not that name,
                        and _insert_missing_command_names moves the whole path to "command".
   Both parses are instances of C01's parse_spells (the line spells an assignment), which gives the parsed values in
   closed form: no option but the switch is set (so the version switch does not fire), and "command" is set because the
   path is not empty.  From there both runs show the page of the help target.

   The configuration: what DefaultApplicationConfig.configure() sets up - the global help option, no global argument,
   and the command "help" (not anonymous, no alias, no sub-command) with the single argument "command", multi-valued,
   optional, a string. *)
From Coq Require Import Lia.
From Clikit Require Import Base.Prelude Base.Res Model.Conv Model.Flags Model.Format Model.Parser Model.Spell
     Model.Resolver Model.Tokenizer Model.Switches
     Proofs.StrLemmas Proofs.FormatLemmas Proofs.ParserLemmas Proofs.SpellOpts Proofs.FmtOkLemmas
     Proofs.ResolverLemmas Proofs.SwitchesLemmas Proofs.HelpTargetLemmas Proofs.HelpSamePageLemmas.

(* ================= tokens ================= *)
Lemma option_tokens_plain l s : forallb lead_ok l = true -> option_tokens (l ++ s) = l ++ option_tokens s.
Proof.
  induction l as [|t r IH]; intros H; [reflexivity|]. cbn [forallb] in H. apply andb_prop in H as [Ht Hr].
  cbn [app option_tokens]. unfold lead_ok in Ht. change (is_ddash t) with (is_dd t).
  destruct (is_dd t); [now rewrite andb_false_r in Ht|]. now rewrite IH.
Qed.
Lemma has_token_plain sw l : starts_dash sw = true -> forallb lead_ok l = true -> has_token sw l = false.
Proof.
  intros Hs. induction l as [|t r IH]; intros H; [reflexivity|]. cbn [forallb] in H. apply andb_prop in H as [Ht Hr].
  unfold has_token in *. cbn [existsb]. rewrite (IH Hr), orb_false_r.
  destruct (str_eqb_spec sw t) as [<-|]; [|reflexivity]. unfold lead_ok in Ht. rewrite Hs in Ht. now rewrite andb_false_r in Ht.
Qed.
Lemma wants_help_plain l : forallb lead_ok l = true -> wants_help l = false.
Proof. intros H. unfold wants_help. now rewrite !has_token_plain. Qed.
Lemma wants_version_plain l : forallb lead_ok l = true -> wants_version l = false.
Proof. intros H. unfold wants_version. now rewrite !has_token_plain. Qed.

(* ================= a format finds an option only under the option's own names ================= *)
(* the short index holds listed options under their short names (build_format rebuilds it that way), at every level *)
Fixpoint short_sound (f : fmt) : Prop :=
  match f with Fmt b _ _ _ _ os oss _ _ =>
    (forall s o, sget s oss = Some o -> o_short o = Some s /\ exists k, In (k, o) os) /\
    match b with None => True | Some bf => short_sound bf end end.

Lemma reindex_sound s o : forall os acc, sget s (reindex os acc) = Some o ->
  (o_short o = Some s /\ exists k, In (k, o) os) \/ sget s acc = Some o.
Proof.
  unfold reindex. induction os as [|[k o2] r IH]; intros acc H; cbn [fold_left snd] in H; [now right|].
  apply IH in H as [[H1 [k' H2]]|H]; [left; split; [exact H1|exists k'; now right]|].
  destruct (o_short o2) as [s2|] eqn:E2; [|now right].
  unfold sget, sset in H. rewrite sget_sset in H. destruct (str_eqb_spec s s2) as [->|]; [|now right].
  inversion H; subst. left. split; [exact E2|exists k; now left].
Qed.

Lemma add_elements_base es : forall f f', add_elements f es = Ok f' -> f_base f' = f_base f.
Proof.
  intros f f'. apply (add_elements_inv (fun x => f_base x = f_base f)); [|reflexivity].
  intros g e g' Hg He. destruct e as [o1|c|a|c];
    try (apply add_other_inv in He as (_ & _ & ->); [exact Hg|discriminate]).
  apply add_option_inv in He as (_ & _ & _ & _ & ->). exact Hg.
Qed.

Lemma format_of_elements_short_sound es base f :
  match base with Some bf => short_sound bf | None => True end ->
  format_of_elements es base = Ok f -> short_sound f.
Proof.
  intros Hb. unfold format_of_elements.
  destruct (add_elements (empty_builder base) es) as [b|k] eqn:E; cbn [bind]; [|discriminate].
  intros H. inversion H; subst f. clear H. pose proof (add_elements_base _ _ _ E) as Hbase. cbn in Hbase.
  pose proof (build_format_short b) as Hs. destruct (build_format_same b) as (Hb0 & _ & _ & Ho & _).
  destruct (build_format b) as [b0 cn co cs ar os oss hm ho]. cbn [f_base f_opts f_opts_short] in *.
  subst b0 os oss. rewrite Hbase. cbn [short_sound]. split; [|exact Hb].
  intros s o H. apply reindex_sound in H as [H|H]; [exact H|discriminate].
Qed.

(* an option found under a name n has that name (long or short), and is found under its long name as well *)
Lemma get_option_named f : opts_inv f -> short_sound f -> forall n o,
  get_option_all f n = Ok o ->
  In n (onames o) /\ has_option_all f (o_long o) = true /\ get_option_all f (o_long o) = Ok o.
Proof.
  induction f as [cn co cs ar os oss hm ho|bf cn co cs ar os oss hm ho IH] using fmt_ind'; intros Hi Hs n o.
  - destruct Hi as (Hk & Hnd & _). destruct Hs as [Hs _]. cbn [get_option_all has_option_all].
    assert (forall k o', In (k, o') os -> k = o_long o' /\ sget (o_long o') os = Some o') as Hlist.
    { intros k o' Hin. pose proof (proj1 (Forall_forall _ _) Hk _ Hin) as E. unfold okeyed in E. cbn [fst snd] in E.
      split; [exact E|]. subst k. now apply nodup_in_sget. }
    destruct (sget n os) as [o1|] eqn:E1.
    + intros H. inversion H; subst o1. apply sget_in in E1. destruct (Hlist _ _ E1) as [-> E2].
      rewrite !shas_sget, E2. repeat split. apply in_onames. now left.
    + destruct (sget n oss) as [o1|] eqn:E2; [|discriminate].
      intros H. inversion H; subst o1. destruct (Hs _ _ E2) as [Hsh [k Hin]]. destruct (Hlist _ _ Hin) as [-> E3].
      rewrite !shas_sget, E3. repeat split. apply in_onames. now right.
  - destruct Hi as (Hk & Hnd & _ & _ & Hb & Hfr). destruct Hs as [Hs Hsb]. cbn [get_option_all has_option_all].
    assert (forall k o', In (k, o') os -> k = o_long o' /\ sget (o_long o') os = Some o') as Hlist.
    { intros k o' Hin. pose proof (proj1 (Forall_forall _ _) Hk _ Hin) as E. unfold okeyed in E. cbn [fst snd] in E.
      split; [exact E|]. subst k. now apply nodup_in_sget. }
    destruct (sget n os) as [o1|] eqn:E1.
    + intros H. inversion H; subst o1. apply sget_in in E1. destruct (Hlist _ _ E1) as [-> E2].
      rewrite !shas_sget, E2. repeat split. apply in_onames. now left.
    + destruct (sget n oss) as [o1|] eqn:E2.
      * intros H. inversion H; subst o1. destruct (Hs _ _ E2) as [Hsh [k Hin]]. destruct (Hlist _ _ Hin) as [-> E3].
        rewrite !shas_sget, E3. repeat split. apply in_onames. now right.
      * intros H. destruct (IH Hb Hsb n o H) as (I1 & I2 & I3). split; [exact I1|].
        (* no option listed at this level bears a name the base knows *)
        assert (sget (o_long o) os = None) as N1.
        { destruct (sget (o_long o) os) as [o2|] eqn:E; [|reflexivity]. apply sget_in in E.
          destruct (Hlist _ _ E) as [E' _]. rewrite (Hfr _ o2 (o_long o) E) in I2; [discriminate|].
          apply in_onames. now left. }
        assert (sget (o_long o) oss = None) as N2.
        { destruct (sget (o_long o) oss) as [o2|] eqn:E; [|reflexivity].
          destruct (Hs _ _ E) as [Hsh [k Hin]]. rewrite (Hfr _ o2 (o_long o) Hin) in I2; [discriminate|].
          apply in_onames. now right. }
        rewrite !shas_sget, N1, N2, I2, I3. repeat split.
Qed.

(* ================= the value of the parse of <plain tokens> <switch> ================= *)
(* over plain tokens the token loop stops only on a refused argument in strict mode (or on an error that is never ignored) *)
Definition hard_error (len : bool) (k : ekind) : Prop :=
  (k = CannotParse /\ len = false) \/ (k <> CannotParse /\ k <> NoSuchOption).
Lemma get_argument_err F r k : get_argument F r true = Err k -> k <> CannotParse /\ k <> NoSuchOption.
Proof.
  unfold get_argument. destruct r as [n|i].
  - destruct (sget n _); intros H; inversion H; split; discriminate.
  - destruct (_ <=? i)%Z; [intros H; inversion H; split; discriminate|].
    destruct (i <? 0)%Z; [intros H; inversion H; split; discriminate|].
    destruct (nth_error _ _) as [[? ?]|]; intros H; inversion H; split; discriminate.
Qed.
Lemma parse_argument_err F len st t k : parse_argument F len st t = Err k -> hard_error len k.
Proof.
  unfold parse_argument, hard_error. destruct (has_argument F (APos (Z.of_nat (length (ps_args st)))) true).
  - destruct (get_argument F _ true) as [a|k0] eqn:E; cbn [bind].
    + destruct (a_multi a); discriminate.
    + intros H. inversion H; subst. right. eapply get_argument_err; eauto.
  - destruct (has_argument F (APos (Z.of_nat (length (ps_args st)) - 1)) true).
    + destruct (get_argument F _ true) as [a|k0] eqn:E; cbn [bind].
      * destruct (a_multi a); [discriminate|]. destruct len; [discriminate|]. intros H. inversion H. now left.
      * intros H. inversion H; subst. right. eapply get_argument_err; eauto.
    + destruct len; [discriminate|]. intros H. inversion H. now left.
Qed.
Lemma loop_plain_err F len : forall path fuel st k, forallb lead_ok path = true -> length path < fuel ->
  snd (loop fuel F len true st path) = Some k -> hard_error len k.
Proof.
  induction path as [|t r IH]; intros fuel st k Hl Hf.
  - destruct fuel as [|m]; [cbn in Hf; lia|]. cbn. discriminate.
  - destruct fuel as [|m]; [cbn in Hf; lia|]. cbn [length] in Hf. cbn [forallb] in Hl.
    apply andb_prop in Hl as [Ht Hr]. rewrite (lead_ok_step _ _ _ _ _ _ Ht).
    destruct (parse_argument F len st t) as [st'|k0] eqn:Ep.
    + apply IH; [exact Hr|lia].
    + cbn [snd]. intros H. inversion H; subst. eapply parse_argument_err; eauto.
Qed.

(* HelpSamePageLemmas.parse_switch says "same success, same error"; here the value: the arguments of the parse without
   the switch, and the switch as the one more option set *)
Lemma parse_switch_value f o sw len path x :
  carries o f -> no_value o -> help_switch_of o sw -> forallb lead_ok path = true ->
  parse f len path = Ok x -> ar_opts x = [] ->
  parse f len (path ++ [sw]) = Ok {| ar_opts := [(S_help, VBool true)]; ar_args := ar_args x |}.
Proof.
  intros Hc Hnv [Hlong Hsw] Hl. unfold parse, parse_on.
  destruct (aug_format f) as [[[F ars] cns]|k] eqn:Ea; [|cbn; discriminate].
  destruct (aug_knows f o F ars cns Hc Ea) as (A1 & A2 & A3). rewrite Hlong in A1, A2.
  assert (sw = T_help \/ (sw = T_h /\ has_option_all F [104%N] = true /\ get_option_all F [104%N] = Ok o)) as Hsw'.
  { destruct Hsw as [->|[-> Hs]]; [now left|right]. destruct (A3 _ Hs). auto. }
  destruct (loop_suffix F o Hlong Hnv A1 A2 sw Hsw' len path (S (length path)) ps_empty Hl ltac:(lia)) as [L1 L2].
  pose proof (loop_plain_err F len path (S (length path)) ps_empty) as Herr.
  replace (S (length (path ++ [sw]))) with (S (S (length path))) by (rewrite app_length; cbn; lia).
  destruct (loop (S (length path)) F len true ps_empty path) as [st1 e]. cbn [fst snd] in L1, L2, Herr.
  destruct e as [k|].
  - destruct (Herr k Hl ltac:(lia) eq_refl) as [[-> ->]|[N1 N2]]; [cbn; discriminate|].
    destruct k; try (cbn; discriminate); congruence.
  - destruct L2 as [v ->]. cbn [ps_opts ps_empty]. cbv iota.
    rewrite (insert_missing_swap ars cns len st1).
    pose proof (insert_missing_spec ars cns len st1) as Hi.
    destruct (insert_missing ars cns len st1) as [st2|k]; [|cbn; discriminate].
    unfold missing_required. cbn [ps_args].
    destruct (existsb _ ars && negb len); [cbn; discriminate|]. cbn [snd ps_args ps_opts].
    rewrite Hi, L1. cbn [ps_opts ps_empty].
    destruct (set_arguments f {| ar_opts := []; ar_args := [] |} (ps_args st2)) as [a1|k]; cbn [bind]; [|discriminate].
    cbn [set_options]. intros H Ho. inversion H; subst x.
    destruct Hc as (C1 & C2 & _). rewrite Hlong in C1, C2. destruct Hnv as (Ha & _ & Hm).
    change (sset S_help v []) with [(S_help, v)]. cbn [set_options has_option]. rewrite C1.
    unfold set_option. cbn [get_option]. rewrite C2. cbn [bind]. rewrite Hm, Ha. cbn [bind].
    rewrite Hlong, Ho. reflexivity.
Qed.

(* ================= the format of the built-in help command ================= *)
Definition COMMAND : str := [99;111;109;109;97;110;100]%N.   (* command *)
(* add_argument("command", Argument.OPTIONAL | Argument.MULTI_VALUED): multi-valued, optional, a string *)
Definition is_command_arg (a : arg) : bool :=
  str_eqb (a_name a) COMMAND && a_multi a && negb (a_required a) && a_optional a &&
  match a_type a with TStr => true | _ => false end.
Definition help_cname : cname := {| cn_name := S_help; cn_aliases := [] |}.

Lemma add_elements_app l1 : forall f l2,
  add_elements f (l1 ++ l2) = (do f1 <- add_elements f l1; add_elements f1 l2).
Proof.
  induction l1 as [|e r IH]; intros f l2; [reflexivity|]. cbn [app]. rewrite !add_elements_cons.
  destruct (add_elem f e); cbn [bind]; [apply IH|reflexivity].
Qed.
Lemma add_opts_same os : forall f f', add_elements f (map EOpt os) = Ok f' ->
  f_args f' = f_args f /\ f_cnames f' = f_cnames f /\ f_base f' = f_base f.
Proof.
  induction os as [|o r IH]; intros f f' H; [cbn in H; inversion H; auto|].
  cbn [map] in H. rewrite add_elements_cons in H. destruct (add_elem f (EOpt o)) as [f1|k] eqn:E; cbn [bind] in H; [|discriminate].
  destruct (IH _ _ H) as (-> & -> & ->). cbn [add_elem] in E. unfold add_option in E.
  destruct (opt_name_taken f (o_long o)); [discriminate|]. destruct (optname_taken f (o_short o)); [discriminate|].
  destruct f. inversion E; subst. cbn. auto.
Qed.

Lemma opts_valid os : forallb element_valid (map EOpt os) = true.
Proof. induction os; [reflexivity|exact IHos]. Qed.

Section HelpFormat.
  Variables (gopts opts : list opt) (a : arg) (g f : fmt).
  Hypothesis Hg : format_of_elements (map EArg [] ++ map EOpt gopts) None = Ok g.
  Hypothesis Hf : format_of_elements (cmd_elements S_help [] false opts [a]) (Some g) = Ok f.
  Hypothesis Ha : is_command_arg a = true.

  Lemma command_arg_spec : a_name a = COMMAND /\ a_multi a = true /\ a_required a = false /\ a_optional a = true /\ a_type a = TStr.
  Proof.
    unfold is_command_arg in Ha. apply andb_prop in Ha as [H H5]. apply andb_prop in H as [H H4].
    apply andb_prop in H as [H H3]. apply andb_prop in H as [H1 H2].
    destruct (str_eqb_spec (a_name a) COMMAND); [|discriminate]. destruct (a_required a); [discriminate|].
    destruct (a_type a); try discriminate. auto.
  Qed.

  Lemma global_inv : fmt_inv g /\ short_sound g.
  Proof.
    split.
    - apply (format_of_elements_fmt_ok_lemma _ None g I) in Hg; [apply Hg|].
      cbn [map app]. apply opts_valid.
    - eapply format_of_elements_short_sound; [|exact Hg]. exact I.
  Qed.
  Lemma global_shape : get_arguments_all g = [] /\ get_command_names_all g = [].
  Proof.
    revert Hg. unfold format_of_elements. cbn [map app].
    destruct (add_elements (empty_builder None) (map EOpt gopts)) as [b|k] eqn:E; cbn [bind]; [|discriminate].
    intros H. inversion H; subst g. clear H. destruct (add_opts_same _ _ _ E) as (H1 & H2 & H3). cbn in H1, H2, H3.
    destruct (build_format_same b) as (B1 & B2 & B3 & _). destruct (build_format b) as [b0 cn co cs ar os oss hm ho].
    cbn [f_base f_cnames f_args] in *. subst. rewrite H3. cbn. rewrite H1, H2. auto.
  Qed.
  Lemma help_inv : fmt_inv f /\ short_sound f.
  Proof.
    destruct global_inv as [G1 G2]. destruct command_arg_spec as (_ & _ & A3 & A4 & _). split.
    - apply (format_of_elements_fmt_ok_lemma _ (Some g) f G1) in Hf; [apply Hf|].
      unfold cmd_elements. cbn [app map forallb element_valid]. rewrite forallb_app. cbn [forallb element_valid].
      unfold arg_valid. rewrite A3, A4. cbn. rewrite andb_true_r. apply opts_valid.
    - eapply format_of_elements_short_sound; [|exact Hf]. exact G2.
  Qed.
  Lemma help_shape : get_arguments_all f = [(a_name a, a)] /\ get_command_names_all f = [help_cname].
  Proof.
    destruct global_shape as [G1 G2]. revert Hf. unfold format_of_elements, cmd_elements. cbn [app map].
    rewrite add_elements_cons. cbn [add_elem add_command_name empty_builder bind]. rewrite add_elements_app.
    match goal with |- context [add_elements ?b0 (map EOpt opts)] =>
      destruct (add_elements b0 (map EOpt opts)) as [b1|k] eqn:E1; cbn [bind]; [|discriminate] end.
    destruct (add_opts_same _ _ _ E1) as (H1 & H2 & H3). cbn in H1, H2, H3.
    rewrite add_elements_cons. cbn [add_elem add_elements].
    destruct (add_argument b1 a) as [b2|k] eqn:E2; cbn [bind]; [|discriminate].
    intros H. inversion H; subst f. clear H.
    unfold add_argument in E2.
    repeat match type of E2 with (if ?c then _ else _) = _ => destruct c; [discriminate|] end.
    destruct b1 as [bb cn co cs ar os oss hm ho]. cbn [f_args f_cnames f_base] in H1, H2, H3. subst.
    inversion E2; subst b2. clear E2. unfold build_format. destruct (index_copts (map snd co)) as [co' cs'].
    cbn [get_arguments_all get_command_names_all]. rewrite G1, G2. split; reflexivity.
  Qed.
End HelpFormat.

(* ================= the two parses with the help command's format, by parse_spells ================= *)
Lemma pos_render path : flat_map render_item (map IPos path) = path.
Proof. induction path as [|t r IH]; [reflexivity|]. cbn [map flat_map render_item app]. now rewrite IH. Qed.
Lemma pos_values path : flat_map item_pos (map IPos path) = path.
Proof. induction path as [|t r IH]; [reflexivity|]. cbn [map flat_map item_pos app]. now rewrite IH. Qed.
Lemma pos_events path : flat_map item_events (map IPos path) = [].
Proof. induction path as [|t r IH]; [reflexivity|]. cbn [map flat_map item_events app]. exact IH. Qed.
Lemma pos_items_ok f F path : forallb lead_ok path = true -> items_ok f F (map IPos path) = true.
Proof.
  induction path as [|t r IH]; intros H; [reflexivity|]. cbn [forallb] in H. apply andb_prop in H as [Ht Hr].
  cbn [map items_ok item_ok looks_ahead]. rewrite (IH Hr). unfold lead_ok in Ht. unfold pos_tok.
  destruct (starts_dash t); [now rewrite andb_false_r in Ht|reflexivity].
Qed.
Lemma string_text_ok nl s : res_ok (parse_typed TStr nl (VStr s)) = true.
Proof. unfold parse_typed, parse_string. destruct (nl && is_null (VStr s)); reflexivity. Qed.

Definition plain_line (names path : list str) : ld := {| ld_names := names; ld_items := map IPos path; ld_tail := None |}.
Lemma plain_line_render names path : render (plain_line names path) = names ++ path.
Proof. unfold render, plain_line. cbn [ld_names ld_items ld_tail render_tail]. now rewrite pos_render, app_nil_r. Qed.

Section HelpParse.
  Variables (f : fmt) (a : arg).
  Hypothesis Hinv : fmt_inv f.
  Hypothesis Hargs : get_arguments_all f = [(a_name a, a)].
  Hypothesis Hcns : get_command_names_all f = [help_cname].
  Hypothesis Hmulti : a_multi a = true.
  Hypothesis Htype : a_type a = TStr.

  Lemma aug_shape : exists F ars n, aug_format f = Ok (F, ars, [(n, help_cname)]).
  Proof.
    pose proof (wf_implies_fmt_ok_lemma f Hinv) as Hok. unfold fmt_ok in Hok.
    destruct (aug_format f) as [[[F ars] cns]|k] eqn:E; [|discriminate]. clear Hok.
    unfold aug_format in E. rewrite Hcns in E. cbv zeta in E. cbn [pseudo_args map fst snd] in E.
    match type of E with (do f' <- ?x; _) = _ => destruct x as [F'|k]; cbn [bind] in E; [|discriminate] end.
    inversion E; subst. eauto.
  Qed.

  Variable path : list str.
  Hypothesis Hplain : forallb lead_ok path = true.
  Hypothesis Hne : path <> [].

  Lemma fits_path : fits (get_arguments_all f) path = true /\ req_ok (get_arguments_all f) path = true.
  Proof.
    rewrite Hargs. destruct path as [|t r]; [congruence|]. cbn [fits req_ok]. rewrite Hmulti, Htype. split; [|reflexivity].
    cbn [andb]. apply forallb_forall. intros s _. apply string_text_ok.
  Qed.

  (* "help <path>": the name spelled, the path as values *)
  Lemma wf_help_line : wf_line f (plain_line [S_help] path) = true.
  Proof.
    destruct aug_shape as (F & ars & n & E). destruct fits_path as [F1 F2]. unfold wf_line. rewrite E.
    unfold plain_line, values. cbn [ld_names ld_items ld_tail]. rewrite pos_values, app_nil_r, F1, F2, (pos_items_ok _ _ _ Hplain).
    reflexivity.
  Qed.
  (* "<path>": the name omitted; the first value is not the name *)
  Lemma wf_path_line : (match path with t :: _ => str_eqb t S_help = false | [] => True end) ->
    wf_line f (plain_line [] path) = true.
  Proof.
    intros Hh. destruct aug_shape as (F & ars & n & E). destruct fits_path as [F1 F2]. unfold wf_line. rewrite E.
    unfold plain_line, values. cbn [ld_names ld_items ld_tail]. rewrite pos_values, app_nil_r, F1, F2, (pos_items_ok _ _ _ Hplain).
    destruct path as [|t r]; [congruence|]. cbn [names_ok no_clash length skipn snd andb]. unfold cname_match, help_cname.
    cbn [cn_name cn_aliases existsb]. rewrite str_eqb_sym, Hh. now rewrite andb_false_r.
  Qed.

  Definition help_args : list (str * pyval) := place_typed (get_arguments_all f) path.
  Lemma help_args_set : shas (a_name a) help_args = true.
  Proof.
    unfold help_args. rewrite Hargs. destruct path as [|t r]; [congruence|]. cbn [place_typed]. rewrite Hmulti.
    unfold shas, ahas. cbn [aget]. now rewrite str_eqb_refl.
  Qed.

  Lemma parse_help_line len : parse f len (S_help :: path) = Ok {| ar_opts := []; ar_args := help_args |}.
  Proof.
    change (S_help :: path) with ([S_help] ++ path). rewrite <- plain_line_render.
    rewrite (parse_spells_inv_lemma f _ Hinv wf_help_line len). unfold denote, events, values, plain_line.
    cbn [ld_names ld_items ld_tail]. now rewrite pos_events, pos_values, app_nil_r.
  Qed.
  Lemma parse_path_line len : (match path with t :: _ => str_eqb t S_help = false | [] => True end) ->
    parse f len path = Ok {| ar_opts := []; ar_args := help_args |}.
  Proof.
    intros Hh. change path with ([] ++ path) at 1. rewrite <- plain_line_render.
    rewrite (parse_spells_inv_lemma f _ Hinv (wf_path_line Hh) len). unfold denote, events, values, plain_line.
    cbn [ld_names ld_items ld_tail]. now rewrite pos_events, pos_values, app_nil_r.
  Qed.
End HelpParse.

(* ================= finding the help command in the built application ================= *)
Lemma cc_cmds_fold l : forall c,
  cc_cmds (fold_left coll_add l c) = fold_left (fun d b => sset (b_name b) b d) l (cc_cmds c).
Proof. induction l as [|b r IH]; intros c; [reflexivity|]. cbn [fold_left]. now rewrite IH. Qed.
Lemma fold_sset_other n : forall (l : list bcmd) d, ~ In n (map b_name l) ->
  sget n (fold_left (fun d b => sset (b_name b) b d) l d) = sget n d.
Proof.
  induction l as [|b r IH]; intros d Hn; [reflexivity|]. cbn [fold_left]. rewrite IH by (intros H; apply Hn; now right).
  unfold sget, sset. rewrite sget_sset. destruct (str_eqb_spec n (b_name b)) as [->|]; [|reflexivity].
  exfalso. apply Hn. now left.
Qed.
Lemma fold_sset_found b : forall (l : list bcmd) d, NoDup (map b_name l) -> In b l ->
  sget (b_name b) (fold_left (fun d b => sset (b_name b) b d) l d) = Some b.
Proof.
  induction l as [|x r IH]; intros d Hnd Hin; [destruct Hin|]. cbn [map] in Hnd. inversion Hnd as [|? ? Hx Hr]; subst.
  cbn [fold_left]. destruct Hin as [->|Hin]; [|now apply IH].
  rewrite fold_sset_other by exact Hx. unfold sget, sset. now rewrite sget_sset, str_eqb_refl.
Qed.
Lemma coll_of_found l b : NoDup (map b_name l) -> In b l ->
  coll_contains (coll_of l) (b_name b) = true /\ coll_get (coll_of l) (b_name b) = Ok b.
Proof.
  intros Hnd Hin. unfold coll_contains, coll_get, coll_of. rewrite shas_sget, cc_cmds_fold.
  now rewrite (fold_sset_found b l _ Hnd Hin).
Qed.
Lemma nodup_names_filter p : forall l : list bcmd, NoDup (map b_name l) -> NoDup (map b_name (filter p l)).
Proof.
  induction l as [|x r IH]; intros H; [constructor|]. cbn [map] in H. inversion H as [|? ? Hx Hr]; subst. cbn [filter].
  destruct (p x); [|now apply IH]. cbn [map]. constructor; [|now apply IH].
  intros Hin. apply Hx. apply in_map_iff in Hin as [y [Ey Hy]]. apply filter_In in Hy as [Hy _].
  apply in_map_iff. eauto.
Qed.

Lemma build_cmd_name base c b : build_cmd base c = Ok b -> b_name b = (let '(Cmd n _ _ _ _ _ _ _ _) := c in n).
Proof.
  destruct c as [name al d an en len opts args subs]. rewrite build_cmd_eq.
  destruct (format_of_elements _ base); cbn [bind]; [|discriminate]. destruct (build_subs_of _ subs); cbn [bind]; [|discriminate].
  intros H. inversion H. reflexivity.
Qed.
(* add_command refuses a name already there: the built commands have distinct names *)
Lemma build_cmds_nodup g : forall l seen cs, build_cmds g seen l = Ok cs ->
  NoDup (map b_name cs) /\ forall b, In b cs -> ~ In (b_name b) seen.
Proof.
  induction l as [|c r IH]; intros seen cs; [cbn; intros H; inversion H; split; [constructor|intros ? []]|].
  destruct c as [name al d an en len opts args subs]. cbn [build_cmds].
  destruct (negb en); [apply IH|]. destruct name as [|ch name]; [discriminate|]. cbn [negb].
  destruct (existsb (str_eqb (ch :: name)) seen) eqn:Es; [discriminate|].
  destruct (build_cmd (Some g) _) as [b|k] eqn:E1; cbn [bind]; [|discriminate].
  destruct (build_cmds g _ r) as [bs|k] eqn:E2; cbn [bind]; [|discriminate].
  intros H. inversion H; subst cs. clear H. apply build_cmd_name in E1. destruct (IH _ _ E2) as [I1 I2]. split.
  - cbn [map]. constructor; [|exact I1]. intros Hin. apply in_map_iff in Hin as [y [Ey Hy]].
    apply (I2 y Hy). rewrite Ey, E1. now left.
  - intros y [<-|Hy].
    + rewrite E1. intros Hin. assert (existsb (str_eqb (ch :: name)) seen = true) as Ht; [|congruence].
      apply existsb_exists. exists (ch :: name). split; [exact Hin|apply str_eqb_refl].
    + intros Hin. apply (I2 y Hy). right. apply in_or_app. now right.
Qed.
(* an enabled command of the configuration is built, over the global format *)
Lemma build_cmds_in g name al d an len opts args : forall l seen cs,
  build_cmds g seen l = Ok cs -> In (Cmd name al d an true len opts args []) l ->
  exists f, format_of_elements (cmd_elements name al an opts args) (Some g) = Ok f /\ In (BCmd name al d an len f []) cs.
Proof.
  induction l as [|c r IH]; intros seen cs H Hin; [destruct Hin|].
  destruct c as [name' al' d' an' en' len' opts' args' subs']. cbn [build_cmds] in H.
  destruct Hin as [E|Hin].
  - inversion E; subst. cbn [negb] in H. destruct name as [|ch name]; [discriminate|].
    destruct (existsb _ seen); [discriminate|]. rewrite build_cmd_eq in H.
    destruct (format_of_elements _ (Some g)) as [f|k]; cbn [bind] in H; [|discriminate]. cbn [build_subs_of bind] in H.
    destruct (build_cmds g _ r) as [bs|k]; cbn [bind] in H; [|discriminate].
    inversion H; subst. exists f. split; [reflexivity|now left].
  - destruct (negb en'); [eapply IH; eauto|]. destruct name' as [|ch' name']; [discriminate|].
    destruct (existsb _ seen); [discriminate|].
    destruct (build_cmd (Some g) _) as [b|k]; cbn [bind] in H; [|discriminate].
    destruct (build_cmds g _ r) as [bs|k] eqn:E2; cbn [bind] in H; [|discriminate].
    inversion H; subst. destruct (IH _ _ E2 Hin) as [f [F1 F2]]. exists f. split; [exact F1|now right].
Qed.

(* ================= what the run does ================= *)
(* the page of the help target, or the failure to find it *)
Definition help_page (a : application) (toks : list str) : action :=
  match help_target a toks with Ok p => AHelpCmd p | Err k => AHelpFail k end.

Section Run.
  Variables (a : application) (dflt len : bool) (f : fmt) (arg : arg) (o : opt).
  Let hc : bcmd := BCmd S_help [] dflt false len f [].
  Hypothesis Hnamed : coll_contains (named_of (ap_cmds a)) S_help = true /\ coll_get (named_of (ap_cmds a)) S_help = Ok hc.
  Hypothesis Hall : coll_get (coll_of (ap_cmds a)) S_help = Ok hc.
  Hypothesis Hinv : fmt_inv f.
  Hypothesis Hsound : short_sound f.
  Hypothesis Hargs : get_arguments_all f = [(a_name arg, arg)].
  Hypothesis Hcns : get_command_names_all f = [help_cname].
  Hypothesis Harg : is_command_arg arg = true.
  Hypothesis Hcar : carries o f.
  Hypothesis Hopt : is_help_option o = true.

  Variable path : list str.
  Hypothesis Hplain : forallb lead_ok path = true.
  Hypothesis Hne : path <> [].

  Lemma arg_facts : a_name arg = COMMAND /\ a_multi arg = true /\ a_required arg = false /\ a_type arg = TStr.
  Proof. destruct (command_arg_spec arg Harg) as (H1 & H2 & H3 & _ & H5). auto. Qed.

  Lemma command_is_set opts : args_is_argument_set f {| ar_opts := opts; ar_args := help_args f path |} (AName COMMAND) = true.
  Proof.
    destruct arg_facts as (N & M & R & T). unfold args_is_argument_set, has_argument, get_argument. cbn [get_arguments].
    rewrite Hargs, N. unfold shas at 1, ahas, sget. cbn [aget]. rewrite str_eqb_refl. cbn [ar_args].
    now apply help_args_set.
  Qed.

  (* "help <path>": the resolver reaches the command "help"; its handler shows the page of the help target *)
  Lemma run_help_word debug : sm_action (run_summary debug a (S_help :: path)) = help_page a (S_help :: path).
  Proof.
    destruct arg_facts as (N & M & R & T). destruct Hnamed as [Hc Hg].
    assert (forallb lead_ok (S_help :: path) = true) as Hl by (cbn [forallb]; now rewrite Hplain).
    unfold run_summary. cbn [sm_action].
    assert (option_tokens (S_help :: path) = S_help :: path) as ->.
    { rewrite <- (app_nil_r (S_help :: path)) at 1. rewrite (option_tokens_plain _ [] Hl). cbn. now rewrite app_nil_r. }
    rewrite (wants_help_plain _ Hl).
    assert (resolve a (S_help :: path) = Ok ([S_help], f, {| ar_opts := []; ar_args := help_args f path |})) as ->.
    { unfold resolve. rewrite (leading_all _ Hl). cbn [walk]. rewrite Hc, Hg. cbn [negb bind b_subs hc b_name app].
      assert (walk (named_of []) (Some (hc, [S_help])) path = Ok (Some (hc, [S_help]))) as ->.
      { destruct path as [|t r]; reflexivity. }
      cbn [bind b_subs hc]. change (defaults_of []) with (@nil bcmd). cbn [pick_default bind b_fmt b_lenient].
      change (b_fmt hc) with f. change (b_lenient hc) with len.
      now rewrite (parse_help_line f arg Hinv Hargs Hcns M T path Hplain Hne len). }
    change (args_is_option_set f {| ar_opts := []; ar_args := help_args f path |} S_version) with false.
    rewrite (wants_version_plain _ Hl). cbn [orb]. cbv iota.
    rewrite str_eqb_refl. change (AName [99;111;109;109;97;110;100]%N) with (AName COMMAND). now rewrite command_is_set.
  Qed.

  (* the version switch is not set by "--help" / "-h" *)
  Lemma version_not_set ars : args_is_option_set f {| ar_opts := [(S_help, VBool true)]; ar_args := ars |} S_version = false.
  Proof.
    unfold args_is_option_set. cbn [ar_opts has_option get_option].
    assert (forall n, n <> S_help -> shas n [(S_help, VBool true)] = false) as Hn.
    { intros n Hne'. unfold shas, ahas. cbn [aget]. destruct (str_eqb_spec n S_help); [contradiction|reflexivity]. }
    destruct (has_option_all f S_version); [|apply Hn; discriminate].
    destruct (get_option_all f S_version) as [o'|k] eqn:E; [|apply Hn; discriminate].
    apply Hn. intros El. destruct Hinv as (_ & _ & Hoi).
    destruct (get_option_named f Hoi Hsound _ _ E) as (I1 & _ & I3). rewrite El in I3.
    destruct (is_help_option_spec o Hopt) as (_ & [Hlong _] & _). destruct Hcar as (_ & C2 & _). rewrite Hlong in C2.
    assert (o' = o) as -> by congruence. pose proof Hopt as Hopt'. unfold is_help_option in Hopt'.
    apply in_onames in I1 as [I1|I1]; [rewrite Hlong in I1; discriminate|].
    rewrite I1 in Hopt'. destruct (str_eqb (o_long o) S_help); discriminate.
  Qed.

  (* "<path> --help" / "<path> -h": the listener parses the line leniently with the help command's format, "command" is the
     whole path, and the help command's handler shows the page of the help target *)
  Lemma run_help_switch debug sw :
    (match path with t :: _ => str_eqb t S_help = false | [] => True end) ->
    sw = T_help \/ sw = T_h ->
    sm_action (run_summary debug a (path ++ [sw])) = help_page a (path ++ [sw]).
  Proof.
    intros Hh Hsw. destruct arg_facts as (N & M & R & T).
    destruct (is_help_option_spec o Hopt) as (Hnv & H1 & H2).
    assert (help_switch_of o sw) as Hso by (destruct Hsw as [->| ->]; assumption).
    unfold run_summary. cbn [sm_action]. rewrite (option_tokens_plain _ [sw] Hplain).
    assert (option_tokens [sw] = [sw]) as -> by (destruct Hsw as [->| ->]; reflexivity).
    assert (wants_help (path ++ [sw]) = true) as ->.
    { unfold wants_help. rewrite !has_token_app. destruct Hsw as [->| ->]; cbn; now rewrite ?orb_true_r. }
    unfold find_cmd. rewrite Hall. change (b_fmt hc) with f.
    rewrite (parse_switch_value f o sw true path _ Hcar Hnv Hso Hplain
               (parse_path_line f arg Hinv Hargs Hcns M T path Hplain Hne true Hh) eq_refl).
    cbn [ar_args]. rewrite version_not_set.
    assert (wants_version (path ++ [sw]) = false) as ->.
    { unfold wants_version. rewrite !has_token_app, (has_token_plain T_V _ eq_refl Hplain), (has_token_plain T_version _ eq_refl Hplain). destruct Hsw as [->| ->]; reflexivity. }
    cbn [orb]. change (AName [99;111;109;109;97;110;100]%N) with (AName COMMAND).
    now rewrite command_is_set.
  Qed.
End Run.

(* ================= the configuration-level statement ================= *)
(* the command "help" as DefaultApplicationConfig.configure() defines it:
     with self.command("help") as c: c.default(); c.add_argument("command", Argument.OPTIONAL | Argument.MULTI_VALUED, ...)
   - named "help", no alias, not anonymous, enabled, no sub-command, the one argument "command" (multi-valued, optional, string).
   Whether it is a default command, lenient, or has options of its own does not matter. *)
Definition is_help_command (c : cmd) : bool :=
  match c with
  | Cmd name [] _ false true _ _ [a] [] => str_eqb name S_help && is_command_arg a
  | _ => false
  end.
(* the global help option, no global argument, the help command *)
Definition default_help_config (cfg : appcfg) : bool :=
  defines_help cfg && match ac_args cfg with [] => true | _ => false end && existsb is_help_command (ac_cmds cfg).

Theorem help_same_run cfg a debug path :
  build_app cfg = Ok a -> default_help_config cfg = true ->
  forallb lead_ok path = true -> path <> [] ->
  (match path with t :: _ => str_eqb t S_help = false | [] => True end) ->
  sm_action (run_summary debug a (S_help :: path)) = help_page a (S_help :: path) /\
  sm_action (run_summary debug a (path ++ [T_help])) = help_page a (S_help :: path) /\
  sm_action (run_summary debug a (path ++ [T_h])) = help_page a (S_help :: path).
Proof.
  intros Hb Hcfg Hplain Hne Hh. unfold default_help_config in Hcfg.
  apply andb_prop in Hcfg as [Hcfg Hcmd]. apply andb_prop in Hcfg as [Hdef Hga].
  destruct (help_same_target cfg a path Hb Hdef Hplain Hh) as [T1 T2].
  destruct (ac_args cfg) as [|? ?] eqn:Eargs; [|discriminate]. clear Hga.
  pose proof Hdef as Hdef'. unfold defines_help in Hdef'. apply existsb_exists in Hdef' as [o [Hoin Ho]].
  pose proof (build_app_carries cfg a o Hb Hoin) as Htree.
  apply existsb_exists in Hcmd as [c [Hcin Hc]].
  destruct c as [name [|? ?] dflt [|] [|] len opts [|arg [|? ?]] [|? ?]]; try discriminate.
  cbn [is_help_command] in Hc. apply andb_prop in Hc as [Hname Harg].
  destruct (str_eqb_spec name S_help) as [->|]; [|discriminate].
  unfold build_app in Hb. rewrite Eargs in Hb.
  destruct (format_of_elements (map EArg [] ++ map EOpt (ac_opts cfg)) None) as [g|k] eqn:Eg; cbn [bind] in Hb; [|discriminate].
  destruct (build_cmds g [] (ac_cmds cfg)) as [cs|k] eqn:Ec; cbn [bind] in Hb; [|discriminate].
  inversion Hb; subst a. clear Hb. cbn [ap_cmds] in *.
  destruct (build_cmds_in g S_help [] dflt false len opts [arg] _ _ _ Ec Hcin) as [f [Ef Hin]].
  destruct (build_cmds_nodup g _ _ _ Ec) as [Hnd _].
  destruct (help_inv _ _ _ _ _ Eg Ef Harg) as [Hinv Hsound].
  destruct (help_shape _ _ _ _ _ Eg Ef) as [Hargs Hcns].
  assert (carries o f) as Hcar.
  { pose proof (proj1 (Forall_forall _ _) Htree _ Hin) as Ht. apply tree_ok_unfold in Ht as [Ht _]. exact Ht. }
  set (hc := BCmd S_help [] dflt false len f []) in *.
  assert (coll_contains (named_of cs) S_help = true /\ coll_get (named_of cs) S_help = Ok hc) as Hnamed.
  { apply (coll_of_found _ hc); [now apply nodup_names_filter|]. apply filter_In. split; [exact Hin|reflexivity]. }
  assert (coll_get (coll_of cs) S_help = Ok hc) as Hall by (apply (coll_of_found _ hc Hnd Hin)).
  set (app := {| ap_global := g; ap_cmds := cs |}) in *.
  split; [|split].
  - apply (run_help_word app dflt len f arg Hnamed Hinv Hargs Hcns Harg path Hplain Hne).
  - rewrite (run_help_switch app dflt len f arg o Hall Hinv Hsound Hargs Hcns Harg Hcar Ho path Hplain Hne debug T_help Hh) by (now left).
    unfold help_page. now rewrite T1.
  - rewrite (run_help_switch app dflt len f arg o Hall Hinv Hsound Hargs Hcns Harg Hcar Ho path Hplain Hne debug T_h Hh) by (now right).
    unfold help_page. now rewrite T2.
Qed.

(* the three runs do the same *)
Corollary help_same_action cfg a debug path :
  build_app cfg = Ok a -> default_help_config cfg = true ->
  forallb lead_ok path = true -> path <> [] ->
  (match path with t :: _ => str_eqb t S_help = false | [] => True end) ->
  sm_action (run_summary debug a (S_help :: path)) = sm_action (run_summary debug a (path ++ [T_help])) /\
  sm_action (run_summary debug a (S_help :: path)) = sm_action (run_summary debug a (path ++ [T_h])).
Proof.
  intros Hb Hc Hp Hn Hh. destruct (help_same_run cfg a debug path Hb Hc Hp Hn Hh) as (-> & -> & ->). auto.
Qed.
