(* C04 composed with C20, for the outputs clikit itself builds: an ordinary (non-section) output over a plain or ANSI
   formatter built from a style set that contains DefaultStyleSet (clikit_output, Proofs/TraceEscLemmas.v).  For those the
   renderer returns for EVERY exception case, solutions and report mode - no premise on the style table ("error" and "b"
   resolve: clikit_formatter_styles) and none on ESC bytes in the texts (success does not depend on decoration) - so the
   rendered forms of the C04 theorems hold with "clikit_output o" as their only hypothesis on the output. *)
From Coq Require Import Lia.
From Clikit Require Import Base.Prelude Base.Res Model.Conv Model.Markup Model.OutputM Model.Trace Model.Run Model.RunLine
  Proofs.MarkupLemmas Proofs.OutputLemmas Proofs.TraceLemmas Proofs.LiteralLemmas Proofs.TraceRenderLemmas
  Proofs.TraceSolutionLemmas Proofs.TraceEscLemmas Proofs.RunLemmas Proofs.RunTraceLemmas Proofs.RunLineLemmas
  Proofs.RunLineTraceLemmas.

Lemma report_ok_clikit c o x sols simple : clikit_output o -> report_ok c o x sols simple = true.
Proof.
  intros Ho. unfold report_ok. destruct (render_sol_never_fails_clikit c simple o x sols Ho) as [bytes ->]. reflexivity.
Qed.

Theorem run_exception_clikit c o x sols debug ls h e calls :
  handle debug ls h = (inr e, calls) -> e_keyboard e = false -> clikit_output o ->
  run true debug (report_ok c o x sols (e_clikit e)) ls h
  = {| r_end := Status 1; r_handler_calls := calls; r_reported := true; r_simple := e_clikit e |}.
Proof.
  intros Hh Hk Ho. rewrite (run_exn true debug _ ls h e calls Hh), Hk, (report_ok_clikit c o x sols (e_clikit e) Ho). reflexivity.
Qed.

Theorem run_status_clikit c o x sols simple debug ls h : clikit_output o ->
  exists s, r_end (run true debug (report_ok c o x sols simple) ls h) = Status s /\ (0 <= s <= 255)%Z.
Proof. intros Ho. rewrite (report_ok_clikit c o x sols simple Ho). apply run_status_lemma. Qed.

Theorem run_never_escapes_clikit c o x sols simple debug ls h : clikit_output o ->
  forall e, r_end (run true debug (report_ok c o x sols simple) ls h) <> Escaped e.
Proof.
  intros Ho e. destruct (run_status_clikit c o x sols simple debug ls h Ho) as (st & E & _). rewrite E. discriminate.
Qed.

Theorem reported_iff_exception_clikit c o x sols simple debug ls h : clikit_output o ->
  (r_reported (run true debug (report_ok c o x sols simple) ls h) = true
   <-> exists e calls, handle debug ls h = (inr e, calls) /\ e_keyboard e = false).
Proof.
  intros Ho. rewrite (report_ok_clikit c o x sols simple Ho).
  destruct (handle debug ls h) as [[s|e] calls] eqn:E.
  - rewrite (run_status_ok true debug true ls h s calls E). cbn [r_reported]. split; [discriminate|]. intros (e & n & H & _). discriminate.
  - rewrite (run_exn true debug true ls h e calls E). destruct (e_keyboard e) eqn:Ek; cbn [negb r_reported].
    + split; [discriminate|]. intros (e' & n & H & Hk). injection H as <- <-. congruence.
    + split; [|reflexivity]. intros _. exists e, calls. split; [reflexivity|exact Ek].
Qed.

(* the whole run (io creation, resolution, handling - Model/RunLine.v) *)
Theorem line_status_clikit {A} c o x sols simple quiet debug io (rs : A + exn) ls h : clikit_output o ->
  exists s, l_end (run_cmdline true (report_ok c o x sols simple) quiet debug io rs ls h) = Status s /\ (0 <= s <= 255)%Z.
Proof. intros Ho. rewrite (report_ok_clikit c o x sols simple Ho). apply line_status_lemma. Qed.
