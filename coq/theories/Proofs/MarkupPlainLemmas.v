(* C11: "an undecorated output never emits ... the markup of a registered style".
   What the plain rendering is, is known (colorize_lockstep: the message with exactly its recognised tags removed, strip_tags).
   Whether the RESULT holds a piece that reads like a tag of a style depends on the "<" the message holds outside its tags:
   - when every "<" of the message opens a tag the scanner finds (texts_without_lt), the result holds no <t>, no </t> for any
     style name t the table resolves (registered or inline), and no </>;
   - without that it can: "<<b></b>b>" - a stray "<", the balanced empty pair <b></b>, the plain characters "b>" - renders
     to "<b>".  The characters that spell it are plain characters of the message, not markup the message carried. *)
From Coq Require Import Lia.
From Clikit Require Import Base.Prelude Base.Res Model.Conv Model.Markup Proofs.MarkupLemmas Proofs.LiteralLemmas.
(* the tag that closes whatever is open *)
Definition CLOSE_ANY : str := [LT; SLASH; GT].

Definition occurs (p s : str) : Prop := exists u v, s = u ++ p ++ v.

(* ---- the tags the scanner finds are "<" ("/")? name ">" with a name of tag characters ---- *)
Definition tag_shape (t : tag) : Prop :=
  match t with Tag raw cl nm => raw = LT :: (if cl then [SLASH] else []) ++ nm ++ [GT] /\ Forall (fun c => tag_char c = true) nm end.
Definition cand_ok (k : cand) : Prop := match k with CName _ nm => Forall (fun c => tag_char c = true) nm | _ => True end.
Definition shape_inv (st : lexst) : Prop := Forall (fun sg => tag_shape (snd sg)) (l_done st) /\ cand_ok (l_cand st).
Lemma tag_start_char c : tag_start c = true -> tag_char c = true.
Proof. intros H. unfold tag_char. now rewrite H. Qed.
Lemma lex_step_shape_inv st c : shape_inv st -> shape_inv (lex_step st c).
Proof.
  intros [Hd Hk]. unfold lex_step. destruct (N.eqb c LT); [split; [exact Hd|exact I]|].
  destruct (l_cand st) as [| | |cl nm] eqn:Ek; cbn [cand_ok] in Hk.
  - split; [exact Hd|exact I].
  - destruct (N.eqb c SLASH); [split; [exact Hd|exact I]|]. destruct (tag_start c) eqn:Es; [|split; [exact Hd|exact I]].
    split; [exact Hd|]. cbn [l_cand cand_ok]. constructor; [now apply tag_start_char|constructor].
  - destruct (N.eqb c GT).
    + split; [|exact I]. cbn [l_done]. apply Forall_app. split; [exact Hd|]. constructor; [|constructor]. cbn [snd tag_shape raw_of].
      split; [reflexivity|constructor].
    + destruct (tag_start c) eqn:Es; [|split; [exact Hd|exact I]]. split; [exact Hd|]. cbn [l_cand cand_ok].
      constructor; [now apply tag_start_char|constructor].
  - destruct (N.eqb c GT).
    + split; [|exact I]. cbn [l_done]. apply Forall_app. split; [exact Hd|]. constructor; [|constructor]. cbn [snd tag_shape raw_of].
      split; [destruct cl; cbn [app]; now rewrite <- ?app_assoc|exact Hk].
    + destruct (tag_char c) eqn:Ec; [|split; [exact Hd|exact I]]. split; [exact Hd|]. cbn [l_cand cand_ok].
      apply Forall_app. split; [exact Hk|constructor; [exact Ec|constructor]].
Qed.
Lemma lex_shapes m : Forall (fun sg => tag_shape (snd sg)) (fst (lex m)).
Proof.
  unfold lex, lex_end. cbn [fst].
  assert (forall st, shape_inv st -> shape_inv (fold_left lex_step m st)) as H.
  { induction m as [|c r IH]; intros st Hst; cbn [fold_left]; [exact Hst|]. apply IH, lex_step_shape_inv, Hst. }
  apply H. split; [constructor|exact I].
Qed.

(* ---- where a "<" of the result comes from ---- *)
(* every "<" of the message opens a tag the scanner finds: no "<" in the texts between the tags nor behind the last one *)
Definition texts_without_lt (m : str) : Prop := Forall (fun sg => no_lt (fst sg)) (fst (lex m)) /\ no_lt (snd (lex m)).
Lemma app_lt_split a b u w : a ++ b = u ++ LT :: w -> no_lt a -> exists u', u = a ++ u' /\ b = u' ++ LT :: w.
Proof.
  revert u. induction a as [|c a IH]; intros u E Ha; [exists u; auto|]. inversion Ha as [|? ? Hc Ha']; subst.
  destruct u as [|d u]; cbn [app] in E; [injection E as E _; congruence|]. injection E as -> E.
  destruct (IH u E Ha') as (u' & -> & Eb). exists u'. auto.
Qed.
Lemma tagchars_no_lt nm : Forall (fun c => tag_char c = true) nm -> no_lt nm.
Proof. intros H. eapply Forall_impl; [|exact H]. intros c Hc. apply (tag_char_not c Hc). Qed.
Definition keep (sty : styles) (sg : str * tag) : str := if recognised sty (snd sg) then [] else raw_text (snd sg).
Lemma lt_of_result sty : forall segs tail u w,
  Forall (fun sg => no_lt (fst sg) /\ tag_shape (snd sg)) segs -> no_lt tail ->
  flat_map (fun sg => fst sg ++ keep sty sg) segs ++ tail = u ++ LT :: w ->
  exists sg r', In sg segs /\ recognised sty (snd sg) = false /\ raw_text (snd sg) = LT :: r' /\ exists rest, w = r' ++ rest.
Proof.
  induction segs as [|[pre t] segs IH]; intros tail u w Hs Ht E.
  - cbn [flat_map app] in E. exfalso. rewrite E in Ht. apply Forall_app in Ht as [_ Ht]. inversion Ht; congruence.
  - inversion Hs as [|? ? [Hpre Hsh] Hs']; subst. cbn [fst snd] in *. cbn [flat_map] in E. rewrite <- !app_assoc in E.
    destruct (app_lt_split _ _ _ _ E Hpre) as (u1 & -> & E1). unfold keep in E1 at 1. cbn [snd] in E1.
    destruct (recognised sty t) eqn:Er.
    + cbn [app] in E1. destruct (IH tail u1 w Hs' Ht E1) as (sg & r' & Hin & H1 & H2 & H3). exists sg, r'. split; [now right|auto].
    + destruct t as [raw cl nm]. destruct Hsh as [-> Hnm]. cbn [raw_text] in E1.
      destruct u1 as [|d u1].
      * cbn [app] in E1. injection E1 as E1. exists (pre, Tag (LT :: (if cl then [SLASH] else []) ++ nm ++ [GT]) cl nm). eexists.
        split; [now left|]. split; [exact Er|]. split; [reflexivity|]. eexists. symmetry. rewrite <- app_assoc in E1. rewrite <- E1. now rewrite <- !app_assoc.
      * (* the "<" lies behind the first character of the tag kept: not in the tag, which holds one "<" only *)
        cbn [app] in E1. injection E1 as Ed E1. subst d.
        assert (no_lt ((if cl then [SLASH] else []) ++ nm ++ [GT])) as Hbody.
        { apply Forall_app. split; [destruct cl; repeat constructor; discriminate|]. apply Forall_app. split; [now apply tagchars_no_lt|repeat constructor; discriminate]. }
        destruct (app_lt_split _ _ _ _ E1 Hbody) as (u2 & -> & E2).
        destruct (IH tail u2 w Hs' Ht E2) as (sg & r' & Hin & H1 & H2 & H3). exists sg, r'. split; [now right|auto].
Qed.
(* two texts without the character c in front of a c: the same text *)
Lemma same_until (c : N) : forall a b x y, ~ In c a -> ~ In c b -> a ++ c :: x = b ++ c :: y -> a = b.
Proof.
  induction a as [|d a IH]; intros b x y Ha Hb E.
  - destruct b as [|e b]; [reflexivity|]. cbn [app] in E. injection E as -> _. exfalso. apply Hb. now left.
  - destruct b as [|e b]; cbn [app] in E.
    + injection E as -> _. exfalso. apply Ha. now left.
    + injection E as -> E. f_equal. apply (IH b x y); [intros H; apply Ha; now right|intros H; apply Hb; now right|exact E].
Qed.
Lemma tagchars_no c nm : tag_char c = false -> Forall (fun x => tag_char x = true) nm -> ~ In c nm.
Proof. intros Hc H Hin. rewrite Forall_forall in H. specialize (H c Hin). congruence. Qed.
Lemma tag_name_chars t : tag_name t -> Forall (fun x => tag_char x = true) t.
Proof. destruct t as [|c r]; [contradiction|]. intros [H1 H2]. constructor; [now apply tag_start_char|exact H2]. Qed.

(* THE STATEMENT.  For every style table, stack and message without ESC and backslash all of whose "<" open tags: when the
   undecorated rendering succeeds its result holds no opening and no closing tag of any style name the table resolves, and
   no </>. *)
Theorem plain_holds_no_style_markup sty sk m sk' out :
  Forall good m -> texts_without_lt m -> colorize sty false sk m = Ok (sk', out) ->
  (forall t, tag_name t -> resolvable sty t -> ~ occurs (open_tag t) out /\ ~ occurs (close_tag t) out)
  /\ ~ occurs CLOSE_ANY out.
Proof.
  intros Hg [Hl1 Hl2] Hc.
  assert (out = strip_tags sty m) as ->.
  { pose proof (colorize_lockstep sty sk m Hg) as H. rewrite Hc in H. destruct (colorize sty true sk m) as [[s1 o1]|e]; [|contradiction]. tauto. }
  unfold strip_tags.
  assert (Forall (fun sg => no_lt (fst sg) /\ tag_shape (snd sg)) (fst (lex m))) as Hs.
  { pose proof (lex_shapes m) as H. rewrite Forall_forall in *. intros sg Hin. split; auto. }
  assert (forall w u, flat_map (fun sg : str * tag => fst sg ++ (if recognised sty (snd sg) then [] else raw_text (snd sg))) (fst (lex m)) ++ snd (lex m) = u ++ LT :: w ->
            exists (cl : bool) (nm rest : str), Forall (fun c => tag_char c = true) nm /\ w = (if cl then [SLASH] else []) ++ nm ++ [GT] ++ rest /\
              (cl && match nm with [] => true | _ => false end) || match resolve sty (py_lower nm) with Ok (Some _) => true | _ => false end = false) as Hlt.
  { intros w u E. destruct (lt_of_result sty _ _ u w Hs Hl2 E) as ([pre [raw cl nm]] & r' & Hin & Hr & Hraw & rest & ->).
    rewrite Forall_forall in Hs. destruct (Hs _ Hin) as [_ [Eraw Hnm]]. cbn [snd raw_text] in *. rewrite Eraw in Hraw. injection Hraw as <-.
    exists cl, nm, rest. split; [exact Hnm|]. split; [now rewrite <- !app_assoc|exact Hr]. }
  assert (tag_char GT = false) as HGT by reflexivity. assert (tag_char SLASH = false) as HSL by reflexivity.
  split; [intros t Ht (p & Hp); split|]; intros (u & v & E).
  - (* <t> *) unfold open_tag in E. cbn [app] in E. rewrite <- app_assoc in E. cbn [app] in E.
    destruct (Hlt _ _ E) as (cl & nm & rest & Hnm & Ew & Hr). destruct cl; cbn [app] in Ew.
    + destruct t as [|c r]; [contradiction|]. cbn [app] in Ew. injection Ew as -> _. destruct Ht as [Hst _]. vm_compute in Hst. discriminate.
    + apply same_until in Ew; [|apply tagchars_no; [exact HGT|now apply tag_name_chars]|apply tagchars_no; [exact HGT|exact Hnm]].
      subst nm. cbn [andb orb] in Hr. now rewrite Hp in Hr.
  - (* </t> *) unfold close_tag in E. cbn [app] in E. rewrite <- app_assoc in E. cbn [app] in E.
    destruct (Hlt _ _ E) as (cl & nm & rest & Hnm & Ew & Hr). destruct cl; cbn [app] in Ew.
    + injection Ew as Ew. apply same_until in Ew; [|apply tagchars_no; [exact HGT|now apply tag_name_chars]|apply tagchars_no; [exact HGT|exact Hnm]].
      subst nm. rewrite Hp in Hr. now rewrite orb_true_r in Hr.
    + destruct nm as [|c r]; cbn [app] in Ew; [discriminate|]. injection Ew as <- _. inversion Hnm as [|? ? Hch _]; subst. congruence.
  - (* </> *) unfold CLOSE_ANY in E. cbn [app] in E.
    destruct (Hlt _ _ E) as (cl & nm & rest & Hnm & Ew & Hr). destruct cl; cbn [app] in Ew.
    + destruct nm as [|c r]; [cbn in Hr; discriminate|]. cbn [app] in Ew. injection Ew as <- _. inversion Hnm as [|? ? Hch _]; subst. congruence.
    + destruct nm as [|c r]; cbn [app] in Ew; [discriminate|]. injection Ew as <- _. inversion Hnm as [|? ? Hch _]; subst. congruence.
Qed.

(* through the formatters: remove_format of a plain or ANSI formatter, format of the plain one *)
Theorem remove_format_holds_no_style_markup f m f' out : f_kind f <> FNull ->
  Forall good m -> texts_without_lt m -> remove_format f m = Ok (f', out) ->
  (forall t, tag_name t -> resolvable (f_styles f) t -> ~ occurs (open_tag t) out /\ ~ occurs (close_tag t) out) /\ ~ occurs CLOSE_ANY out.
Proof.
  intros Hk Hg Hl H. unfold remove_format in H. destruct (f_kind f) eqn:Ek; [| |congruence];
    (destruct (colorize (f_styles f) false (f_stack f) m) as [[sk o]|e] eqn:Ec; cbn [bind fst snd] in H; [|discriminate];
     injection H as _ <-; exact (plain_holds_no_style_markup _ _ _ _ _ Hg Hl Ec)).
Qed.
Theorem format_plain_holds_no_style_markup f m style f' out : f_kind f = FPlain ->
  Forall good m -> texts_without_lt m -> format f m style = Ok (f', out) ->
  (forall t, tag_name t -> resolvable (f_styles f) t -> ~ occurs (open_tag t) out /\ ~ occurs (close_tag t) out) /\ ~ occurs CLOSE_ANY out.
Proof.
  intros Hk Hg Hl H. unfold format in H. rewrite Hk in H.
  destruct (colorize (f_styles f) false (f_stack f) m) as [[sk o]|e] eqn:Ec; cbn [bind fst snd] in H; [|discriminate].
  injection H as _ <-. exact (plain_holds_no_style_markup _ _ _ _ _ Hg Hl Ec).
Qed.
(* a style registered in the table (under a lower-case name, as all of clikit's are) is one the table resolves *)
Lemma registered_resolves sty t p : aget str_eqb (py_lower t) sty = Some p -> resolvable sty t.
Proof. intros H. exists p. unfold resolve. now rewrite H. Qed.

(* ---- decision procedures for the examples ---- *)
Fixpoint prefixb (p s : str) : bool :=
  match p, s with [], _ => true | c :: p', d :: s' => N.eqb c d && prefixb p' s' | _ :: _, [] => false end.
Fixpoint occursb (p s : str) : bool := prefixb p s || match s with [] => false | _ :: s' => occursb p s' end.
Lemma prefixb_spec p : forall s, prefixb p s = true <-> exists v, s = p ++ v.
Proof.
  induction p as [|c p IH]; intros s; cbn [prefixb]; [split; [intros _; exists s; reflexivity|reflexivity]|].
  destruct s as [|d s]; [split; [discriminate|intros [v E]; discriminate]|]. rewrite andb_true_iff, IH, N.eqb_eq. split.
  - intros [-> [v ->]]. exists v. reflexivity.
  - intros [v E]. injection E as -> ->. split; [reflexivity|exists v; reflexivity].
Qed.
Lemma occursb_spec p : forall s, occursb p s = true <-> occurs p s.
Proof.
  induction s as [|d s IH]; cbn [occursb]; rewrite orb_true_iff, prefixb_spec.
  - split; [intros [[v E]|E]; [exists [], v; exact E|discriminate]|].
    intros (u & v & E). left. destruct u; [exists v; exact E|discriminate].
  - rewrite IH. split.
    + intros [[v E]|(u & v & E)]; [exists [], v; exact E|exists (d :: u), v; now rewrite E].
    + intros (u & v & E). destruct u as [|c u]; [left; exists v; exact E|right]. injection E as -> E. exists u, v. exact E.
Qed.
Definition texts_without_ltb (m : str) : bool :=
  forallb (fun sg => forallb (fun c => negb (N.eqb c LT)) (fst sg)) (fst (lex m)) && forallb (fun c => negb (N.eqb c LT)) (snd (lex m)).
Lemma no_ltb_spec t : forallb (fun c => negb (N.eqb c LT)) t = true -> no_lt t.
Proof. intros H. apply Forall_forall. intros c Hc. rewrite forallb_forall in H. specialize (H c Hc). apply negb_true_iff, N.eqb_neq in H. exact H. Qed.
Lemma texts_without_ltb_ok m : texts_without_ltb m = true -> texts_without_lt m.
Proof.
  unfold texts_without_ltb, texts_without_lt. intros H. apply andb_prop in H as [H1 H2]. split; [|now apply no_ltb_spec].
  apply Forall_forall. intros sg Hsg. rewrite forallb_forall in H1. apply no_ltb_spec, H1, Hsg.
Qed.

(* ---- an undecorated output: Output.write_line on an ordinary (non-section), unindented output with a plain formatter and
   formatting off writes the rendered text and a line break - the text holds no escape byte and no style markup ---- *)
From Clikit Require Import Model.OutputM.
Theorem write_line_holds_no_style_markup o s o' : o_on o = false -> o_sec o = false -> (o_indent o <= 0)%Z -> f_kind (o_fmt o) = FPlain ->
  Forall good s -> texts_without_lt s -> do_write o WWriteLine s = Ok o' ->
  exists out, o_buf o' = o_buf o ++ out ++ [NL] /\ no_esc out /\
    (forall t, tag_name t -> resolvable (f_styles (o_fmt o)) t -> ~ occurs (open_tag t) out /\ ~ occurs (close_tag t) out) /\
    ~ occurs CLOSE_ANY out.
Proof.
  intros Hon Hsec Hi Hk Hg Hl. unfold do_write, write. rewrite Hon, Hsec. cbn [andb orb bind].
  cbn [o_indent with_buf o_on o_sec o_fmt o_buf]. rewrite Hon.
  assert ((0 <? o_indent o)%Z = false) as -> by (apply Z.ltb_ge; exact Hi). cbn [andb].
  unfold remove_format. rewrite Hk.
  destruct (colorize (f_styles (o_fmt o)) false (f_stack (o_fmt o)) s) as [[sk out]|e] eqn:Ec; cbn [bind fst snd]; [|discriminate].
  intros H. injection H as <-. cbn [o_buf]. exists out. split; [reflexivity|].
  destruct (plain_holds_no_style_markup _ _ _ _ _ Hg Hl Ec) as [H1 H2]. split; [|split; [exact H1|exact H2]].
  pose proof (colorize_lockstep (f_styles (o_fmt o)) (f_stack (o_fmt o)) s Hg) as HL. rewrite Ec in HL.
  destruct (colorize (f_styles (o_fmt o)) true (f_stack (o_fmt o)) s) as [[s1 o1]|e]; [|contradiction]. destruct HL as (_ & _ & ->).
  unfold strip_tags. destruct (lex_P good s Hg) as [Hsegs Htail]. apply Forall_app. split; [|apply good_no_esc, Htail].
  generalize (f_styles (o_fmt o)). intros sty. clear - Hsegs.
  induction Hsegs as [|[pre [raw cl nm]] r [Hp Hr] _ IH]; [constructor|]. cbn [flat_map fst snd raw_text tagP] in *.
  apply Forall_app. split; [|exact IH]. apply Forall_app. split; [apply good_no_esc, Hp|]. destruct (recognised sty _); [constructor|apply good_no_esc, Hr].
Qed.
