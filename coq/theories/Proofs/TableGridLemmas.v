(* C14, added after the Coq review (REPORT "C14: minor issues" 1-3):
   (a) the lines of the rectangle are free of line breaks, and for a style whose right border ends in a non-blank
       character (ascii, solid) the text is LITERALLY those lines, each of the table's full width, each followed by a
       line break (the right-strip of Table.render removes nothing);
   (b) the grid: every line of every row is  indentation ++ left border ++ for each column
       (cell prefix ++ the cell line padded to EXACTLY the column's width ++ cell suffix) joined by the vertical centre
       border ++ right border - the same column widths f_cols st in every row, header included;
   (c) render_total's hypothesis on the alignments is necessary (Example in Props/C14.v). *)
From Coq Require Import Lia ZifyBool.
From Clikit Require Import Base.Prelude Base.Res Model.Conv Model.Markup Model.OutputM Model.Wrap Model.Table
  Proofs.MarkupLemmas Proofs.WrapLemmas Proofs.TableLemmas Proofs.TableTaggedLemmas.
Local Open Scope Z_scope.

Notation NLc := 10%N (only parsing).

(* ---------------------------------------------------------------- strings that end in a non-blank character *)
Definition ends_nsb (l : str) : bool := match rev l with c :: _ => negb (is_space c) | [] => false end.
Lemma ends_nsb_app x y : ends_nsb y = true -> ends_nsb (x ++ y) = true.
Proof.
  unfold ends_nsb. rewrite rev_app_distr. destruct (rev y) as [|c r]; [discriminate|]. cbn [app]. auto.
Qed.
Lemma rstrip_ends_ns l : ends_nsb l = true -> t_rstrip l = l.
Proof.
  unfold ends_nsb, t_rstrip. destruct (rev l) as [|c r] eqn:E; [discriminate|]. intros H. cbn [t_rstrip_rev].
  destruct (is_space c); [discriminate|]. rewrite <- E. apply rev_involutive.
Qed.

(* ---------------------------------------------------------------- strings without a line break *)
Definition nlf (l : str) : Prop := Forall (fun c => c <> NLc) l.
Definition nlfb (l : str) : bool := forallb (fun c => negb (N.eqb c NLc)) l.
Lemma nlfb_nlf l : nlfb l = true -> nlf l.
Proof.
  unfold nlfb, nlf. rewrite forallb_forall, Forall_forall. intros H c Hc E. specialize (H c Hc). subst c. discriminate.
Qed.
Lemma nlf_app a b : nlf a -> nlf b -> nlf (a ++ b). Proof. intros; apply Forall_app; split; assumption. Qed.
Lemma nlf_nil : nlf []. Proof. constructor. Qed.
Lemma nlf_blanks k : nlf (blanks k).
Proof. unfold blanks. induction (Z.to_nat k); cbn; constructor; auto. discriminate. Qed.
Lemma nlf_rep s k : nlf s -> nlf (rep s k).
Proof. intros H. unfold rep. induction (Z.to_nat k); cbn; [constructor|apply nlf_app; assumption]. Qed.
Lemma nlf_not_in l : nlf l -> ~ In NLc l.
Proof. unfold nlf. rewrite Forall_forall. intros H Hi. exact (H _ Hi eq_refl). Qed.
Lemma split_on_nlf s : Forall nlf (split_on NLc s).
Proof.
  induction s as [|c s IH]; cbn [split_on]; [repeat constructor|].
  destruct (N.eqb_spec c NLc) as [E|E]; [constructor; [constructor|exact IH]|].
  destruct (split_on NLc s) as [|l ls]; [repeat constructor; exact E|].
  inversion IH; subst. constructor; [constructor; assumption|assumption].
Qed.
Lemma nth_split_nlf i cell : nlf (nth i (split_on NLc cell) []).
Proof.
  destruct (Nat.lt_ge_cases i (length (split_on NLc cell))) as [L|L].
  - pose proof (split_on_nlf cell) as F. rewrite Forall_forall in F. apply F, nth_In, L.
  - rewrite nth_overflow by exact L. constructor.
Qed.

(* ---------------------------------------------------------------- the grid *)
(* the cells of one line, each between the cell prefix and suffix, joined by the centre border, closed by the right one *)
Fixpoint join_cells (pre suf vc vr : str) (xs : list str) : str :=
  match xs with
  | [] => []
  | [x] => pre ++ x ++ suf ++ vr
  | x :: r => pre ++ x ++ suf ++ vc ++ join_cells pre suf vc vr r
  end.
Lemma join_cells_ends pre suf vc vr xs : xs <> [] -> exists y, join_cells pre suf vc vr xs = y ++ vr.
Proof.
  induction xs as [|x r IH]; intros Hne; [congruence|]. destruct r as [|x2 r].
  - exists (pre ++ x ++ suf). cbn [join_cells]. now rewrite <- !app_assoc.
  - destruct IH as [y Hy]; [congruence|]. exists (pre ++ x ++ suf ++ vc ++ y).
    change (join_cells pre suf vc vr (x :: x2 :: r)) with (pre ++ x ++ suf ++ vc ++ join_cells pre suf vc vr (x2 :: r)).
    rewrite Hy, <- !app_assoc. reflexivity.
Qed.

(* the i-th line of a row: every cell line is padded to exactly its column's width, and sits between paddings *)
Lemma row_line_grid pre suf pad vc vr i : zlen pad = 1 -> forall cells cols al,
  Forall2 (fun c w => zlen (nth i c []) <= w) cells cols -> length al = length cols ->
  exists xs, row_line pre suf pad vc vr i cells cols al = join_cells pre suf vc vr xs /\
    Forall2 (fun x w => zlen x = w) xs cols /\
    Forall2 (fun x c => exists k1 k2, x = rep pad k1 ++ nth i c [] ++ rep pad k2) xs cells.
Proof.
  intros Hp cells cols al H. revert al. induction H as [|c w cells cols Hcw Hrest IH]; intros al Hal.
  - exists []. cbn. repeat split; constructor.
  - destruct al as [|a al]; [discriminate|]. cbn [length] in Hal.
    destruct (IH al ltac:(lia)) as (xs & E & W & P).
    destruct (pad_cell_len pad a w (@nth str i c []) Hp Hcw) as (x & Ex & Hx).
    exists (x :: xs). split; [|split; constructor; auto; exact (pad_cell_holds _ _ _ _ _ Ex)].
    cbn [row_line]. rewrite Ex, E. destruct cells as [|c2 cells].
    + inversion Hrest; subst. inversion W; subst. cbn [join_cells]. now rewrite <- !app_assoc, app_nil_r.
    + inversion Hrest; subst. inversion W; subst. cbn [join_cells]. now rewrite <- !app_assoc.
Qed.

(* a line of the grid over the column widths cols: which pieces it holds and where *)
Definition grid_line (s : tstyle) (ind : Z) (cols : list Z) (pre suf : str) (pieces : list str) (l : str) : Prop :=
  exists xs, l = blanks ind ++ b_vl (t_border s) ++ join_cells pre suf (b_vc (t_border s)) (b_vr (t_border s)) xs /\
    Forall2 (fun x w => zlen x = w) xs cols /\
    Forall2 (fun x p => exists k1 k2, x = rep (t_pad s) k1 ++ p ++ rep (t_pad s) k2) xs pieces.

Lemma cells_fit_row i row cols : Forall2 (fun cell c => cell_ok c cell) row cols -> Forall (fun x => 0 <= x) cols ->
  Forall2 (fun c w => zlen (nth i c []) <= w) (map (split_on NLc) row) cols.
Proof.
  intros Hrow Hnn. induction Hrow as [|c w r cs Hcw _ IH]; cbn [map]; constructor.
  - apply Forall_cons_iff in Hnn as [Hw _]. apply nth_split_le; assumption.
  - apply IH. apply Forall_cons_iff in Hnn as [_ H]. exact H.
Qed.

Lemma row_lines_grid s pre suf ind row cols al : zlen (t_pad s) = 1 ->
  Forall2 (fun cell c => cell_ok c cell) row cols -> Forall (fun x => 0 <= x) cols -> length al = length cols ->
  forall i, grid_line s ind cols pre suf (map (fun cell => nth i (split_on NLc cell) []) row)
              (blanks ind ++ b_vl (t_border s) ++
               row_line pre suf (t_pad s) (b_vc (t_border s)) (b_vr (t_border s)) i (map (split_on NLc) row) cols al).
Proof.
  intros Hp Hrow Hnn Hal i.
  destruct (row_line_grid pre suf (t_pad s) (b_vc (t_border s)) (b_vr (t_border s)) i Hp _ cols al (cells_fit_row i row cols Hrow Hnn) Hal)
    as (xs & E & W & P).
  exists xs. split; [now rewrite E|]. split; [exact W|].
  clear -P. remember (map (split_on NLc) row) as cells eqn:Ec. revert row Ec.
  induction P as [|x c xs cells Hxc _ IH]; intros row Ec; destruct row as [|r0 row]; try discriminate; cbn [map]; constructor.
  - cbn [map] in Ec. injection Ec as -> _. exact Hxc.
  - cbn [map] in Ec. injection Ec as _ Ec. exact (IH row Ec).
Qed.

(* ---------------------------------------------------------------- a property of every line of the table *)
Definition borders_of (s : tstyle) : list (str * str * str * str) :=
  let b := t_border s in [(b_ht b, b_tl b, b_ct b, b_tr b); (b_hc b, b_cl b, b_cc b, b_cr b); (b_hb b, b_bl b, b_cb b, b_br b)].
Lemma table_lines_forall (Q : str -> Prop) s header ind st al :
  (forall lc l c r, In (lc, l, c, r) (borders_of s) -> Forall Q (border_lines ind (map (fun l => l + excess s) (f_cols st)) lc l c r)) ->
  (forall pre suf row, (pre, suf) = (t_hpre s, t_hsuf s) \/ (pre, suf) = (t_cpre s, t_csuf s) -> In row (f_rows st) ->
     Forall Q (row_lines (t_border s) pre suf (t_pad s) ind row (f_cols st) al)) ->
  Forall Q (table_lines s header ind st al).
Proof.
  intros B HR. unfold table_lines. unfold borders_of in B.
  repeat (apply Forall_app; split).
  - apply B. cbn. auto.
  - destruct header as [|h0 hs]; [constructor|]. apply Forall_app; split.
    + destruct (f_rows st) as [|row rs] eqn:R; [constructor|]. cbn [hd]. apply HR; [left; reflexivity|left; reflexivity].
    + apply B. cbn. auto.
  - apply Forall_flat_map. apply Forall_forall. intros row Hin. apply HR; [right; reflexivity|].
    destruct header; [exact Hin|]. destruct (f_rows st); [destruct Hin|right; exact Hin].
  - apply B. cbn. auto.
Qed.

(* ---------------------------------------------------------------- style conditions *)
(* no string of the style holds a line break (true of the four presets) *)
Definition nl_free_styleb (s : tstyle) : bool :=
  let b := t_border s in
  forallb nlfb [b_ht b; b_hc b; b_hb b; b_vl b; b_vc b; b_vr b; b_tl b; b_tr b; b_bl b; b_br b; b_cc b; b_cl b; b_ct b; b_cr b; b_cb b;
                t_hpre s; t_hsuf s; t_cpre s; t_csuf s; t_pad s].
(* the right border ends in a non-blank character, and so does the right end of every border line that is drawn *)
Definition solid_rightb (s : tstyle) : bool :=
  let b := t_border s in
  ends_nsb (b_vr b) && (is_nil (b_ht b) || ends_nsb (b_tr b)) && (is_nil (b_hc b) || ends_nsb (b_cr b)) &&
  (is_nil (b_hb b) || ends_nsb (b_br b)).

Lemma border_body_ends lc c r : forall lens, lens <> [] -> exists y, border_body lc c r lens = y ++ r.
Proof.
  induction lens as [|x lens IH]; intros Hne; [congruence|]. cbn [border_body]. destruct lens as [|x2 lens].
  - exists (rep lc x). reflexivity.
  - destruct IH as [y Hy]; [congruence|]. exists (rep lc x ++ c ++ y). rewrite Hy, <- !app_assoc. reflexivity.
Qed.
Lemma nlf_border_body lc c r lens : nlf lc -> nlf c -> nlf r -> nlf (border_body lc c r lens).
Proof.
  intros H1 H2 H3. induction lens as [|x lens IH]; cbn [border_body]; [constructor|]. destruct lens as [|x2 lens].
  - apply nlf_app; [apply nlf_rep|]; assumption.
  - repeat apply nlf_app; auto. apply nlf_rep; assumption.
Qed.
Lemma border_lines_nlf ind lens lc l c r : nlf lc -> nlf l -> nlf c -> nlf r -> Forall nlf (border_lines ind lens lc l c r).
Proof.
  intros. unfold border_lines. destruct (t_rstrip _); constructor; [|constructor].
  repeat apply nlf_app; auto using nlf_blanks, nlf_border_body.
Qed.
Lemma border_lines_ends ind lens lc l c r : lens <> [] -> (is_nil lc || ends_nsb r = true) ->
  (zlen lc = 1 \/ (lc = [] /\ l = [] /\ c = [] /\ r = [])) ->
  Forall (fun x => ends_nsb x = true) (border_lines ind lens lc l c r).
Proof.
  intros Hne He Hw. unfold border_lines. destruct Hw as [H1|(-> & -> & -> & ->)].
  - destruct (t_rstrip _); constructor; [|constructor].
    destruct (border_body_ends lc c r lens Hne) as [y ->].
    rewrite !app_assoc. apply ends_nsb_app. destruct lc; [discriminate H1|]. exact He.
  - assert (E : border_body [] [] [] lens = []).
    { clear. induction lens as [|x lens IH]; [reflexivity|]. cbn [border_body]. destruct lens.
      - unfold rep. clear. induction (Z.to_nat x); cbn; auto.
      - rewrite IH. unfold rep. clear. induction (Z.to_nat x); cbn; auto. }
    rewrite E, !app_nil_r, rstrip_blanks. constructor.
Qed.

Lemma row_line_nlf pre suf pad vc vr i : nlf pre -> nlf suf -> nlf pad -> nlf vc -> nlf vr ->
  forall cells cols al, Forall (fun c => nlf (@nth str i c [])) cells -> nlf (row_line pre suf pad vc vr i cells cols al).
Proof.
  intros Hpre Hsuf Hpad Hvc Hvr. induction cells as [|c cells IH]; intros cols al Hc; [constructor|].
  destruct cols as [|w cols]; [constructor|]. destruct al as [|a al]; [constructor|]. cbn [row_line].
  apply Forall_cons_iff in Hc as [Hc0 Hcr]. apply nlf_app; [|apply IH; exact Hcr].
  destruct (pad_cell pad a w (nth i c [])) as [x|] eqn:E; [|constructor].
  destruct (pad_cell_holds _ _ _ _ _ E) as (k1 & k2 & ->).
  repeat apply nlf_app; auto using nlf_rep. destruct cells; assumption.
Qed.
Lemma row_lines_nlf s pre suf ind row cols al : nlf pre -> nlf suf -> nlf (t_pad s) ->
  nlf (b_vl (t_border s)) -> nlf (b_vc (t_border s)) -> nlf (b_vr (t_border s)) ->
  Forall nlf (row_lines (t_border s) pre suf (t_pad s) ind row cols al).
Proof.
  intros Hpre Hsuf Hpad Hvl Hvc Hvr. unfold row_lines. apply Forall_forall. intros x Hx. apply in_map_iff in Hx as (i & <- & _).
  apply nlf_app; [apply nlf_blanks|]. apply nlf_app; [exact Hvl|].
  apply row_line_nlf; auto. apply Forall_forall. intros c Hc. apply in_map_iff in Hc as (cell & <- & _). apply nth_split_nlf.
Qed.
Lemma row_lines_ends s pre suf ind row cols al : zlen (t_pad s) = 1 -> row <> [] ->
  Forall2 (fun cell c => cell_ok c cell) row cols -> Forall (fun x => 0 <= x) cols -> length al = length cols ->
  ends_nsb (b_vr (t_border s)) = true ->
  Forall (fun x => ends_nsb x = true) (row_lines (t_border s) pre suf (t_pad s) ind row cols al).
Proof.
  intros Hp Hne Hrow Hnn Hal Hvr. unfold row_lines. apply Forall_forall. intros x Hx. apply in_map_iff in Hx as (i & <- & _).
  destruct (row_line_grid pre suf (t_pad s) (b_vc (t_border s)) (b_vr (t_border s)) i Hp _ cols al (cells_fit_row i row cols Hrow Hnn) Hal)
    as (xs & E & W & P).
  assert (xs <> []) as Hx.
  { intros ->. inversion P as [E0|]. destruct row; [congruence|discriminate]. }
  destruct (join_cells_ends pre suf (b_vc (t_border s)) (b_vr (t_border s)) xs Hx) as [y Hy].
  rewrite E, Hy, !app_assoc. now apply ends_nsb_app.
Qed.

(* ---------------------------------------------------------------- the rendered table as its list of lines *)
Section Lines.
  Variable share : Z -> Z -> Z -> Z.
  Lemma render_table_lines s n header rows W ind st text : (1 <= n)%nat -> rows <> [] ->
    Z.of_nat n <= available_width s W ind (Z.of_nat n) ->
    render_table share s n header rows W ind = Ok (st, text) ->
    exists al, alignments s n = Ok al /\ length al = n /\ INV n st /\
               text = flat_map (fun l => t_rstrip l ++ [NLc]) (table_lines s header ind st al).
  Proof.
    intros Hn Hrows Hg H. unfold render_table in H. destruct rows as [|r0 rows]; [congruence|]. unfold render_pure in H.
    destruct (fit_g_spec wrap_lines_fit_lemma wrap_total_lemma share _ n (map t_rstrip (header ++ concat (r0 :: rows))) Hn Hg) as (st0 & F & HI & _).
    rewrite F in H. cbn [bind] in H. rewrite (inv_len _ _ HI) in H.
    destruct (alignments s n) as [al|k] eqn:A; cbn [bind] in H; [|discriminate].
    injection H as <- <-. exists al. split; [reflexivity|]. split; [exact (alignments_length _ _ _ A)|]. split; [exact HI|].
    apply draw_table_lines.
  Qed.

  (* (a) the lines: NL-free, of the full width; literally the text when the right border is solid *)
  Theorem table_rect_lines_lemma s n header rows W ind st text :
    wf_styleb s = true -> nl_free_styleb s = true -> (1 <= n)%nat -> 0 <= ind -> rows <> [] ->
    Z.of_nat n <= available_width s W ind (Z.of_nat n) ->
    render_table share s n header rows W ind = Ok (st, text) ->
    exists ls, text = flat_map (fun l => t_rstrip l ++ [NLc]) ls /\
               Forall (fun l => zlen l = full_width s (f_cols st) ind /\ ~ In NLc l) ls /\
               (solid_rightb s = true -> text = flat_map (fun l => l ++ [NLc]) ls).
  Proof.
    intros Hwf Hnl Hn Hind Hrows Hg H.
    destruct (render_table_lines s n header rows W ind st text Hn Hrows Hg H) as (al & A & Hal & HI & ->).
    pose proof (wf_styleb_sound s Hwf) as Hwf'.
    pose proof (table_lines_width s n header ind st al Hwf' Hn Hind HI Hal) as HW.
    pose proof (inv_cells_fit _ _ HI) as CF. pose proof (inv_len _ _ HI) as Hlen. pose proof (inv_nonneg _ _ HI) as Hnn.
    assert (Hne : f_cols st <> []) by (destruct (f_cols st); [cbn in Hlen; lia|congruence]).
    unfold nl_free_styleb in Hnl. cbn [forallb] in Hnl. rewrite !andb_true_iff in Hnl.
    destruct Hnl as (N1 & N2 & N3 & N4 & N5 & N6 & N7 & N8 & N9 & N10 & N11 & N12 & N13 & N14 & N15 & N16 & N17 & N18 & N19 & N20 & _).
    apply nlfb_nlf in N1, N2, N3, N4, N5, N6, N7, N8, N9, N10, N11, N12, N13, N14, N15, N16, N17, N18, N19, N20.
    assert (HN : Forall nlf (table_lines s header ind st al)).
    { apply table_lines_forall.
      - intros lc l c r Hin. unfold borders_of in Hin. cbn [In] in Hin.
        destruct Hin as [E|[E|[E|[]]]]; injection E as <- <- <- <-; apply border_lines_nlf; assumption.
      - intros pre suf row [E|E] Hin; injection E as -> ->; apply row_lines_nlf; assumption. }
    exists (table_lines s header ind st al). split; [reflexivity|]. split.
    - rewrite Forall_forall in *. intros l Hl. split; [exact (HW l Hl)|exact (nlf_not_in l (HN l Hl))].
    - intros Hs. unfold solid_rightb in Hs. rewrite !andb_true_iff in Hs. destruct Hs as (((S1 & S2) & S3) & S4).
      destruct Hwf' as (Hp & _ & [B1] & [B2] & [B3]).
      assert (HE : Forall (fun x => ends_nsb x = true) (table_lines s header ind st al)).
      { apply table_lines_forall.
        - assert (Hne' : map (fun l => l + excess s) (f_cols st) <> []) by (destruct (f_cols st); [congruence|discriminate]).
          intros lc l c r Hin. unfold borders_of in Hin. cbn [In] in Hin.
          destruct Hin as [E|[E|[E|[]]]]; injection E as <- <- <- <-; apply border_lines_ends; auto; tauto.
        - intros pre suf row _ Hin. unfold cells_fit in CF. rewrite Forall_forall in CF. specialize (CF row Hin).
          apply row_lines_ends; auto; [|congruence]. intros ->. inversion CF as [E|]; subst. congruence. }
      clear -HE. induction HE as [|l ls Hl _ IH]; [reflexivity|]. cbn [flat_map]. rewrite (rstrip_ends_ns l Hl), IH. reflexivity.
  Qed.

  Theorem table_rect_exact_lemma s n header rows W ind st text :
    wf_styleb s = true -> nl_free_styleb s = true -> solid_rightb s = true -> (1 <= n)%nat -> 0 <= ind -> rows <> [] ->
    Z.of_nat n <= available_width s W ind (Z.of_nat n) ->
    render_table share s n header rows W ind = Ok (st, text) ->
    (exists ls, text = flat_map (fun l => l ++ [NLc]) ls /\
                Forall (fun l => zlen l = full_width s (f_cols st) ind /\ ~ In NLc l) ls) /\
    full_width s (f_cols st) ind <= W /\ length (f_cols st) = n.
  Proof.
    intros Hwf Hnl Hs Hn Hind Hrows Hg H.
    destruct (table_rect_lines_lemma s n header rows W ind st text Hwf Hnl Hn Hind Hrows Hg H) as (ls & _ & HF & HE).
    destruct (TableLemmas.table_rect wrap_lines_fit_lemma wrap_total_lemma share s n header rows W ind st text
                (wf_styleb_sound s Hwf) Hn Hind Hrows Hg H) as (_ & Hw & _ & Hl).
    split; [exists ls; split; [exact (HE Hs)|exact HF]|]. split; assumption.
  Qed.

  (* (b) the grid: the text is the right-stripped lines of table_lines - by definition the top border, the lines of the
     header row and the separating border if there is a header, the lines of every body row, the bottom border -, the
     i-th line of a row being row_line .. i; every such line is a grid line over the SAME column widths f_cols st *)
  Theorem table_grid_lemma s n header rows W ind st text :
    wf_styleb s = true -> (1 <= n)%nat -> 0 <= ind -> rows <> [] ->
    Z.of_nat n <= available_width s W ind (Z.of_nat n) ->
    render_table share s n header rows W ind = Ok (st, text) ->
    exists al, alignments s n = Ok al /\
      text = flat_map (fun l => t_rstrip l ++ [NLc]) (table_lines s header ind st al) /\
      length (f_cols st) = n /\ Forall (fun c => 0 <= c) (f_cols st) /\
      forall row, In row (f_rows st) ->
        length row = n /\
        forall pre suf i,
          grid_line s ind (f_cols st) pre suf (map (fun cell => nth i (split_on NLc cell) []) row)
            (blanks ind ++ b_vl (t_border s) ++
             row_line pre suf (t_pad s) (b_vc (t_border s)) (b_vr (t_border s)) i (map (split_on NLc) row) (f_cols st) al).
  Proof.
    intros Hwf Hn Hind Hrows Hg H.
    destruct (render_table_lines s n header rows W ind st text Hn Hrows Hg H) as (al & A & Hal & HI & E).
    pose proof (wf_styleb_sound s Hwf) as (Hp & _).
    pose proof (inv_cells_fit _ _ HI) as CF. pose proof (inv_len _ _ HI) as Hlen. pose proof (inv_nonneg _ _ HI) as Hnn.
    exists al. split; [exact A|]. split; [exact E|]. split; [exact Hlen|]. split; [exact Hnn|].
    intros row Hin. unfold cells_fit in CF. rewrite Forall_forall in CF. specialize (CF row Hin). split.
    - rewrite (Forall2_length _ _ _ CF). exact Hlen.
    - intros pre suf i. apply row_lines_grid; auto. congruence.
  Qed.
End Lines.

(* TableStyle.solid(): the box-drawing characters of BorderStyle.solid(), cell formats " {} " *)
Definition solid_border : bstyle :=
  {| b_ht := [9472%N]; b_hc := [9472%N]; b_hb := [9472%N]; b_vl := [9474%N]; b_vc := [9474%N]; b_vr := [9474%N];
     b_tl := [9484%N]; b_tr := [9488%N]; b_bl := [9492%N]; b_br := [9496%N]; b_cc := [9532%N]; b_cl := [9500%N]; b_ct := [9516%N];
     b_cr := [9508%N]; b_cb := [9524%N] |}.
Definition solid_style : tstyle :=
  {| t_border := solid_border; t_hpre := [32%N]; t_hsuf := [32%N]; t_cpre := [32%N]; t_csuf := [32%N]; t_pad := [32%N]; t_aligns := []; t_default := 0 |}.
Example solid_style_conditions : wf_styleb solid_style = true /\ nl_free_styleb solid_style = true /\ solid_rightb solid_style = true.
Proof. repeat split; vm_compute; reflexivity. Qed.

(* the lines of a row are exactly these, one for each line of its tallest cell (definition of row_lines, restated) *)
Lemma row_lines_are b pre suf pad ind row cols al :
  row_lines b pre suf pad ind row cols al =
  map (fun i => blanks ind ++ b_vl b ++ row_line pre suf pad (b_vc b) (b_vr b) i (map (split_on NLc) row) cols al)
      (seq 0 (fold_right Nat.max O (map (@length str) (map (split_on NLc) row)))).
Proof. reflexivity. Qed.
Lemma table_lines_are s header ind st al :
  table_lines s header ind st al =
  let b := t_border s in
  let bl := map (fun l => l + excess s) (f_cols st) in
  border_lines ind bl (b_ht b) (b_tl b) (b_ct b) (b_tr b) ++
  (match header with
   | [] => []
   | _ => row_lines b (t_hpre s) (t_hsuf s) (t_pad s) ind (hd [] (f_rows st)) (f_cols st) al ++
          border_lines ind bl (b_hc b) (b_cl b) (b_cc b) (b_cr b)
   end) ++
  flat_map (fun row => row_lines b (t_cpre s) (t_csuf s) (t_pad s) ind row (f_cols st) al)
           (match header with [] => f_rows st | _ => tl (f_rows st) end) ++
  border_lines ind bl (b_hb b) (b_bl b) (b_cb b) (b_br b).
Proof. reflexivity. Qed.
