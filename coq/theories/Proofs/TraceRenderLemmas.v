(* The composition step of C20: every line the exception-trace renderer hands to io.write_line IS a line of literals and
   safe separators (LiteralLemmas' grammar); indentation keeps it one; hence writing it never fails, leaves the style
   stack as it was, and shows the texts.  The lines themselves always exist (TraceLemmas.render_lines_total: the renderer
   catches what reading / tokenizing a source raises).  Hence: render never fails - unconditionally on undecorated
   outputs, for ESC-free inputs on decorated ones - and what the undecorated bytes say. *)
From Coq Require Import Lia.
From Clikit Require Import Base.Prelude Base.Res Model.Conv Model.Markup Model.OutputM Model.Trace
  Proofs.MarkupLemmas Proofs.OutputLemmas Proofs.TraceLemmas Proofs.LiteralLemmas.

(* ------------------------------------------------------------------ 0. safe texts *)
Lemma safe_nil : safe []. Proof. constructor. Qed.
Lemma safe_app a b : safe a -> safe b -> safe (a ++ b).
Proof. intros Ha Hb. apply Forall_app. split; assumption. Qed.
Lemma safe_repeat32 n : safe (repeat 32%N n).
Proof. induction n as [|n IH]; cbn [repeat]; constructor; [split; discriminate|exact IH]. Qed.
Lemma safe_spaces n : safe (spaces n).
Proof. apply safe_repeat32. Qed.
Lemma safe_chars_of_uint u : safe (chars_of_uint u).
Proof. induction u; cbn [chars_of_uint]; constructor; try assumption; split; discriminate. Qed.
Lemma safe_dec_text z : safe (dec_text z).
Proof.
  unfold dec_text. destruct (Z.to_int z) as [u|u]; [apply safe_chars_of_uint|].
  constructor; [split; discriminate|apply safe_chars_of_uint].
Qed.
Lemma safe_rjust s w : safe s -> safe (rjust s w).
Proof. intros Hs. unfold rjust. apply safe_app; [apply safe_repeat32|exact Hs]. Qed.
Lemma safe_closed t : forallb (fun c => negb (N.eqb c LT) && negb (N.eqb c BSL)) t = true -> safe t.
Proof.
  intros H. rewrite forallb_forall in H. apply Forall_forall. intros c Hc. specialize (H c Hc).
  apply andb_true_iff in H. destruct H as [H1 H2]. split; intros ->; discriminate.
Qed.
Ltac safe_by_compute := apply safe_closed; vm_compute; reflexivity.

(* ------------------------------------------------------------------ 1. good lines *)
Definition good_line (sty : styles) (l : str) : Prop := exists ps, pieces_ok sty ps /\ l = line_str ps.
(* the decorated case asks for ESC-free texts *)
Definition good_line_ne (sty : styles) (l : str) : Prop :=
  exists ps, pieces_ok sty ps /\ pieces_noesc ps /\ l = line_str ps.

Lemma line_str_app a b : line_str (a ++ b) = line_str a ++ line_str b.
Proof. unfold line_str. apply flat_map_app. Qed.
Lemma good_ne_good sty l : good_line_ne sty l -> good_line sty l.
Proof. intros (ps & H1 & _ & H2). exists ps. split; assumption. Qed.

(* every character of a text is in its literal: a line without ESC has texts without ESC *)
Lemma double_bsl_in x : forall s, In x s -> In x (double_bsl s).
Proof.
  induction s as [|c|c d r IHr IHd] using list_ind2; intros H; [exact H|exact H|].
  rewrite double_bsl_cons2. destruct H as [->|H].
  - destruct (N.eqb x BSL && N.eqb d LT) eqn:E; [|left; reflexivity].
    apply andb_true_iff in E. destruct E as [E _]. apply N.eqb_eq in E. subst. left. reflexivity.
  - destruct (N.eqb c BSL && N.eqb d LT); [right; right|right]; apply IHd, H.
Qed.
Lemma cut_lt_in tag x : forall s, In x s -> In x (cut_lt tag s).
Proof.
  induction s as [|c r IH]; intros H; [exact H|]. unfold cut_lt in *. cbn [flat_map]. apply in_or_app.
  destruct H as [->|H]; [left|right; apply IH, H]. destruct (N.eqb_spec x LT) as [->|]; left; reflexivity.
Qed.
Lemma literal_in tag s x : In x s -> In x (literal s tag).
Proof.
  intros H. unfold literal. assert (In x (cut_lt tag (double_bsl s))) as H' by (apply cut_lt_in, double_bsl_in, H).
  destruct (ends_with_bsl s); [apply in_or_app; left|]; exact H'.
Qed.
Lemma literal_noesc tag s : no_esc (literal s tag) -> no_esc s.
Proof. unfold no_esc. rewrite !Forall_forall. intros H x Hx. apply H, literal_in, Hx. Qed.
Lemma line_noesc : forall ps, no_esc (line_str ps) -> pieces_noesc ps.
Proof.
  induction ps as [|p r IH]; intros H; [constructor|].
  change (line_str (p :: r)) with (piece_str p ++ line_str r) in H. apply Forall_app in H. destruct H as [Hp Hr].
  constructor; [|apply IH, Hr]. destruct p as [t|tag s|nm s]; cbn [piece_noesc piece_str] in *.
  - exact Hp.
  - rewrite tagged_eq in Hp. apply Forall_app in Hp. destruct Hp as [_ Hp]. apply Forall_app in Hp. destruct Hp as [Hp _].
    apply (literal_noesc tag), Hp.
  - apply Forall_app in Hp. destruct Hp as [_ Hp]. apply Forall_app in Hp. destruct Hp as [Hp _]. apply (literal_noesc nm), Hp.
Qed.
Lemma good_noesc sty l : good_line sty l -> no_esc l -> good_line_ne sty l.
Proof. intros (ps & Hok & ->) Hne. exists ps. split; [exact Hok|]. split; [apply line_noesc, Hne|reflexivity]. Qed.

(* ---- the styles the renderer writes inline resolve in every style table ---- *)
Definition st_yellow : str := [102;103;61;121;101;108;108;111;119]%N (* fg=yellow *).
Definition st_blue : str := [102;103;61;98;108;117;101]%N (* fg=blue *).
Definition inline_tags : list str :=
  [st_green; st_cyan; st_yellow; st_blue; th_marker; th_string; th_number; th_comment; th_keyword; th_builtin; th_default; th_op].
Lemma inline_tag_name tag : In tag inline_tags -> tag_name tag.
Proof.
  intros H. unfold inline_tags in H. cbn [In] in H.
  repeat (destruct H as [<-|H]; [split; [reflexivity|repeat constructor]|]). contradiction.
Qed.
Lemma inline_resolvable sty tag : In tag inline_tags -> resolvable sty tag.
Proof.
  intros H. unfold resolvable, resolve. set (n := py_lower tag). destruct (aget str_eqb n sty) as [st|]; [eexists; reflexivity|].
  subst n. unfold inline_tags in H. cbn [In] in H.
  repeat (destruct H as [<-|H]; [vm_compute; eexists; reflexivity|]). contradiction.
Qed.
Ltac inline_in := unfold inline_tags; cbn [In]; tauto.

Section Good.
Variable sty : styles.
Hypothesis Herr : resolvable sty st_error.
Hypothesis Hb : resolvable sty st_b.

Lemma st_error_name : tag_name st_error. Proof. split; [reflexivity|repeat constructor]. Qed.
Lemma st_b_name : tag_name st_b. Proof. split; [reflexivity|repeat constructor]. Qed.

(* combinators *)
Lemma good_nil : good_line sty [].
Proof. exists []. split; [constructor|reflexivity]. Qed.
Lemma good_raw t : safe t -> good_line sty t.
Proof. intros Ht. exists [PRaw t]. split; [constructor; [exact Ht|constructor]|]. cbn. now rewrite app_nil_r. Qed.
Lemma good_app a b : good_line sty a -> good_line sty b -> good_line sty (a ++ b).
Proof.
  intros (pa & Ha & ->) (pb & Hb' & ->). exists (pa ++ pb). split; [apply Forall_app; split; assumption|].
  now rewrite line_str_app.
Qed.
Lemma good_lit tag s : tag_name tag -> resolvable sty tag -> good_line sty (tagged tag (literal s tag)).
Proof.
  intros Hn Hr. exists [PLit tag s]. split; [constructor; [split; assumption|constructor]|]. cbn. now rewrite app_nil_r.
Qed.
Lemma good_inline tag s : In tag inline_tags -> good_line sty (tagged tag (literal s tag)).
Proof. intros H. apply good_lit; [apply inline_tag_name, H|apply inline_resolvable, H]. Qed.
Lemma good_inline_safe tag t : In tag inline_tags -> safe t -> good_line sty (tagged tag t).
Proof. intros H Ht. rewrite <- (literal_safe t tag Ht). apply good_inline, H. Qed.
Lemma good_named nm s : tag_name nm -> resolvable sty nm -> good_line sty (open_tag nm ++ literal s nm ++ close_tag nm).
Proof.
  intros Hn Hr. exists [PNamed nm s]. split; [constructor; [split; assumption|constructor]|]. cbn. now rewrite app_nil_r.
Qed.
Lemma good_chunks cs : good_line sty (render_chunks cs).
Proof. exists (map chunk_piece cs). split; [apply chunks_ok|apply render_chunks_line]. Qed.
Lemma good_styled h t : good_line sty (styled h t).
Proof. unfold styled. apply good_lit; [apply theme_tag_name|apply theme_resolvable]. Qed.

(* equalities between closed strings with opaque parts: normalise the concatenations *)
Ltac norm_str :=
  unfold tagged, open_tag, close_tag, close_any, st_yellow, st_blue, st_green, st_cyan, st_b, st_error, th_builtin, th_marker,
    th_lineno, th_bold_default, th_op, LT, GT, SLASH;
  repeat (progress (rewrite <- ?app_assoc; cbn [app])).

(* ---- the pieces of "file:line in function" after its opening tag ---- *)
Definition loc_pieces (c : tcfg) (fs : str) (f : frame) : list piece :=
  [PLit fs (rel_path c (f_file f)); PRaw [58%N]; PNamed st_b (dec_text (f_lineno f)); PRaw [32;105;110;32]%N; PLit st_cyan (f_func f)].
Lemma location_pieces c fs f : open_tag fs ++ location c fs f = line_str (loc_pieces c fs f).
Proof.
  unfold location, loc_pieces, line_str. cbn [flat_map piece_str]. rewrite (literal_safe _ st_b (safe_dec_text (f_lineno f))).
  generalize (literal (rel_path c (f_file f)) fs) (dec_text (f_lineno f)) (literal (f_func f) st_cyan). intros A B C.
  unfold s_colon_b, s_in. norm_str. reflexivity.
Qed.
Lemma loc_pieces_ok c fs f : In fs inline_tags -> pieces_ok sty (loc_pieces c fs f).
Proof.
  intros Hfs. unfold loc_pieces, pieces_ok. repeat match goal with |- Forall (piece_ok _) (_ :: _) => apply Forall_cons | |- Forall (piece_ok _) [] => apply Forall_nil end;
    cbn [piece_ok].
  - split; [apply inline_tag_name, Hfs|apply inline_resolvable, Hfs].
  - safe_by_compute.
  - split; [apply st_b_name|exact Hb].
  - safe_by_compute.
  - split; [apply inline_tag_name|apply inline_resolvable]; inline_in.
Qed.
Lemma good_location c fs f : In fs inline_tags -> good_line sty (open_tag fs ++ location c fs f).
Proof. intros H. exists (loc_pieces c fs f). split; [apply loc_pieces_ok, H|apply location_pieces]. Qed.

(* ---- the lines ---- *)
Lemma good_stack : good_line sty s_stack.
Proof.
  assert (s_stack = tagged st_yellow [83;116;97;99;107;32;116;114;97;99;101]%N ++ [58%N]) as -> by reflexivity.
  apply good_app; [apply good_inline_safe; [inline_in|safe_by_compute]|apply good_raw; safe_by_compute].
Qed.

Definition fold_line (w n reps : Z) : str :=
  s_blue ++ rjust s_dots w ++ s_previous ++ (if (1 <? n)%Z then s_yellow ++ dec_text n ++ s_frames else s_frame)
    ++ s_repeated ++ dec_text reps ++ s_times.
Lemma good_fold w n reps : good_line sty (fold_line w n reps).
Proof.
  assert (fold_line w n reps
          = tagged st_blue (rjust s_dots w) ++ [32;32;80;114;101;118;105;111;117;115;32]%N
            ++ (if (1 <? n)%Z then tagged st_yellow (dec_text n) ++ [32;102;114;97;109;101;115]%N else s_frame)
            ++ [32;114;101;112;101;97;116;101;100;32]%N ++ tagged st_blue (dec_text reps) ++ [32;116;105;109;101;115]%N) as ->.
  { unfold fold_line. generalize (rjust s_dots w) (dec_text n) (dec_text reps). intros A B C.
    unfold s_blue, s_previous, s_yellow, s_frames, s_frame, s_repeated, s_times.
    destruct (1 <? n)%Z; norm_str; reflexivity. }
  apply good_app; [apply good_inline_safe; [inline_in|apply safe_rjust; safe_by_compute]|].
  apply good_app; [apply good_raw; safe_by_compute|]. apply good_app.
  { destruct (1 <? n)%Z; [|apply good_raw; safe_by_compute].
    apply good_app; [apply good_inline_safe; [inline_in|apply safe_dec_text]|apply good_raw; safe_by_compute]. }
  apply good_app; [apply good_raw; safe_by_compute|].
  apply good_app; [apply good_inline_safe; [inline_in|apply safe_dec_text]|apply good_raw; safe_by_compute].
Qed.

Definition frame_line (c : tcfg) (w : Z) (f : frame) (i : Z) : str :=
  s_yellow ++ rjust (dec_text i) w ++ s_frame_mid ++ location c th_builtin f.
Lemma frame_line_eq c w f i :
  frame_line c w f i = tagged st_yellow (rjust (dec_text i) w) ++ [32;32]%N ++ open_tag th_builtin ++ location c th_builtin f.
Proof.
  unfold frame_line. generalize (rjust (dec_text i) w) (location c th_builtin f). intros A B.
  unfold s_yellow, s_frame_mid. norm_str. reflexivity.
Qed.
Lemma good_frame_line c w f i : good_line sty (frame_line c w f i).
Proof.
  rewrite frame_line_eq. apply good_app; [apply good_inline_safe; [inline_in|apply safe_rjust, safe_dec_text]|].
  apply good_app; [apply good_raw; safe_by_compute|]. apply good_location. inline_in.
Qed.

Lemma at_line_eq c f : s_at ++ location c st_green f = [97;116;32]%N ++ open_tag st_green ++ location c st_green f.
Proof. generalize (location c st_green f). intros A. unfold s_at. norm_str. reflexivity. Qed.
Lemma good_at_line c f : good_line sty (s_at ++ location c st_green f).
Proof. rewrite at_line_eq. apply good_app; [apply good_raw; safe_by_compute|]. apply good_location. inline_in. Qed.

(* numbered lines *)
Lemma ui_safe utf8 : safe (u_arrow (ui_of utf8)) /\ safe (u_delim (ui_of utf8)).
Proof. destruct utf8; split; safe_by_compute. Qed.
Lemma good_number_line utf8 w mark i l : good_line sty l -> good_line sty (number_line (ui_of utf8) w mark i l).
Proof.
  intros Hl. destruct (ui_safe utf8) as [Ha Hd]. unfold number_line.
  apply good_app.
  { destruct (mark =? i)%Z; [|apply good_raw; safe_by_compute].
    apply good_app; [apply good_inline_safe; [inline_in|exact Ha]|apply good_raw; safe_by_compute]. }
  apply good_app.
  { destruct (mark =? i)%Z; apply good_inline_safe; try inline_in; apply safe_rjust, safe_dec_text. }
  apply good_app; [apply good_inline_safe; [inline_in|exact Hd]|].
  apply good_app; [apply good_raw; safe_by_compute|exact Hl].
Qed.
Lemma good_number_from utf8 w mark : forall lines i,
  Forall (good_line sty) lines -> Forall (good_line sty) (number_from (ui_of utf8) w mark i lines).
Proof.
  induction lines as [|l r IH]; intros i H; cbn [number_from]; [constructor|].
  inversion H as [|? ? Hl Hr]; subst. constructor; [|apply IH, Hr]. apply (good_number_line utf8 w mark i l Hl).
Qed.
Lemma good_split_to_lines toks : Forall (good_line sty) (split_to_lines toks).
Proof. unfold split_to_lines. apply Forall_map, Forall_forall. intros cs _. apply good_chunks. Qed.
Lemma good_line_numbers utf8 toks mark : Forall (good_line sty) (line_numbers (ui_of utf8) (split_to_lines toks) mark).
Proof. unfold line_numbers. apply good_number_from, good_split_to_lines. Qed.
Lemma good_code_snippet utf8 toks line before after :
  Forall (good_line sty) (code_snippet (ui_of utf8) toks line before after).
Proof. unfold code_snippet. apply Forall_firstn, Forall_skipn, good_line_numbers. Qed.
Lemma good_snippet_of c content line before after ls :
  snippet_of c content line before after = Ok ls -> Forall (good_line sty) ls.
Proof. unfold snippet_of. destruct content; intros H; injection H as <-; [apply good_code_snippet|constructor|constructor]. Qed.

(* the class-name line, the message line, the simple-mode line *)
Definition name_pieces (x : exn_case) : list piece := [PNamed st_error (x_name x)].
Lemma name_line_pieces x : name_line x = line_str (name_pieces x).
Proof. unfold name_line, name_pieces, line_str. cbn [flat_map piece_str]. now rewrite app_nil_r. Qed.
Lemma name_pieces_ok x : pieces_ok sty (name_pieces x).
Proof. constructor; [split; [apply st_error_name|exact Herr]|constructor]. Qed.
Definition simple_pieces (x : exn_case) : list piece := [PNamed st_error (x_msg x)].
Lemma simple_line_pieces x : s_error_open ++ literal (x_msg x) st_error ++ s_error_close = line_str (simple_pieces x).
Proof. unfold simple_pieces, line_str. cbn [flat_map piece_str]. now rewrite app_nil_r. Qed.
Lemma simple_pieces_ok x : pieces_ok sty (simple_pieces x).
Proof. constructor; [split; [apply st_error_name|exact Herr]|constructor]. Qed.

End Good.

(* ------------------------------------------------------------------ 1b. expanding line breaks *)
(* str.replace of one character *)
Lemma replace_fuel_single c rep : forall fuel s, (length s < fuel)%nat ->
  replace_fuel fuel [c] rep s = flat_map (fun x => if N.eqb x c then rep else [x]) s.
Proof.
  induction fuel as [|fuel IH]; intros s Hlen; [lia|]. destruct s as [|x r]; [reflexivity|].
  cbn [replace_fuel starts_with flat_map length skipn]. cbn [length] in Hlen. rewrite Bool.andb_true_r, N.eqb_sym.
  destruct (N.eqb x c); rewrite IH by lia; reflexivity.
Qed.
Lemma replace_single c rep s : replace [c] rep s = flat_map (fun x => if N.eqb x c then rep else [x]) s.
Proof. unfold replace. apply replace_fuel_single. lia. Qed.

(* a machine that reads a text character by character: a line break becomes R; P is put in front of a character that
   follows a line break (b: the text read so far ended with one, or nothing was read yet).  R = [NL], P = blanks:
   Output's indentation.  R = NL and two blanks, P empty: the replace of the message line. *)
Fixpoint expand (R P : str) (b : bool) (s : str) : str :=
  match s with
  | [] => []
  | c :: r => if N.eqb c NL then R ++ expand R P true r else (if b then P else []) ++ c :: expand R P false r
  end.
Fixpoint at_start (b : bool) (s : str) : bool := match s with [] => b | c :: r => at_start (N.eqb c NL) r end.
Definition pad (P : str) (b : bool) : str := if b then P else [].

Lemma expand_cons R P b c r :
  expand R P b (c :: r) = if N.eqb c NL then R ++ expand R P true r else pad P b ++ c :: expand R P false r.
Proof. reflexivity. Qed.
Lemma expand_app R P : forall x y b, expand R P b (x ++ y) = expand R P b x ++ expand R P (at_start b x) y.
Proof.
  induction x as [|c r IH]; intros y b; [reflexivity|]. cbn [app expand at_start].
  destruct (N.eqb c NL); rewrite IH, <- ?app_assoc; reflexivity.
Qed.
Lemma at_start_app : forall x y b, at_start b (x ++ y) = at_start (at_start b x) y.
Proof. induction x as [|c r IH]; intros y b; [reflexivity|]. cbn [app at_start]. apply IH. Qed.
Lemma at_start_no_nl : forall t b, no_nl t -> t <> [] -> at_start b t = false.
Proof.
  induction t as [|c r IH]; intros b Ht Hne; [congruence|]. inversion Ht as [|? ? Hc Hr]; subst. cbn [at_start].
  destruct (N.eqb_spec c NL); [contradiction|]. destruct r as [|d r']; [reflexivity|]. apply IH; [exact Hr|discriminate].
Qed.
Lemma expand_no_nl R P : forall t b, no_nl t -> t <> [] -> expand R P b t = pad P b ++ t.
Proof.
  induction t as [|c r IH]; intros b Ht Hne; [congruence|]. inversion Ht as [|? ? Hc Hr]; subst. cbn [expand].
  destruct (N.eqb_spec c NL); [contradiction|]. unfold pad. f_equal. f_equal.
  destruct r as [|d r']; [reflexivity|]. rewrite IH; [reflexivity|exact Hr|discriminate].
Qed.
Lemma expand_block R P t y b : no_nl t -> t <> [] -> expand R P b (t ++ y) = pad P b ++ t ++ expand R P false y.
Proof. intros Ht Hne. rewrite expand_app, (expand_no_nl R P t b Ht Hne), (at_start_no_nl t b Ht Hne), <- app_assoc. reflexivity. Qed.
Lemma at_start_block t y b : no_nl t -> t <> [] -> at_start b (t ++ y) = at_start false y.
Proof. intros Ht Hne. now rewrite at_start_app, (at_start_no_nl t b Ht Hne). Qed.
Lemma expand_replace R s b : expand R [] b s = flat_map (fun x => if N.eqb x NL then R else [x]) s.
Proof. revert b. induction s as [|c r IH]; intros b; [reflexivity|]. cbn [expand flat_map]. destruct b, (N.eqb c NL); rewrite IH; reflexivity. Qed.
Lemma replace_nl_expand R s b : replace [NL] R s = expand R [] b s.
Proof. now rewrite replace_single, expand_replace. Qed.
(* the head of an expansion that starts after a non-line-break *)
Lemma expand_false_head R P d r : R <> [] -> exists x tl, expand R P false (d :: r) = x :: tl /\ (d <> NL -> x = d) /\ (d = NL -> exists R', R = x :: R').
Proof.
  intros HR. cbn [expand]. destruct (N.eqb_spec d NL) as [->|Hd].
  - destruct R as [|x R']; [congruence|]. exists x. eexists. split; [reflexivity|]. split; [congruence|]. intros _. eexists. reflexivity.
  - exists d. eexists. split; [reflexivity|]. split; [reflexivity|contradiction].
Qed.

Lemma tag_char_not_nl c : tag_char c = true -> c <> NL.
Proof. intros H ->. vm_compute in H. discriminate. Qed.
Lemma tag_name_no_nl nm : tag_name nm -> no_nl nm.
Proof.
  destruct nm as [|c r]; [contradiction|]. intros [Hc Hr]. constructor; [apply tag_char_not_nl, tag_start_char, Hc|].
  eapply Forall_impl; [|exact Hr]. exact tag_char_not_nl.
Qed.
Lemma open_tag_no_nl nm : tag_name nm -> no_nl (open_tag nm).
Proof.
  intros H. unfold open_tag. constructor; [discriminate|]. apply Forall_app. split; [apply tag_name_no_nl, H|]. constructor; [discriminate|constructor].
Qed.
Lemma close_tag_no_nl nm : tag_name nm -> no_nl (close_tag nm).
Proof.
  intros H. unfold close_tag. constructor; [discriminate|]. constructor; [discriminate|].
  apply Forall_app. split; [apply tag_name_no_nl, H|]. constructor; [discriminate|constructor].
Qed.
Lemma close_any_no_nl : no_nl close_any. Proof. repeat constructor; discriminate. Qed.

Section Expand.
Variables R P : str.
Hypothesis HR : safe R.
Hypothesis HRne : R <> [].
Hypothesis HP : safe P.

Lemma pad_safe b : safe (pad P b). Proof. destruct b; [exact HP|constructor]. Qed.

(* cutting off the '<' *)
Lemma expand_cut_lt tag : tag_name tag -> forall x b,
  expand R P b (cut_lt tag x) = cut_lt tag (expand R P b x) /\ at_start b (cut_lt tag x) = at_start b x.
Proof.
  intros Hn. induction x as [|c r IH]; intros b; [split; reflexivity|].
  change (cut_lt tag (c :: r)) with ((if N.eqb c LT then LT :: close_any ++ LT :: tag ++ [GT] else [c]) ++ cut_lt tag r).
  destruct (N.eqb_spec c LT) as [->|Hc].
  - assert (no_nl (LT :: close_any ++ LT :: tag ++ [GT])) as Hblk.
    { constructor; [discriminate|]. apply Forall_app. split; [apply close_any_no_nl|]. apply (open_tag_no_nl tag Hn). }
    rewrite expand_block, at_start_block by (exact Hblk || discriminate). destruct (IH false) as [E1 E2]. rewrite E1, E2.
    split; [|reflexivity]. change (expand R P b (LT :: r)) with (pad P b ++ LT :: expand R P false r).
    rewrite cut_lt_app, (cut_lt_id tag _ (safe_no_lt _ (pad_safe b))).
    change (cut_lt tag (LT :: expand R P false r)) with ((LT :: close_any ++ LT :: tag ++ [GT]) ++ cut_lt tag (expand R P false r)).
    reflexivity.
  - cbn [app at_start]. rewrite !expand_cons. destruct (N.eqb_spec c NL) as [->|Hnl].
    + destruct (IH true) as [E1 E2]. rewrite E1, E2. split; [|reflexivity].
      rewrite cut_lt_app, (cut_lt_id tag R (safe_no_lt R HR)). reflexivity.
    + destruct (IH false) as [E1 E2]. rewrite E1, E2. split; [|reflexivity].
      rewrite cut_lt_app, (cut_lt_id tag _ (safe_no_lt _ (pad_safe b))).
      change (cut_lt tag (c :: expand R P false r)) with ((if N.eqb c LT then LT :: close_any ++ LT :: tag ++ [GT] else [c]) ++ cut_lt tag (expand R P false r)).
      destruct (N.eqb_spec c LT); [contradiction|reflexivity].
Qed.

(* doubling the backslash before a '<' *)
Lemma double_bsl_safe_app p y : no_bsl p -> double_bsl (p ++ y) = p ++ double_bsl y.
Proof. induction 1 as [|c p Hc Hp IH]; [reflexivity|]. cbn [app]. now rewrite (double_bsl_head c _ Hc), IH. Qed.
Lemma expand_double_bsl : forall s b,
  expand R P b (double_bsl s) = double_bsl (expand R P b s) /\ at_start b (double_bsl s) = at_start b s.
Proof.
  induction s as [|c|c d r IHr IHd] using list_ind2; intros b; [split; reflexivity| |].
  - split; [|reflexivity]. cbn [double_bsl]. rewrite expand_cons. cbn [expand]. destruct (N.eqb c NL).
    + rewrite (double_bsl_safe_app R [] (safe_no_bsl R HR)). reflexivity.
    + rewrite (double_bsl_safe_app _ [c] (safe_no_bsl _ (pad_safe b))). reflexivity.
  - rewrite double_bsl_cons2. destruct (N.eqb_spec c BSL) as [->|Hc]; cbn [andb].
    + destruct (N.eqb_spec d LT) as [->|Hd].
      * destruct (IHd false) as [E1 E2]. split; [|cbn [at_start] in *; exact E2].
        change (expand R P b (BSL :: BSL :: double_bsl (LT :: r))) with (pad P b ++ BSL :: BSL :: expand R P false (double_bsl (LT :: r))).
        change (expand R P b (BSL :: LT :: r)) with (pad P b ++ BSL :: LT :: expand R P false r).
        change (expand R P false (LT :: r)) with (LT :: expand R P false r) in E1.
        rewrite (double_bsl_safe_app _ _ (safe_no_bsl _ (pad_safe b))), double_bsl_cons2.
        change (N.eqb BSL BSL && N.eqb LT LT) with true. cbv iota. rewrite <- E1. reflexivity.
      * destruct (IHd false) as [E1 E2]. split; [|cbn [at_start] in *; exact E2].
        change (expand R P b (BSL :: double_bsl (d :: r))) with (pad P b ++ BSL :: expand R P false (double_bsl (d :: r))).
        change (expand R P b (BSL :: d :: r)) with (pad P b ++ BSL :: expand R P false (d :: r)).
        rewrite E1, (double_bsl_safe_app _ _ (safe_no_bsl _ (pad_safe b))).
        destruct (expand_false_head R P d r HRne) as (x & tl & Ex & Hx1 & Hx2). rewrite Ex, double_bsl_cons2.
        assert (x <> LT) as Hxlt.
        { destruct (N.eqb_spec d NL) as [Hdn|Hdn]; [|rewrite (Hx1 Hdn); exact Hd].
          destruct (Hx2 Hdn) as (R' & ER). rewrite ER in HR. inversion HR as [|? ? [H1 _] _]. exact H1. }
        destruct (N.eqb_spec x LT); [contradiction|]. rewrite Bool.andb_false_r. reflexivity.
    + split; [|cbn [at_start]; apply IHd].
      change (expand R P b (c :: double_bsl (d :: r)))
        with (if N.eqb c NL then R ++ expand R P true (double_bsl (d :: r)) else pad P b ++ c :: expand R P false (double_bsl (d :: r))).
      change (expand R P b (c :: d :: r))
        with (if N.eqb c NL then R ++ expand R P true (d :: r) else pad P b ++ c :: expand R P false (d :: r)).
      destruct (N.eqb c NL).
      * destruct (IHd true) as [E1 _]. rewrite E1, (double_bsl_safe_app R _ (safe_no_bsl R HR)). reflexivity.
      * destruct (IHd false) as [E1 _]. rewrite E1, (double_bsl_safe_app _ _ (safe_no_bsl _ (pad_safe b))), (double_bsl_head c _ Hc). reflexivity.
Qed.

(* the last character stays the last one *)
Lemma expand_snoc s c b : expand R P b (s ++ [c]) = expand R P b s ++ (if N.eqb c NL then R else pad P (at_start b s) ++ [c]).
Proof. rewrite expand_app. cbn [expand]. destruct (N.eqb c NL); now rewrite ?app_nil_r. Qed.
Lemma ends_snoc s c : ends_with_bsl (s ++ [c]) = N.eqb c BSL.
Proof. now rewrite ends_app. Qed.
Lemma expand_ends s b : ends_with_bsl (expand R P b s) = ends_with_bsl s.
Proof.
  destruct s as [|c s] using rev_ind; [reflexivity|]. rewrite expand_snoc, ends_snoc, ends_app. destruct (N.eqb_spec c NL) as [->|Hc].
  - destruct R as [|x R']; [congruence|]. apply no_bsl_ends, safe_no_bsl, HR.
  - destruct (pad P (at_start b s) ++ [c]) as [|y l] eqn:E; [destruct (pad P (at_start b s)); discriminate|]. rewrite <- E. apply ends_snoc.
Qed.
Lemma ends_bsl_not_start s b : ends_with_bsl s = true -> at_start b s = false.
Proof.
  destruct s as [|c s] using rev_ind; [discriminate|]. rewrite ends_snoc, at_start_app. cbn [at_start]. intros H.
  apply N.eqb_eq in H. subst. reflexivity.
Qed.

(* the machine goes through _literal *)
Lemma expand_literal tag s b : tag_name tag ->
  expand R P b (literal s tag) = literal (expand R P b s) tag /\ at_start b (literal s tag) = at_start b s.
Proof.
  intros Hn. unfold literal. rewrite expand_ends.
  destruct (expand_cut_lt tag Hn (double_bsl s) b) as [C1 C2]. destruct (expand_double_bsl s b) as [D1 D2].
  destruct (ends_with_bsl s) eqn:E.
  - rewrite expand_app, at_start_app, C1, C2, D1, D2, (ends_bsl_not_start s b E). split; reflexivity.
  - rewrite C1, C2, D1, D2. split; reflexivity.
Qed.
(* a safe text after a literal that does not end with a backslash joins it *)
Lemma literal_app_safe tag x y : ends_with_bsl x = false -> safe y -> literal (x ++ y) tag = literal x tag ++ y.
Proof.
  intros Hx Hy. destruct y as [|c y]; [now rewrite !app_nil_r|]. unfold literal.
  rewrite ends_app, Hx, (no_bsl_ends _ (safe_no_bsl _ Hy)).
  assert (forall a, double_bsl (a ++ c :: y) = double_bsl a ++ c :: y) as HD.
  { inversion Hy as [|? ? [Hc1 Hc2] Hy']; subst.
    induction a as [|e|e d r IHr IHd] using list_ind2.
    - cbn [app]. now rewrite (double_bsl_id _ (safe_no_bsl _ Hy)).
    - cbn [app]. rewrite double_bsl_cons2. destruct (N.eqb_spec c LT); [contradiction|]. rewrite Bool.andb_false_r.
      now rewrite (double_bsl_id _ (safe_no_bsl _ Hy)).
    - cbn [app] in *. rewrite !double_bsl_cons2. destruct (N.eqb e BSL && N.eqb d LT); cbn [app]; now rewrite IHd. }
  rewrite HD, cut_lt_app, (cut_lt_id tag _ (safe_no_lt _ Hy)). reflexivity.
Qed.
End Expand.

(* the message line: the replace goes through _literal *)
Definition msg_text (m : str) : str := replace [NL] nl_indent m.
Lemma nl_indent_safe : safe nl_indent. Proof. safe_by_compute. Qed.
Lemma msg_literal m tag : tag_name tag -> replace [NL] nl_indent (literal m tag) = literal (msg_text m) tag.
Proof.
  intros Hn. unfold msg_text. rewrite !(replace_nl_expand nl_indent _ false).
  apply (expand_literal nl_indent [] nl_indent_safe ltac:(discriminate) safe_nil tag m false Hn).
Qed.

Section Good2.
Variable sty : styles.
Hypothesis Herr : resolvable sty st_error.
Hypothesis Hb : resolvable sty st_b.

Definition msg_pieces (x : exn_case) : list piece := [PNamed st_b (msg_text (x_msg x))].
Lemma msg_line_pieces x : msg_line x = line_str (msg_pieces x).
Proof.
  unfold msg_line, msg_pieces, line_str. cbn [flat_map piece_str]. rewrite (msg_literal _ st_b st_b_name), app_nil_r. reflexivity.
Qed.
Lemma msg_pieces_ok x : pieces_ok sty (msg_pieces x).
Proof. constructor; [split; [apply st_b_name|exact Hb]|constructor]. Qed.

(* ---- every line of the report is good ---- *)
Notation goodw := (fun wl : wline => good_line sty (snd wl)).
Lemma good_render_line ind l nl extra : good_line sty l -> Forall goodw (render_line ind l nl extra).
Proof.
  intros Hl. unfold render_line. apply Forall_app. split; [destruct nl; constructor; [apply good_nil|constructor]|].
  constructor; [|constructor]. cbn [snd]. apply good_app; [apply good_raw, safe_repeat32|exact Hl].
Qed.
Lemma good_frame_text f : good_line sty (frame_text f).
Proof.
  unfold frame_text, plain_code. destruct (f_linetoks f) as [toks| |]; try apply good_styled.
  pose proof (good_split_to_lines sty toks) as HG. destruct (split_to_lines toks) as [|l r]; [apply good_styled|].
  inversion HG; subst. assumption.
Qed.
Lemma good_frame_code c ind w f ls : frame_code c ind w f = Ok ls -> Forall goodw ls.
Proof.
  destruct (t_debug c) eqn:ED.
  - destruct (frame_code_debug c ind w f ED) as (sn & E & ->). intros H.
    assert (ls = flat_map (fun l => render_line ind (rjust [32%N] w ++ l) false 1) sn) as -> by (injection H; intros; symmetry; assumption).
    apply Forall_flat_map. eapply Forall_impl; [|apply (good_snippet_of sty c _ _ _ _ _ E)].
    intros l Hl. apply good_render_line. apply good_app; [apply good_raw, safe_rjust; safe_by_compute|exact Hl].
  - rewrite (frame_code_verbose c ind w f ED). intros H.
    assert (ls = render_line ind (rjust [32%N] w ++ [32; 32]%N ++ frame_text f) false 0) as -> by (injection H; intros; symmetry; assumption).
    apply good_render_line. apply good_app; [apply good_raw, safe_rjust; safe_by_compute|].
    apply good_app; [apply good_raw; safe_by_compute|apply good_frame_text].
Qed.
Lemma good_frames_lines c ind w : forall fs i ls i', frames_lines c ind w fs i = Ok (ls, i') -> Forall goodw ls.
Proof.
  induction fs as [|f fs IH]; intros i ls i' H; cbn [frames_lines] in H; [injection H as <- <-; constructor|].
  destruct (frame_code c ind w f) as [code|e] eqn:EC; cbn [bind] in H; [|discriminate].
  destruct (frames_lines c ind w fs (i - 1)) as [[rest j]|e] eqn:E; cbn [bind fst snd] in H; [|discriminate].
  assert (ls = render_line ind (frame_line c w f i) true 0 ++ code ++ rest) as -> by (injection H; intros; symmetry; assumption).
  apply Forall_app. split; [apply good_render_line, (good_frame_line sty Hb)|].
  apply Forall_app. split; [apply (good_frame_code _ _ _ _ _ EC)|apply (IH _ _ _ E)].
Qed.
Lemma good_colls_lines c ind w : forall cs i ls, colls_lines c ind w cs i = Ok ls -> Forall goodw ls.
Proof.
  induction cs as [|cl cs IH]; intros i ls H; cbn [colls_lines] in H; [injection H as <-; constructor|].
  destruct (frames_lines c ind w (c_frames cl) _) as [[fl j]|e] eqn:E; cbn [bind fst snd] in H; [|discriminate].
  destruct (colls_lines c ind w cs j) as [rest|e] eqn:E2; cbn [bind] in H; [|discriminate].
  assert (ls = (if coll_repeated cl then render_line ind (fold_line w (zlen (c_frames cl)) (c_count cl - 1)) true 0 else []) ++ fl ++ rest) as ->
    by (injection H; intros; symmetry; assumption).
  apply Forall_app. split.
  - destruct (coll_repeated cl); [|constructor]. apply good_render_line, (good_fold sty).
  - apply Forall_app. split; [apply (good_frames_lines _ _ _ _ _ _ _ E)|apply (IH _ _ E2)].
Qed.
Lemma good_render_trace c ind fs ls : render_trace c ind fs = Ok ls -> Forall goodw ls.
Proof.
  unfold render_trace. destruct (t_verbose c && negb (zlen (kept_frames c fs) - 1 =? 0)%Z); [|intros H; injection H as <-; constructor].
  destruct (colls_lines c ind _ _ _) as [l|e] eqn:E; cbn [bind]; [|discriminate]. intros H.
  assert (ls = render_line ind s_stack true 0 ++ l) as -> by (injection H; intros; symmetry; assumption).
  apply Forall_app. split; [apply good_render_line, good_stack|apply (good_colls_lines _ _ _ _ _ _ E)].
Qed.
Lemma good_render_snippet c ind f ls : render_snippet c ind f = Ok ls -> Forall goodw ls.
Proof.
  unfold render_snippet. destruct (snippet_of c (f_content f) (f_lineno f) 4 4) as [sn|e] eqn:E; cbn [bind]; [|discriminate].
  intros H. assert (ls = render_line ind (s_at ++ location c st_green f) true 0 ++ flat_map (fun l => render_line (ind + 2) l false 0) sn) as ->
    by (injection H; intros; symmetry; assumption).
  apply Forall_app. split; [apply good_render_line, (good_at_line sty Hb)|].
  apply Forall_flat_map. eapply Forall_impl; [|apply (good_snippet_of sty c _ _ _ _ _ E)]. intros l Hl. apply good_render_line, Hl.
Qed.
Lemma good_name_line x : good_line sty (name_line x).
Proof. exists (name_pieces x). split; [apply name_pieces_ok, Herr|apply name_line_pieces]. Qed.
Lemma good_msg_line x : good_line sty (msg_line x).
Proof. exists (msg_pieces x). split; [apply msg_pieces_ok|apply msg_line_pieces]. Qed.
Lemma good_render_exception c ind x ls : render_exception c ind x = Ok ls -> Forall goodw ls.
Proof.
  intros H. destruct (x_frames x) as [|f0 fs] eqn:EF.
  - unfold render_exception in H. rewrite EF in H. injection H as <-. constructor.
  - assert (x_frames x <> []) as Hne by (rewrite EF; discriminate).
    pose proof H as H0. unfold render_exception in H0. rewrite EF in H0.
    destruct (render_trace c ind (f0 :: fs)) as [tr'|e] eqn:ET; cbn [bind] in H0; [|discriminate].
    destruct (render_snippet c ind _) as [sn'|e] eqn:ES; cbn [bind] in H0; [|discriminate].
    assert (ls = tr' ++ render_line ind (name_line x) true 0 ++ [(ind, [])] ++ render_line ind (msg_line x) false 0 ++ sn') as ->
      by (injection H0; intros; symmetry; assumption).
    apply Forall_app. split; [apply (good_render_trace _ _ _ _ ET)|].
    apply Forall_app. split; [apply good_render_line, good_name_line|].
    apply Forall_app. split; [constructor; [apply good_nil|constructor]|].
    apply Forall_app. split; [apply good_render_line, good_msg_line|apply (good_render_snippet _ _ _ _ ES)].
Qed.
(* 1. every line handed to write_line is a line of literals and safe separators *)
Theorem render_lines_good c simple ind x ls :
  render_lines c simple ind x = Ok ls -> Forall (fun wl => good_line sty (snd wl)) ls.
Proof.
  unfold render_lines. destruct simple.
  - intros H. injection H as <-. constructor; [|constructor]. exists (simple_pieces x). split; [apply simple_pieces_ok, Herr|apply simple_line_pieces].
  - apply good_render_exception.
Qed.
(* with ESC-free lines, for the decorated case *)
Corollary render_lines_good_ne c simple ind x ls :
  render_lines c simple ind x = Ok ls -> Forall (fun wl => no_esc (snd wl)) ls -> Forall (fun wl => good_line_ne sty (snd wl)) ls.
Proof.
  intros H Hne. pose proof (render_lines_good c simple ind x ls H) as HG. rewrite Forall_forall in *.
  intros wl Hin. apply good_noesc; [apply HG, Hin|apply Hne, Hin].
Qed.
End Good2.

(* ------------------------------------------------------------------ 2. indentation keeps lines good *)
Lemma expand_Forall (Q : N -> Prop) R P : Forall Q R -> Forall Q P -> forall s b, Forall Q s -> Forall Q (expand R P b s).
Proof.
  intros HR HP. induction s as [|c r IH]; intros b Hs; [constructor|]. inversion Hs as [|? ? Hc Hr]; subst. rewrite expand_cons.
  destruct (N.eqb c NL).
  - apply Forall_app. split; [exact HR|apply IH, Hr].
  - apply Forall_app. split; [destruct b; [exact HP|constructor]|]. constructor; [exact Hc|apply IH, Hr].
Qed.

(* Output's indentation is the machine with R = the line break, P = the blanks, started at a line start *)
Definition indent_rest (n : Z) (b : bool) (ls : list str) : list str :=
  match ls with [] => [] | l :: r => (if b then indent_line n l else l) :: map (indent_line n) r end.
Lemma expand_join n : forall s b, expand [NL] (spaces n) b s = join_with NL (indent_rest n b (split_on NL s)).
Proof.
  induction s as [|c r IH]; intros b; [destruct b; reflexivity|]. rewrite expand_cons. cbn [split_on].
  pose proof (split_on_nonempty NL r) as Hne. destruct (N.eqb_spec c NL) as [->|Hc].
  - rewrite (IH true). destruct (split_on NL r) as [|l ls]; [congruence|]. destruct b; reflexivity.
  - rewrite (IH false). destruct (split_on NL r) as [|l ls]; [congruence|]. cbn [indent_rest indent_line].
    destruct ls as [|l2 ls]; destruct b; cbn [pad map join_with app]; rewrite <- ?app_assoc; reflexivity.
Qed.
Lemma indent_text_expand n s : indent_text n s = expand [NL] (spaces n) true s.
Proof.
  rewrite expand_join. unfold indent_text. pose proof (split_on_nonempty NL s) as Hne.
  destruct (split_on NL s) as [|l ls]; [congruence|reflexivity].
Qed.

Definition NLs : str := [NL].
Lemma NLs_safe : safe NLs. Proof. safe_by_compute. Qed.
Lemma NLs_ne : NLs <> []. Proof. discriminate. Qed.

(* the text between two tags: the blanks also come after a final line break (the closing tag follows it) *)
Definition ind_text (n : Z) (s : str) : str := expand NLs (spaces n) false s ++ pad (spaces n) (at_start false s).
Definition ind_piece (n : Z) (b : bool) (p : piece) : list piece :=
  match p with
  | PRaw t => [PRaw (expand NLs (spaces n) b t)]
  | PLit tag s => [PRaw (pad (spaces n) b); PLit tag (ind_text n s)]
  | PNamed nm s => [PRaw (pad (spaces n) b); PNamed nm (ind_text n s)]
  end.
Definition piece_start (b : bool) (p : piece) : bool := match p with PRaw t => at_start b t | _ => false end.
Fixpoint ind_pieces (n : Z) (b : bool) (ps : list piece) : list piece :=
  match ps with [] => [] | p :: r => ind_piece n b p ++ ind_pieces n (piece_start b p) r end.

Lemma literal_ind_text n tag s : tag_name tag ->
  expand NLs (spaces n) false (literal s tag) ++ pad (spaces n) (at_start false (literal s tag)) = literal (ind_text n s) tag.
Proof.
  intros Hn. destruct (expand_literal NLs (spaces n) NLs_safe NLs_ne (safe_spaces n) tag s false Hn) as [E1 E2].
  rewrite E1, E2. unfold ind_text. destruct (at_start false s) eqn:ES; [|cbn [pad]; now rewrite !app_nil_r].
  symmetry. apply literal_app_safe; [|apply safe_spaces].
  rewrite (expand_ends NLs (spaces n) NLs_safe NLs_ne). destruct (ends_with_bsl s) eqn:EB; [|reflexivity].
  rewrite (ends_bsl_not_start s false EB) in ES. discriminate.
Qed.
Lemma ind_wrapped n b o cl tag s : tag_name tag -> no_nl o -> o <> [] -> no_nl cl -> cl <> [] ->
  expand NLs (spaces n) b (o ++ literal s tag ++ cl) = pad (spaces n) b ++ o ++ literal (ind_text n s) tag ++ cl
  /\ at_start b (o ++ literal s tag ++ cl) = false.
Proof.
  intros Hn Ho Hone Hc Hcne. split.
  - rewrite (expand_block _ _ o _ b Ho Hone), expand_app, (expand_no_nl _ _ cl _ Hc Hcne),
      (app_assoc (expand NLs (spaces n) false (literal s tag))), (literal_ind_text n tag s Hn). reflexivity.
  - rewrite (at_start_block o _ b Ho Hone), at_start_app. apply (at_start_no_nl cl _ Hc Hcne).
Qed.
Lemma ind_piece_str sty n b p : piece_ok sty p ->
  expand NLs (spaces n) b (piece_str p) = line_str (ind_piece n b p) /\ at_start b (piece_str p) = piece_start b p.
Proof.
  destruct p as [t|tag s|nm s]; cbn [piece_ok piece_str ind_piece piece_start line_str flat_map].
  - intros _. rewrite app_nil_r. split; reflexivity.
  - intros [Hn _]. rewrite !tagged_eq, app_nil_r.
    destruct (ind_wrapped n b (open_tag tag) close_any tag s Hn (open_tag_no_nl tag Hn) ltac:(discriminate) close_any_no_nl ltac:(discriminate)) as [E1 E2].
    rewrite E1, E2. split; reflexivity.
  - intros [Hn _]. rewrite app_nil_r.
    destruct (ind_wrapped n b (open_tag nm) (close_tag nm) nm s Hn (open_tag_no_nl nm Hn) ltac:(discriminate) (close_tag_no_nl nm Hn) ltac:(discriminate)) as [E1 E2].
    rewrite E1, E2. split; reflexivity.
Qed.
Lemma ind_pieces_str sty n : forall ps b, pieces_ok sty ps ->
  expand NLs (spaces n) b (line_str ps) = line_str (ind_pieces n b ps).
Proof.
  induction ps as [|p r IH]; intros b Hok; [reflexivity|]. inversion Hok as [|? ? Hp Hr]; subst.
  change (line_str (p :: r)) with (piece_str p ++ line_str r). cbn [ind_pieces]. rewrite line_str_app, expand_app.
  destruct (ind_piece_str sty n b p Hp) as [E1 E2]. rewrite E1, E2, (IH _ Hr). reflexivity.
Qed.
Lemma ind_piece_ok sty n b p : piece_ok sty p -> pieces_ok sty (ind_piece n b p).
Proof.
  destruct p as [t|tag s|nm s]; cbn [piece_ok ind_piece]; intros H.
  - constructor; [|constructor]. cbn [piece_ok]. apply expand_Forall; [apply NLs_safe|apply safe_spaces|exact H].
  - constructor; [apply pad_safe, safe_spaces|]. constructor; [exact H|constructor].
  - constructor; [apply pad_safe, safe_spaces|]. constructor; [exact H|constructor].
Qed.
Lemma ind_pieces_ok sty n : forall ps b, pieces_ok sty ps -> pieces_ok sty (ind_pieces n b ps).
Proof.
  induction ps as [|p r IH]; intros b Hok; [constructor|]. inversion Hok as [|? ? Hp Hr]; subst. cbn [ind_pieces].
  apply Forall_app. split; [apply ind_piece_ok, Hp|apply IH, Hr].
Qed.
Lemma spaces_noesc n : no_esc (spaces n).
Proof. unfold spaces. induction (Z.to_nat n); cbn [repeat]; constructor; [discriminate|assumption]. Qed.
Lemma pad_noesc n b : no_esc (pad (spaces n) b). Proof. destruct b; [apply spaces_noesc|constructor]. Qed.
Lemma ind_text_noesc n s : no_esc s -> no_esc (ind_text n s).
Proof.
  intros H. unfold ind_text. apply Forall_app. split; [|apply pad_noesc].
  apply expand_Forall; [repeat constructor; discriminate|apply spaces_noesc|exact H].
Qed.
Lemma ind_pieces_noesc n : forall ps b, pieces_noesc ps -> pieces_noesc (ind_pieces n b ps).
Proof.
  induction ps as [|p r IH]; intros b H; [constructor|]. inversion H as [|? ? Hp Hr]; subst. cbn [ind_pieces].
  apply Forall_app. split; [|apply IH, Hr].
  destruct p as [t|tag s|nm s]; cbn [piece_noesc ind_piece] in *.
  - constructor; [|constructor]. cbn [piece_noesc]. apply expand_Forall; [repeat constructor; discriminate|apply spaces_noesc|exact Hp].
  - constructor; [apply pad_noesc|]. constructor; [apply ind_text_noesc, Hp|constructor].
  - constructor; [apply pad_noesc|]. constructor; [apply ind_text_noesc, Hp|constructor].
Qed.

(* 2. the indented line is the line of the indented pieces *)
Theorem indent_text_pieces sty n ps : pieces_ok sty ps -> indent_text n (line_str ps) = line_str (ind_pieces n true ps).
Proof. intros H. rewrite indent_text_expand. apply (ind_pieces_str sty n ps true H). Qed.
Theorem indent_good sty n l : good_line sty l -> good_line sty (indent_text n l).
Proof.
  intros (ps & Hok & ->). exists (ind_pieces n true ps). split; [apply ind_pieces_ok, Hok|apply (indent_text_pieces sty), Hok].
Qed.
Theorem indent_good_ne sty n l : good_line_ne sty l -> good_line_ne sty (indent_text n l).
Proof.
  intros (ps & Hok & Hne & ->). exists (ind_pieces n true ps).
  split; [apply ind_pieces_ok, Hok|]. split; [apply ind_pieces_noesc, Hne|apply (indent_text_pieces sty), Hok].
Qed.

(* ------------------------------------------------------------------ 3. writing a good line never fails *)
Definition ansi_kind (k : fkind) : bool := match k with FAnsi _ => true | _ => false end.
(* the output decorates: formatting is on and the formatter is the ANSI one *)
Definition decorated (o : outp) : bool := o_on o && ansi_kind (f_kind (o_fmt o)).
(* an ordinary output (not a section) with a pastel formatter (ANSI or plain) whose style stack is empty *)
Definition out_ok (sty : styles) (o : outp) : Prop :=
  o_sec o = false /\ f_kind (o_fmt o) <> FNull /\ f_stack (o_fmt o) = [] /\ f_styles (o_fmt o) = sty.
(* the pieces of the line once Output.write has indented it *)
Definition wpieces (ind : Z) (ps : list piece) : list piece := if (0 <? ind)%Z then ind_pieces ind true ps else ps.
Definition windent (ind : Z) (s : str) : str := if (0 <? ind)%Z then indent_text ind s else s.

Lemma wpieces_str sty ind ps : pieces_ok sty ps -> windent ind (line_str ps) = line_str (wpieces ind ps).
Proof. intros H. unfold windent, wpieces. destruct (0 <? ind)%Z; [apply (indent_text_pieces sty), H|reflexivity]. Qed.
Lemma wpieces_ok sty ind ps : pieces_ok sty ps -> pieces_ok sty (wpieces ind ps).
Proof. intros H. unfold wpieces. destruct (0 <? ind)%Z; [apply ind_pieces_ok, H|exact H]. Qed.
Lemma wpieces_noesc ind ps : pieces_noesc ps -> pieces_noesc (wpieces ind ps).
Proof. intros H. unfold wpieces. destruct (0 <? ind)%Z; [apply ind_pieces_noesc, H|exact H]. Qed.

Lemma write_unfold o ind s : o_sec o = false ->
  write (with_indent o ind) s true true =
  do x <- (if o_on o then format (o_fmt o) (windent ind s) None else remove_format (o_fmt o) (windent ind s));
  Ok {| o_indent := ind; o_on := o_on o; o_sec := false; o_fmt := fst x; o_buf := o_buf o ++ snd x ++ [NL] |}.
Proof.
  intros H. unfold write, windent, with_buf, with_indent. cbn [o_indent o_on o_sec o_fmt o_buf]. rewrite H.
  cbn [andb orb bind]. rewrite Bool.andb_true_r. reflexivity.
Qed.

Lemma fmt_pieces sty f (on : bool) ps :
  f_kind f <> FNull -> f_stack f = [] -> f_styles f = sty -> pieces_ok sty ps ->
  (on && ansi_kind (f_kind f) = true -> pieces_noesc ps) ->
  exists text,
    (if on then format f (line_str ps) None else remove_format f (line_str ps))
    = Ok ({| f_kind := f_kind f; f_styles := f_styles f; f_stack := [] |}, text)
    /\ (if on && ansi_kind (f_kind f) then strip_sgr text else text) = flat_map piece_shown ps.
Proof.
  intros Hk Hs Hst Hok Hne. subst sty. destruct on.
  - unfold format. destruct (f_kind f) as [fb| |] eqn:EK; [| |congruence]; cbn [andb ansi_kind] in *.
    + destruct (line_decorated (f_styles f) (f_stack f) ps Hok (Hne eq_refl)) as (out & HC & HS).
      rewrite HC. cbn [bind fst snd]. rewrite Hs. exists out. split; [reflexivity|exact HS].
    + rewrite (line_plain (f_styles f) (f_stack f) ps Hok). cbn [bind fst snd]. rewrite Hs. eexists. split; reflexivity.
  - unfold remove_format. cbn [andb]. destruct (f_kind f) as [fb| |] eqn:EK; [| |congruence];
      rewrite (line_plain (f_styles f) (f_stack f) ps Hok); cbn [bind fst snd]; rewrite Hs; eexists; split; reflexivity.
Qed.

(* one write_line of a good line at indentation ind *)
Theorem write_pieces sty o ind ps :
  out_ok sty o -> pieces_ok sty ps -> (decorated o = true -> pieces_noesc ps) ->
  exists o' text,
    write (with_indent o ind) (line_str ps) true true = Ok o' /\
    out_ok sty o' /\ o_on o' = o_on o /\ f_kind (o_fmt o') = f_kind (o_fmt o) /\
    o_buf o' = o_buf o ++ text ++ [NL] /\
    (if decorated o then strip_sgr text else text) = flat_map piece_shown (wpieces ind ps).
Proof.
  intros (Hsec & Hk & Hs & Hst) Hok Hne. rewrite (write_unfold o ind _ Hsec), (wpieces_str sty ind ps Hok).
  destruct (fmt_pieces sty (o_fmt o) (o_on o) (wpieces ind ps) Hk Hs Hst (wpieces_ok sty ind ps Hok)) as (text & HF & HT).
  { intros Hd. apply wpieces_noesc, Hne, Hd. }
  rewrite HF. cbn [bind fst snd]. eexists. exists text. split; [reflexivity|].
  cbn [o_sec o_on o_fmt o_buf f_kind f_stack f_styles]. unfold out_ok. cbn [o_sec o_on o_fmt o_buf f_kind f_stack f_styles].
  repeat split; try assumption; try reflexivity.
Qed.
Corollary write_good sty o ind l : out_ok sty o -> good_line sty l -> (decorated o = true -> no_esc l) ->
  exists o', write (with_indent o ind) l true true = Ok o' /\ out_ok sty o' /\ o_on o' = o_on o /\ f_kind (o_fmt o') = f_kind (o_fmt o).
Proof.
  intros Ho (ps & Hok & ->) Hne. destruct (write_pieces sty o ind ps Ho Hok) as (o' & text & H1 & H2 & H3 & H4 & _).
  { intros Hd. apply line_noesc, Hne, Hd. }
  exists o'. split; [exact H1|]. split; [exact H2|]. split; [exact H3|exact H4].
Qed.

(* lines given by their pieces *)
Definition pline := (Z * list piece)%type.
Definition pline_w (p : pline) : wline := (fst p, line_str (snd p)).
Definition shown_line (p : pline) : str := flat_map piece_shown (wpieces (fst p) (snd p)) ++ [NL].

Lemma decorated_keep o o' : o_on o' = o_on o -> f_kind (o_fmt o') = f_kind (o_fmt o) -> decorated o' = decorated o.
Proof. intros H1 H2. unfold decorated. now rewrite H1, H2. Qed.

Theorem write_lines_pieces sty : forall (pls : list pline) o,
  out_ok sty o -> Forall (fun p => pieces_ok sty (snd p)) pls -> (decorated o = true -> Forall (fun p => pieces_noesc (snd p)) pls) ->
  exists o', write_lines o (map pline_w pls) = Ok o' /\ out_ok sty o' /\ o_on o' = o_on o /\ f_kind (o_fmt o') = f_kind (o_fmt o) /\
    (decorated o = false -> o_buf o' = o_buf o ++ flat_map shown_line pls).
Proof.
  induction pls as [|[ind ps] r IH]; intros o Ho Hok Hne.
  - exists o. cbn [map write_lines flat_map]. rewrite app_nil_r. split; [reflexivity|]. split; [exact Ho|]. repeat split; reflexivity.
  - inversion Hok as [|? ? Hp Hr]; subst. cbn [snd] in Hp.
    destruct (write_pieces sty o ind ps Ho Hp) as (o1 & text & HW & Ho1 & Hon1 & Hk1 & Hb1 & Ht1).
    { intros Hd. specialize (Hne Hd). inversion Hne; subst. assumption. }
    pose proof (decorated_keep o o1 Hon1 Hk1) as Hd1.
    destruct (IH o1 Ho1 Hr) as (o2 & HW2 & Ho2 & Hon2 & Hk2 & Hb2).
    { rewrite Hd1. intros Hd. specialize (Hne Hd). inversion Hne; subst. assumption. }
    exists o2. cbn [map write_lines pline_w fst snd]. rewrite HW. cbn [bind]. split; [exact HW2|]. split; [exact Ho2|].
    split; [congruence|]. split; [congruence|]. intros Hd. rewrite Hd1 in Hb2. rewrite (Hb2 Hd), Hb1. rewrite Hd in Ht1.
    cbn [flat_map]. change (shown_line (ind, ps)) with (flat_map piece_shown (wpieces ind ps) ++ [NL]). rewrite Ht1, <- !app_assoc. reflexivity.
Qed.

(* good lines are lines given by pieces *)
Lemma good_lines_pieces sty : forall ls, Forall (fun wl : wline => good_line sty (snd wl)) ls ->
  exists pls, ls = map pline_w pls /\ Forall (fun p => pieces_ok sty (snd p)) pls.
Proof.
  induction 1 as [|[ind l] r (ps & Hok & Hl) Hr (pls & E & Hpls)]; [exists []; split; [reflexivity|constructor]|].
  cbn [snd] in Hl. subst l r. exists ((ind, ps) :: pls). split; [reflexivity|]. constructor; assumption.
Qed.
Lemma pieces_lines_noesc : forall pls, Forall (fun wl : wline => no_esc (snd wl)) (map pline_w pls) -> Forall (fun p : pline => pieces_noesc (snd p)) pls.
Proof.
  induction pls as [|p r IH]; intros H; [constructor|]. cbn [map] in H. inversion H as [|? ? Hp Hr]; subst.
  constructor; [apply line_noesc, Hp|apply IH, Hr].
Qed.
Theorem write_lines_good sty ls o :
  out_ok sty o -> Forall (fun wl => good_line sty (snd wl)) ls -> (decorated o = true -> Forall (fun wl => no_esc (snd wl)) ls) ->
  exists o', write_lines o ls = Ok o' /\ out_ok sty o' /\ o_on o' = o_on o /\ f_kind (o_fmt o') = f_kind (o_fmt o).
Proof.
  intros Ho HG Hne. destruct (good_lines_pieces sty ls HG) as (pls & -> & Hpls).
  destruct (write_lines_pieces sty pls o Ho Hpls) as (o' & H1 & H2 & H3 & H4 & _).
  { intros Hd. apply pieces_lines_noesc, Hne, Hd. }
  exists o'. split; [exact H1|]. split; [exact H2|]. split; [exact H3|exact H4].
Qed.

(* ------------------------------------------------------------------ 4. render never fails *)
(* writing the lines cannot fail ... *)
Theorem render_never_fails_l sty c simple o x ls :
  out_ok sty o -> resolvable sty st_error -> resolvable sty st_b ->
  render_lines c simple (o_indent o) x = Ok ls ->
  (decorated o = true -> Forall (fun wl => no_esc (snd wl)) ls) ->
  exists bytes, render c simple o x = Ok bytes.
Proof.
  intros Ho Herr Hb HL Hne. unfold render. rewrite HL. cbn [bind].
  destruct (write_lines_good sty ls o Ho (render_lines_good sty Herr Hb c simple _ x ls HL) Hne) as (o' & HW & _).
  rewrite HW. cbn [bind]. eexists. reflexivity.
Qed.
(* undecorated: the bytes are the shown texts of the lines' (indented) pieces, line after line *)
Theorem render_plain_bytes_l sty c simple o x ls :
  out_ok sty o -> resolvable sty st_error -> resolvable sty st_b -> decorated o = false ->
  render_lines c simple (o_indent o) x = Ok ls ->
  exists pls, ls = map pline_w pls /\ Forall (fun p => pieces_ok sty (snd p)) pls /\
    render c simple o x = Ok (o_buf o ++ flat_map shown_line pls).
Proof.
  intros Ho Herr Hb Hd HL. destruct (good_lines_pieces sty ls (render_lines_good sty Herr Hb c simple _ x ls HL)) as (pls & E & Hpls).
  exists pls. split; [exact E|]. split; [exact Hpls|]. unfold render. rewrite HL. cbn [bind]. subst ls.
  destruct (write_lines_pieces sty pls o Ho Hpls) as (o' & HW & _ & _ & _ & HB); [rewrite Hd; discriminate|].
  rewrite HW. cbn [bind]. now rewrite (HB Hd).
Qed.

(* ... and the lines always exist (render_lines_total): the renderer catches what reading / tokenizing a source raises,
   so nothing is asked of tokenize any more.  x, the exception case, is arbitrary: any frames, token streams or
   failures of tokenize, in either report mode, at every verbosity. *)
Definition dflt_frame : frame :=
  {| f_file := []; f_ignored := false; f_lineno := 0; f_func := []; f_line := []; f_content := TokError; f_linetoks := TokError |}.
Definition trace_printed (c : tcfg) (fs : list frame) : bool := t_verbose c && negb (zlen (kept_frames c fs) - 1 =? 0)%Z.
Lemma bind_ok {X Y} (r : res X) (f : X -> res Y) : (exists y, bind r f = Ok y) <-> exists x, r = Ok x /\ exists y, f x = Ok y.
Proof.
  split.
  - intros (y & H). destruct r as [x|e]; cbn [bind] in H; [|discriminate]. exists x. split; [reflexivity|]. exists y. exact H.
  - intros (x & -> & y & H). exists y. exact H.
Qed.
Theorem render_lines_simple_ok c ind x : exists ls, render_lines c true ind x = Ok ls.
Proof. apply render_lines_total. Qed.

(* 4b. an output that does not decorate (plain formatter, or formatting off): render succeeds - for EVERY exception
   case, no hypothesis on it at all *)
Theorem render_never_fails_plain sty c simple o x :
  out_ok sty o -> resolvable sty st_error -> resolvable sty st_b -> decorated o = false ->
  exists bytes, render c simple o x = Ok bytes.
Proof.
  intros Ho Herr Hb Hd. destruct (render_lines_total c simple (o_indent o) x) as (ls & HL).
  apply (render_never_fails_l sty c simple o x ls Ho Herr Hb HL). rewrite Hd. discriminate.
Qed.
(* 4c. any output: render succeeds when - if the output decorates - no line holds ESC *)
Theorem render_never_fails sty c simple o x :
  out_ok sty o -> resolvable sty st_error -> resolvable sty st_b ->
  (decorated o = true -> forall ls, render_lines c simple (o_indent o) x = Ok ls -> Forall (fun wl => no_esc (snd wl)) ls) ->
  exists bytes, render c simple o x = Ok bytes.
Proof.
  intros Ho Herr Hb Hne. destruct (render_lines_total c simple (o_indent o) x) as (ls & HL).
  apply (render_never_fails_l sty c simple o x ls Ho Herr Hb HL). intros Hd. apply (Hne Hd ls HL).
Qed.
(* the renderer's result is never an error of render_lines: a failure of render, if any, is a failure of writing *)
Theorem render_err_is_write_err c simple o x e :
  render c simple o x = Err e -> exists ls, render_lines c simple (o_indent o) x = Ok ls /\ write_lines o ls = Err e.
Proof.
  unfold render. destruct (render_lines_total c simple (o_indent o) x) as (ls & ->). cbn [bind]. intros H.
  exists ls. split; [reflexivity|]. destruct (write_lines o ls) as [o'|e']; cbn [bind] in H; [discriminate|congruence].
Qed.

(* ------------------------------------------------------------------ 5. what the undecorated bytes say *)
(* the text between two tags after indentation: every line but the first gets the blanks (empty lines stay empty),
   and so does the closing tag after a final line break *)
Lemma ind_text_lines n s :
  ind_text n s = join_with NL (indent_rest n false (split_on NL s)) ++ pad (spaces n) (at_start false s).
Proof. unfold ind_text. now rewrite <- expand_join. Qed.
Lemma ind_text_no_nl n s : no_nl s -> ind_text n s = s.
Proof.
  intros Hs. unfold ind_text. destruct s as [|c r]; [reflexivity|].
  rewrite (expand_no_nl NLs (spaces n) (c :: r) false Hs ltac:(discriminate)), (at_start_no_nl (c :: r) false Hs ltac:(discriminate)).
  cbn [pad]. rewrite app_nil_r. reflexivity.
Qed.
Lemma msg_text_no_nl m : no_nl m -> msg_text m = m.
Proof.
  intros Hm. unfold msg_text. rewrite replace_single. induction Hm as [|c r Hc Hr IH]; [reflexivity|]. cbn [flat_map].
  destruct (N.eqb_spec c NL); [contradiction|]. now rewrite IH.
Qed.
(* the message as the full report shows it: two blanks after every line break *)
Lemma msg_text_spec m : msg_text m = flat_map (fun c => if N.eqb c NL then [NL; 32; 32]%N else [c]) m.
Proof. apply replace_single. Qed.

Lemma shown_line_blank ind : shown_line (ind, []) = [NL].
Proof. unfold shown_line, wpieces. cbn [fst snd]. destruct (0 <? ind)%Z; reflexivity. Qed.
Lemma shown_line_named ind nm s :
  shown_line (ind, [PNamed nm s])
  = (if (0 <? ind)%Z then spaces ind ++ shown (ind_text ind s) else shown s) ++ [NL].
Proof.
  unfold shown_line, wpieces. cbn [fst snd]. destruct (0 <? ind)%Z; cbn [ind_pieces ind_piece app flat_map piece_shown pad]; now rewrite !app_nil_r.
Qed.

(* simple mode: the message, shown (a blank after a trailing backslash), indented, and a line break *)
Theorem simple_bytes sty c o x : out_ok sty o -> resolvable sty st_error -> decorated o = false ->
  render c true o x
  = Ok (o_buf o ++ (if (0 <? o_indent o)%Z then spaces (o_indent o) ++ shown (ind_text (o_indent o) (x_msg x)) else shown (x_msg x)) ++ [NL]).
Proof.
  intros Ho Herr Hd. unfold render, render_lines. cbn [bind]. rewrite simple_line_pieces.
  destruct (write_lines_pieces sty [(o_indent o, simple_pieces x)] o Ho) as (o' & HW & _ & _ & _ & HB).
  { constructor; [apply simple_pieces_ok, Herr|constructor]. }
  { rewrite Hd. discriminate. }
  match goal with |- bind ?w _ = _ => replace w with (@Ok outp o') by (symmetry; exact HW) end. cbn [bind]. rewrite (HB Hd). cbn [flat_map]. unfold simple_pieces. rewrite shown_line_named, app_nil_r. reflexivity.
Qed.
Corollary simple_bytes_0 sty c o x : out_ok sty o -> resolvable sty st_error -> decorated o = false -> (o_indent o <= 0)%Z ->
  render c true o x = Ok (o_buf o ++ shown (x_msg x) ++ [NL]).
Proof.
  intros Ho Herr Hd Hi. rewrite (simple_bytes sty c o x Ho Herr Hd). destruct (Z.ltb_spec 0 (o_indent o)); [lia|reflexivity].
Qed.
Corollary simple_bytes_one_line sty c o x : out_ok sty o -> resolvable sty st_error -> decorated o = false -> (0 <= o_indent o)%Z ->
  no_nl (x_msg x) -> render c true o x = Ok (o_buf o ++ spaces (o_indent o) ++ shown (x_msg x) ++ [NL]).
Proof.
  intros Ho Herr Hd Hi Hm. rewrite (simple_bytes sty c o x Ho Herr Hd), (ind_text_no_nl _ _ Hm).
  destruct (Z.ltb_spec 0 (o_indent o)) as [|Hle]; [now rewrite <- app_assoc|].
  assert (o_indent o = 0%Z) as -> by lia. reflexivity.
Qed.

(* full mode: the stack trace (if any), a blank line, the class name, a blank line, the message block, the snippet *)
(* from the pieces of the trace lines and of the snippet lines *)
Theorem full_bytes_of_pieces sty c o x tr_p sn_p :
  out_ok sty o -> resolvable sty st_error -> resolvable sty st_b -> decorated o = false -> (0 <= o_indent o)%Z ->
  x_frames x <> [] ->
  let ind := (o_indent o + 2)%Z in
  render_trace c ind (x_frames x) = Ok (map pline_w tr_p) -> Forall (fun p => pieces_ok sty (snd p)) tr_p ->
  render_snippet c ind (last (x_frames x) dflt_frame) = Ok (map pline_w sn_p) -> Forall (fun p => pieces_ok sty (snd p)) sn_p ->
  render c false o x
  = Ok (o_buf o ++ flat_map shown_line tr_p
          ++ [NL] ++ spaces ind ++ shown (ind_text ind (x_name x)) ++ [NL]
          ++ [NL] ++ spaces ind ++ shown (ind_text ind (msg_text (x_msg x))) ++ [NL]
          ++ flat_map shown_line sn_p).
Proof.
  intros Ho Herr Hb Hd Hi Hne ind ET Htr ES Hsn.
  set (mid := [(ind, []); (ind, name_pieces x); (ind, []); (ind, msg_pieces x)] : list pline).
  assert (render_lines c false (o_indent o) x = Ok (map pline_w (tr_p ++ mid ++ sn_p))) as HL.
  { unfold render_lines. fold ind. unfold render_exception. fold dflt_frame.
    destruct (x_frames x) as [|f0 fs] eqn:EF; [congruence|]. rewrite ET, ES. cbn [bind].
    assert (map pline_w mid = render_line ind (name_line x) true 0 ++ [(ind, [])] ++ render_line ind (msg_line x) false 0) as Emid
      by (rewrite name_line_pieces, msg_line_pieces; reflexivity).
    rewrite !map_app, Emid. unfold name_line, msg_line. rewrite <- ?app_assoc. reflexivity. }
  unfold render. rewrite HL. cbn [bind].
  destruct (write_lines_pieces sty (tr_p ++ mid ++ sn_p) o Ho) as (o' & HW & _ & _ & _ & HB).
  { apply Forall_app. split; [exact Htr|]. apply Forall_app. split; [|exact Hsn]. unfold mid.
    constructor; [constructor|]. constructor; [apply name_pieces_ok, Herr|]. constructor; [constructor|].
    constructor; [apply msg_pieces_ok, Hb|constructor]. }
  { rewrite Hd. discriminate. }
  rewrite HW. cbn [bind]. rewrite (HB Hd), !flat_map_app. unfold mid. cbn [flat_map].
  unfold name_pieces, msg_pieces. rewrite !shown_line_blank, !shown_line_named.
  destruct (Z.ltb_spec 0 ind) as [_|Hle]; [|unfold ind in Hle; lia]. rewrite <- ?app_assoc. cbn [app]. rewrite <- ?app_assoc. reflexivity.
Qed.
(* the full report ALWAYS is these bytes on an undecorated output: no hypothesis on the exception case but that it has frames *)
Theorem full_bytes_total sty c o x :
  out_ok sty o -> resolvable sty st_error -> resolvable sty st_b -> decorated o = false -> (0 <= o_indent o)%Z ->
  x_frames x <> [] ->
  let ind := (o_indent o + 2)%Z in
  exists tr_p sn_p,
    render_trace c ind (x_frames x) = Ok (map pline_w tr_p) /\
    render_snippet c ind (last (x_frames x) dflt_frame) = Ok (map pline_w sn_p) /\
    render c false o x
    = Ok (o_buf o ++ flat_map shown_line tr_p
            ++ [NL] ++ spaces ind ++ shown (ind_text ind (x_name x)) ++ [NL]
            ++ [NL] ++ spaces ind ++ shown (ind_text ind (msg_text (x_msg x))) ++ [NL]
            ++ flat_map shown_line sn_p).
Proof.
  intros Ho Herr Hb Hd Hi Hne ind.
  destruct (render_trace_total c ind (x_frames x)) as (tr & ET).
  destruct (render_snippet_total c ind (last (x_frames x) dflt_frame)) as (sn & ES).
  destruct (good_lines_pieces sty tr (good_render_trace sty Hb c ind _ tr ET)) as (tr_p & Etr & Htr).
  destruct (good_lines_pieces sty sn (good_render_snippet sty Hb c ind _ sn ES)) as (sn_p & Esn & Hsn).
  exists tr_p, sn_p. subst tr sn. split; [exact ET|]. split; [exact ES|].
  apply (full_bytes_of_pieces sty c o x tr_p sn_p Ho Herr Hb Hd Hi Hne ET Htr ES Hsn).
Qed.
Theorem full_bytes sty c o x bytes :
  out_ok sty o -> resolvable sty st_error -> resolvable sty st_b -> decorated o = false -> (0 <= o_indent o)%Z ->
  x_frames x <> [] -> render c false o x = Ok bytes ->
  let ind := (o_indent o + 2)%Z in
  exists tr_p sn_p,
    render_trace c ind (x_frames x) = Ok (map pline_w tr_p) /\
    render_snippet c ind (last (x_frames x) dflt_frame) = Ok (map pline_w sn_p) /\
    bytes = o_buf o ++ flat_map shown_line tr_p
              ++ [NL] ++ spaces ind ++ shown (ind_text ind (x_name x)) ++ [NL]
              ++ [NL] ++ spaces ind ++ shown (ind_text ind (msg_text (x_msg x))) ++ [NL]
              ++ flat_map shown_line sn_p.
Proof.
  intros Ho Herr Hb Hd Hi Hne HR ind.
  destruct (full_bytes_total sty c o x Ho Herr Hb Hd Hi Hne) as (tr_p & sn_p & ET & ES & HB). fold ind in ET, ES, HB.
  exists tr_p, sn_p. split; [exact ET|]. split; [exact ES|]. rewrite HB in HR. injection HR as <-. reflexivity.
Qed.
(* the source of the failing frame cannot be read or tokenized: after the message block the report has the blank line
   and the location line  "at file:line in function"  - and no snippet lines *)
Definition at_pieces (c : tcfg) (f : frame) : list piece := PRaw [97;116;32]%N :: loc_pieces c st_green f.
Lemma at_line_pieces c f : s_at ++ location c st_green f = line_str (at_pieces c f).
Proof.
  rewrite at_line_eq. unfold at_pieces. change (line_str (PRaw [97;116;32]%N :: loc_pieces c st_green f))
    with ([97;116;32]%N ++ line_str (loc_pieces c st_green f)). now rewrite <- location_pieces.
Qed.
Lemma at_pieces_ok sty c f : resolvable sty st_b -> pieces_ok sty (at_pieces c f).
Proof. intros Hb. constructor; [cbn [piece_ok]; safe_by_compute|]. apply (loc_pieces_ok sty Hb). inline_in. Qed.
Lemma render_snippet_unreadable_pieces c ind f : ~ tok_ok (f_content f) ->
  render_snippet c ind f = Ok (map pline_w [(ind, []); (ind, at_pieces c f)]).
Proof.
  intros H. rewrite (render_snippet_unreadable c ind f H). unfold render_line, pline_w. cbn [map fst snd app repeat Z.to_nat].
  now rewrite at_line_pieces.
Qed.
Theorem full_bytes_unreadable sty c o x :
  out_ok sty o -> resolvable sty st_error -> resolvable sty st_b -> decorated o = false -> (0 <= o_indent o)%Z ->
  x_frames x <> [] -> ~ tok_ok (f_content (last (x_frames x) dflt_frame)) ->
  let ind := (o_indent o + 2)%Z in
  exists tr_p,
    render_trace c ind (x_frames x) = Ok (map pline_w tr_p) /\
    render c false o x
    = Ok (o_buf o ++ flat_map shown_line tr_p
            ++ [NL] ++ spaces ind ++ shown (ind_text ind (x_name x)) ++ [NL]
            ++ [NL] ++ spaces ind ++ shown (ind_text ind (msg_text (x_msg x))) ++ [NL]
            ++ [NL] ++ shown_line (ind, at_pieces c (last (x_frames x) dflt_frame))).
Proof.
  intros Ho Herr Hb Hd Hi Hne Hun ind.
  destruct (render_trace_total c ind (x_frames x)) as (tr & ET).
  destruct (good_lines_pieces sty tr (good_render_trace sty Hb c ind _ tr ET)) as (tr_p & Etr & Htr). subst tr.
  exists tr_p. split; [exact ET|].
  rewrite (full_bytes_of_pieces sty c o x tr_p [(ind, []); (ind, at_pieces c (last (x_frames x) dflt_frame))] Ho Herr Hb Hd Hi Hne ET Htr).
  - cbn [flat_map]. rewrite shown_line_blank, app_nil_r. reflexivity.
  - apply render_snippet_unreadable_pieces, Hun.
  - constructor; [constructor|]. constructor; [apply at_pieces_ok, Hb|constructor].
Qed.
(* class names hold no line break: the class-name line is the name itself, between two blank lines *)
Corollary full_bytes_name sty c o x bytes :
  out_ok sty o -> resolvable sty st_error -> resolvable sty st_b -> decorated o = false -> (0 <= o_indent o)%Z ->
  x_frames x <> [] -> no_nl (x_name x) -> render c false o x = Ok bytes ->
  let ind := (o_indent o + 2)%Z in
  exists pre post, (pre = [] \/ exists pre', pre = pre' ++ [NL]) /\
    bytes = o_buf o ++ pre ++ [NL] ++ spaces ind ++ shown (x_name x) ++ [NL] ++ [NL]
              ++ spaces ind ++ shown (ind_text ind (msg_text (x_msg x))) ++ [NL] ++ post.
Proof.
  intros Ho Herr Hb Hd Hi Hne Hn HR ind.
  destruct (full_bytes sty c o x bytes Ho Herr Hb Hd Hi Hne HR) as (tr_p & sn_p & _ & _ & E). fold ind in E.
  rewrite (ind_text_no_nl ind _ Hn) in E. exists (flat_map shown_line tr_p), (flat_map shown_line sn_p). split; [|exact E].
  destruct tr_p as [|p r] using rev_ind; [left; reflexivity|right]. rewrite flat_map_app. cbn [flat_map]. unfold shown_line at 2.
  rewrite app_nil_r, app_assoc. eexists. reflexivity.
Qed.
(* a one-line message is shown as it is *)
Corollary full_bytes_one_line sty c o x bytes :
  out_ok sty o -> resolvable sty st_error -> resolvable sty st_b -> decorated o = false -> (0 <= o_indent o)%Z ->
  x_frames x <> [] -> no_nl (x_name x) -> no_nl (x_msg x) -> render c false o x = Ok bytes ->
  let ind := (o_indent o + 2)%Z in
  exists pre post, (pre = [] \/ exists pre', pre = pre' ++ [NL]) /\
    bytes = o_buf o ++ pre ++ [NL] ++ spaces ind ++ shown (x_name x) ++ [NL] ++ [NL] ++ spaces ind ++ shown (x_msg x) ++ [NL] ++ post.
Proof.
  intros Ho Herr Hb Hd Hi Hne Hn Hm HR ind.
  destruct (full_bytes_name sty c o x bytes Ho Herr Hb Hd Hi Hne Hn HR) as (pre & post & Hpre & E). fold ind in E.
  rewrite (msg_text_no_nl _ Hm), (ind_text_no_nl ind _ Hm) in E. exists pre, post. split; [exact Hpre|exact E].
Qed.

(* ------------------------------------------------------------------ 4d. ESC-free inputs give ESC-free lines *)
(* the decorated case asks for lines without ESC; that holds when the texts that come from outside hold none *)
Lemma ne_closed t : forallb (fun c => negb (N.eqb c ESC)) t = true -> no_esc t.
Proof.
  intros H. rewrite forallb_forall in H. apply Forall_forall. intros c Hc. specialize (H c Hc). intros ->. discriminate.
Qed.
Ltac ne_compute := apply ne_closed; vm_compute; reflexivity.
Lemma ne_app a b : no_esc a -> no_esc b -> no_esc (a ++ b).
Proof. intros Ha Hb. apply Forall_app. split; assumption. Qed.
Lemma ne_repeat32 n : no_esc (repeat 32%N n).
Proof. induction n as [|n IH]; cbn [repeat]; constructor; [discriminate|exact IH]. Qed.
Lemma ne_chars_of_uint u : no_esc (chars_of_uint u).
Proof. induction u; cbn [chars_of_uint]; constructor; try assumption; discriminate. Qed.
Lemma ne_dec_text z : no_esc (dec_text z).
Proof. unfold dec_text. destruct (Z.to_int z) as [u|u]; [apply ne_chars_of_uint|]. constructor; [discriminate|apply ne_chars_of_uint]. Qed.
Lemma ne_rjust s w : no_esc s -> no_esc (rjust s w).
Proof. intros H. unfold rjust. apply ne_app; [apply ne_repeat32|exact H]. Qed.
Lemma ne_rev s : no_esc s -> no_esc (rev s).
Proof. intros H. apply Forall_forall. intros c Hc. apply in_rev in Hc. unfold no_esc in H. rewrite Forall_forall in H. auto. Qed.
Lemma ne_slice s a b : no_esc s -> no_esc (slice s a b).
Proof. intros H. unfold slice. apply Forall_firstn, Forall_skipn, H. Qed.
Lemma ne_lstrip s : no_esc s -> no_esc (lstrip s).
Proof. induction 1 as [|c r Hc Hr IH]; cbn [lstrip]; [constructor|]. destruct (is_space c); [exact IH|constructor; assumption]. Qed.
Lemma ne_rstrip_ws s : no_esc s -> no_esc (rstrip_ws s).
Proof. intros H. unfold rstrip_ws. apply ne_rev, ne_lstrip, ne_rev, H. Qed.
Lemma ne_strip s : no_esc s -> no_esc (strip s).
Proof. intros H. unfold strip. apply ne_rev, ne_lstrip, ne_rev, ne_lstrip, H. Qed.
Lemma ne_rstrip_nl s : no_esc s -> no_esc (rstrip_nl s).
Proof.
  intros H. unfold rstrip_nl. apply ne_rev. apply ne_rev in H. induction H as [|c r Hc Hr IH]; cbn [rstrip_nl_rev]; [constructor|].
  destruct (N.eqb c NL); [exact IH|constructor; assumption].
Qed.
Lemma ne_cut_lt tag s : no_esc tag -> no_esc s -> no_esc (cut_lt tag s).
Proof.
  intros Ht Hs. unfold cut_lt. apply Forall_flat_map. eapply Forall_impl; [|exact Hs]. intros c Hc. cbn beta.
  destruct (N.eqb c LT); [|constructor; [exact Hc|constructor]].
  constructor; [discriminate|]. apply ne_app; [ne_compute|]. constructor; [discriminate|]. apply ne_app; [exact Ht|ne_compute].
Qed.
Lemma ne_literal s tag : no_esc tag -> no_esc s -> no_esc (literal s tag).
Proof.
  intros Ht Hs. unfold literal. assert (no_esc (cut_lt tag (double_bsl s))) as H by (apply ne_cut_lt; [exact Ht|apply double_bsl_P, Hs]).
  destruct (ends_with_bsl s); [apply ne_app; [exact H|ne_compute]|exact H].
Qed.
Lemma ne_tagged style text : no_esc style -> no_esc text -> no_esc (tagged style text).
Proof. intros H1 H2. unfold tagged. constructor; [discriminate|]. apply ne_app; [exact H1|]. constructor; [discriminate|]. apply ne_app; [exact H2|ne_compute]. Qed.
Lemma ne_replace_fuel pat rep : no_esc rep -> forall fuel s, no_esc s -> no_esc (replace_fuel fuel pat rep s).
Proof.
  intros Hr. induction fuel as [|fuel IH]; intros s Hs; cbn [replace_fuel]; [exact Hs|]. destruct s as [|c r]; [constructor|].
  destruct (starts_with pat (c :: r)).
  - apply ne_app; [exact Hr|]. apply IH, Forall_skipn, Hs.
  - inversion Hs; subst. constructor; [assumption|]. apply IH. assumption.
Qed.
Lemma ne_replace pat rep s : no_esc rep -> no_esc s -> no_esc (replace pat rep s).
Proof. intros Hr Hs. unfold replace. destruct pat; [exact Hs|]. apply ne_replace_fuel; assumption. Qed.
Lemma ne_split_on sep : forall s, no_esc s -> Forall no_esc (split_on sep s).
Proof.
  induction 1 as [|c r Hc Hr IH]; cbn [split_on]; [repeat constructor|]. destruct (N.eqb c sep); [constructor; [constructor|exact IH]|].
  destruct (split_on sep r) as [|l ls]; [repeat constructor; exact Hc|]. inversion IH; subst. constructor; [constructor; assumption|assumption].
Qed.
Lemma ne_last (l : list str) : Forall no_esc l -> no_esc (last l []).
Proof. induction 1 as [|x r Hx Hr IH]; [constructor|]. cbn [last]. destruct r; [exact Hx|exact IH]. Qed.
Lemma ne_theme h : no_esc (theme h). Proof. destruct h; ne_compute. Qed.
Lemma ne_styled h t : no_esc t -> no_esc (styled h t).
Proof. intros H. unfold styled. apply ne_tagged; [apply ne_theme|apply ne_literal; [apply ne_theme|exact H]]. Qed.

(* the highlighter only moves characters of the tokens and of their lines around *)
Definition chunk_ne (c : chunk) : Prop := no_esc (snd c).
Definition tok_ne (t : token) : Prop := no_esc (tk_str t) /\ no_esc (tk_line t).
Definition hst_ne (st : hst) : Prop :=
  Forall (Forall chunk_ne) (h_lines st) /\ Forall chunk_ne (h_line st) /\ no_esc (h_buf st) /\
  match h_last st with Some ln => no_esc ln | None => True end.
Lemma flush_ne ty buf : no_esc buf -> Forall chunk_ne (flush_chunk ty buf).
Proof. intros H. destruct ty; cbn [flush_chunk]; [constructor; [exact H|constructor]|constructor]. Qed.
Lemma line_rest_ne st : hst_ne st -> no_esc (line_rest st).
Proof. intros (_ & _ & _ & H). unfold line_rest. destruct (h_last st); [apply ne_rstrip_ws, Forall_skipn, H|constructor]. Qed.
Lemma hl_newline_ne st t : hst_ne st -> hst_ne (hl_newline st t).
Proof.
  intros H. pose proof (line_rest_ne st H) as HR. destruct H as (H1 & H2 & H3 & H4). unfold hl_newline.
  destruct (h_curline st <? tk_srow t)%Z; [|repeat split; assumption]. unfold hst_ne. cbn [h_lines h_line h_buf h_last].
  split; [|split; [constructor|split; [constructor|exact I]]].
  apply Forall_app. split; [exact H1|]. apply Forall_app. split.
  - constructor; [|constructor]. apply Forall_app. split; [exact H2|]. apply flush_ne, ne_app; [apply ne_rstrip_nl, H3|exact HR].
  - apply Forall_forall. intros l Hl. apply repeat_spec in Hl. subst. constructor.
Qed.
Lemma hl_token_ne st t : hst_ne st -> tok_ne t -> hst_ne (hl_token st t).
Proof.
  intros H (Ts & Tl). apply (hl_newline_ne st t) in H. unfold hl_token. destruct (new_type t) as [nt|]; [|exact H].
  destruct H as (H1 & H2 & H3 & H4). set (st' := hl_newline st t) in *.
  set (cur := match h_type st' with Some c => c | None => nt end).
  set (buf := if (h_curcol st' <? tk_scol t)%Z then h_buf st' ++ slice (tk_line t) (h_curcol st') (tk_scol t) else h_buf st').
  assert (no_esc buf) as Hbuf by (unfold buf; destruct (h_curcol st' <? tk_scol t)%Z; [apply ne_app; [exact H3|apply ne_slice, Tl]|exact H3]).
  set (change := negb (hl_eqb cur nt) && negb (ends_with_bsl buf)).
  assert (Forall chunk_ne (if change then h_line st' ++ [(cur, buf)] else h_line st')) as Hline.
  { destruct change; [|exact H2]. apply Forall_app. split; [exact H2|]. constructor; [exact Hbuf|constructor]. }
  assert (no_esc (if change then [] else buf)) as Hbuf' by (destruct change; [constructor|exact Hbuf]).
  destruct (tk_srow t <? tk_erow t)%Z; unfold hst_ne; cbn [h_lines h_line h_buf h_last].
  - pose proof (ne_split_on NL (tk_str t) Ts) as Hsp. split; [|split; [constructor|split; [|exact I]]].
    + apply Forall_app. split; [exact H1|]. apply Forall_app. split; [constructor; [exact Hline|constructor]|].
      apply Forall_map. apply removelast_P. destruct (split_on NL (tk_str t)) as [|a tls]; cbn [tl]; [constructor|].
      inversion Hsp; subst. eapply Forall_impl; [|eassumption]. intros l Hl. constructor; [exact Hl|constructor].
    + apply ne_slice, ne_last, Hsp.
  - split; [exact H1|]. split; [exact Hline|]. split; [apply ne_app; [exact Hbuf'|exact Ts]|exact Tl].
Qed.
Lemma hl_loop_ne : forall toks st, Forall tok_ne toks -> hst_ne st -> Forall (Forall chunk_ne) (hl_loop toks st).
Proof.
  induction toks as [|t r IH]; intros st HT H; cbn [hl_loop]; [apply H|]. inversion HT as [|? ? Ht Hr]; subst.
  destruct (tk_srow t =? 0)%Z; [apply IH; assumption|].
  assert (Forall (Forall chunk_ne) (h_lines st ++ [h_line st ++ flush_chunk (h_type st) (h_buf st)])) as Hend.
  { destruct H as (H1 & H2 & H3 & _). apply Forall_app. split; [exact H1|]. constructor; [|constructor].
    apply Forall_app. split; [exact H2|apply flush_ne, H3]. }
  destruct (tk_kind t); try (apply IH; [exact Hr|apply hl_token_ne; assumption]). exact Hend.
Qed.
Lemma render_chunks_ne cs : Forall chunk_ne cs -> no_esc (render_chunks cs).
Proof. intros H. unfold render_chunks. apply Forall_flat_map. eapply Forall_impl; [|exact H]. intros c Hc. apply ne_styled, Hc. Qed.
Lemma split_to_lines_ne toks : Forall tok_ne toks -> Forall no_esc (split_to_lines toks).
Proof.
  intros H. unfold split_to_lines, split_chunks. apply Forall_map.
  eapply Forall_impl; [|apply (hl_loop_ne toks hst_init H)]; [intros cs Hcs; apply render_chunks_ne, Hcs|].
  repeat split; constructor.
Qed.
Lemma ui_ne utf8 : no_esc (u_arrow (ui_of utf8)) /\ no_esc (u_delim (ui_of utf8)).
Proof. destruct utf8; split; ne_compute. Qed.
Lemma number_from_ne utf8 w mark : forall lines i, Forall no_esc lines -> Forall no_esc (number_from (ui_of utf8) w mark i lines).
Proof.
  destruct (ui_ne utf8) as [Ha Hd]. induction lines as [|l r IH]; intros i H; cbn [number_from]; [constructor|].
  inversion H as [|? ? Hl Hr]; subst. constructor; [|apply IH, Hr].
  apply ne_app; [destruct (mark =? i)%Z; [apply ne_app; [apply ne_tagged; [ne_compute|exact Ha]|ne_compute]|ne_compute]|].
  apply ne_app; [destruct (mark =? i)%Z; (apply ne_tagged; [ne_compute|apply ne_rjust, ne_dec_text])|].
  apply ne_app; [apply ne_tagged; [ne_compute|exact Hd]|]. apply ne_app; [ne_compute|exact Hl].
Qed.

(* the inputs *)
Definition tokres_ne (t : tokres) : Prop := match t with TokOk toks => Forall tok_ne toks | _ => True end.
Definition frame_ne (f : frame) : Prop :=
  no_esc (f_file f) /\ no_esc (f_func f) /\ no_esc (f_line f) /\ tokres_ne (f_content f) /\ tokres_ne (f_linetoks f).
(* no ESC in the class name, the message, the file and function names, the source; the path separator is not ESC *)
Definition inputs_ne (c : tcfg) (x : exn_case) : Prop :=
  t_sep c <> ESC /\ no_esc (x_name x) /\ no_esc (x_msg x) /\ Forall frame_ne (x_frames x).

Section LinesNoEsc.
Variable c : tcfg.
Hypothesis Hsep : t_sep c <> ESC.
Notation new := (fun wl : wline => no_esc (snd wl)).

Lemma snippet_of_ne content line before after ls :
  tokres_ne content -> snippet_of c content line before after = Ok ls -> Forall no_esc ls.
Proof.
  unfold snippet_of. destruct content as [toks| |]; intros HT H; injection H as <-; [|constructor|constructor].
  unfold code_snippet, line_numbers. apply Forall_firstn, Forall_skipn, number_from_ne, split_to_lines_ne, HT.
Qed.
Lemma rel_path_ne p : no_esc p -> no_esc (rel_path c p).
Proof.
  intros Hp. unfold rel_path.
  match goal with |- no_esc (match t_home c with [] => ?q | _ => _ end) => set (p1 := q) end.
  assert (no_esc p1) as H1 by (subst p1; destruct (t_cwd c); [exact Hp|apply ne_replace; [constructor|exact Hp]]).
  destruct (t_home c); [exact H1|]. apply ne_replace; [|exact H1]. constructor; [discriminate|]. constructor; [exact Hsep|constructor].
Qed.
Lemma location_ne fs f : no_esc fs -> frame_ne f -> no_esc (location c fs f).
Proof.
  intros Hfs (H1 & H2 & _). unfold location.
  apply ne_app; [apply ne_literal; [exact Hfs|apply rel_path_ne, H1]|]. apply ne_app; [ne_compute|]. apply ne_app; [apply ne_dec_text|].
  apply ne_app; [ne_compute|]. apply ne_app; [apply ne_literal; [ne_compute|exact H2]|ne_compute].
Qed.
Lemma render_line_ne ind l nl extra : no_esc l -> Forall new (render_line ind l nl extra).
Proof.
  intros Hl. unfold render_line. apply Forall_app. split; [destruct nl; constructor; [constructor|constructor]|].
  constructor; [|constructor]. cbn [snd]. apply ne_app; [apply ne_repeat32|exact Hl].
Qed.
Lemma frame_text_ne f : frame_ne f -> no_esc (frame_text f).
Proof.
  intros (_ & _ & HL & _ & HT). assert (no_esc (plain_code f)) as HP by (apply ne_styled, ne_strip, HL).
  unfold frame_text. destruct (f_linetoks f) as [toks| |]; try exact HP.
  pose proof (split_to_lines_ne toks HT) as HG. destruct (split_to_lines toks) as [|l r]; [exact HP|]. inversion HG; subst. assumption.
Qed.
Lemma frame_code_ne ind w f ls : frame_ne f -> frame_code c ind w f = Ok ls -> Forall new ls.
Proof.
  intros Hf. pose proof Hf as (_ & _ & _ & HC & _). destruct (t_debug c) eqn:ED.
  - destruct (frame_code_debug c ind w f ED) as (sn & E & ->). intros H.
    assert (ls = flat_map (fun l => render_line ind (rjust [32%N] w ++ l) false 1) sn) as -> by (injection H; intros; symmetry; assumption).
    apply Forall_flat_map. eapply Forall_impl; [|apply (snippet_of_ne _ _ _ _ _ HC E)].
    intros l Hl. apply render_line_ne. apply ne_app; [apply ne_rjust; ne_compute|exact Hl].
  - rewrite (frame_code_verbose c ind w f ED). intros H.
    assert (ls = render_line ind (rjust [32%N] w ++ [32; 32]%N ++ frame_text f) false 0) as -> by (injection H; intros; symmetry; assumption).
    apply render_line_ne. apply ne_app; [apply ne_rjust; ne_compute|]. apply ne_app; [ne_compute|apply frame_text_ne, Hf].
Qed.
Lemma frame_line_ne w f i : frame_ne f -> no_esc (frame_line c w f i).
Proof.
  intros Hf. unfold frame_line. apply ne_app; [ne_compute|]. apply ne_app; [apply ne_rjust, ne_dec_text|].
  apply ne_app; [ne_compute|]. apply location_ne; [ne_compute|exact Hf].
Qed.
Lemma frames_lines_ne ind w : forall fs i ls i', Forall frame_ne fs -> frames_lines c ind w fs i = Ok (ls, i') -> Forall new ls.
Proof.
  induction fs as [|f fs IH]; intros i ls i' HF H; cbn [frames_lines] in H; [injection H as <- <-; constructor|].
  inversion HF as [|? ? Hf Hfs]; subst.
  destruct (frame_code c ind w f) as [code|e] eqn:EC; cbn [bind] in H; [|discriminate].
  destruct (frames_lines c ind w fs (i - 1)) as [[rest j]|e] eqn:E; cbn [bind fst snd] in H; [|discriminate].
  assert (ls = render_line ind (frame_line c w f i) true 0 ++ code ++ rest) as -> by (injection H; intros; symmetry; assumption).
  apply Forall_app. split; [apply render_line_ne, frame_line_ne, Hf|].
  apply Forall_app. split; [apply (frame_code_ne _ _ _ _ Hf EC)|apply (IH _ _ _ Hfs E)].
Qed.
Lemma fold_line_ne w n reps : no_esc (fold_line w n reps).
Proof.
  unfold fold_line. apply ne_app; [ne_compute|]. apply ne_app; [apply ne_rjust; ne_compute|]. apply ne_app; [ne_compute|].
  apply ne_app; [destruct (1 <? n)%Z; [|ne_compute]; apply ne_app; [ne_compute|]; apply ne_app; [apply ne_dec_text|ne_compute]|].
  apply ne_app; [ne_compute|]. apply ne_app; [apply ne_dec_text|ne_compute].
Qed.
Lemma colls_lines_ne ind w : forall cs i ls, Forall frame_ne (flat_map c_frames cs) -> colls_lines c ind w cs i = Ok ls -> Forall new ls.
Proof.
  induction cs as [|cl cs IH]; intros i ls HF H; cbn [colls_lines] in H; [injection H as <-; constructor|].
  cbn [flat_map] in HF. apply Forall_app in HF. destruct HF as [HF1 HF2].
  destruct (frames_lines c ind w (c_frames cl) _) as [[fl j]|e] eqn:E; cbn [bind fst snd] in H; [|discriminate].
  destruct (colls_lines c ind w cs j) as [rest|e] eqn:E2; cbn [bind] in H; [|discriminate].
  assert (ls = (if coll_repeated cl then render_line ind (fold_line w (zlen (c_frames cl)) (c_count cl - 1)) true 0 else []) ++ fl ++ rest) as ->
    by (injection H; intros; symmetry; assumption).
  apply Forall_app. split.
  - destruct (coll_repeated cl); [|constructor]. apply render_line_ne, fold_line_ne.
  - apply Forall_app. split; [apply (frames_lines_ne _ _ _ _ _ _ HF1 E)|apply (IH _ _ HF2 E2)].
Qed.
Lemma render_trace_ne ind fs ls : Forall frame_ne fs -> render_trace c ind fs = Ok ls -> Forall new ls.
Proof.
  intros HF. unfold render_trace. destruct (t_verbose c && negb (zlen (kept_frames c fs) - 1 =? 0)%Z); [|intros H; injection H as <-; constructor].
  destruct (colls_lines c ind _ _ _) as [l|e] eqn:E; cbn [bind]; [|discriminate]. intros H.
  assert (ls = render_line ind s_stack true 0 ++ l) as -> by (injection H; intros; symmetry; assumption).
  apply Forall_app. split; [apply render_line_ne; ne_compute|]. refine (colls_lines_ne _ _ _ _ _ _ E).
  apply Forall_forall. intros f Hf. apply compact_sub_l, kept_frames_spec in Hf. destruct Hf as [Hf _].
  rewrite Forall_forall in HF. apply HF, Hf.
Qed.
Lemma render_snippet_ne ind f ls : frame_ne f -> render_snippet c ind f = Ok ls -> Forall new ls.
Proof.
  intros Hf. pose proof Hf as (_ & _ & _ & HC & _). unfold render_snippet.
  destruct (snippet_of c (f_content f) (f_lineno f) 4 4) as [sn|e] eqn:E; cbn [bind]; [|discriminate].
  intros H. assert (ls = render_line ind (s_at ++ location c st_green f) true 0 ++ flat_map (fun l => render_line (ind + 2) l false 0) sn) as ->
    by (injection H; intros; symmetry; assumption).
  apply Forall_app. split; [apply render_line_ne, ne_app; [ne_compute|apply location_ne; [ne_compute|exact Hf]]|].
  apply Forall_flat_map. eapply Forall_impl; [|apply (snippet_of_ne _ _ _ _ _ HC E)]. intros l Hl. apply render_line_ne, Hl.
Qed.
Lemma dflt_frame_ne : frame_ne dflt_frame. Proof. repeat split; constructor. Qed.
Lemma last_frame_ne fs : Forall frame_ne fs -> frame_ne (last fs dflt_frame).
Proof. induction 1 as [|f r Hf Hr IH]; [apply dflt_frame_ne|]. cbn [last]. destruct r; [exact Hf|exact IH]. Qed.
Lemma lines_noesc_c simple ind x ls :
  no_esc (x_name x) -> no_esc (x_msg x) -> Forall frame_ne (x_frames x) ->
  render_lines c simple ind x = Ok ls -> Forall new ls.
Proof.
  intros Hn Hm HF. unfold render_lines. destruct simple.
  - intros H. assert (ls = [(ind, s_error_open ++ literal (x_msg x) st_error ++ s_error_close)]) as ->
      by (injection H; intros; symmetry; assumption).
    constructor; [|constructor]. cbn [snd]. apply ne_app; [ne_compute|]. apply ne_app; [apply ne_literal; [ne_compute|exact Hm]|ne_compute].
  - unfold render_exception. fold dflt_frame. destruct (x_frames x) as [|f0 fs] eqn:EF; [intros H; injection H as <-; constructor|].
    rewrite <- EF in *.
    destruct (render_trace c (ind + 2) (x_frames x)) as [tr|e] eqn:ET; cbn [bind]; [|discriminate].
    destruct (render_snippet c (ind + 2) (last (x_frames x) dflt_frame)) as [sn|e] eqn:ES; cbn [bind]; [|discriminate]. intros H.
    assert (ls = tr ++ render_line (ind + 2) (name_line x) true 0 ++ [((ind + 2)%Z, [])] ++ render_line (ind + 2) (msg_line x) false 0 ++ sn) as ->
      by (injection H; intros; symmetry; assumption).
    apply Forall_app. split; [apply (render_trace_ne _ _ _ HF ET)|].
    apply Forall_app. split.
    { apply render_line_ne. unfold name_line. apply ne_app; [ne_compute|]. apply ne_app; [apply ne_literal; [ne_compute|exact Hn]|ne_compute]. }
    apply Forall_app. split; [constructor; [constructor|constructor]|].
    apply Forall_app. split; [|apply (render_snippet_ne _ _ _ (last_frame_ne _ HF) ES)].
    apply render_line_ne. unfold msg_line. apply ne_app; [ne_compute|]. apply ne_app; [|ne_compute].
    apply ne_replace; [ne_compute|apply ne_literal; [ne_compute|exact Hm]].
Qed.
End LinesNoEsc.
Theorem lines_noesc c simple ind x ls : inputs_ne c x -> render_lines c simple ind x = Ok ls -> Forall (fun wl => no_esc (snd wl)) ls.
Proof. intros (H1 & H2 & H3 & H4). apply (lines_noesc_c c H1 simple ind x ls H2 H3 H4). Qed.

(* 4e. THE statement, on the inputs.  For every exception case x (class name, message, frames - whatever tokenize did on
   their sources), configuration c (verbosity, UTF-8, directories), report mode and output o such that
     - o is an ordinary output (not a section) with an ANSI or plain formatter whose style stack is empty (out_ok),
     - its style table resolves "error" and "b",
     - if o decorates (ANSI formatter, formatting on): no ESC in the class name, the message, the file and function
       names, the frame lines and the token texts, and the path separator is not ESC (inputs_ne),
   ExceptionTrace.render returns: it writes its bytes and raises nothing. *)
Theorem render_never_fails_unconditionally sty c simple o x :
  out_ok sty o -> resolvable sty st_error -> resolvable sty st_b ->
  (decorated o = true -> inputs_ne c x) ->
  exists bytes, render c simple o x = Ok bytes.
Proof.
  intros Ho Herr Hb Hne. apply (render_never_fails sty c simple o x Ho Herr Hb).
  intros Hd ls HL. apply (lines_noesc c simple _ x ls (Hne Hd) HL).
Qed.
(* the earlier name (it had the hypothesis "tokenize succeeded where the full report needs it": no longer needed) *)
Corollary render_never_fails_inputs sty c simple o x :
  out_ok sty o -> resolvable sty st_error -> resolvable sty st_b ->
  (decorated o = true -> inputs_ne c x) ->
  exists bytes, render c simple o x = Ok bytes.
Proof. exact (render_never_fails_unconditionally sty c simple o x). Qed.

(* ------------------------------------------------------------------ 4f. the two registered styles *)
(* "error" is one of pastel's own styles: every formatter clikit builds (ANSI or plain) resolves it, whatever the style
   set; "b" resolves once a style with that tag is in the set *)
Lemma aset_keeps {V} k (v : V) n (d : list (str * V)) : (exists w, aget str_eqb n d = Some w) -> exists w, aget str_eqb n (aset str_eqb k v d) = Some w.
Proof. intros (w & H). rewrite StrLemmas.sget_sset. destruct (str_eqb n k); eexists; [reflexivity|exact H]. Qed.
Lemma register_keeps n : forall l sty sty', register l sty = Ok sty' ->
  (exists w, aget str_eqb n sty = Some w) -> exists w, aget str_eqb n sty' = Some w.
Proof.
  induction l as [|[t c] r IH]; intros sty sty' H Hn; cbn [register] in H; [injection H as <-; exact Hn|].
  destruct (convert c) as [p|e]; cbn [bind] in H; [|discriminate]. apply (IH _ _ H). apply aset_keeps, Hn.
Qed.
Lemma registered_resolvable sty tag : py_lower tag = tag -> (exists w, aget str_eqb tag sty = Some w) -> resolvable sty tag.
Proof. intros E (w & H). exists w. unfold resolve. now rewrite E, H. Qed.
Theorem new_formatter_error k set f : new_formatter k set = Ok f -> k <> FNull -> resolvable (f_styles f) st_error.
Proof.
  intros H Hk. apply registered_resolvable; [reflexivity|]. unfold new_formatter in H.
  assert ((do ss <- style_set set []; do sty <- register ss pastel_defaults; Ok {| f_kind := k; f_styles := sty; f_stack := [] |}) = Ok f) as H'
    by (destruct k; [exact H|exact H|congruence]). clear H.
  destruct (style_set set []) as [ss|e]; cbn [bind] in H'; [|discriminate].
  destruct (register ss pastel_defaults) as [sty|e] eqn:ER; cbn [bind] in H'; [|discriminate]. injection H' as <-. cbn [f_styles].
  apply (register_keeps st_error ss pastel_defaults sty ER). eexists. reflexivity.
Qed.
Theorem add_style_b f c f' : f_kind f <> FNull -> c_tag c = Some st_b -> add_style f c = Ok f' -> resolvable (f_styles f') st_b.
Proof.
  intros Hk Ht H. apply registered_resolvable; [reflexivity|]. unfold add_style in H.
  destruct (f_kind f) eqn:EK; [| |congruence]; (destruct (convert c) as [p|e]; cbn [bind] in H; [|discriminate]); rewrite Ht in H;
    injection H as <-; cbn [f_styles]; rewrite StrLemmas.sget_sset; cbn; eexists; reflexivity.
Qed.

(* ------------------------------------------------------------------ 6. the hypotheses are satisfiable *)
Module RenderExamples.
Import LiteralLemmas.Examples.
(* clikit's <error> (white on red) and <b> (bold), registered on top of pastel's own styles *)
Definition cs_error : cstyle :=
  {| c_tag := Some st_error; c_fg := Some [119;104;105;116;101]%N; c_bg := Some [114;101;100]%N; c_bold := false; c_italic := false;
     c_dark := false; c_underlined := false; c_blinking := false; c_inverse := false; c_hidden := false |}.
Definition null_fmt : formatter := {| f_kind := FNull; f_styles := []; f_stack := [] |}.
Definition demo_fmt (k : fkind) : formatter := match new_formatter k [cs_b; cs_error] with Ok f => f | Err _ => null_fmt end.
Definition demo_out (k : fkind) (on : bool) (ind : Z) : outp :=
  {| o_indent := ind; o_on := on; o_sec := false; o_fmt := demo_fmt k; o_buf := [] |}.
Definition tk k s sr sc er ec ln := {| tk_kind := k; tk_kw := false; tk_bi := false; tk_str := s; tk_srow := sr; tk_scol := sc;
                                       tk_erow := er; tk_ecol := ec; tk_line := ln |}.
(* the file "x<NL>": a name and the end marker *)
Definition demo_toks : list token := [tk TkOther [120%N] 1 0 1 1 [120;10]%N; tk TkEnd [] 2 0 2 0 []].
(* a frame of a.py, line 1, in a function called <f> *)
Definition demo_frame : frame :=
  {| f_file := [97;46;112;121]%N; f_ignored := false; f_lineno := 1; f_func := [60;102;62]%N; f_line := [120%N];
     f_content := TokOk demo_toks; f_linetoks := TokOk demo_toks |}.
Definition demo_cfg (v : bool) : tcfg := {| t_verbose := v; t_debug := false; t_utf8 := false; t_cwd := []; t_home := []; t_sep := 47%N |}.
(* the class  B</error>  raised with the message  <b>x\  *)
Definition demo_name : str := [66;60;47;101;114;114;111;114;62]%N.
Definition demo_msg : str := [60;98;62;120;92]%N.
Definition demo_x (fs : list frame) : exn_case := {| x_name := demo_name; x_msg := demo_msg; x_frames := fs |}.
Definition demo_sty2 : styles := f_styles (demo_fmt FPlain).

Example demo_out_ok k on ind : k <> FNull -> out_ok demo_sty2 (demo_out k on ind).
Proof. intros Hk. destruct k as [b| |]; [| |congruence]; (split; [reflexivity|]; split; [discriminate|]; split; reflexivity). Qed.
Example demo_error : resolvable demo_sty2 st_error. Proof. eexists. vm_compute. reflexivity. Qed.
Example demo_b : resolvable demo_sty2 st_b. Proof. eexists. vm_compute. reflexivity. Qed.

(* 1: the lines of a verbose two-frame report are good; one of them in full *)
Example ex_lines_good ls : render_lines (demo_cfg true) false 0 (demo_x [demo_frame; demo_frame]) = Ok ls ->
  Forall (fun wl => good_line demo_sty2 (snd wl)) ls.
Proof. apply (render_lines_good demo_sty2 demo_error demo_b). Qed.
Example ex_frame_line :
  frame_line (demo_cfg true) 1 demo_frame 1
  = line_str (PLit st_yellow [49%N] :: PRaw [32;32]%N :: loc_pieces (demo_cfg true) th_builtin demo_frame).
Proof. vm_compute. reflexivity. Qed.

(* 2: indentation *)
Example ex_indent : indent_text 2 (line_str (msg_pieces (demo_x []))) = line_str (ind_pieces 2 true (msg_pieces (demo_x []))).
Proof. apply (indent_text_pieces demo_sty2), (msg_pieces_ok demo_sty2 demo_b). Qed.
Example ex_indent_nl : (* a text with line breaks between two tags:  <b>a NL NL b NL</b>  *)
  indent_text 2 (line_str [PNamed st_b [97;10;10;98;10]%N]) = line_str [PRaw [32;32]%N; PNamed st_b [97;10;10;32;32;98;10;32;32]%N].
Proof. vm_compute. reflexivity. Qed.

(* 3 / 4: render does not fail - plain (whatever the frames) and decorated *)
Example ex_never_fails_plain v simple fs : exists bytes, render (demo_cfg v) simple (demo_out FPlain false 0) (demo_x fs) = Ok bytes.
Proof. apply (render_never_fails_plain demo_sty2); [apply demo_out_ok; discriminate|apply demo_error|apply demo_b|reflexivity]. Qed.
Example ex_never_fails_ansi : exists bytes, render (demo_cfg true) false (demo_out (FAnsi false) true 0) (demo_x [demo_frame; demo_frame]) = Ok bytes.
Proof.
  apply (render_never_fails demo_sty2); [apply demo_out_ok; discriminate|apply demo_error|apply demo_b|].
  intros _ ls H. vm_compute in H. injection H as <-. repeat constructor; discriminate.
Qed.
(* the same from the inputs: no ESC in the names, the message and the source *)
Example ex_inputs_ne : inputs_ne (demo_cfg true) (demo_x [demo_frame; demo_frame]).
Proof.
  assert (frame_ne demo_frame) as Hf by (repeat split; repeat constructor; discriminate).
  split; [discriminate|]. split; [repeat constructor; discriminate|]. split; [repeat constructor; discriminate|]. constructor; [exact Hf|]. constructor; [exact Hf|constructor].
Qed.
Example ex_never_fails_ansi_inputs simple :
  exists bytes, render (demo_cfg true) simple (demo_out (FAnsi false) true 4) (demo_x [demo_frame; demo_frame]) = Ok bytes.
Proof.
  apply (render_never_fails_unconditionally demo_sty2); [apply demo_out_ok; discriminate|apply demo_error|apply demo_b|].
  intros _. apply ex_inputs_ne.
Qed.
(* a file that tokenize rejects (TokenError: the file was edited after it was loaded) or that cannot even be read
   (another exception: UnicodeDecodeError on a latin-1 file) - and the same for the frame's own line: the report is
   produced, without snippet lines; the frame's line is shown plain *)
Definition bad_frame : frame :=
  {| f_file := [97;46;112;121]%N; f_ignored := false; f_lineno := 1; f_func := [102%N]; f_line := [120%N];
     f_content := TokError; f_linetoks := TokError |}.
Definition bad_frame2 : frame :=
  {| f_file := [98;46;112;121]%N; f_ignored := false; f_lineno := 7; f_func := [103%N]; f_line := [32;32;121;32;60;32;49;32]%N;
     f_content := TokOtherExc; f_linetoks := TokOtherExc |}.
Example ex_bad_not_ok : ~ tok_ok (f_content bad_frame) /\ ~ tok_ok (f_content bad_frame2).
Proof. split; intros (toks & H); discriminate. Qed.
(* the part every full report of demo_x has: blank, class name, blank, message *)
Definition ex_head : str := [NL] ++ [32;32]%N ++ demo_name ++ [NL] ++ [NL] ++ [32;32]%N ++ demo_msg ++ [32%N] ++ [NL].
(* the write_line calls: blank, class name, blank, message, blank, "at a.py:1 in f" - and that is all: no snippet lines *)
Example ex_unreadable_lines :
  render_lines (demo_cfg false) false 0 (demo_x [bad_frame])
  = Ok [(2, []); (2, name_line (demo_x [])); (2, []); (2, msg_line (demo_x [])); (2, []);
        (2, s_at ++ location (demo_cfg false) st_green bad_frame)]%Z.
Proof. vm_compute. reflexivity. Qed.
Example ex_unreadable_vm :          (* TokenError *)
  render (demo_cfg false) false (demo_out FPlain false 0) (demo_x [bad_frame])
  = Ok (ex_head ++ [10;32;32;97;116;32;97;46;112;121;58;49;32;105;110;32;102;10]%N).                 (*   at a.py:1 in f *)
Proof. vm_compute. reflexivity. Qed.
Example ex_unreadable_other_vm :    (* another exception: the file cannot be read *)
  render (demo_cfg false) false (demo_out FPlain false 0) (demo_x [bad_frame2])
  = Ok (ex_head ++ [10;32;32;97;116;32;98;46;112;121;58;55;32;105;110;32;103;10]%N).                 (*   at b.py:7 in g *)
Proof. vm_compute. reflexivity. Qed.
(* the same through the theorem *)
Example ex_unreadable_thm :
  render (demo_cfg false) false (demo_out FPlain false 0) (demo_x [bad_frame])
  = Ok (ex_head ++ [NL] ++ shown_line (2%Z, at_pieces (demo_cfg false) bad_frame)).
Proof.
  destruct (full_bytes_unreadable demo_sty2 (demo_cfg false) (demo_out FPlain false 0) (demo_x [bad_frame])
              (demo_out_ok FPlain false 0 ltac:(discriminate)) demo_error demo_b eq_refl ltac:(cbn; lia) ltac:(discriminate) (proj1 ex_bad_not_ok))
    as (tr_p & ET & HR).
  assert (tr_p = []) as ->.
  { assert (render_trace (demo_cfg false) (o_indent (demo_out FPlain false 0) + 2) (x_frames (demo_x [bad_frame])) = Ok []) as E0
      by (vm_compute; reflexivity).
    rewrite E0 in ET. destruct tr_p; [reflexivity|cbn [map] in ET; discriminate ET]. }
  rewrite HR. vm_compute. reflexivity.
Qed.
(* -v, three frames: under the frame of b.py its line as it is (stripped, the "<" shown), no snippet at the end *)
Example ex_unreadable_verbose_vm :
  render (demo_cfg true) false (demo_out FPlain false 0) (demo_x [bad_frame2; demo_frame; bad_frame])
  = Ok ([10;32;32;83;116;97;99;107;32;116;114;97;99;101;58;10]%N                                      (*   Stack trace: *)
        ++ [10;32;32;50;32;32;98;46;112;121;58;55;32;105;110;32;103;10]%N                             (*   2  b.py:7 in g *)
        ++ [32;32;32;32;32;121;32;60;32;49;10]%N                                                      (*      y < 1 *)
        ++ [10;32;32;49;32;32;97;46;112;121;58;49;32;105;110;32;60;102;62;10]%N                       (*   1  a.py:1 in <f> *)
        ++ [32;32;32;32;32;120;10]%N                                                                  (*      x *)
        ++ ex_head ++ [10;32;32;97;116;32;97;46;112;121;58;49;32;105;110;32;102;10]%N).               (*   at a.py:1 in f *)
Proof. vm_compute. reflexivity. Qed.
(* -vvv: the snippet under the frame whose file tokenizes, nothing under the frame whose file cannot be read *)
Definition demo_cfg_debug : tcfg := {| t_verbose := true; t_debug := true; t_utf8 := false; t_cwd := []; t_home := []; t_sep := 47%N |}.
Example ex_unreadable_debug_vm :
  render demo_cfg_debug false (demo_out FPlain false 0) (demo_x [bad_frame2; demo_frame; bad_frame])
  = Ok ([10;32;32;83;116;97;99;107;32;116;114;97;99;101;58;10]%N                                      (*   Stack trace: *)
        ++ [10;32;32;50;32;32;98;46;112;121;58;55;32;105;110;32;103;10]%N                             (*   2  b.py:7 in g *)
        ++ [10;32;32;49;32;32;97;46;112;121;58;49;32;105;110;32;60;102;62;10]%N                       (*   1  a.py:1 in <f> *)
        ++ [32;32;32;32;62;32;32;32;49;124;32;120;10]%N                                               (*     >   1| x *)
        ++ ex_head ++ [10;32;32;97;116;32;97;46;112;121;58;49;32;105;110;32;102;10]%N).               (*   at a.py:1 in f *)
Proof. vm_compute. reflexivity. Qed.
(* decorated as well: the same text under the escape codes *)
Example ex_unreadable_ansi_vm :
  match render (demo_cfg true) false (demo_out (FAnsi false) true 0) (demo_x [bad_frame2; demo_frame; bad_frame]),
        render (demo_cfg true) false (demo_out FPlain false 0) (demo_x [bad_frame2; demo_frame; bad_frame]) with
  | Ok b, Ok p => strip_sgr b = p /\ b <> p
  | _, _ => False
  end.
Proof. vm_compute. split; [reflexivity|discriminate]. Qed.
(* 5: the bytes.  Simple mode: the message with a blank after its trailing backslash *)
Example ex_simple : render (demo_cfg false) true (demo_out FPlain false 0) (demo_x [demo_frame]) = Ok (demo_msg ++ [32; NL]%N).
Proof. rewrite (simple_bytes_0 demo_sty2); [reflexivity|apply demo_out_ok; discriminate|apply demo_error|reflexivity|cbn; lia]. Qed.
Example ex_simple_vm : render (demo_cfg false) true (demo_out FPlain false 0) (demo_x [demo_frame]) = Ok (demo_msg ++ [32; NL]%N).
Proof. vm_compute. reflexivity. Qed.
Example ex_simple_indented : render (demo_cfg false) true (demo_out FPlain false 3) (demo_x [demo_frame]) = Ok ([32;32;32]%N ++ demo_msg ++ [32; NL]%N).
Proof.
  rewrite (simple_bytes_one_line demo_sty2); [reflexivity|apply demo_out_ok; discriminate|apply demo_error|reflexivity|cbn; lia|].
  repeat constructor; discriminate.
Qed.
(* full mode, through the theorem and by computation *)
Example ex_full : exists pre post, (pre = [] \/ exists pre', pre = pre' ++ [NL]) /\
  render (demo_cfg false) false (demo_out FPlain false 0) (demo_x [demo_frame])
  = Ok (pre ++ [NL] ++ [32;32]%N ++ demo_name ++ [NL] ++ [NL] ++ [32;32]%N ++ demo_msg ++ [32%N] ++ [NL] ++ post).
Proof.
  destruct (render (demo_cfg false) false (demo_out FPlain false 0) (demo_x [demo_frame])) as [b|e] eqn:E; [|vm_compute in E; discriminate].
  assert (no_nl demo_name) as Hn by (repeat constructor; discriminate).
  assert (no_nl demo_msg) as Hm by (repeat constructor; discriminate).
  destruct (full_bytes_one_line demo_sty2 (demo_cfg false) (demo_out FPlain false 0) (demo_x [demo_frame]) b
              (demo_out_ok FPlain false 0 ltac:(discriminate)) demo_error demo_b eq_refl ltac:(cbn; lia) ltac:(discriminate) Hn Hm E)
    as (pre & post & Hpre & Eb).
  exists pre, post. split; [exact Hpre|]. rewrite Eb. reflexivity.
Qed.
Example ex_full_vm :
  render (demo_cfg false) false (demo_out FPlain false 0) (demo_x [demo_frame])
  = Ok ([NL] ++ [32;32]%N ++ demo_name ++ [NL] ++ [NL] ++ [32;32]%N ++ demo_msg ++ [32%N] ++ [NL]
        ++ [NL] ++ [32;32;97;116;32;97;46;112;121;58;49;32;105;110;32;60;102;62;10]%N      (*   at a.py:1 in <f> *)
        ++ [32;32;32;32;62;32;32;32;49;124;32;120;10]%N).                                  (*     >   1| x *)
Proof. vm_compute. reflexivity. Qed.
End RenderExamples.

Print Assumptions render_lines_good.
Print Assumptions indent_good_ne.
Print Assumptions write_pieces.
Print Assumptions write_lines_good.
Print Assumptions render_never_fails_plain.
Print Assumptions render_never_fails.
Print Assumptions render_err_is_write_err.
Print Assumptions lines_noesc.
Print Assumptions render_never_fails_unconditionally.
Print Assumptions new_formatter_error.
Print Assumptions render_plain_bytes_l.
Print Assumptions simple_bytes.
Print Assumptions full_bytes_of_pieces.
Print Assumptions full_bytes_total.
Print Assumptions full_bytes.
Print Assumptions full_bytes_unreadable.
Print Assumptions full_bytes_one_line.
