(* Proofs about the textwrap model (Model/Wrap.v): the greedy loop terminates within the model's fuel, every line fits
   the width, no line is empty, and wrapping only ever drops white space. *)
From Coq Require Import Lia ZifyBool.
From Clikit Require Import Base.Prelude Base.Res Model.Wrap.

(* ---- the chunker loses nothing ---- *)
Lemma take_while_app p : forall s a b, take_while p s = (a, b) -> a ++ b = s.
Proof.
  induction s as [|c r IH]; intros a b H; cbn [take_while] in H.
  - injection H as <- <-. reflexivity.
  - destruct (p c).
    + destruct (take_while p r) as [a' b'] eqn:E. injection H as <- <-. cbn [app]. f_equal. now apply IH.
    + injection H as <- <-. reflexivity.
Qed.

Lemma word_chunk_app : forall fuel before acc s w r, word_chunk fuel before acc s = (w, r) -> w ++ r = acc ++ s.
Proof.
  induction fuel as [|f IH]; intros before acc s w r H; cbn [word_chunk] in H.
  - injection H as <- <-. now rewrite app_nil_r.
  - destruct s as [|c s'].
    + injection H as <- <-. reflexivity.
    + destruct acc as [|a0 acc'].
      * apply IH in H. exact H.
      * remember (a0 :: acc') as acc eqn:Ea. clear Ea.
        destruct (N.eqb c HY && behind_hyphen_ok before && ahead_hyphen_ok s').
        { injection H as <- <-. now rewrite <- app_assoc. }
        destruct (is_sp c). { injection H as <- <-. reflexivity. }
        destruct ((match before with p :: _ => tw_punct p | [] => false end) && ahead_emdash (c :: s')).
        { injection H as <- <-. reflexivity. }
        apply IH in H. rewrite H, <- app_assoc. reflexivity.
Qed.

Lemma chunks_aux_concat : forall fuel before s, concat (chunks_aux fuel before s) = s.
Proof.
  induction fuel as [|f IH]; intros before s; cbn [chunks_aux].
  - cbn. apply app_nil_r.
  - destruct s as [|c s']; [reflexivity|].
    destruct (is_sp c).
    { destruct (take_while is_sp (c :: s')) as [w r] eqn:E. cbn [concat]. rewrite IH. eapply take_while_app, E. }
    destruct (N.eqb c HY && (match before with p :: _ => tw_punct p | [] => false end) && ahead_emdash (c :: s')).
    { destruct (take_while (N.eqb HY) (c :: s')) as [w r] eqn:E. cbn [concat]. rewrite IH. eapply take_while_app, E. }
    destruct (word_chunk (S (length (c :: s'))) before [] (c :: s')) as [w r] eqn:E. cbn [concat]. rewrite IH.
    apply word_chunk_app in E. exact E.
Qed.

Definition ne (c : str) : Prop := c <> [].
Definition nonempty_b (c : str) : bool := match c with [] => false | _ => true end.
Lemma concat_filter_ne (l : list str) : concat (filter nonempty_b l) = concat l.
Proof. induction l as [|c r IH]; [reflexivity|]. destruct c; cbn; [exact IH|]. now rewrite IH. Qed.
Lemma chunks_concat s : concat (chunks s) = s.
Proof. unfold chunks. change (fun c : str => match c with [] => false | _ => true end) with nonempty_b.
  rewrite concat_filter_ne. apply chunks_aux_concat. Qed.
Lemma chunks_ne s : Forall ne (chunks s).
Proof. unfold chunks. apply Forall_forall. intros c Hc. apply filter_In in Hc. destruct Hc as [_ Hc]. destruct c; [discriminate|]. discriminate. Qed.

(* the termination measure: characters plus chunks *)
Definition msr (cs : list str) : nat := length (concat cs) + length cs.
Lemma ne_count (cs : list str) : Forall ne cs -> length cs <= length (concat cs).
Proof. induction 1 as [|c r Hc _ IH]; [cbn; lia|]. cbn [concat length]. rewrite app_length. destruct c; [now elim Hc|]. cbn [length]. lia. Qed.
Lemma msr_chunks s : msr (chunks s) <= 2 * length s.
Proof. unfold msr. pose proof (ne_count _ (chunks_ne s)) as H. rewrite chunks_concat in *. lia. Qed.

(* ---- one line ---- *)
Lemma fill_line_spec width : forall cs cur cur_len,
  exists taken rest, fill_line width cur cur_len cs = (cur ++ taken, cur_len + length (concat taken), rest)
    /\ cs = taken ++ rest
    /\ (cur_len <= width -> cur_len + length (concat taken) <= width)
    /\ match rest with c :: _ => width < cur_len + length (concat taken) + length c | [] => True end.
Proof.
  induction cs as [|c r IH]; intros cur cur_len; cbn [fill_line].
  - exists [], []. cbn. rewrite app_nil_r, Nat.add_0_r. auto.
  - destruct (Nat.leb (cur_len + length c) width) eqn:E.
    + destruct (IH (cur ++ [c]) (cur_len + length c)) as (t & rest & H1 & H2 & H3 & H4).
      exists (c :: t), rest. rewrite H1. cbn [concat]. rewrite app_length, <- app_assoc. cbn [app].
      apply Nat.leb_le in E.
      split; [f_equal; f_equal; lia|]. split; [now rewrite H2|]. split; [intros; lia|]. destruct rest; [auto|lia].
    + exists [], (c :: r). cbn. rewrite app_nil_r, Nat.add_0_r. apply Nat.leb_gt in E. repeat split; auto; lia.
Qed.

Lemma rfind_hy_bound : forall s n i best h, rfind_hy s n i best = Some h -> best = Some h \/ (i <= h < i + n).
Proof.
  induction s as [|a s IH]; intros n i best h H; destruct n; cbn [rfind_hy] in H; auto.
  apply IH in H. destruct H as [H|H]; [|right; lia]. destruct (N.eqb a HY); [injection H as <-; right; lia | auto].
Qed.
Lemma break_at_le c sl : break_at c sl <= sl.
Proof.
  unfold break_at. destruct (Nat.ltb sl (length c)); [|lia]. destruct (rfind_hy c sl 0 None) eqn:E; [|lia].
  apply rfind_hy_bound in E. destruct E as [E|E]; [discriminate|]. destruct (_ && _); lia.
Qed.
Lemma break_at_pos c sl : 1 <= sl -> 1 <= break_at c sl.
Proof.
  intros H. unfold break_at. destruct (Nat.ltb sl (length c)); [|lia]. destruct (rfind_hy c sl 0 None); [|lia].
  destruct (_ && _); lia.
Qed.

(* white space in the sense of chunk.strip() *)
Definition nsp (c : N) : bool := negb (is_space c).
Lemma blank_filter c : blank c = true -> filter nsp c = [].
Proof. unfold blank, nsp. induction c as [|x r IH]; [reflexivity|]. cbn [forallb filter]. intros H. apply andb_prop in H. destruct H as [H1 H2]. rewrite H1. cbn. auto. Qed.
Lemma filter_concat_app (a b : list str) : filter nsp (concat (a ++ b)) = filter nsp (concat a) ++ filter nsp (concat b).
Proof. now rewrite concat_app, filter_app. Qed.

Definition dropblank (cur2 : list str) : list str :=
  match rev cur2 with l :: _ => if blank l then removelast cur2 else cur2 | [] => cur2 end.
Lemma dropblank_spec cur2 : exists B, cur2 = dropblank cur2 ++ B /\ filter nsp (concat B) = [].
Proof.
  unfold dropblank. destruct cur2 as [|x l _] using rev_ind.
  - exists []. auto.
  - rewrite rev_app_distr. cbn [rev app]. destruct (blank x) eqn:E.
    + rewrite removelast_last. exists [x]. split; [reflexivity|]. cbn. rewrite app_nil_r. now apply blank_filter.
    + exists []. now rewrite app_nil_r.
Qed.
Lemma dropblank_snoc taken x : Forall ne taken -> Forall ne (dropblank (taken ++ [x])).
Proof.
  intros H. unfold dropblank. rewrite rev_app_distr. cbn [rev app]. destruct (blank x) eqn:E.
  - now rewrite removelast_last.
  - apply Forall_app. split; [exact H|]. constructor; [|constructor]. intros ->. discriminate.
Qed.
Lemma dropblank_ne taken : Forall ne taken -> Forall ne (dropblank taken).
Proof. intros H. destruct (dropblank_spec taken) as (B & HB & _). rewrite HB in H. apply Forall_app in H. tauto. Qed.
Lemma dropblank_len cur2 : length (concat (dropblank cur2)) <= length (concat cur2).
Proof. destruct (dropblank_spec cur2) as (B & HB & _). rewrite HB at 2. rewrite concat_app, app_length. lia. Qed.
Lemma concat_ne (l : list str) : Forall ne l -> l <> [] -> concat l <> [].
Proof. intros H Hl. destruct H as [|c r Hc _]; [now elim Hl|]. destruct c; [now elim Hc|]. discriminate. Qed.

(* ---- one iteration of the loop, as a function ---- *)
Definition wstep (width : nat) (c0 : str) (r0 lines : list str) : list str * list str :=
  let cs1 := if blank c0 && (match lines with [] => false | _ => true end) then r0 else c0 :: r0 in
  let '(cur, cur_len, rest) := fill_line width [] 0 cs1 in
  let '(cur2, rest2) :=
    match rest with
    | c :: r => if Nat.ltb width (length c)
                then let e := break_at c (width - cur_len) in (cur ++ [firstn e c], skipn e c :: r)
                else (cur, rest)
    | [] => (cur, rest)
    end in
  (dropblank cur2, rest2).
Lemma wrap_chunks_S f width c0 r0 lines :
  wrap_chunks (S f) width (c0 :: r0) lines =
  wrap_chunks f width (snd (wstep width c0 r0 lines))
              (match fst (wstep width c0 r0 lines) with [] => lines | _ => lines ++ [concat (fst (wstep width c0 r0 lines))] end).
Proof.
  unfold wstep. cbn [wrap_chunks].
  destruct (fill_line width [] 0 _) as [[cur cur_len] rest].
  destruct rest as [|c r]; [reflexivity|]. destruct (Nat.ltb width (length c)); reflexivity.
Qed.

Lemma wstep_spec width c0 r0 lines line rest2 : wstep width c0 r0 lines = (line, rest2) ->
  length (concat line) <= width
  /\ (1 <= width -> msr rest2 < msr (c0 :: r0))
  /\ filter nsp (concat (c0 :: r0)) = filter nsp (concat line) ++ filter nsp (concat rest2)
  /\ (Forall ne (c0 :: r0) -> Forall ne rest2 /\ Forall ne line).
Proof.
  unfold wstep. intros H.
  set (cs1 := if blank c0 && _ then r0 else c0 :: r0) in H.
  assert (Hcs1 : exists D, c0 :: r0 = D ++ cs1 /\ filter nsp (concat D) = [] /\ (D = [] -> cs1 = c0 :: r0)).
  { subst cs1. destruct (blank c0) eqn:Eb; cbn [andb].
    - destruct lines; [exists []; auto|]. exists [c0]. split; [reflexivity|]. split; [|discriminate].
      cbn. rewrite app_nil_r. now apply blank_filter.
    - exists []. auto. }
  destruct Hcs1 as (D & HD & HDf & HD0).
  destruct (fill_line_spec width cs1 [] 0) as (taken & rest & H1 & H2 & H3 & H4).
  cbn [app Nat.add] in H1, H3, H4. rewrite H1 in H. specialize (H3 (Nat.le_0_l _)).
  assert (Hm1 : msr cs1 <= msr (c0 :: r0) /\ (D <> [] -> msr cs1 < msr (c0 :: r0))).
  { rewrite HD. unfold msr. rewrite concat_app, !app_length. split; [lia|]. destruct D; [tauto|]. cbn [length]. lia. }
  assert (Hm2 : msr rest <= msr cs1 /\ (taken <> [] -> msr rest < msr cs1)).
  { rewrite H2. unfold msr. rewrite concat_app, !app_length. split; [lia|]. destruct taken; [tauto|]. cbn [length]. lia. }
  assert (Hne : Forall ne (c0 :: r0) -> Forall ne taken /\ Forall ne rest).
  { intros Hall. rewrite HD in Hall. apply Forall_app in Hall. destruct Hall as [_ Hall]. rewrite H2 in Hall. now apply Forall_app in Hall. }
  assert (Htxt : filter nsp (concat (c0 :: r0)) = filter nsp (concat taken) ++ filter nsp (concat rest)).
  { rewrite HD, filter_concat_app, HDf, H2, filter_concat_app. reflexivity. }
  assert (Hplain : (dropblank taken, rest) = (line, rest2) ->
    length (concat line) <= width
    /\ (1 <= width -> (taken <> [] \/ D <> []) -> msr rest2 < msr (c0 :: r0))
    /\ filter nsp (concat (c0 :: r0)) = filter nsp (concat line) ++ filter nsp (concat rest2)
    /\ (Forall ne (c0 :: r0) -> Forall ne rest2 /\ Forall ne line)).
  { intros E. injection E as <- <-. split; [pose proof (dropblank_len taken); lia|].
    split; [intros _ [Ht|Ht]; [apply (proj2 Hm2) in Ht|apply (proj2 Hm1) in Ht]; lia|].
    split.
    - rewrite Htxt. f_equal. destruct (dropblank_spec taken) as (B & HB & HBf). rewrite HB at 1.
      rewrite filter_concat_app, HBf. apply app_nil_r.
    - intros Hall. apply Hne in Hall. destruct Hall as [Ht Hr]. split; [exact Hr|]. now apply dropblank_ne. }
  destruct rest as [|c r].
  { destruct (Hplain H) as (P1 & P2 & P3 & P4). split; [exact P1|]. split; [|tauto].
    intros Hw. apply P2; [exact Hw|]. destruct D; [|right; discriminate]. left. rewrite HD0 in H2 by reflexivity.
    rewrite app_nil_r in H2. rewrite <- H2. discriminate. }
  destruct (Nat.ltb width (length c)) eqn:El.
  2:{ destruct (Hplain H) as (P1 & P2 & P3 & P4). split; [exact P1|]. split; [|tauto].
      intros Hw. apply P2; [exact Hw|]. destruct D; [|right; discriminate]. left. intros ->.
      apply Nat.ltb_ge in El. cbn in H4. lia. }
  apply Nat.ltb_lt in El. cbn zeta in H.
  pose proof (break_at_le c (width - length (concat taken))) as Hle.
  pose proof (break_at_pos c (width - length (concat taken))) as Hpos.
  remember (break_at c (width - length (concat taken))) as e eqn:He. clear He.
  clear Hplain. injection H as <- <-.
  split.
  { pose proof (dropblank_len (taken ++ [firstn e c])) as Hl. rewrite concat_app, app_length in Hl. cbn [concat] in Hl.
    rewrite app_nil_r, firstn_length in Hl. lia. }
  split.
  { intros Hw. assert (Hsk : msr (skipn e c :: r) <= msr (c :: r)).
    { unfold msr. cbn [concat length]. rewrite !app_length, skipn_length. lia. }
    destruct D as [|d D'].
    - destruct taken as [|t0 taken'].
      + rewrite HD0 in H2 by reflexivity. cbn [app] in H2. injection H2 as -> ->.
        cbn [concat length] in Hle, Hpos.
        unfold msr. cbn [concat length]. rewrite !app_length, skipn_length. lia.
      + assert (Ht : t0 :: taken' <> []) by discriminate. apply (proj2 Hm2) in Ht. lia.
    - assert (Ht : d :: D' <> []) by discriminate. apply (proj2 Hm1) in Ht. lia. }
  split.
  { rewrite Htxt. destruct (dropblank_spec (taken ++ [firstn e c])) as (B & HB & HBf).
    assert (Hc : filter nsp (concat (taken ++ [firstn e c])) = filter nsp (concat (dropblank (taken ++ [firstn e c])))).
    { rewrite HB at 1. rewrite filter_concat_app, HBf. apply app_nil_r. }
    rewrite <- Hc, filter_concat_app, <- app_assoc. f_equal. cbn [concat]. rewrite app_nil_r, <- !filter_app. f_equal.
    rewrite app_assoc. f_equal. symmetry. apply firstn_skipn. }
  intros Hall. apply Hne in Hall. destruct Hall as [Ht Hr]. split; [|now apply dropblank_snoc].
  inversion Hr as [|? ? Hc Hr']; subst. constructor; [|exact Hr'].
  intros Hs. apply (f_equal (@length N)) in Hs. rewrite skipn_length in Hs. cbn in Hs. lia.
Qed.

(* the characters of a line come from the chunks *)
Lemma dropblank_chars (P : N -> Prop) cur2 : Forall P (concat cur2) -> Forall P (concat (dropblank cur2)).
Proof. destruct (dropblank_spec cur2) as (B & HB & _). rewrite HB at 1. rewrite concat_app. intros H. apply Forall_app in H. tauto. Qed.
Lemma wstep_chars (P : N -> Prop) width c0 r0 lines line rest2 : wstep width c0 r0 lines = (line, rest2) ->
  Forall P (concat (c0 :: r0)) -> Forall P (concat line) /\ Forall P (concat rest2).
Proof.
  unfold wstep. intros H Hall.
  set (cs1 := if blank c0 && _ then r0 else c0 :: r0) in H.
  assert (H0 : Forall P (concat cs1)).
  { subst cs1. destruct (blank c0 && _); [|exact Hall]. cbn [concat] in Hall. apply Forall_app in Hall. tauto. }
  destruct (fill_line_spec width cs1 [] 0) as (taken & rest & H1 & H2 & _).
  cbn [app Nat.add] in H1. rewrite H1 in H. rewrite H2, concat_app in H0. apply Forall_app in H0. destruct H0 as [Ht Hr].
  destruct rest as [|c r].
  { injection H as <- <-. split; [now apply dropblank_chars|exact Hr]. }
  destruct (Nat.ltb width (length c)).
  2:{ injection H as <- <-. split; [now apply dropblank_chars|exact Hr]. }
  cbv zeta in H. injection H as <- <-. cbn [concat] in Hr. apply Forall_app in Hr. destruct Hr as [Hc Hr].
  rewrite <- (firstn_skipn (break_at c (width - length (concat taken))) c) in Hc. apply Forall_app in Hc. destruct Hc as [Hc1 Hc2].
  split.
  - apply dropblank_chars. rewrite concat_app. apply Forall_app. split; [exact Ht|]. cbn [concat]. now rewrite app_nil_r.
  - cbn [concat]. apply Forall_app. auto.
Qed.
Lemma wrap_chunks_chars (P : N -> Prop) width : forall f cs lines ls, wrap_chunks f width cs lines = Some ls ->
  Forall P (concat cs) -> Forall P (concat lines) -> Forall P (concat ls).
Proof.
  induction f as [|f IH]; intros cs lines ls H Hc Hl; [discriminate|].
  destruct cs as [|c0 r0]; [cbn in H; injection H as <-; exact Hl|].
  rewrite wrap_chunks_S in H. destruct (wstep width c0 r0 lines) as [line rest2] eqn:E. cbn [fst snd] in H.
  apply (wstep_chars P) in E; [|exact Hc]. destruct E as [E1 E2].
  apply IH in H; [exact H|exact E2|]. destruct line; [exact Hl|]. rewrite concat_app. apply Forall_app. split; [exact Hl|].
  cbn [concat]. now rewrite app_nil_r.
Qed.

(* ---- the loop ---- *)
Definition fits (width : nat) (l : str) : Prop := length l <= width.

Lemma wrap_chunks_fit width : forall f cs lines ls, wrap_chunks f width cs lines = Some ls ->
  Forall (fits width) lines -> Forall (fits width) ls.
Proof.
  induction f as [|f IH]; intros cs lines ls H Hl; [discriminate|].
  destruct cs as [|c0 r0]; [cbn in H; injection H as <-; exact Hl|].
  rewrite wrap_chunks_S in H. destruct (wstep width c0 r0 lines) as [line rest2] eqn:E. cbn [fst snd] in H.
  apply wstep_spec in E. destruct E as (E1 & _).
  apply IH in H; [exact H|]. destruct line; [exact Hl|]. apply Forall_app. split; [exact Hl|]. constructor; [exact E1|constructor].
Qed.

Lemma wrap_chunks_total width : 1 <= width -> forall f cs lines, msr cs < f -> exists ls, wrap_chunks f width cs lines = Some ls.
Proof.
  intros Hw. induction f as [|f IH]; intros cs lines Hm; [lia|].
  destruct cs as [|c0 r0]; [cbn; eauto|].
  rewrite wrap_chunks_S. destruct (wstep width c0 r0 lines) as [line rest2] eqn:E. cbn [fst snd].
  apply wstep_spec in E. destruct E as (_ & E2 & _). specialize (E2 Hw). apply IH. lia.
Qed.

Lemma wrap_chunks_text width : forall f cs lines ls, wrap_chunks f width cs lines = Some ls ->
  filter nsp (concat ls) = filter nsp (concat lines) ++ filter nsp (concat cs).
Proof.
  induction f as [|f IH]; intros cs lines ls H; [discriminate|].
  destruct cs as [|c0 r0]; [cbn in H; injection H as <-; cbn; now rewrite app_nil_r|].
  rewrite wrap_chunks_S in H. destruct (wstep width c0 r0 lines) as [line rest2] eqn:E. cbn [fst snd] in H.
  apply wstep_spec in E. destruct E as (_ & _ & E3 & _).
  apply IH in H. rewrite H, E3, app_assoc. f_equal.
  destruct line; [cbn; now rewrite app_nil_r|]. rewrite filter_concat_app. f_equal. cbn [concat]. now rewrite app_nil_r.
Qed.

Lemma wrap_chunks_ne width : forall f cs lines ls, wrap_chunks f width cs lines = Some ls ->
  Forall ne cs -> Forall ne lines -> Forall ne ls.
Proof.
  induction f as [|f IH]; intros cs lines ls H Hc Hl; [discriminate|].
  destruct cs as [|c0 r0]; [cbn in H; injection H as <-; exact Hl|].
  rewrite wrap_chunks_S in H. destruct (wstep width c0 r0 lines) as [line rest2] eqn:E. cbn [fst snd] in H.
  apply wstep_spec in E. destruct E as (_ & _ & _ & E4). destruct (E4 Hc) as [Hr Hline].
  apply IH in H; [exact H|exact Hr|]. destruct line as [|l0 line']; [exact Hl|]. apply Forall_app. split; [exact Hl|].
  constructor; [|constructor]. apply concat_ne; [exact Hline|discriminate].
Qed.

(* ---- wrap ---- *)
Lemma wrap_total_lemma : forall text w, (1 <= w)%Z -> exists ls, wrap text w = Ok ls.
Proof.
  intros text w Hw. unfold wrap. destruct (Z.leb_spec w 0) as [H|_]; [lia|].
  destruct (wrap_chunks_total (Z.to_nat w) ltac:(lia) (2 * length text + 2) (chunks (munge text)) []) as [ls Hls].
  - pose proof (msr_chunks (munge text)) as Hm. unfold munge in Hm at 2. rewrite map_length in Hm. lia.
  - rewrite Hls. eauto.
Qed.
Lemma wrap_value_error_lemma : forall text w, wrap text w = Err ValueError <-> (w <= 0)%Z.
Proof.
  intros text w. split.
  - intros H. destruct (Z.leb_spec w 0) as [Hw|Hw]; [exact Hw|]. destruct (wrap_total_lemma text w ltac:(lia)) as [ls Hls].
    rewrite Hls in H. discriminate.
  - intros H. unfold wrap. destruct (Z.leb_spec w 0); [reflexivity|lia].
Qed.
Lemma wrap_ok_chunks text w ls : wrap text w = Ok ls ->
  (1 <= w)%Z /\ wrap_chunks (2 * length text + 2) (Z.to_nat w) (chunks (munge text)) [] = Some ls.
Proof.
  unfold wrap. destruct (Z.leb_spec w 0) as [H|H]; [discriminate|].
  destruct (wrap_chunks _ _ _ _) as [l|]; [|discriminate]. intros E. injection E as <-. split; [lia|reflexivity].
Qed.
Lemma wrap_lines_fit_lemma : forall text w ls, wrap text w = Ok ls -> Forall (fun l => (Z.of_nat (length l) <= w)%Z) ls.
Proof.
  intros text w ls H. apply wrap_ok_chunks in H. destruct H as [Hw H].
  apply wrap_chunks_fit in H; [|constructor]. eapply Forall_impl; [|exact H]. unfold fits. intros l Hl. lia.
Qed.
Lemma wrap_lines_nonempty_lemma : forall text w ls, wrap text w = Ok ls -> Forall (fun l => l <> []) ls.
Proof.
  intros text w ls H. apply wrap_ok_chunks in H. destruct H as [Hw H].
  apply wrap_chunks_ne in H; [exact H|apply chunks_ne|constructor].
Qed.
Lemma wrap_keeps_text_lemma : forall text w ls, wrap text w = Ok ls ->
  filter (fun c => negb (is_space c)) (concat ls) = filter (fun c => negb (is_space c)) (munge text).
Proof.
  intros text w ls H. apply wrap_ok_chunks in H. destruct H as [Hw H].
  apply wrap_chunks_text in H. rewrite chunks_concat in H. exact H.
Qed.

(* every character of a line is a character of the munged text; in particular no line holds a newline *)
Lemma wrap_lines_chars_lemma (P : N -> Prop) : forall text w ls, wrap text w = Ok ls -> Forall P (munge text) -> Forall (Forall P) ls.
Proof.
  intros text w ls H HP. apply wrap_ok_chunks in H. destruct H as [Hw H].
  apply (wrap_chunks_chars P) in H; [|rewrite chunks_concat; exact HP|constructor].
  clear - H. induction ls as [|l ls IH]; [constructor|]. cbn [concat] in H. apply Forall_app in H. destruct H. constructor; auto.
Qed.
Lemma munge_no_newline text : Forall (fun c => c <> 10%N) (munge text).
Proof.
  unfold munge. apply Forall_forall. intros c Hc. apply in_map_iff in Hc. destruct Hc as (x & <- & _).
  destruct (tw_space x) eqn:E; [discriminate|]. intros ->. discriminate.
Qed.
Lemma wrap_lines_no_newline_lemma : forall text w ls, wrap text w = Ok ls -> Forall (Forall (fun c => c <> 10%N)) ls.
Proof. intros text w ls H. eapply wrap_lines_chars_lemma; [exact H|apply munge_no_newline]. Qed.
