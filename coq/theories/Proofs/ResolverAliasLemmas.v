(* C03: what a CommandCollection built from a list of sibling commands looks up (last writer wins), that the KeyError
   branch of coll_get is unreachable for such collections, alias invariance under distinct sibling names/aliases (and a
   counterexample without it), the name path returned by the walk, the full specification of the default choice, and
   what options after the path can and cannot change. *)
From Coq Require Import Lia.
From Clikit Require Import Base.Prelude Base.Res Model.Conv Model.Flags Model.Format Model.Parser Model.Resolver
  Proofs.StrLemmas Proofs.ResolverLemmas.

(* ---------- lookups in coll_of l: the LAST sibling with that name / that alias ---------- *)
Definition by_name (n : str) (c : bcmd) : bool := str_eqb n (b_name c).
Definition by_alias (n : str) (c : bcmd) : bool := existsb (str_eqb n) (b_aliases c).

Lemma coll_of_snoc l b : coll_of (l ++ [b]) = coll_add (coll_of l) b.
Proof. unfold coll_of. rewrite fold_left_app. reflexivity. Qed.

Lemma cmds_spec n : forall l, sget n (cc_cmds (coll_of l)) = find (by_name n) (rev l).
Proof.
  induction l as [|b l IH] using rev_ind; [reflexivity|].
  rewrite coll_of_snoc, rev_app_distr. cbn [rev app find coll_add cc_cmds]. unfold sget, sset in *.
  rewrite sget_sset. unfold by_name at 1. destruct (str_eqb n (b_name b)); [reflexivity|exact IH].
Qed.
Lemma alias_spec n : forall l, sget n (cc_alias (coll_of l)) = option_map b_name (find (by_alias n) (rev l)).
Proof.
  induction l as [|b l IH] using rev_ind; [reflexivity|].
  rewrite coll_of_snoc, rev_app_distr. cbn [rev app find coll_add cc_alias]. unfold sget, sset in *.
  rewrite sget_fold_sset. unfold by_alias at 1. destruct (existsb (str_eqb n) (b_aliases b)); [reflexivity|exact IH].
Qed.

Lemma find_rev_in {X} (p : X -> bool) l x : find p (rev l) = Some x -> In x l /\ p x = true.
Proof. intros H. apply find_some in H. destruct H as [H1 H2]. split; [apply in_rev, H1|exact H2]. Qed.
Lemma find_rev_some {X} (p : X -> bool) l x : In x l -> p x = true -> exists y, find p (rev l) = Some y.
Proof.
  intros Hi Hp. destruct (find p (rev l)) as [y|] eqn:E; [eauto|].
  rewrite (find_none _ _ E x) in Hp; [discriminate|]. apply in_rev in Hi. exact Hi.
Qed.

(* contains = the name or alias of some sibling; get never takes the KeyError branch *)
Lemma coll_contains_spec l n :
  coll_contains (coll_of l) n = true <-> exists c, In c l /\ (b_name c = n \/ In n (b_aliases c)).
Proof.
  unfold coll_contains, shas, ahas. fold (@sget bcmd). fold (@sget str). rewrite cmds_spec, alias_spec. split.
  - destruct (find (by_name n) (rev l)) as [c|] eqn:E1.
    + intros _. apply find_rev_in in E1 as [Hi Hp]. exists c. split; [exact Hi|left].
      unfold by_name in Hp. destruct (str_eqb_spec n (b_name c)); congruence.
    + destruct (find (by_alias n) (rev l)) as [c|] eqn:E2; [|discriminate].
      intros _. apply find_rev_in in E2 as [Hi Hp]. exists c. split; [exact Hi|right].
      unfold by_alias in Hp. apply existsb_exists in Hp as (a & Ha & He). destruct (str_eqb_spec n a); [subst; exact Ha|discriminate].
  - intros (c & Hi & [Hn|Ha]).
    + destruct (find_rev_some (by_name n) l c Hi) as [y ->]; [|reflexivity]. unfold by_name. subst n. apply str_eqb_refl.
    + destruct (find (by_name n) (rev l)); [reflexivity|].
      destruct (find_rev_some (by_alias n) l c Hi) as [y ->]; [|reflexivity].
      unfold by_alias. apply existsb_exists. exists n. split; [exact Ha|apply str_eqb_refl].
Qed.

Lemma coll_get_total l n : coll_contains (coll_of l) n = true ->
  exists b, coll_get (coll_of l) n = Ok b /\ In b l /\
            (b_name b = n \/ exists c, In c l /\ In n (b_aliases c) /\ b_name c = b_name b).
Proof.
  intros Hc. unfold coll_contains, shas, ahas in Hc. unfold coll_get. fold (@sget bcmd) in *. fold (@sget str) in *.
  rewrite cmds_spec in *. rewrite alias_spec in *.
  destruct (find (by_name n) (rev l)) as [b|] eqn:E1.
  - apply find_rev_in in E1 as [Hi Hp]. exists b. split; [reflexivity|]. split; [exact Hi|left].
    unfold by_name in Hp. destruct (str_eqb_spec n (b_name b)); congruence.
  - destruct (find (by_alias n) (rev l)) as [c|] eqn:E2; [|discriminate]. cbn [option_map].
    apply find_rev_in in E2 as [Hi Hp]. rewrite cmds_spec.
    destruct (find_rev_some (by_name (b_name c)) l c Hi) as [b Hb]; [unfold by_name; apply str_eqb_refl|].
    rewrite Hb. apply find_rev_in in Hb as [Hbi Hbp]. exists b. split; [reflexivity|]. split; [exact Hbi|right].
    exists c. split; [exact Hi|]. split.
    + unfold by_alias in Hp. apply existsb_exists in Hp as (a & Ha & He). destruct (str_eqb_spec n a); [subst; exact Ha|discriminate].
    + unfold by_name in Hbp. destruct (str_eqb_spec (b_name c) (b_name b)); congruence.
Qed.

(* the walk never fails: every collection it looks into is built by coll_of *)
Lemma walk_total : forall names l cur, exists w, walk (coll_of l) cur names = Ok w.
Proof.
  induction names as [|n r IH]; intros l cur; cbn [walk]; [eauto|].
  destruct (coll_contains (coll_of l) n) eqn:Hc; cbn [negb]; [|eauto].
  destruct (coll_get_total l n Hc) as (b & -> & _). cbn [bind]. unfold named_of. apply IH.
Qed.

(* ---------- distinct sibling names and aliases ---------- *)
Definition keys (c : bcmd) : list str := b_name c :: b_aliases c.
Definition siblings_distinct (l : list bcmd) : Prop := NoDup (flat_map keys l).

Lemma nodup_app_r {X} (a b : list X) : NoDup (a ++ b) -> NoDup b.
Proof. induction a as [|x a IH]; cbn; [auto|]. intros H. inversion H; auto. Qed.
Lemma nodup_app_l {X} (a b : list X) : NoDup (a ++ b) -> NoDup a.
Proof.
  induction a as [|x a IH]; cbn; [constructor|]. intros H. inversion H as [|? ? Hx Hn]; subst.
  constructor; [intros Hi; apply Hx, in_or_app; auto|auto].
Qed.
Lemma distinct_same_key : forall l b c k, siblings_distinct l -> In b l -> In c l -> In k (keys b) -> In k (keys c) -> b = c.
Proof.
  unfold siblings_distinct. induction l as [|x l IH]; intros b c k Hn Hb Hc Kb Kc; [destruct Hb|].
  cbn [flat_map] in Hn. pose proof (nodup_app_r _ _ Hn) as Hl.
  assert (forall y, In y l -> In k (keys y) -> In k (keys x) -> False) as Cross.
  { intros y Hy Ky Kx. clear IH Hb Hc. induction (keys x) as [|a ks IHk]; [destruct Kx|].
    cbn [app] in Hn. inversion Hn as [|? ? Hna Hn']; subst. destruct Kx as [->|Kx]; [|apply IHk; auto].
    apply Hna, in_or_app. right. apply in_flat_map. eauto. }
  destruct Hb as [->|Hb], Hc as [->|Hc]; [reflexivity|exfalso; eapply Cross; eauto|exfalso; eapply Cross; eauto|eapply IH; eauto].
Qed.
Lemma distinct_keys_nodup l b : siblings_distinct l -> In b l -> NoDup (keys b).
Proof.
  unfold siblings_distinct. induction l as [|x l IH]; intros Hn Hb; [destruct Hb|]. cbn [flat_map] in Hn.
  destruct Hb as [->|Hb]; [eapply nodup_app_l; exact Hn|apply IH; [eapply nodup_app_r; exact Hn|exact Hb]].
Qed.

(* under that: the name and every alias of a sibling are contained and get exactly that sibling *)
Lemma cmds_by_name l b : siblings_distinct l -> In b l -> sget (b_name b) (cc_cmds (coll_of l)) = Some b.
Proof.
  intros Hd Hb. rewrite cmds_spec.
  destruct (find_rev_some (by_name (b_name b)) l b Hb) as [c Hc]; [unfold by_name; apply str_eqb_refl|].
  rewrite Hc. apply find_rev_in in Hc as [Hci Hcp]. unfold by_name in Hcp.
  destruct (str_eqb_spec (b_name b) (b_name c)) as [E|]; [|discriminate].
  f_equal. eapply (distinct_same_key l c b (b_name b)); eauto; [rewrite E|]; left; reflexivity.
Qed.
Lemma get_by_name l b : siblings_distinct l -> In b l -> coll_get (coll_of l) (b_name b) = Ok b.
Proof. intros Hd Hb. unfold coll_get. fold (@sget bcmd). now rewrite (cmds_by_name l b Hd Hb). Qed.
Lemma get_by_alias l b a : siblings_distinct l -> In b l -> In a (b_aliases b) -> coll_get (coll_of l) a = Ok b.
Proof.
  intros Hd Hb Ha. unfold coll_get. fold (@sget bcmd). fold (@sget str). rewrite cmds_spec, alias_spec.
  destruct (find (by_name a) (rev l)) as [c|] eqn:E1.
  - exfalso. apply find_rev_in in E1 as [Hci Hcp]. unfold by_name in Hcp.
    destruct (str_eqb_spec a (b_name c)) as [E|]; [|discriminate].
    assert (c = b) as -> by (eapply (distinct_same_key l c b a); eauto; [left; auto|right; exact Ha]).
    pose proof (distinct_keys_nodup l b Hd Hb) as Hk. unfold keys in Hk. inversion Hk; subst. tauto.
  - destruct (find_rev_some (by_alias a) l b Hb) as [c Hc].
    { unfold by_alias. apply existsb_exists. exists a. split; [exact Ha|apply str_eqb_refl]. }
    rewrite Hc. cbn [option_map]. apply find_rev_in in Hc as [Hci Hcp].
    assert (c = b) as ->.
    { unfold by_alias in Hcp. apply existsb_exists in Hcp as (a' & Ha' & He). destruct (str_eqb_spec a a'); [subst a'|discriminate].
      eapply (distinct_same_key l c b a); eauto; right; assumption. }
    now rewrite (cmds_by_name l b Hd Hb).
Qed.
Lemma contains_key l b k : In b l -> In k (keys b) -> coll_contains (coll_of l) k = true.
Proof. intros Hb Hk. apply coll_contains_spec. exists b. split; [exact Hb|]. destruct Hk as [Hk|Hk]; auto. Qed.

(* the head of the walk: an alias does what the name does *)
Lemma walk_alias_head l b a cur r : siblings_distinct l -> In b l -> In a (b_aliases b) ->
  walk (coll_of l) cur (a :: r) = walk (coll_of l) cur (b_name b :: r).
Proof.
  intros Hd Hb Ha. apply walk_alias.
  - apply (contains_key l b); [exact Hb|right; exact Ha].
  - apply (contains_key l b); [exact Hb|left; reflexivity].
  - rewrite (get_by_alias l b a Hd Hb Ha), (get_by_name l b Hd Hb). reflexivity.
Qed.

(* ---------- the whole path: two spellings of the same path ---------- *)
(* tree_distinct: the siblings at every level (non-anonymous ones: the ones reachable by name) are distinct *)
Inductive tree_distinct : list bcmd -> Prop :=
| td : forall l, siblings_distinct (filter (fun b => negb (b_anonymous b)) l) ->
                 (forall b, In b l -> tree_distinct (b_subs b)) -> tree_distinct l.

(* respells l names names': names' is names with any of the leading tokens that name a path replaced by another key
   (name or alias) of the same command, level by level; behind the path the two lines are the same *)
Inductive respells : list bcmd -> list str -> list str -> Prop :=
| rs_same : forall l names, respells l names names
| rs_step : forall l b k k' r r', In b (filter (fun b => negb (b_anonymous b)) l) -> In k (keys b) -> In k' (keys b) ->
            respells (b_subs b) r r' -> respells l (k :: r) (k' :: r').

Lemma get_by_key l b k : siblings_distinct l -> In b l -> In k (keys b) -> coll_get (coll_of l) k = Ok b.
Proof. intros Hd Hb [<-|Hk]; [apply get_by_name|apply get_by_alias]; auto. Qed.

Lemma walk_respelled : forall l names names', respells l names names' -> tree_distinct l ->
  forall cur, walk (named_of l) cur names = walk (named_of l) cur names'.
Proof.
  induction 1 as [|l b k k' r r' Hb Hk Hk' Hr IH]; intros Ht cur; [reflexivity|].
  inversion Ht as [? Hd Hsub]; subst. unfold named_of at 1 2. cbn [walk].
  rewrite (contains_key _ b k Hb Hk), (contains_key _ b k' Hb Hk'). cbn [negb].
  rewrite (get_by_key _ b k Hd Hb Hk), (get_by_key _ b k' Hd Hb Hk'). cbn [bind].
  apply IH. apply Hsub. apply filter_In in Hb. exact (proj1 Hb).
Qed.

(* ---------- the path returned ---------- *)
Inductive descendsP : coll -> list str -> bcmd -> list str -> Prop :=
| dp_one named n b : coll_contains named n = true -> coll_get named n = Ok b -> descendsP named [n] b [b_name b]
| dp_step named n b l b' p : coll_contains named n = true -> coll_get named n = Ok b ->
    descendsP (named_of (b_subs b)) l b' p -> descendsP named (n :: l) b' (b_name b :: p).
Lemma descendsP_descends named l b p : descendsP named l b p -> descends named l b /\ length p = length l.
Proof.
  induction 1 as [named n b Hc Hg|named n b l b' p Hc Hg Hd [IH1 IH2]].
  - split; [now constructor|reflexivity].
  - split; [eapply d_step; eauto|cbn; now rewrite IH2].
Qed.
Definition cur_path (cur : option (bcmd * list str)) : list str := match cur with Some (_, p) => p | None => [] end.

Lemma walk_path : forall names named cur b p,
  walk named cur names = Ok (Some (b, p)) ->
  (cur = Some (b, p) /\ match names with [] => True | n :: _ => coll_contains named n = false end) \/
  exists l1 l2 q, names = l1 ++ l2 /\ descendsP named l1 b q /\ p = cur_path cur ++ q /\
                  match l2 with [] => True | n :: _ => coll_contains (named_of (b_subs b)) n = false end.
Proof.
  induction names as [|n r IH]; intros named cur b p; cbn [walk].
  - intros E. inversion E. left. auto.
  - destruct (coll_contains named n) eqn:Hc; cbn [negb].
    + destruct (coll_get named n) as [b0|k] eqn:Hg; cbn [bind]; [|discriminate].
      intros E. right. apply IH in E as [[Hcur Hnext]|(l1 & l2 & q & -> & Hd & Hp & Hn)].
      * inversion Hcur; subst. exists [n], r, [b_name b]. split; [reflexivity|]. split; [now constructor|]. split; [reflexivity|exact Hnext].
      * exists (n :: l1), l2, (b_name b0 :: q). split; [reflexivity|]. split; [eapply dp_step; eauto|].
        split; [|exact Hn]. rewrite Hp. cbn [cur_path]. rewrite <- app_assoc. reflexivity.
    + intros E. inversion E. left. auto.
Qed.

(* ---------- the default choice, completely ---------- *)
Definition cannot (toks : list str) (x : bcmd) : Prop := parse (b_fmt x) (b_lenient x) toks = Err CannotParse.

Lemma pick_default_all_cannot : forall ds toks first, Forall (cannot toks) ds ->
  pick_default ds toks first =
  Ok (match first, ds with
      | Some (b, k), _ => Some (b, Err k)
      | None, d :: _ => Some (d, Err CannotParse)
      | None, [] => None end).
Proof.
  induction ds as [|d r IH]; intros toks first Hf; cbn [pick_default]; [destruct first as [[b k]|]; reflexivity|].
  inversion Hf as [|? ? Hd Hr]; subst. unfold cannot in Hd. rewrite Hd, (IH toks _ Hr).
  destruct first as [[b k]|]; reflexivity.
Qed.
Lemma pick_default_error_leaves : forall ds1 d ds2 toks k first, Forall (cannot toks) ds1 ->
  parse (b_fmt d) (b_lenient d) toks = Err k -> k <> CannotParse ->
  pick_default (ds1 ++ d :: ds2) toks first = Err k.
Proof.
  induction ds1 as [|x r IH]; intros d ds2 toks k first Hf Hd Hk; cbn [app pick_default].
  - rewrite Hd. destruct k; try reflexivity. congruence.
  - inversion Hf as [|? ? Hx Hr]; subst. unfold cannot in Hx. rewrite Hx. apply IH; assumption.
Qed.
(* and conversely: whatever pick_default answers is one of the three cases *)
Lemma pick_default_cases : forall ds toks,
  (Forall (cannot toks) ds) \/
  (exists ds1 d ds2 a, ds = ds1 ++ d :: ds2 /\ Forall (cannot toks) ds1 /\ parse (b_fmt d) (b_lenient d) toks = Ok a) \/
  (exists ds1 d ds2 k, ds = ds1 ++ d :: ds2 /\ Forall (cannot toks) ds1 /\ parse (b_fmt d) (b_lenient d) toks = Err k /\ k <> CannotParse).
Proof.
  induction ds as [|d r IH]; intros toks; [left; constructor|].
  destruct (parse (b_fmt d) (b_lenient d) toks) as [a|k] eqn:E.
  - right. left. exists [], d, r, a. repeat split; auto.
  - assert (k = CannotParse \/ k <> CannotParse) as [->|Hk] by (destruct k; auto; right; discriminate).
    + destruct (IH toks) as [H|[(ds1 & d' & ds2 & a & -> & H1 & H2)|(ds1 & d' & ds2 & k & -> & H1 & H2 & H3)]].
      * left. constructor; assumption.
      * right. left. exists (d :: ds1), d', ds2, a. repeat split; auto; try (constructor; assumption).
      * right. right. exists (d :: ds1), d', ds2, k. repeat split; auto; try (constructor; assumption).
    + right. right. exists [], d, r, k. repeat split; auto.
Qed.

(* ---------- the shape of every successful selection ---------- *)
Lemma resolve_shape a toks b p q f x :
  walk (named_of (ap_cmds a)) None (leading toks) = Ok (Some (b, p)) ->
  resolve a toks = Ok (q, f, x) ->
  (defaults_of (b_subs b) = [] /\ q = p /\ f = b_fmt b /\ parse (b_fmt b) (b_lenient b) toks = Ok x) \/
  (exists ds1 d ds2, defaults_of (b_subs b) = ds1 ++ d :: ds2 /\ Forall (cannot toks) ds1 /\
                     parse (b_fmt d) (b_lenient d) toks = Ok x /\ q = p ++ [b_name d] /\ f = b_fmt d).
Proof.
  intros Hw Hr. rewrite (resolve_walk a toks b p Hw) in Hr.
  destruct (pick_default_cases (defaults_of (b_subs b)) toks) as [H|[(ds1 & d & ds2 & y & E & H1 & H2)|(ds1 & d & ds2 & k & E & H1 & H2 & H3)]].
  - rewrite (pick_default_all_cannot _ _ None H) in Hr. cbn [bind] in Hr.
    destruct (defaults_of (b_subs b)) as [|d r] eqn:Ed; [|discriminate].
    left. destruct (parse (b_fmt b) (b_lenient b) toks) as [y|k]; [|discriminate]. cbn [bind] in Hr. inversion Hr; subst. auto.
  - rewrite E, (pick_default_first_parsable ds1 d y ds2 toks H1 H2 None) in Hr. cbn [bind] in Hr. inversion Hr; subst.
    right. exists ds1, d, ds2. auto.
  - rewrite E, (pick_default_error_leaves ds1 d ds2 toks k None H1 H2 H3) in Hr. discriminate.
Qed.

(* ---------- options after the path ---------- *)
(* they never change the NAMED command reached ... *)
Lemma walk_options_invariant named l o r : forallb lead_ok l = true -> starts_dash o = true ->
  walk named None (leading (l ++ o :: r)) = walk named None (leading l).
Proof.
  intros Hl Ho. rewrite (leading_cut l o r Hl (option_is_stopper o Ho)), (leading_all l Hl). reflexivity.
Qed.
(* ... and with at most one default sub-command below it, two lines with the same leading tokens that both resolve
   select the same command *)
Lemma same_leading_same_selection a toks toks' b p q f x q' f' x' :
  leading toks = leading toks' ->
  walk (named_of (ap_cmds a)) None (leading toks) = Ok (Some (b, p)) ->
  length (defaults_of (b_subs b)) <= 1 ->
  resolve a toks = Ok (q, f, x) -> resolve a toks' = Ok (q', f', x') -> q = q' /\ f = f'.
Proof.
  intros Hl Hw Hn H1 H2. pose proof Hw as Hw'. rewrite Hl in Hw'.
  destruct (resolve_shape a toks b p q f x Hw H1) as [(E & -> & -> & _)|(ds1 & d & ds2 & E & _ & _ & -> & ->)];
  destruct (resolve_shape a toks' b p q' f' x' Hw' H2) as [(E' & -> & -> & _)|(ds1' & d' & ds2' & E' & _ & _ & -> & ->)].
  - auto.
  - rewrite E in E'. destruct ds1'; discriminate.
  - rewrite E' in E. destruct ds1; discriminate.
  - rewrite E in Hn, E'. rewrite app_length in Hn. cbn [length] in Hn.
    destruct ds1 as [|? ds1]; [|cbn in Hn; lia]. destruct ds2; [|cbn in Hn; lia]. cbn [app] in E'.
    destruct ds1' as [|? ds1']; cbn [app] in E'; [inversion E'; subst; auto|].
    inversion E' as [[E1 E2]]. destruct ds1'; discriminate.
Qed.
