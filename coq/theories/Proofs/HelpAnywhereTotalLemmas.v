(* C09 after fix 488171f (the help resolver no longer lets a value error escape): the help switch anywhere behind the path
   prints the page of the help target for EVERY line - no side condition on what the command's lenient parse says.

   help_target (Model/Switches.v) now ends in help_lenient: Ok for a parse that succeeds and for one that ends in
   ValueError.  A lenient parse of a well-formed format cannot end in anything else (C02 parse_error_kinds_w: leniency
   swallows CannotParse / NoSuchOption, what is left is a value error), so help_lenient never fails on the formats of an
   application built from well-formed arguments and options (cfg_wf: C07's normal forms).  The probe of the default
   sub-commands (help_pick_default) treats a value error like a refused line; what can still leave it is NoSuchOption
   from a default sub-command probed STRICTLY - the choice among default sub-commands is made by parsing, as in C03. *)
From Coq Require Import Lia.
From Clikit Require Import Base.Prelude Base.Res Model.Conv Model.Flags Model.Format Model.Parser Model.Spell
     Model.Resolver Model.Tokenizer Model.Switches
     Proofs.StrLemmas Proofs.FormatLemmas Proofs.ParserLemmas Proofs.SpellArgs Proofs.FmtOkLemmas
     Proofs.ResolverLemmas Proofs.SwitchesLemmas Proofs.HelpTargetLemmas Proofs.HelpSamePageLemmas Proofs.HelpRunLemmas
     Proofs.SwitchesHelpLemmas Proofs.HelpAnywhereLemmas Proofs.HelpAnywhereErrLemmas Proofs.HelpAnywhereVersionLemmas
     Proofs.ResolverAliasFullLemmas.
From Clikit Require Proofs.ClassifyLemmas Proofs.ClassifyLineLemmas.

(* ================= a well-formed format: its lenient help parse never fails ================= *)
Definition good (f : fmt) : Prop := fmt_inv f /\ ClassifyLineLemmas.opts_listed_ok f = true.

Lemma help_lenient_good f toks : good f -> help_lenient f toks = Ok tt.
Proof.
  intros [Hi Ho]. unfold help_lenient. destruct (parse f true toks) as [x|k] eqn:E; [reflexivity|].
  now rewrite (lenient_parse_value_error_only f toks k Hi Ho E).
Qed.
(* the probe of a well-formed format: parses, refuses, meets a value that does not convert, or an unknown option *)
Lemma probe_kinds f len toks k : good f -> parse f len toks = Err k -> k = CannotParse \/ k = NoSuchOption \/ k = ValueError.
Proof.
  intros [Hi Ho] H. pose proof (wf_implies_fmt_ok_lemma f Hi) as Hok. apply fmt_ok_inv in Hok as (g & A & cns & FF).
  pose proof (ClassifyLineLemmas.opts_listed_ok_w f g A cns (ff_aug _ _ _ _ FF) Ho) as Hw.
  exact (proj1 (ClassifyLemmas.parse_error_kinds_w f len toks g A cns (ff_aug _ _ _ _ FF) Hw k H)).
Qed.

(* ================= configurations of constructed objects ================= *)
Definition opt_wf (o : opt) : bool := ClassifyLemmas.opt_ok_wb o.
Fixpoint cmd_wf (c : cmd) : bool :=
  match c with Cmd _ _ _ _ _ _ opts args subs =>
    forallb arg_valid args && forallb opt_wf opts &&
    (fix go (l : list cmd) : bool := match l with [] => true | x :: r => cmd_wf x && go r end) subs end.
Lemma cmd_wf_unfold name al d an en len opts args subs :
  cmd_wf (Cmd name al d an en len opts args subs) = forallb arg_valid args && forallb opt_wf opts && forallb cmd_wf subs.
Proof. cbn [cmd_wf]. f_equal. Qed.
Definition cfg_wf (cfg : appcfg) : bool :=
  forallb arg_valid (ac_args cfg) && forallb opt_wf (ac_opts cfg) && forallb cmd_wf (ac_cmds cfg).

Definition elem_opt_ok (e : element) : bool := match e with EOpt o => opt_wf o | _ => true end.
Definition opts_all_ok (l : list (str * opt)) : Prop := Forall (fun no => opt_wf (snd no) = true) l.

Lemma add_elem_opts_ok f e f' : elem_opt_ok e = true -> opts_all_ok (f_opts f) -> add_elem f e = Ok f' -> opts_all_ok (f_opts f').
Proof.
  intros He Hf H. destruct e as [o|c|a|c];
    try (apply add_other_inv in H as (-> & _); [exact Hf|discriminate]).
  apply HelpSamePageLemmas.add_option_inv in H as (_ & _ & -> & _). apply Forall_sset; assumption.
Qed.
Lemma add_elements_opts_ok es : forall f f', forallb elem_opt_ok es = true -> opts_all_ok (f_opts f) ->
  add_elements f es = Ok f' -> opts_all_ok (f_opts f').
Proof.
  induction es as [|e r IH]; intros f f' Hes Hf H; [cbn in H; inversion H; subst; exact Hf|].
  cbn [forallb] in Hes. apply andb_prop in Hes as [He Hr]. rewrite add_elements_cons in H.
  destruct (add_elem f e) as [f1|k] eqn:E; cbn [bind] in H; [|discriminate].
  eapply IH; [exact Hr| |exact H]. eapply add_elem_opts_ok; eauto.
Qed.
Lemma options_all_unfold f : get_options_all f =
  match f_base f with Some bf => supdate (f_opts f) (get_options_all bf) | None => f_opts f end.
Proof. destruct f as [[bf|] cn co cs ar os oss hm ho]; reflexivity. Qed.

Lemma format_listed_ok es base f : forallb elem_opt_ok es = true ->
  match base with Some bf => ClassifyLineLemmas.opts_listed_ok bf = true | None => True end ->
  format_of_elements es base = Ok f -> ClassifyLineLemmas.opts_listed_ok f = true.
Proof.
  intros Hes Hb. unfold format_of_elements.
  destruct (add_elements (empty_builder base) es) as [b|k] eqn:E; cbn [bind]; [|discriminate]. intros H. inversion H; subst f. clear H.
  pose proof (add_elements_opts_ok es (empty_builder base) b Hes (Forall_nil _) E) as Ho. pose proof (add_elements_base _ _ _ E) as Hbase. cbn in Hbase.
  destruct (build_format_same b) as (Hb0 & _ & _ & Hopts & _).
  unfold ClassifyLineLemmas.opts_listed_ok. rewrite options_all_unfold, Hb0, Hopts, Hbase. apply forallb_forall. intros [k o] Hin.
  destruct base as [bf|].
  - apply in_supdate in Hin as [Hin|Hin].
    + exact (proj1 (Forall_forall _ _) Ho _ Hin).
    + unfold ClassifyLineLemmas.opts_listed_ok in Hb. exact (proj1 (forallb_forall _ _) Hb _ Hin).
  - exact (proj1 (Forall_forall _ _) Ho _ Hin).
Qed.

Lemma cmd_elements_opts_ok name al anon opts args : forallb opt_wf opts = true ->
  forallb elem_opt_ok (cmd_elements name al anon opts args) = true.
Proof.
  intros H. unfold cmd_elements. rewrite !forallb_app.
  assert (forallb elem_opt_ok (map EOpt opts) = true) as ->.
  { induction opts as [|o r IH]; [reflexivity|]. cbn [forallb] in H. apply andb_prop in H as [Ho Hr]. cbn [map forallb elem_opt_ok]. now rewrite Ho, IH. }
  assert (forallb elem_opt_ok (map EArg args) = true) as -> by (induction args; [reflexivity|assumption]).
  destruct anon; reflexivity.
Qed.

Lemma build_cmd_good : forall c bf b, cmd_wf c = true -> good bf -> build_cmd (Some bf) c = Ok b -> tree_ok good b.
Proof.
  induction c as [name al d an en len opts args subs IH] using cmd_ind'. intros bf b Hv [Hi Ho]. rewrite build_cmd_eq.
  rewrite cmd_wf_unfold in Hv. apply andb_prop in Hv as [Hv Hvs]. apply andb_prop in Hv as [Hva Hvo].
  destruct (format_of_elements (cmd_elements name al an opts args) (Some bf)) as [f|k] eqn:Ef; cbn [bind]; [|discriminate].
  destruct (format_of_elements_fmt_ok_lemma _ (Some bf) f Hi (cmd_elements_valid name al an opts args Hva) Ef) as [Hfi _].
  pose proof (format_listed_ok _ (Some bf) f (cmd_elements_opts_ok name al an opts args Hvo) Ho Ef) as Hfo.
  destruct (build_subs_of f subs) as [bs|k] eqn:Ebs; cbn [bind]; [|discriminate].
  intros H. inversion H; subst b. clear H. apply tree_ok_unfold. cbn [b_fmt b_subs]. split; [split; assumption|].
  revert bs Ebs. induction subs as [|s r IHr]; intros bs Ebs.
  - cbn in Ebs. inversion Ebs. constructor.
  - inversion IH as [|? ? Hs Hr]; subst. cbn [forallb] in Hvs. apply andb_prop in Hvs as [Hv1 Hv2].
    rewrite build_subs_cons in Ebs. destruct (cmd_enabled s); [|now apply IHr].
    destruct (build_cmd (Some f) s) as [b1|k] eqn:E1; cbn [bind] in Ebs; [|discriminate].
    destruct (build_subs_of f r) as [bs1|k] eqn:E2; cbn [bind] in Ebs; [|discriminate].
    inversion Ebs; subst. constructor; [eapply Hs; eauto; split; assumption|now apply IHr].
Qed.
Lemma build_cmds_good g : good g -> forall l seen cs, forallb cmd_wf l = true -> build_cmds g seen l = Ok cs -> Forall (tree_ok good) cs.
Proof.
  intros Hg. induction l as [|c r IH]; intros seen cs Hv; [cbn; intros H; inversion H; constructor|].
  cbn [forallb] in Hv. apply andb_prop in Hv as [Hv1 Hv2].
  destruct c as [name al d an en len opts args subs]. cbn [build_cmds].
  destruct (negb en); [now apply IH|]. destruct name as [|ch name]; [discriminate|].
  destruct (existsb _ seen); [discriminate|].
  destruct (build_cmd (Some g) _) as [b|k] eqn:E1; cbn [bind]; [|discriminate].
  destruct (build_cmds g _ r) as [bs|k] eqn:E2; cbn [bind]; [|discriminate].
  intros H. inversion H; subst. constructor; [eapply build_cmd_good; eauto|eapply IH; eauto].
Qed.
Theorem build_app_good cfg a : build_app cfg = Ok a -> cfg_wf cfg = true -> Forall (tree_ok good) (ap_cmds a).
Proof.
  unfold build_app, cfg_wf. intros H Hv. apply andb_prop in Hv as [Hv Hvc]. apply andb_prop in Hv as [Hva Hvo].
  destruct (format_of_elements (map EArg (ac_args cfg) ++ map EOpt (ac_opts cfg)) None) as [g|k] eqn:Eg; cbn [bind] in H; [|discriminate].
  destruct (build_cmds g [] (ac_cmds cfg)) as [cs|k] eqn:Ec; cbn [bind] in H; [|discriminate].
  inversion H; subst a. cbn [ap_cmds].
  assert (forallb element_valid (map EArg (ac_args cfg) ++ map EOpt (ac_opts cfg)) = true) as Hev.
  { rewrite forallb_app, opts_valid, andb_true_r. now apply args_elements_valid. }
  assert (forallb elem_opt_ok (map EArg (ac_args cfg) ++ map EOpt (ac_opts cfg)) = true) as Heo.
  { rewrite forallb_app. apply andb_true_intro. split.
    - generalize (ac_args cfg). induction l; [reflexivity|assumption].
    - clear -Hvo. induction (ac_opts cfg) as [|o r IH]; [reflexivity|]. cbn [forallb] in Hvo. apply andb_prop in Hvo as [Ho Hr].
      cbn [map forallb elem_opt_ok]. now rewrite Ho, IH. }
  destruct (format_of_elements_fmt_ok_lemma _ None g I Hev Eg) as [Hgi _].
  pose proof (format_listed_ok _ None g Heo I Eg) as Hgo.
  eapply build_cmds_good; [split; eassumption|exact Hvc|exact Ec].
Qed.

(* the help command of a well-formed configuration: its options are well-formed objects *)
Lemma cfg_wf_help_options cfg a : build_app cfg = Ok a -> default_help_config cfg = true -> cfg_wf cfg = true ->
  help_options_ok a = true.
Proof.
  intros Hb Hc Hw. destruct (default_help_setup cfg a Hb Hc) as (hc & f & arg & o & HS).
  pose proof (build_app_good cfg a Hb Hw) as Hg. pose proof (coll_get_in _ _ _ (hs_all _ _ _ _ _ HS)) as Hin.
  pose proof (proj1 (Forall_forall _ _) Hg hc Hin) as Hhc. apply tree_ok_unfold in Hhc as [[_ Ho] _].
  unfold help_options_ok. now rewrite (setup_find a hc f arg o HS).
Qed.

(* ================= which default sub-command the help resolver explains ================= *)
(* the first one that parses the line under its own leniency, else the first one; None: no default sub-command *)
Fixpoint first_parsable (ds : list bcmd) (toks : list str) : option bcmd :=
  match ds with
  | [] => None
  | d :: r => match parse (b_fmt d) (b_lenient d) toks with Ok _ => Some d | Err _ => first_parsable r toks end
  end.
Definition help_choice (ds : list bcmd) (toks : list str) : option bcmd :=
  match first_parsable ds toks with Some d => Some d | None => match ds with d :: _ => Some d | [] => None end end.
(* no probe raises NoSuchOption before a default parses the line (a LENIENT default never raises it) *)
Fixpoint probes_quietly (ds : list bcmd) (toks : list str) : Prop :=
  match ds with
  | [] => True
  | d :: r => match parse (b_fmt d) (b_lenient d) toks with
              | Ok _ => True
              | Err k => k <> NoSuchOption /\ probes_quietly r toks
              end
  end.

Lemma help_pick_choice toks : forall ds first, Forall (fun d => good (b_fmt d)) ds -> probes_quietly ds toks ->
  exists r, help_pick_default ds toks first =
    Ok (match first_parsable ds toks with
        | Some d => Some (d, r)
        | None => match first, ds with
                  | Some (b, _), _ => Some (b, r)
                  | None, d :: _ => Some (d, r)
                  | None, [] => None end end).
Proof.
  induction ds as [|d r IH]; intros first Hg Hq; cbn [help_pick_default first_parsable].
  - destruct first as [[b k]|]; [exists (Err k)|exists (Err CannotParse)]; reflexivity.
  - inversion Hg as [|? ? Hd Hr]; subst. cbn [probes_quietly] in Hq.
    destruct (parse (b_fmt d) (b_lenient d) toks) as [x|k] eqn:E; [exists (Ok x); reflexivity|].
    destruct Hq as [Hk Hq]. destruct (probe_kinds _ _ _ _ Hd E) as [->|[->| ->]]; [|congruence|].
    + destruct first as [[b k0]|].
      * destruct (IH (Some (b, k0)) Hr Hq) as [r0 ->]. exists r0. reflexivity.
      * destruct (IH (Some (d, CannotParse)) Hr Hq) as [r0 ->]. exists r0. destruct (first_parsable r toks); reflexivity.
    + destruct first as [[b k0]|].
      * destruct (IH (Some (b, k0)) Hr Hq) as [r0 ->]. exists r0. reflexivity.
      * destruct (IH (Some (d, ValueError)) Hr Hq) as [r0 ->]. exists r0. destruct (first_parsable r toks); reflexivity.
Qed.

Lemma first_parsable_in ds toks d : first_parsable ds toks = Some d -> In d ds.
Proof.
  induction ds as [|c r IH]; cbn [first_parsable]; [discriminate|].
  destruct (parse (b_fmt c) (b_lenient c) toks); [intros H; inversion H; now left|intros H; right; now apply IH].
Qed.

(* ================= the page, for every line ================= *)
Section Total.
  Variables (cfg : appcfg) (a : application) (debug : bool) (path rest : list str).
  Hypothesis Hb : build_app cfg = Ok a.
  Hypothesis Hcfg : default_help_config cfg = true.
  Hypothesis Hwf : cfg_wf cfg = true.
  Hypothesis Hplain : forallb lead_ok path = true.
  Hypothesis Hne : path <> [].
  Hypothesis Hh : match path with t :: _ => str_eqb t S_help = false | [] => True end.
  Hypothesis Hsw : wants_help (option_tokens rest) = true.
  Hypothesis Hstop : starts_stopped rest = true.
  Variables (b : bcmd) (p : list str).
  Hypothesis Hw : walk (named_of (ap_cmds a)) None path = Ok (Some (b, p)).

  Lemma reached_good : tree_ok good b.
  Proof. exact (walk_tree_ok good path (ap_cmds a) None b p (build_app_good cfg a Hb Hwf) ltac:(discriminate) Hw). Qed.

  (* the help target of the line: b's default sub-command chosen by help_choice, else b - it always exists *)
  Lemma help_target_total : probes_quietly (defaults_of (b_subs b)) (path ++ rest) ->
    help_target a (path ++ rest) =
      Ok (match help_choice (defaults_of (b_subs b)) (path ++ rest) with Some d => p ++ [b_name d] | None => p end).
  Proof.
    intros Hq. pose proof reached_good as Hg. apply tree_ok_unfold in Hg as [Hgb Hgs].
    assert (Forall (fun d => good (b_fmt d)) (defaults_of (b_subs b))) as Hgd.
    { apply Forall_forall. intros d Hd. apply defaults_of_in in Hd. pose proof (proj1 (Forall_forall _ _) Hgs d Hd) as H.
      now apply tree_ok_unfold in H as [H _]. }
    rewrite (help_target_walks a (path ++ rest) b p).
    - destruct (help_pick_choice (path ++ rest) (defaults_of (b_subs b)) None Hgd Hq) as [r ->]. cbn [bind]. unfold help_choice.
      destruct (first_parsable (defaults_of (b_subs b)) (path ++ rest)) as [d|] eqn:Ef.
      + rewrite (help_lenient_good (b_fmt d)); [reflexivity|]. apply (proj1 (Forall_forall _ _) Hgd). eapply first_parsable_in; eauto.
      + destruct (defaults_of (b_subs b)) as [|d ds] eqn:Ed.
        * now rewrite (help_lenient_good (b_fmt b) _ Hgb).
        * inversion Hgd; subst. now rewrite (help_lenient_good (b_fmt d)).
    - destruct path as [|t r]; [congruence|exact Hh].
    - now rewrite (leading_app_stopped _ _ Hplain Hstop).
  Qed.

  (* the run: an error of the help command's own parse (a value error of a typed GLOBAL option), name and version when
     the version switch was given as well, else THE PAGE - status 0, no handler *)
  Lemma help_anywhere_total : probes_quietly (defaults_of (b_subs b)) (path ++ rest) ->
    sm_action (run_summary debug a (path ++ rest)) =
      match help_line_parse a (path ++ rest) with
      | Err k => AError k
      | Ok (fx, x) =>
        if args_is_option_set fx x S_version || wants_version (option_tokens rest) then AVersion [S_help]
        else AHelpCmd (match help_choice (defaults_of (b_subs b)) (path ++ rest) with Some d => p ++ [b_name d] | None => p end)
      end.
  Proof.
    intros Hq. rewrite (help_anywhere_run cfg a debug path rest Hb Hcfg Hplain Hne Hh Hsw).
    destruct (help_line_parse a (path ++ rest)) as [[fx x]|k]; [|reflexivity].
    destruct (args_is_option_set fx x S_version || wants_version (option_tokens rest)); [reflexivity|].
    unfold help_page. now rewrite (help_target_total Hq).
  Qed.

  (* closed form: a configuration with the version option, no token spelling it, the help command's parse not failing *)
  Lemma help_anywhere_total_closed : defines_version cfg = true -> no_version_spelling (option_tokens rest) = true ->
    probes_quietly (defaults_of (b_subs b)) (path ++ rest) ->
    (forall k, help_line_parse a (path ++ rest) <> Err k) ->
    sm_action (run_summary debug a (path ++ rest)) =
      AHelpCmd (match help_choice (defaults_of (b_subs b)) (path ++ rest) with Some d => p ++ [b_name d] | None => p end).
  Proof.
    intros Hv Hno Hq Hok. rewrite (help_anywhere_total Hq).
    destruct (help_line_parse a (path ++ rest)) as [[fx x]|k] eqn:E; [|destruct (Hok k eq_refl)].
    rewrite (help_line_version_not_set cfg a _ fx x Hb Hcfg Hv E) by (now rewrite (no_spelling_line _ _ Hplain)).
    now rewrite (no_spelling_no_token _ Hno).
  Qed.
  (* without default sub-commands: THAT command's page, nothing to probe *)
  Lemma help_anywhere_total_that_command : defaults_of (b_subs b) = [] ->
    defines_version cfg = true -> no_version_spelling (option_tokens rest) = true ->
    (forall k, help_line_parse a (path ++ rest) <> Err k) ->
    sm_action (run_summary debug a (path ++ rest)) = AHelpCmd p /\ prints_page (sm_action (run_summary debug a (path ++ rest))) = true.
  Proof.
    intros Hd Hv Hno Hok. rewrite (help_anywhere_total_closed Hv Hno); [|rewrite Hd; exact I|exact Hok]. rewrite Hd. cbn. auto.
  Qed.
End Total.

(* ================= the switch INSERTED at any position of a line, before its first "--" ================= *)
Lemma leading_insert_stopper : forall l1 s r, stopper s = true -> leading (l1 ++ s :: r) = leading l1.
Proof.
  induction l1 as [|t l IH]; intros s r Hs; cbn [app]; rewrite !leading_step.
  - unfold stopper in Hs. destruct (lead_ok s); [discriminate|reflexivity].
  - destruct (lead_ok t); [|reflexivity]. now rewrite IH.
Qed.

Theorem help_inserted_total cfg a debug l1 sw l2 b p :
  build_app cfg = Ok a -> default_help_config cfg = true -> cfg_wf cfg = true -> defines_version cfg = true ->
  no_ddash l1 = true -> sw = T_help \/ sw = T_h ->
  (match leading l1 with t :: _ => str_eqb t S_help = false | [] => False end) ->
  no_version_spelling (option_tokens (l1 ++ sw :: l2)) = true ->
  (forall k, help_line_parse a (l1 ++ sw :: l2) <> Err k) ->
  walk (named_of (ap_cmds a)) None (leading l1) = Ok (Some (b, p)) ->
  probes_quietly (defaults_of (b_subs b)) (l1 ++ sw :: l2) ->
  sm_action (run_summary debug a (l1 ++ sw :: l2)) =
    AHelpCmd (match help_choice (defaults_of (b_subs b)) (l1 ++ sw :: l2) with Some d => p ++ [b_name d] | None => p end).
Proof.
  intros Hb Hc Hwf Hv Hnd Hsw Hlead Hno Hok Hw Hq.
  assert (stopper sw = true /\ is_ddash sw = false) as [Hst Hdd] by (destruct Hsw as [-> | ->]; split; reflexivity).
  destruct (line_decomposes (l1 ++ sw :: l2)) as (path & rest & E & Hp & Hr & El).
  rewrite (leading_insert_stopper l1 sw l2 Hst) in El. rewrite <- El in Hw, Hlead.
  assert (wants_help (option_tokens (l1 ++ sw :: l2)) = true) as Hwh.
  { rewrite (option_tokens_insert l1 sw l2 Hdd Hnd). apply (wants_help_in sw _ Hsw). apply in_or_app. right. now left. }
  rewrite E in *. rewrite (wants_help_line _ _ Hp) in Hwh. rewrite (no_spelling_line _ _ Hp) in Hno.
  apply (help_anywhere_total_closed cfg a debug path rest Hb Hc Hwf Hp); try assumption.
  - destruct path; [destruct Hlead|discriminate].
  - destruct path; [destruct Hlead|exact Hlead].
Qed.

(* ================= the model BEFORE the repair (fix 488171f), kept for the record ================= *)
(* HelpResolver with DefaultResolver's probe loop and a lenient parse whose ValueError escaped *)
Definition help_target_before_the_repair (a : application) (toks : list str) : res (list str) :=
  let toks := match toks with t :: r => if str_eqb t S_help then r else toks | [] => [] end in
  let names := leading toks in
  do w <- walk (named_of (ap_cmds a)) None names;
  match w with
  | Some (b, path) =>
    do d <- pick_default (defaults_of (b_subs b)) toks None;
    match d with
    | Some (dc, r) => do x <- parse (b_fmt dc) true toks; Ok (path ++ [b_name dc])
    | None => do x <- parse (b_fmt b) true toks; Ok path
    end
  | None =>
    match names with
    | _ :: _ => Err CannotResolve
    | [] =>
      do d <- pick_default (defaults_of (ap_cmds a)) toks None;
      match d with
      | Some (dc, r) => do x <- parse (b_fmt dc) true toks; Ok [b_name dc]
      | None => Err CannotResolve
      end
    end
  end.
