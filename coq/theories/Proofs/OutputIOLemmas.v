(* Proofs about Model/OutputIO.v: the writing methods of IO over the output model of C11. *)
From Coq Require Import Lia.
(* (GateIO before OutputM: `exec` below is the program model's) *)
From Clikit Require Import Base.Prelude Base.Res Model.Conv Model.Markup Model.Gate Model.GateIO Model.OutputM Model.OutputIO
  Proofs.OutputLemmas.

(* every one of the eight methods is a write statement of the program model ... *)
Lemma io_stmt_total m text : exists t wm, io_stmt m text = Some (SWrite t wm text).
Proof. destruct m; cbn; eauto. Qed.

(* ... and running that statement is the call *)
Lemma io_stmt_is_io_write m text stm st : io_stmt m text = Some stm ->
  exec stm st = match io_write st m text with Ok st' => (st', false) | Err _ => (st, true) end.
Proof.
  unfold io_stmt, io_write. destruct (wmeth_of (snd (fst (io_delegate m)))) as [wm|]; cbn [option_map]; [|discriminate].
  intros H. injection H as <-. destruct (fst (fst (io_delegate m))); cbn [target_of exec].
  - destruct (do_write (io_out st) wm text); reflexivity.
  - destruct (do_write (io_err st) wm text); reflexivity.
Qed.

(* the line-writing methods of IO are these four *)
Lemma io_line_methods_table :
  filter is_line_method all_io_methods = [IoWriteLine; IoWriteLineRaw; IoErrorLine; IoErrorLineRaw].
Proof. reflexivity. Qed.

Definition push_out (st : iost) (b : str) : iost :=
  {| io_out := buf_push (io_out st) (o_fmt (io_out st)) b; io_err := io_err st |}.
Definition push_err (st : iost) (b : str) : iost :=
  {| io_out := io_out st; io_err := buf_push (io_err st) (o_fmt (io_err st)) b |}.

(* io.write_line is io.write followed by ONE line feed on the standard output; io.error_line is io.error followed by one on the
   error output - on every I/O whose output is not a decorated section *)
Lemma io_write_line_is_write_nl st s : o_sec (io_out st) && o_on (io_out st) = false ->
  io_write st IoWriteLine s = (do st1 <- io_write st IoWrite s; Ok (push_out st1 [NL])).
Proof.
  intros H. unfold io_write. cbn [io_delegate fst snd wmeth_of]. rewrite (write_line_is_write_nl _ _ H).
  destruct (do_write (io_out st) WWrite s); reflexivity.
Qed.
Lemma io_error_line_is_error_nl st s : o_sec (io_err st) && o_on (io_err st) = false ->
  io_write st IoErrorLine s = (do st1 <- io_write st IoError s; Ok (push_err st1 [NL])).
Proof.
  intros H. unfold io_write. cbn [io_delegate fst snd wmeth_of]. rewrite (write_line_is_write_nl _ _ H).
  destruct (do_write (io_err st) WWrite s); reflexivity.
Qed.
(* on a decorated section both methods of a pair are the same call (the section ends the line itself, once) *)
Lemma io_section_write_is_write_line st s :
  (o_sec (io_out st) && o_on (io_out st) = true -> io_write st IoWrite s = io_write st IoWriteLine s) /\
  (o_sec (io_err st) && o_on (io_err st) = true -> io_write st IoError s = io_write st IoErrorLine s).
Proof.
  split; intros H; unfold io_write; cbn [io_delegate fst snd wmeth_of]; now rewrite (section_write_is_write_line _ _ H).
Qed.

(* the raw line methods: the text without its trailing line feeds, then one line feed; nothing else is touched *)
Lemma io_write_line_raw_exact st s :
  io_write st IoWriteLineRaw s =
    Ok {| io_out := with_buf (io_out st) (o_fmt (io_out st)) (o_buf (io_out st) ++ rstrip_nl s ++ [NL]); io_err := io_err st |} /\
  io_write st IoErrorLineRaw s =
    Ok {| io_out := io_out st; io_err := with_buf (io_err st) (o_fmt (io_err st)) (o_buf (io_err st) ++ rstrip_nl s ++ [NL]) |}.
Proof. split; reflexivity. Qed.

(* EVERY line-writing method of IO, on every I/O (sections included): when the call returns, the stream of the output the
   method belongs to has grown by a body and ONE final line feed, its indentation is what it was, and the other output is
   untouched *)
Definition out_of (t : which) (st : iost) : outp := match t with WOut => io_out st | WErr => io_err st end.
Definition other_of (t : which) (st : iost) : outp := match t with WOut => io_err st | WErr => io_out st end.
Lemma io_line_method_shape m st s st' : is_line_method m = true -> io_write st m s = Ok st' ->
  let t := fst (fst (io_delegate m)) in
  (exists body, o_buf (out_of t st') = o_buf (out_of t st) ++ body ++ [NL]) /\
  o_indent (out_of t st') = o_indent (out_of t st) /\ other_of t st' = other_of t st.
Proof.
  destruct m; cbn [is_line_method io_delegate fst snd]; try discriminate; intros _; unfold io_write; cbn [io_delegate fst snd wmeth_of];
    intros H.
  - destruct (do_write (io_out st) WWriteLine s) as [o|] eqn:E; cbn [bind] in H; [|discriminate]. injection H as <-.
    destruct (write_line_shape _ _ _ E) as (body & Hb & Hi). cbn [out_of other_of io_out io_err]. eauto.
  - destruct (write_line_raw_shape (io_out st) s) as (o & E & Hb & Hi & _). rewrite E in H. cbn [bind] in H. injection H as <-.
    cbn [out_of other_of io_out io_err]. eauto.
  - destruct (do_write (io_err st) WWriteLine s) as [o|] eqn:E; cbn [bind] in H; [|discriminate]. injection H as <-.
    destruct (write_line_shape _ _ _ E) as (body & Hb & Hi). cbn [out_of other_of io_out io_err]. eauto.
  - destruct (write_line_raw_shape (io_err st) s) as (o & E & Hb & Hi & _). rewrite E in H. cbn [bind] in H. injection H as <-.
    cbn [out_of other_of io_out io_err]. eauto.
Qed.

(* a method that is not a line method and is not called on a decorated section adds no line feed of its own: write / error
   leave what write_line / error_line leave minus the final line feed (above); write_raw / error_raw append the text as it is *)
Lemma io_raw_exact st s :
  io_write st IoWriteRaw s = Ok {| io_out := with_buf (io_out st) (o_fmt (io_out st)) (o_buf (io_out st) ++ s); io_err := io_err st |} /\
  io_write st IoErrorRaw s = Ok {| io_out := io_out st; io_err := with_buf (io_err st) (o_fmt (io_err st)) (o_buf (io_err st) ++ s) |}.
Proof. split; reflexivity. Qed.
