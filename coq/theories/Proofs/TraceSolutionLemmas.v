(* C20, the solutions: ExceptionTrace._render_solution writes, after the report of _render_exception, one block per
   solution the provider repository returns for the exception (title, description, documentation links - texts that come
   from outside clikit).  The line of a solution IS a line of literals and safe separators, for every title, description
   and links; hence the solutions add no failure to render - which never fails (render_sol_never_fails_unconditionally) -
   and the undecorated bytes say the texts as they are. *)
From Coq Require Import Lia.
From Clikit Require Import Base.Prelude Base.Res Model.Conv Model.Markup Model.OutputM Model.Trace
  Proofs.MarkupLemmas Proofs.OutputLemmas Proofs.TraceLemmas Proofs.LiteralLemmas Proofs.TraceRenderLemmas.

(* ------------------------------------------------------------------ 1. the line of a solution *)
(* the texts between the tags: the title without its trailing dots; the description with four blanks after every line
   break, without the blanks at its two ends; the links *)
Definition bullet (utf8 : bool) : str := if utf8 then [8226%N] else [42%N].
Definition sol_title (s : solution) : str := rstrip_char 46 (so_title s).
Definition sol_desc (s : solution) : str := strip_char 32 (replace [NL] nl_indent4 (so_desc s)).
(* a link: a line break and two blanks (after a comma for every link but the first), then <fg=blue>link</> *)
Definition link_piece (pre : str) (l : str) : list piece := [PRaw (pre ++ [NL; 32; 32]%N); PLit Trace.st_blue l].
Definition link_pieces (links : list str) : list piece :=
  match links with [] => [] | l :: r => link_piece [] l ++ flat_map (link_piece [COMMA]) r end.
(* <fg=blue;options=bold>* </><fg=default;options=bold>title</>: <fg=default>description</> links *)
Definition sol_pieces (utf8 : bool) (s : solution) : list piece :=
  [PLit th_number (bullet utf8 ++ [32%N]); PLit th_builtin (sol_title s); PRaw [58; 32]%N; PLit th_default (sol_desc s)]
    ++ link_pieces (so_links s).

Lemma join_with_cons sep x r : join_with sep (x :: r) = x ++ flat_map (fun y => sep :: y) r.
Proof.
  revert x. induction r as [|y r IH]; intros x; [cbn [join_with flat_map]; now rewrite app_nil_r|].
  change (join_with sep (x :: y :: r)) with (x ++ sep :: join_with sep (y :: r)). rewrite (IH y). reflexivity.
Qed.
Lemma link_piece_str pre l :
  line_str (link_piece pre l) = pre ++ [NL; 32; 32]%N ++ tagged Trace.st_blue (literal l Trace.st_blue).
Proof. unfold link_piece, line_str. cbn [flat_map piece_str]. now rewrite app_nil_r, <- app_assoc. Qed.
Lemma link_pieces_str links :
  join_with COMMA (map (fun l => [NL; 32; 32]%N ++ tagged Trace.st_blue (literal l Trace.st_blue)) links) = line_str (link_pieces links).
Proof.
  destruct links as [|l r]; [reflexivity|]. cbn [map]. rewrite join_with_cons. unfold link_pieces.
  rewrite line_str_app, link_piece_str. cbn [app]. f_equal. f_equal. f_equal. f_equal.
  induction r as [|y r IH]; [reflexivity|]. cbn [map flat_map]. rewrite line_str_app, link_piece_str, IH. reflexivity.
Qed.
Lemma bullet_safe utf8 : safe (bullet utf8 ++ [32%N]).
Proof. destruct utf8; safe_by_compute. Qed.

(* 1a. the explicit piece list *)
Theorem solution_line_pieces utf8 s : solution_line utf8 s = line_str (sol_pieces utf8 s).
Proof.
  unfold solution_line, sol_pieces. rewrite line_str_app, <- link_pieces_str. fold (sol_title s) (sol_desc s) (bullet utf8).
  unfold line_str at 1. cbn [flat_map piece_str]. rewrite (literal_safe _ th_number (bullet_safe utf8)).
  generalize (literal (sol_title s) th_builtin) (literal (sol_desc s) th_default)
    (join_with COMMA (map (fun l => [NL; 32; 32]%N ++ tagged Trace.st_blue (literal l Trace.st_blue)) (so_links s))).
  intros A B C. unfold s_sol_open, s_sol_mid, s_sol_colon, tagged, close_any, th_number, th_builtin, th_default, bullet, LT, GT, SLASH.
  destruct utf8; repeat (progress (rewrite <- ?app_assoc; cbn [app])); reflexivity.
Qed.

Lemma st_blue_inline : In Trace.st_blue inline_tags.
Proof. unfold inline_tags. cbn [In]. right. right. right. left. reflexivity. Qed.
Lemma inline_piece_ok sty tag s : In tag inline_tags -> piece_ok sty (PLit tag s).
Proof. intros H. split; [apply inline_tag_name, H|apply inline_resolvable, H]. Qed.
Lemma link_piece_ok sty pre l : safe pre -> pieces_ok sty (link_piece pre l).
Proof.
  intros Hpre. constructor; [apply safe_app; [exact Hpre|safe_by_compute]|].
  constructor; [apply inline_piece_ok, st_blue_inline|constructor].
Qed.
Lemma link_pieces_ok sty links : pieces_ok sty (link_pieces links).
Proof.
  destruct links as [|l r]; [constructor|]. unfold link_pieces. apply Forall_app. split; [apply link_piece_ok, safe_nil|].
  apply Forall_flat_map, Forall_forall. intros y _. apply link_piece_ok. safe_by_compute.
Qed.
(* the tags are inline styles: they resolve in every style table, no style has to be registered *)
Theorem sol_pieces_ok sty utf8 s : pieces_ok sty (sol_pieces utf8 s).
Proof.
  unfold sol_pieces. apply Forall_app. split; [|apply link_pieces_ok].
  constructor; [apply inline_piece_ok; inline_in|]. constructor; [apply inline_piece_ok; inline_in|].
  constructor; [cbn [piece_ok]; safe_by_compute|]. constructor; [apply inline_piece_ok; inline_in|constructor].
Qed.
(* 1b. for every style table and EVERY title, description and links *)
Theorem solution_line_good sty utf8 s : good_line sty (solution_line utf8 s).
Proof. exists (sol_pieces utf8 s). split; [apply sol_pieces_ok|apply solution_line_pieces]. Qed.

(* ---- ESC-free texts ---- *)
Definition sol_ne (s : solution) : Prop := no_esc (so_title s) /\ no_esc (so_desc s) /\ Forall no_esc (so_links s).
Lemma ne_lstrip_char ch s : no_esc s -> no_esc (lstrip_char ch s).
Proof. induction 1 as [|c r Hc Hr IH]; cbn [lstrip_char]; [constructor|]. destruct (N.eqb c ch); [exact IH|constructor; assumption]. Qed.
Lemma ne_rstrip_char ch s : no_esc s -> no_esc (rstrip_char ch s).
Proof. intros H. unfold rstrip_char. apply ne_rev, ne_lstrip_char, ne_rev, H. Qed.
Lemma ne_strip_char ch s : no_esc s -> no_esc (strip_char ch s).
Proof. intros H. unfold strip_char. apply ne_rstrip_char, ne_lstrip_char, H. Qed.
Lemma sol_title_ne s : no_esc (so_title s) -> no_esc (sol_title s).
Proof. apply ne_rstrip_char. Qed.
Lemma sol_desc_ne s : no_esc (so_desc s) -> no_esc (sol_desc s).
Proof. intros H. unfold sol_desc. apply ne_strip_char, ne_replace; [ne_compute|exact H]. Qed.
Lemma link_piece_noesc pre l : no_esc pre -> no_esc l -> pieces_noesc (link_piece pre l).
Proof.
  intros Hpre Hl. constructor; [cbn [piece_noesc]; apply ne_app; [exact Hpre|ne_compute]|]. constructor; [exact Hl|constructor].
Qed.
Lemma link_pieces_noesc links : Forall no_esc links -> pieces_noesc (link_pieces links).
Proof.
  intros H. destruct links as [|l r]; [constructor|]. inversion H as [|? ? Hl Hr]; subst. unfold link_pieces.
  apply Forall_app. split; [apply link_piece_noesc; [constructor|exact Hl]|].
  apply Forall_flat_map. eapply Forall_impl; [|exact Hr]. intros y Hy. apply link_piece_noesc; [ne_compute|exact Hy].
Qed.
Theorem sol_pieces_noesc utf8 s : sol_ne s -> pieces_noesc (sol_pieces utf8 s).
Proof.
  intros (Ht & Hd & Hl). unfold sol_pieces. apply Forall_app. split; [|apply link_pieces_noesc, Hl].
  constructor; [cbn [piece_noesc]; destruct utf8; ne_compute|]. constructor; [apply sol_title_ne, Ht|].
  constructor; [cbn [piece_noesc]; ne_compute|]. constructor; [apply sol_desc_ne, Hd|constructor].
Qed.
(* 1c. the ESC-free variant, for the decorated case *)
Theorem solution_line_good_ne sty utf8 s : sol_ne s -> good_line_ne sty (solution_line utf8 s).
Proof.
  intros H. exists (sol_pieces utf8 s). split; [apply sol_pieces_ok|]. split; [apply sol_pieces_noesc, H|apply solution_line_pieces].
Qed.
Lemma solution_line_noesc utf8 s : sol_ne s -> no_esc (solution_line utf8 s).
Proof.
  intros (Ht & Hd & Hl). unfold solution_line. apply ne_app; [ne_compute|]. apply ne_app; [destruct utf8; ne_compute|].
  apply ne_app; [ne_compute|]. apply ne_app; [apply ne_literal; [ne_compute|apply sol_title_ne, Ht]|]. apply ne_app; [ne_compute|].
  apply ne_app; [apply ne_tagged; [ne_compute|apply ne_literal; [ne_compute|apply sol_desc_ne, Hd]]|].
  destruct (so_links s) as [|l r]; [constructor|]. cbn [map]. rewrite join_with_cons. inversion Hl as [|? ? Hl1 Hlr]; subst.
  assert (forall y, no_esc y -> no_esc ([NL; 32; 32]%N ++ tagged Trace.st_blue (literal y Trace.st_blue))) as Hf.
  { intros y Hy. apply ne_app; [ne_compute|]. apply ne_tagged; [ne_compute|apply ne_literal; [ne_compute|exact Hy]]. }
  apply ne_app; [apply Hf, Hl1|]. apply Forall_flat_map, Forall_map. eapply Forall_impl; [|exact Hlr].
  intros y Hy. constructor; [discriminate|apply Hf, Hy].
Qed.

(* ------------------------------------------------------------------ 2. every line of the report with solutions *)
(* the lines of the solution blocks, given by their pieces: a blank line, then the solution *)
Definition sol_plines (ind : Z) (utf8 : bool) (sols : list solution) : list pline :=
  flat_map (fun s => [(ind, []); (ind, sol_pieces utf8 s)]) sols.
Lemma render_solutions_pieces c ind sols : render_solutions c ind sols = map pline_w (sol_plines ind (t_utf8 c) sols).
Proof.
  unfold render_solutions, sol_plines. induction sols as [|s r IH]; [reflexivity|]. cbn [flat_map]. rewrite map_app, IH. f_equal.
  unfold render_line, pline_w. cbn [map fst snd app Z.to_nat repeat]. rewrite solution_line_pieces. reflexivity.
Qed.
Lemma sol_plines_ok sty ind utf8 sols : Forall (fun p : pline => pieces_ok sty (snd p)) (sol_plines ind utf8 sols).
Proof.
  unfold sol_plines. apply Forall_flat_map, Forall_forall. intros s _.
  constructor; [constructor|]. constructor; [apply sol_pieces_ok|constructor].
Qed.
Lemma sol_plines_noesc ind utf8 sols : Forall sol_ne sols -> Forall (fun p : pline => pieces_noesc (snd p)) (sol_plines ind utf8 sols).
Proof.
  intros H. unfold sol_plines. apply Forall_flat_map. eapply Forall_impl; [|exact H]. intros s Hs.
  constructor; [constructor|]. constructor; [apply sol_pieces_noesc, Hs|constructor].
Qed.
Lemma good_render_solutions sty c ind sols : Forall (fun wl : wline => good_line sty (snd wl)) (render_solutions c ind sols).
Proof.
  unfold render_solutions. apply Forall_flat_map, Forall_forall. intros s _. apply good_render_line, solution_line_good.
Qed.
Lemma render_solutions_noesc c ind sols : Forall sol_ne sols -> Forall (fun wl : wline => no_esc (snd wl)) (render_solutions c ind sols).
Proof.
  intros H. unfold render_solutions. apply Forall_flat_map. eapply Forall_impl; [|exact H]. intros s Hs.
  apply render_line_ne, solution_line_noesc, Hs.
Qed.

(* the shape of render_lines_sol: the report alone in simple mode and for an exception without frames, otherwise the
   report followed by the blocks *)
Lemma render_lines_sol_shape c simple ind x sols :
  render_lines_sol c simple ind x sols
  = if simple || match x_frames x with [] => true | _ => false end then render_lines c simple ind x
    else do ls <- render_lines c simple ind x; Ok (ls ++ render_solutions c (ind + 2) sols).
Proof.
  unfold render_lines_sol. destruct simple; [reflexivity|]. cbn [orb].
  destruct (x_frames x) as [|f0 fs] eqn:EF; [|reflexivity]. unfold render_lines, render_exception. rewrite EF. reflexivity.
Qed.

Section GoodSol.
Variable sty : styles.
Hypothesis Herr : resolvable sty st_error.
Hypothesis Hb : resolvable sty st_b.
(* 2. every line handed to write_line is a line of literals and safe separators - the solutions' lines included *)
Theorem render_lines_sol_good c simple ind x sols ls :
  render_lines_sol c simple ind x sols = Ok ls -> Forall (fun wl => good_line sty (snd wl)) ls.
Proof.
  rewrite render_lines_sol_shape. destruct (simple || match x_frames x with [] => true | _ => false end).
  - apply (render_lines_good sty Herr Hb).
  - destruct (render_lines c simple ind x) as [l0|e] eqn:E; cbn [bind]; [|discriminate]. intros H. injection H as <-.
    apply Forall_app. split; [apply (render_lines_good sty Herr Hb c simple ind x l0 E)|apply good_render_solutions].
Qed.
Corollary render_lines_sol_good_ne c simple ind x sols ls :
  render_lines_sol c simple ind x sols = Ok ls -> Forall (fun wl => no_esc (snd wl)) ls -> Forall (fun wl => good_line_ne sty (snd wl)) ls.
Proof.
  intros H Hne. pose proof (render_lines_sol_good c simple ind x sols ls H) as HG. rewrite Forall_forall in *.
  intros wl Hin. apply good_noesc; [apply HG, Hin|apply Hne, Hin].
Qed.
End GoodSol.

(* ESC-free inputs and solution texts give ESC-free lines *)
Theorem lines_sol_noesc c simple ind x sols ls : inputs_ne c x -> Forall sol_ne sols ->
  render_lines_sol c simple ind x sols = Ok ls -> Forall (fun wl => no_esc (snd wl)) ls.
Proof.
  intros Hin Hs. rewrite render_lines_sol_shape. destruct (simple || match x_frames x with [] => true | _ => false end).
  - apply (lines_noesc c simple ind x ls Hin).
  - destruct (render_lines c simple ind x) as [l0|e] eqn:E; cbn [bind]; [|discriminate]. intros H. injection H as <-.
    apply Forall_app. split; [apply (lines_noesc c simple ind x l0 Hin E)|apply render_solutions_noesc, Hs].
Qed.

(* ------------------------------------------------------------------ 3. render with solutions never fails *)
(* once the lines exist, writing them cannot fail *)
Theorem render_sol_never_fails_l sty c simple o x sols ls :
  out_ok sty o -> resolvable sty st_error -> resolvable sty st_b ->
  render_lines_sol c simple (o_indent o) x sols = Ok ls ->
  (decorated o = true -> Forall (fun wl => no_esc (snd wl)) ls) ->
  exists bytes, render_sol c simple o x sols = Ok bytes.
Proof.
  intros Ho Herr Hb HL Hne. unfold render_sol. rewrite HL. cbn [bind].
  destruct (write_lines_good sty ls o Ho (render_lines_sol_good sty Herr Hb c simple _ x sols ls HL) Hne) as (o' & HW & _).
  rewrite HW. cbn [bind]. eexists. reflexivity.
Qed.
(* 3b. the solutions add no failure: the lines always exist, as those of the report alone do *)
Theorem render_lines_sol_total c simple ind x sols : exists ls, render_lines_sol c simple ind x sols = Ok ls.
Proof.
  rewrite render_lines_sol_shape. destruct (simple || match x_frames x with [] => true | _ => false end); [apply render_lines_total|].
  destruct (render_lines_total c simple ind x) as (l0 & ->). cbn [bind]. eexists. reflexivity.
Qed.
Theorem render_lines_sol_simple_ok c ind x sols : exists ls, render_lines_sol c true ind x sols = Ok ls.
Proof. apply render_lines_sol_total. Qed.
(* 3c. an output that does not decorate: render_sol succeeds for EVERY exception case and EVERY solutions *)
Theorem render_sol_never_fails_plain sty c simple o x sols :
  out_ok sty o -> resolvable sty st_error -> resolvable sty st_b -> decorated o = false ->
  exists bytes, render_sol c simple o x sols = Ok bytes.
Proof.
  intros Ho Herr Hb Hd. destruct (render_lines_sol_total c simple (o_indent o) x sols) as (ls & HL).
  apply (render_sol_never_fails_l sty c simple o x sols ls Ho Herr Hb HL). rewrite Hd. discriminate.
Qed.
(* any output: when - if the output decorates - no line holds ESC *)
Theorem render_sol_never_fails sty c simple o x sols :
  out_ok sty o -> resolvable sty st_error -> resolvable sty st_b ->
  (decorated o = true -> forall ls, render_lines_sol c simple (o_indent o) x sols = Ok ls -> Forall (fun wl => no_esc (snd wl)) ls) ->
  exists bytes, render_sol c simple o x sols = Ok bytes.
Proof.
  intros Ho Herr Hb Hne. destruct (render_lines_sol_total c simple (o_indent o) x sols) as (ls & HL).
  apply (render_sol_never_fails_l sty c simple o x sols ls Ho Herr Hb HL). intros Hd. apply (Hne Hd ls HL).
Qed.
(* 3d. THE statement with solutions, on the inputs: for every exception case, configuration, report mode, solutions and
   output as in out_ok whose style table resolves "error" and "b" - when the output decorates: ESC-free inputs and
   solution texts - render with a solution provider repository returns *)
Theorem render_sol_never_fails_unconditionally sty c simple o x sols :
  out_ok sty o -> resolvable sty st_error -> resolvable sty st_b ->
  (decorated o = true -> inputs_ne c x /\ Forall sol_ne sols) ->
  exists bytes, render_sol c simple o x sols = Ok bytes.
Proof.
  intros Ho Herr Hb Hne. apply (render_sol_never_fails sty c simple o x sols Ho Herr Hb).
  intros Hd ls HL. destruct (Hne Hd) as [H1 H2]. apply (lines_sol_noesc c simple _ x sols ls H1 H2 HL).
Qed.
(* the earlier name (it had the hypothesis "tokenize succeeded where the full report needs it": no longer needed) *)
Corollary render_sol_never_fails_inputs sty c simple o x sols :
  out_ok sty o -> resolvable sty st_error -> resolvable sty st_b ->
  (decorated o = true -> inputs_ne c x /\ Forall sol_ne sols) ->
  exists bytes, render_sol c simple o x sols = Ok bytes.
Proof. exact (render_sol_never_fails_unconditionally sty c simple o x sols). Qed.
(* the report alone succeeds whenever the report with solutions does, and conversely (given the ESC-freeness) *)
Theorem render_sol_simple c o x sols : render_sol c true o x sols = render c true o x.
Proof. reflexivity. Qed.
Theorem render_sol_no_frames c o x sols : x_frames x = [] -> render_sol c false o x sols = render c false o x.
Proof. intros H. unfold render_sol, render. rewrite render_lines_sol_shape, H. reflexivity. Qed.
Theorem render_sol_no_solutions c simple o x : render_sol c simple o x [] = render c simple o x.
Proof.
  unfold render_sol, render. rewrite render_lines_sol_shape. destruct (simple || match x_frames x with [] => true | _ => false end); [reflexivity|].
  destruct (render_lines c simple (o_indent o) x) as [ls|e]; cbn [bind render_solutions flat_map]; [|reflexivity]. now rewrite app_nil_r.
Qed.

(* ------------------------------------------------------------------ 4. what the undecorated bytes say about the solutions *)
Fixpoint pieces_start (b : bool) (ps : list piece) : bool :=
  match ps with [] => b | p :: r => pieces_start (piece_start b p) r end.
Lemma ind_pieces_app n : forall a b bb, ind_pieces n bb (a ++ b) = ind_pieces n bb a ++ ind_pieces n (pieces_start bb a) b.
Proof.
  induction a as [|p a IH]; intros b bb; [reflexivity|]. cbn [app ind_pieces pieces_start]. rewrite IH, <- app_assoc. reflexivity.
Qed.

(* the links as shown at indentation ind: each on its own line, two more blanks in front, a comma after all but the last *)
Definition link_shown (ind : Z) (l : str) : str := [NL] ++ spaces ind ++ [32; 32]%N ++ shown (ind_text ind l).
Definition links_shown (ind : Z) (links : list str) : str := join_with COMMA (map (link_shown ind) links).
(* the line of a solution as shown at indentation ind: bullet, blank, title, ": ", description, links *)
Definition sol_shown (ind : Z) (utf8 : bool) (s : solution) : str :=
  spaces ind ++ bullet utf8 ++ [32%N] ++ shown (ind_text ind (sol_title s)) ++ [58; 32]%N ++ shown (ind_text ind (sol_desc s))
    ++ links_shown ind (so_links s) ++ [NL].

Lemma link_piece_shown n pre l : pre = [] \/ pre = [COMMA] ->
  flat_map piece_shown (ind_pieces n false (link_piece pre l)) = pre ++ link_shown n l /\ pieces_start false (link_piece pre l) = false.
Proof.
  intros Hpre. split; [|reflexivity]. unfold link_piece, link_shown. cbn [ind_pieces ind_piece piece_start flat_map piece_shown].
  destruct Hpre as [->| ->]; cbn [app expand at_start]; unfold NLs;
    change (N.eqb NL NL) with true; change (N.eqb 32 NL) with false; change (N.eqb COMMA NL) with false; cbv iota;
    cbn [pad app flat_map piece_shown]; rewrite ?app_nil_r, <- ?app_assoc; reflexivity.
Qed.
Lemma link_pieces_shown n links : flat_map piece_shown (ind_pieces n false (link_pieces links)) = links_shown n links.
Proof.
  unfold links_shown. destruct links as [|l r]; [reflexivity|]. cbn [map]. rewrite join_with_cons. unfold link_pieces.
  destruct (link_piece_shown n [] l (or_introl eq_refl)) as [E1 E2]. rewrite ind_pieces_app, flat_map_app, E1, E2. cbn [app]. f_equal.
  induction r as [|y r IH]; [reflexivity|]. cbn [flat_map map].
  destruct (link_piece_shown n [COMMA] y (or_intror eq_refl)) as [F1 F2]. rewrite ind_pieces_app, flat_map_app, F1, F2, IH. reflexivity.
Qed.
Lemma bullet_no_nl utf8 : no_nl (bullet utf8 ++ [32%N]).
Proof. destruct utf8; repeat constructor; discriminate. Qed.
Lemma shown_sol_line ind utf8 s : (0 < ind)%Z -> shown_line (ind, sol_pieces utf8 s) = sol_shown ind utf8 s.
Proof.
  intros Hi. unfold shown_line, wpieces, sol_shown. cbn [fst snd]. destruct (Z.ltb_spec 0 ind) as [_|Hle]; [|lia].
  unfold sol_pieces. rewrite ind_pieces_app, flat_map_app. cbn [pieces_start piece_start]. rewrite link_pieces_shown.
  cbn [ind_pieces ind_piece piece_start flat_map piece_shown pad expand at_start]. unfold NLs.
  change (N.eqb 58 NL) with false. change (N.eqb 32 NL) with false. cbv iota. cbn [pad app].
  cbn [flat_map piece_shown]. rewrite (ind_text_no_nl ind _ (bullet_no_nl utf8)), (shown_safe _ (bullet_safe utf8)), ?app_nil_r, <- ?app_assoc. cbn [app]. reflexivity.
Qed.
Lemma shown_sol_plines ind utf8 sols : (0 < ind)%Z ->
  flat_map shown_line (sol_plines ind utf8 sols) = flat_map (fun s => [NL] ++ sol_shown ind utf8 s) sols.
Proof.
  intros Hi. unfold sol_plines. induction sols as [|s r IH]; [reflexivity|]. cbn [flat_map]. rewrite flat_map_app. f_equal; [|exact IH]. cbn [flat_map].
  rewrite shown_line_blank, (shown_sol_line ind utf8 s Hi), app_nil_r. reflexivity.
Qed.

(* 4. the bytes of render_sol are the bytes of render followed by, per solution, a blank line and the shown block *)
Theorem sol_bytes sty c o x sols bytes :
  out_ok sty o -> resolvable sty st_error -> resolvable sty st_b -> decorated o = false -> (0 <= o_indent o)%Z ->
  x_frames x <> [] -> render_sol c false o x sols = Ok bytes ->
  let ind := (o_indent o + 2)%Z in
  exists report, render c false o x = Ok report /\
    bytes = report ++ flat_map (fun s => [NL] ++ sol_shown ind (t_utf8 c) s) sols.
Proof.
  intros Ho Herr Hb Hd Hi Hne HR ind. unfold render_sol in HR. rewrite render_lines_sol_shape in HR.
  destruct (x_frames x) as [|f0 fs] eqn:EF; [congruence|]. cbn [orb] in HR. fold ind in HR.
  destruct (render_lines c false (o_indent o) x) as [l0|e] eqn:HL; cbn [bind] in HR; [|discriminate].
  destruct (render_plain_bytes_l sty c false o x l0 Ho Herr Hb Hd HL) as (pls & El & Hpls & HRen).
  exists (o_buf o ++ flat_map shown_line pls). split; [exact HRen|].
  rewrite El, render_solutions_pieces, <- map_app in HR.
  destruct (write_lines_pieces sty (pls ++ sol_plines ind (t_utf8 c) sols) o Ho) as (o' & HW & _ & _ & _ & HB).
  { apply Forall_app. split; [exact Hpls|apply sol_plines_ok]. }
  { rewrite Hd. discriminate. }
  rewrite HW in HR. cbn [bind] in HR. injection HR as <-. rewrite (HB Hd), flat_map_app, shown_sol_plines by (unfold ind; lia).
  now rewrite app_assoc.
Qed.
(* ... and that always happens: no hypothesis on the exception case but that it has frames *)
Theorem sol_bytes_total sty c o x sols :
  out_ok sty o -> resolvable sty st_error -> resolvable sty st_b -> decorated o = false -> (0 <= o_indent o)%Z ->
  x_frames x <> [] ->
  let ind := (o_indent o + 2)%Z in
  exists report, render c false o x = Ok report /\
    render_sol c false o x sols = Ok (report ++ flat_map (fun s => [NL] ++ sol_shown ind (t_utf8 c) s) sols).
Proof.
  intros Ho Herr Hb Hd Hi Hne ind. destruct (render_sol_never_fails_plain sty c false o x sols Ho Herr Hb Hd) as (bytes & HR).
  destruct (sol_bytes sty c o x sols bytes Ho Herr Hb Hd Hi Hne HR) as (report & H1 & ->). exists report. split; [exact H1|exact HR].
Qed.
(* the whole report with solutions: stack trace, blank line, class name, blank line, message block, snippet, and per
   solution a blank line and its block *)
Corollary sol_full_bytes sty c o x sols bytes :
  out_ok sty o -> resolvable sty st_error -> resolvable sty st_b -> decorated o = false -> (0 <= o_indent o)%Z ->
  x_frames x <> [] -> render_sol c false o x sols = Ok bytes ->
  let ind := (o_indent o + 2)%Z in
  exists tr_p sn_p,
    render_trace c ind (x_frames x) = Ok (map pline_w tr_p) /\
    render_snippet c ind (last (x_frames x) dflt_frame) = Ok (map pline_w sn_p) /\
    bytes = o_buf o ++ flat_map shown_line tr_p
              ++ [NL] ++ spaces ind ++ shown (ind_text ind (x_name x)) ++ [NL]
              ++ [NL] ++ spaces ind ++ shown (ind_text ind (msg_text (x_msg x))) ++ [NL]
              ++ flat_map shown_line sn_p
              ++ flat_map (fun s => [NL] ++ sol_shown ind (t_utf8 c) s) sols.
Proof.
  intros Ho Herr Hb Hd Hi Hne HR ind. destruct (sol_bytes sty c o x sols bytes Ho Herr Hb Hd Hi Hne HR) as (report & HRen & ->).
  destruct (full_bytes sty c o x report Ho Herr Hb Hd Hi Hne HRen) as (tr_p & sn_p & H1 & H2 & ->). fold ind in H1, H2 |- *.
  exists tr_p, sn_p. split; [exact H1|]. split; [exact H2|]. rewrite <- ?app_assoc. reflexivity.
Qed.

(* what the texts are *)
(* the description: four blanks after every line break, then the blanks at the two ends dropped *)
Lemma sol_desc_spec s :
  sol_desc s = strip_char 32 (flat_map (fun c => if N.eqb c NL then [NL; 32; 32; 32; 32]%N else [c]) (so_desc s)).
Proof. unfold sol_desc. now rewrite replace_single. Qed.
(* texts without line breaks are shown as they are *)
Lemma no_nl_rev s : no_nl s -> no_nl (rev s).
Proof. intros H. apply Forall_forall. intros c Hc. apply in_rev in Hc. unfold no_nl in H. rewrite Forall_forall in H. auto. Qed.
Lemma no_nl_lstrip_char ch s : no_nl s -> no_nl (lstrip_char ch s).
Proof. induction 1 as [|c r Hc Hr IH]; cbn [lstrip_char]; [constructor|]. destruct (N.eqb c ch); [exact IH|constructor; assumption]. Qed.
Lemma no_nl_rstrip_char ch s : no_nl s -> no_nl (rstrip_char ch s).
Proof. intros H. unfold rstrip_char. apply no_nl_rev, no_nl_lstrip_char, no_nl_rev, H. Qed.
Lemma no_nl_strip_char ch s : no_nl s -> no_nl (strip_char ch s).
Proof. intros H. unfold strip_char. apply no_nl_rstrip_char, no_nl_lstrip_char, H. Qed.
Lemma replace_nl_no_nl rep m : no_nl m -> replace [NL] rep m = m.
Proof.
  intros Hm. rewrite replace_single. induction Hm as [|c r Hc Hr IH]; [reflexivity|]. cbn [flat_map].
  destruct (N.eqb_spec c NL); [contradiction|]. now rewrite IH.
Qed.
Lemma sol_desc_no_nl s : no_nl (so_desc s) -> sol_desc s = strip_char 32 (so_desc s).
Proof. intros H. unfold sol_desc. now rewrite (replace_nl_no_nl _ _ H). Qed.
(* a solution whose texts hold no line break: bullet, blank, the title without its trailing dots, ": ", the description
   without the blanks at its ends, every link on its own line *)
Theorem sol_shown_one_line ind utf8 s : no_nl (so_title s) -> no_nl (so_desc s) -> Forall no_nl (so_links s) ->
  sol_shown ind utf8 s
  = spaces ind ++ bullet utf8 ++ [32%N] ++ shown (rstrip_char 46 (so_title s)) ++ [58; 32]%N ++ shown (strip_char 32 (so_desc s))
      ++ join_with COMMA (map (fun l => [NL] ++ spaces ind ++ [32; 32]%N ++ shown l) (so_links s)) ++ [NL].
Proof.
  intros Ht Hd Hl. unfold sol_shown, links_shown. rewrite (sol_desc_no_nl s Hd).
  rewrite (ind_text_no_nl ind (sol_title s) (no_nl_rstrip_char 46 _ Ht)), (ind_text_no_nl ind _ (no_nl_strip_char 32 _ Hd)).
  assert (map (link_shown ind) (so_links s) = map (fun l => [NL] ++ spaces ind ++ [32; 32]%N ++ shown l) (so_links s)) as ->; [|reflexivity].
  apply map_ext_in. intros l Hin. unfold link_shown. rewrite Forall_forall in Hl. now rewrite (ind_text_no_nl ind l (Hl l Hin)).
Qed.

(* ------------------------------------------------------------------ 5. examples *)
Module SolutionExamples.
Import RenderExamples.
(* the solution  "Close </error>"  whose description ends in a backslash, with the link  https://x/<z>  *)
Definition ex_t1 : str := [67;108;111;115;101;32;60;47;101;114;114;111;114;62]%N.     (* Close </error> *)
Definition ex_d1 : str := [69;115;99;97;112;101;32;105;116;32;119;105;116;104;32;92]%N.   (* Escape it with \ *)
Definition ex_l1 : str := [104;116;116;112;115;58;47;47;120;47;60;122;62]%N.     (* https://x/<z> *)
Definition ex_s1 : solution := {| so_title := ex_t1; so_desc := ex_d1; so_links := [ex_l1] |}.
(* a title with trailing dots, a description of two lines with blanks at its ends, two links *)
Definition ex_t2 : str := [82;101;97;100;32;116;104;101;32;100;111;99;115;46;46;46]%N.     (* Read the docs... *)
Definition ex_d2 : str := [32;102;105;114;115;116;32;108;105;110;101;10;115;101;99;111;110;100;32]%N.   (* " first line" NL "second " *)
Definition ex_l2a : str := [97;60;98]%N.      (* a<b *)
Definition ex_l2b : str := [99;92]%N.         (* c\ *)
Definition ex_s2 : solution := {| so_title := ex_t2; so_desc := ex_d2; so_links := [ex_l2a; ex_l2b] |}.

(* 1: the line is the line of its pieces, and what the markup looks like *)
Example ex_sol_pieces : solution_line false ex_s1
  = line_str [PLit th_number [42; 32]%N; PLit th_builtin ex_t1; PRaw [58; 32]%N; PLit th_default ex_d1; PRaw [NL; 32; 32]%N; PLit Trace.st_blue ex_l1].
Proof. rewrite solution_line_pieces. vm_compute. reflexivity. Qed.
(* <fg=blue;options=bold>* </><fg=default;options=bold>Close <</><fg=default;options=bold>/error></>: <fg=default>Escape it with \ </>
     <fg=blue>https://x/<</><fg=blue>z></> *)
Example ex_sol_markup : solution_line false ex_s1
  = [60;102;103;61;98;108;117;101;59;111;112;116;105;111;110;115;61;98;111;108;100;62;42;32;60;47;62;60;102;103;61;100;101;102;97;117;108;116;59;111;112;116;105;111;110;115;61;98;111;108;100;62;67;108;111;115;101;32;60;60;47;62;60;102;103;61;100;101;102;97;117;108;116;59;111;112;116;105;111;110;115;61;98;111;108;100;62;47;101;114;114;111;114;62;60;47;62;58;32;60;102;103;61;100;101;102;97;117;108;116;62;69;115;99;97;112;101;32;105;116;32;119;105;116;104;32;92;32;60;47;62;10;32;32;60;102;103;61;98;108;117;101;62;104;116;116;112;115;58;47;47;120;47;60;60;47;62;60;102;103;61;98;108;117;101;62;122;62;60;47;62]%N.
Proof. vm_compute. reflexivity. Qed.
Example ex_sol_good : good_line demo_sty2 (solution_line false ex_s1) /\ good_line_ne demo_sty2 (solution_line true ex_s2).
Proof.
  split; [apply solution_line_good|apply solution_line_good_ne]. split; [|split]; repeat constructor; discriminate.
Qed.
(* 2: the lines of the report with both solutions are good *)
Example ex_sol_lines_good ls : render_lines_sol (demo_cfg true) false 0 (demo_x [demo_frame; demo_frame]) [ex_s1; ex_s2] = Ok ls ->
  Forall (fun wl => good_line demo_sty2 (snd wl)) ls.
Proof. apply (render_lines_sol_good demo_sty2 demo_error demo_b). Qed.

(* 3: render_sol does not fail - plain and decorated *)
Example ex_sols_ne : Forall sol_ne [ex_s1; ex_s2].
Proof. repeat constructor; discriminate. Qed.
Example ex_sol_never_fails_plain v simple :
  exists bytes, render_sol (demo_cfg v) simple (demo_out FPlain false 0) (demo_x [demo_frame; demo_frame]) [ex_s1; ex_s2] = Ok bytes.
Proof.
  apply (render_sol_never_fails_plain demo_sty2); [apply demo_out_ok; discriminate|apply demo_error|apply demo_b|reflexivity].
Qed.
Example ex_sol_never_fails_ansi simple :
  exists bytes, render_sol (demo_cfg true) simple (demo_out (FAnsi false) true 4) (demo_x [demo_frame; demo_frame]) [ex_s1; ex_s2] = Ok bytes.
Proof.
  apply (render_sol_never_fails_unconditionally demo_sty2); [apply demo_out_ok; discriminate|apply demo_error|apply demo_b|].
  intros _. split; [apply ex_inputs_ne|apply ex_sols_ne].
Qed.
(* 4: the bytes, by computation: the report of ex_full_vm, then per solution a blank line and the block *)
Definition ex_report : str := [10;32;32;66;60;47;101;114;114;111;114;62;10;10;32;32;60;98;62;120;92;32;10;10;32;32;97;116;32;97;46;112;121;58;49;32;105;110;32;60;102;62;10;32;32;32;32;62;32;32;32;49;124;32;120;10]%N.
(*   * Close </error>: Escape it with \ _
       https://x/<z> *)
Definition ex_block1 : str := [10;32;32;42;32;67;108;111;115;101;32;60;47;101;114;114;111;114;62;58;32;69;115;99;97;112;101;32;105;116;32;119;105;116;104;32;92;32;10;32;32;32;32;104;116;116;112;115;58;47;47;120;47;60;122;62;10]%N.
(*   * Read the docs: first line
         second
       a<b,
       c\ _ *)
Definition ex_block2 : str := [10;32;32;42;32;82;101;97;100;32;116;104;101;32;100;111;99;115;58;32;102;105;114;115;116;32;108;105;110;101;10;32;32;32;32;32;32;115;101;99;111;110;100;10;32;32;32;32;97;60;98;44;10;32;32;32;32;99;92;32;10]%N.
Example ex_report_vm : render (demo_cfg false) false (demo_out FPlain false 0) (demo_x [demo_frame]) = Ok ex_report.
Proof. vm_compute. reflexivity. Qed.
Example ex_sol_vm : render_sol (demo_cfg false) false (demo_out FPlain false 0) (demo_x [demo_frame]) [ex_s1; ex_s2]
  = Ok (ex_report ++ ex_block1 ++ ex_block2).
Proof. vm_compute. reflexivity. Qed.
(* a file that tokenize rejects / that cannot be read: the report without snippet lines, then the solutions *)
Example ex_sol_unreadable_vm : render_sol (demo_cfg false) false (demo_out FPlain false 0) (demo_x [bad_frame]) [ex_s1]
  = Ok (ex_head ++ [10;32;32;97;116;32;97;46;112;121;58;49;32;105;110;32;102;10]%N ++ ex_block1).
Proof. vm_compute. reflexivity. Qed.
Example ex_sol_unreadable_other_vm : render_sol (demo_cfg false) false (demo_out FPlain false 0) (demo_x [bad_frame2]) [ex_s1]
  = Ok (ex_head ++ [10;32;32;97;116;32;98;46;112;121;58;55;32;105;110;32;103;10]%N ++ ex_block1).
Proof. vm_compute. reflexivity. Qed.
(* decorated: the same text under the escape codes *)
Example ex_sol_ansi_vm :
  match render_sol (demo_cfg false) false (demo_out (FAnsi false) true 0) (demo_x [demo_frame]) [ex_s1; ex_s2] with
  | Ok b => strip_sgr b = ex_report ++ ex_block1 ++ ex_block2 /\ b <> ex_report ++ ex_block1 ++ ex_block2
  | Err _ => False
  end.
Proof. vm_compute. split; [reflexivity|discriminate]. Qed.
(* simple mode (library errors): no solutions are printed *)
Example ex_sol_simple_vm : render_sol (demo_cfg false) true (demo_out FPlain false 0) (demo_x [demo_frame]) [ex_s1; ex_s2] = Ok (demo_msg ++ [32; NL]%N).
Proof. vm_compute. reflexivity. Qed.
(* the same through the theorems: the block of a solution whose texts hold no line break *)
Example ex_sol_thm : exists report, render (demo_cfg false) false (demo_out FPlain false 0) (demo_x [demo_frame]) = Ok report /\
  render_sol (demo_cfg false) false (demo_out FPlain false 0) (demo_x [demo_frame]) [ex_s1]
  = Ok (report ++ [NL] ++ [32; 32]%N ++ [42; 32]%N ++ ex_t1 ++ [58; 32]%N ++ ex_d1 ++ [32%N] ++ [NL] ++ [32; 32; 32; 32]%N ++ ex_l1 ++ [NL]).
Proof.
  destruct (render_sol (demo_cfg false) false (demo_out FPlain false 0) (demo_x [demo_frame]) [ex_s1]) as [b|e] eqn:E; [|vm_compute in E; discriminate].
  destruct (sol_bytes demo_sty2 (demo_cfg false) (demo_out FPlain false 0) (demo_x [demo_frame]) [ex_s1] b
              (demo_out_ok FPlain false 0 ltac:(discriminate)) demo_error demo_b eq_refl ltac:(cbn; lia) ltac:(discriminate) E)
    as (report & HR & ->).
  exists report. split; [exact HR|]. cbn [flat_map]. rewrite sol_shown_one_line by (repeat constructor; discriminate). reflexivity.
Qed.
End SolutionExamples.

Print Assumptions solution_line_pieces.
Print Assumptions solution_line_good.
Print Assumptions solution_line_good_ne.
Print Assumptions render_lines_sol_good.
Print Assumptions lines_sol_noesc.
Print Assumptions render_sol_never_fails_l.
Print Assumptions render_lines_sol_total.
Print Assumptions render_sol_never_fails_plain.
Print Assumptions render_sol_never_fails.
Print Assumptions render_sol_never_fails_unconditionally.
Print Assumptions sol_bytes.
Print Assumptions sol_bytes_total.
Print Assumptions sol_full_bytes.
Print Assumptions sol_shown_one_line.
