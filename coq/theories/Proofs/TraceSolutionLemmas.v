(* C20, the solutions: ExceptionTrace._render_solution writes, after the report of _render_exception, one block per
   solution the provider repository returns for the exception (title, description, documentation links - texts that come
   from outside clikit).  The line of a solution IS a line of literals and safe separators, for every title, description
   and links; hence the solutions add no failure to render, and the undecorated bytes say the texts as they are. *)
From Coq Require Import Lia.
From Clikit Require Import Base.Prelude Base.Res Model.Conv Model.Markup Model.OutputM Model.Trace
  Proofs.MarkupLemmas Proofs.OutputLemmas Proofs.TraceLemmas Proofs.LiteralLemmas Proofs.TraceRenderLemmas.

(* ------------------------------------------------------------------ 1. the line of a solution *)
(* the texts between the tags: the title without its trailing dots; the description with four blanks after every line
   break, without the blanks at its two ends; the links *)
Definition bullet (utf8 : bool) : str := if utf8 then [8226%N] else [42%N].
Definition sol_title (s : solution) : str := rstrip_char 46 (so_title s).
Definition sol_desc (s : solution) : str := strip_char 32 (replace [NL] nl_indent4 (so_desc s)).
(* a link: a line break and two blanks (after a comma for every link but the first), then <fg=blue>link</> *)
Definition link_piece (pre : str) (l : str) : list piece := [PRaw (pre ++ [NL; 32; 32]%N); PLit Trace.st_blue l].
Definition link_pieces (links : list str) : list piece :=
  match links with [] => [] | l :: r => link_piece [] l ++ flat_map (link_piece [COMMA]) r end.
(* <fg=blue;options=bold>* </><fg=default;options=bold>title</>: <fg=default>description</> links *)
Definition sol_pieces (utf8 : bool) (s : solution) : list piece :=
  [PLit th_number (bullet utf8 ++ [32%N]); PLit th_builtin (sol_title s); PRaw [58; 32]%N; PLit th_default (sol_desc s)]
    ++ link_pieces (so_links s).

Lemma join_with_cons sep x r : join_with sep (x :: r) = x ++ flat_map (fun y => sep :: y) r.
Proof.
  revert x. induction r as [|y r IH]; intros x; [cbn [join_with flat_map]; now rewrite app_nil_r|].
  change (join_with sep (x :: y :: r)) with (x ++ sep :: join_with sep (y :: r)). rewrite (IH y). reflexivity.
Qed.
Lemma link_piece_str pre l :
  line_str (link_piece pre l) = pre ++ [NL; 32; 32]%N ++ tagged Trace.st_blue (literal l Trace.st_blue).
Proof. unfold link_piece, line_str. cbn [flat_map piece_str]. now rewrite app_nil_r, <- app_assoc. Qed.
Lemma link_pieces_str links :
  join_with COMMA (map (fun l => [NL; 32; 32]%N ++ tagged Trace.st_blue (literal l Trace.st_blue)) links) = line_str (link_pieces links).
Proof.
  destruct links as [|l r]; [reflexivity|]. cbn [map]. rewrite join_with_cons. unfold link_pieces.
  rewrite line_str_app, link_piece_str. cbn [app]. f_equal. f_equal. f_equal. f_equal.
  induction r as [|y r IH]; [reflexivity|]. cbn [map flat_map]. rewrite line_str_app, link_piece_str, IH. reflexivity.
Qed.
Lemma bullet_safe utf8 : safe (bullet utf8 ++ [32%N]).
Proof. destruct utf8; safe_by_compute. Qed.

(* 1a. the explicit piece list *)
Theorem solution_line_pieces utf8 s : solution_line utf8 s = line_str (sol_pieces utf8 s).
Proof.
  unfold solution_line, sol_pieces. rewrite line_str_app, <- link_pieces_str. fold (sol_title s) (sol_desc s) (bullet utf8).
  unfold line_str at 1. cbn [flat_map piece_str]. rewrite (literal_safe _ th_number (bullet_safe utf8)).
  generalize (literal (sol_title s) th_builtin) (literal (sol_desc s) th_default)
    (join_with COMMA (map (fun l => [NL; 32; 32]%N ++ tagged Trace.st_blue (literal l Trace.st_blue)) (so_links s))).
  intros A B C. unfold s_sol_open, s_sol_mid, s_sol_colon, tagged, close_any, th_number, th_builtin, th_default, bullet, LT, GT, SLASH.
  destruct utf8; repeat (progress (rewrite <- ?app_assoc; cbn [app])); reflexivity.
Qed.

Lemma st_blue_inline : In Trace.st_blue inline_tags.
Proof. unfold inline_tags. cbn [In]. right. right. right. left. reflexivity. Qed.
Lemma inline_piece_ok sty tag s : In tag inline_tags -> piece_ok sty (PLit tag s).
Proof. intros H. split; [apply inline_tag_name, H|apply inline_resolvable, H]. Qed.
Lemma link_piece_ok sty pre l : safe pre -> pieces_ok sty (link_piece pre l).
Proof.
  intros Hpre. constructor; [apply safe_app; [exact Hpre|safe_by_compute]|].
  constructor; [apply inline_piece_ok, st_blue_inline|constructor].
Qed.
Lemma link_pieces_ok sty links : pieces_ok sty (link_pieces links).
Proof.
  destruct links as [|l r]; [constructor|]. unfold link_pieces. apply Forall_app. split; [apply link_piece_ok, safe_nil|].
  apply Forall_flat_map, Forall_forall. intros y _. apply link_piece_ok. safe_by_compute.
Qed.
(* the tags are inline styles: they resolve in every style table, no style has to be registered *)
Theorem sol_pieces_ok sty utf8 s : pieces_ok sty (sol_pieces utf8 s).
Proof.
  unfold sol_pieces. apply Forall_app. split; [|apply link_pieces_ok].
  constructor; [apply inline_piece_ok; inline_in|]. constructor; [apply inline_piece_ok; inline_in|].
  constructor; [cbn [piece_ok]; safe_by_compute|]. constructor; [apply inline_piece_ok; inline_in|constructor].
Qed.
(* 1b. for every style table and EVERY title, description and links *)
Theorem solution_line_good sty utf8 s : good_line sty (solution_line utf8 s).
Proof. exists (sol_pieces utf8 s). split; [apply sol_pieces_ok|apply solution_line_pieces]. Qed.

(* ---- ESC-free texts ---- *)
Definition sol_ne (s : solution) : Prop := no_esc (so_title s) /\ no_esc (so_desc s) /\ Forall no_esc (so_links s).
Lemma ne_lstrip_char ch s : no_esc s -> no_esc (lstrip_char ch s).
Proof. induction 1 as [|c r Hc Hr IH]; cbn [lstrip_char]; [constructor|]. destruct (N.eqb c ch); [exact IH|constructor; assumption]. Qed.
Lemma ne_rstrip_char ch s : no_esc s -> no_esc (rstrip_char ch s).
Proof. intros H. unfold rstrip_char. apply ne_rev, ne_lstrip_char, ne_rev, H. Qed.
Lemma ne_strip_char ch s : no_esc s -> no_esc (strip_char ch s).
Proof. intros H. unfold strip_char. apply ne_rstrip_char, ne_lstrip_char, H. Qed.
Lemma sol_title_ne s : no_esc (so_title s) -> no_esc (sol_title s).
Proof. apply ne_rstrip_char. Qed.
Lemma sol_desc_ne s : no_esc (so_desc s) -> no_esc (sol_desc s).
Proof. intros H. unfold sol_desc. apply ne_strip_char, ne_replace; [ne_compute|exact H]. Qed.
Lemma link_piece_noesc pre l : no_esc pre -> no_esc l -> pieces_noesc (link_piece pre l).
Proof.
  intros Hpre Hl. constructor; [cbn [piece_noesc]; apply ne_app; [exact Hpre|ne_compute]|]. constructor; [exact Hl|constructor].
Qed.
Lemma link_pieces_noesc links : Forall no_esc links -> pieces_noesc (link_pieces links).
Proof.
  intros H. destruct links as [|l r]; [constructor|]. inversion H as [|? ? Hl Hr]; subst. unfold link_pieces.
  apply Forall_app. split; [apply link_piece_noesc; [constructor|exact Hl]|].
  apply Forall_flat_map. eapply Forall_impl; [|exact Hr]. intros y Hy. apply link_piece_noesc; [ne_compute|exact Hy].
Qed.
Theorem sol_pieces_noesc utf8 s : sol_ne s -> pieces_noesc (sol_pieces utf8 s).
Proof.
  intros (Ht & Hd & Hl). unfold sol_pieces. apply Forall_app. split; [|apply link_pieces_noesc, Hl].
  constructor; [cbn [piece_noesc]; destruct utf8; ne_compute|]. constructor; [apply sol_title_ne, Ht|].
  constructor; [cbn [piece_noesc]; ne_compute|]. constructor; [apply sol_desc_ne, Hd|constructor].
Qed.
(* 1c. the ESC-free variant, for the decorated case *)
Theorem solution_line_good_ne sty utf8 s : sol_ne s -> good_line_ne sty (solution_line utf8 s).
Proof.
  intros H. exists (sol_pieces utf8 s). split; [apply sol_pieces_ok|]. split; [apply sol_pieces_noesc, H|apply solution_line_pieces].
Qed.
Lemma solution_line_noesc utf8 s : sol_ne s -> no_esc (solution_line utf8 s).
Proof.
  intros (Ht & Hd & Hl). unfold solution_line. apply ne_app; [ne_compute|]. apply ne_app; [destruct utf8; ne_compute|].
  apply ne_app; [ne_compute|]. apply ne_app; [apply ne_literal; [ne_compute|apply sol_title_ne, Ht]|]. apply ne_app; [ne_compute|].
  apply ne_app; [apply ne_tagged; [ne_compute|apply ne_literal; [ne_compute|apply sol_desc_ne, Hd]]|].
  destruct (so_links s) as [|l r]; [constructor|]. cbn [map]. rewrite join_with_cons. inversion Hl as [|? ? Hl1 Hlr]; subst.
  assert (forall y, no_esc y -> no_esc ([NL; 32; 32]%N ++ tagged Trace.st_blue (literal y Trace.st_blue))) as Hf.
  { intros y Hy. apply ne_app; [ne_compute|]. apply ne_tagged; [ne_compute|apply ne_literal; [ne_compute|exact Hy]]. }
  apply ne_app; [apply Hf, Hl1|]. apply Forall_flat_map, Forall_map. eapply Forall_impl; [|exact Hlr].
  intros y Hy. constructor; [discriminate|apply Hf, Hy].
Qed.

(* ------------------------------------------------------------------ 2. every line of the report with solutions *)
(* the lines of the solution blocks, given by their pieces: a blank line, then the solution *)
Definition sol_plines (ind : Z) (utf8 : bool) (sols : list solution) : list pline :=
  flat_map (fun s => [(ind, []); (ind, sol_pieces utf8 s)]) sols.
Lemma render_solutions_pieces c ind sols : render_solutions c ind sols = map pline_w (sol_plines ind (t_utf8 c) sols).
Proof.
  unfold render_solutions, sol_plines. induction sols as [|s r IH]; [reflexivity|]. cbn [flat_map]. rewrite map_app, IH. f_equal.
  unfold render_line, pline_w. cbn [map fst snd app Z.to_nat repeat]. rewrite solution_line_pieces. reflexivity.
Qed.
Lemma sol_plines_ok sty ind utf8 sols : Forall (fun p : pline => pieces_ok sty (snd p)) (sol_plines ind utf8 sols).
Proof.
  unfold sol_plines. apply Forall_flat_map, Forall_forall. intros s _.
  constructor; [constructor|]. constructor; [apply sol_pieces_ok|constructor].
Qed.
Lemma sol_plines_noesc ind utf8 sols : Forall sol_ne sols -> Forall (fun p : pline => pieces_noesc (snd p)) (sol_plines ind utf8 sols).
Proof.
  intros H. unfold sol_plines. apply Forall_flat_map. eapply Forall_impl; [|exact H]. intros s Hs.
  constructor; [constructor|]. constructor; [apply sol_pieces_noesc, Hs|constructor].
Qed.
Lemma good_render_solutions sty c ind sols : Forall (fun wl : wline => good_line sty (snd wl)) (render_solutions c ind sols).
Proof.
  unfold render_solutions. apply Forall_flat_map, Forall_forall. intros s _. apply good_render_line, solution_line_good.
Qed.
Lemma render_solutions_noesc c ind sols : Forall sol_ne sols -> Forall (fun wl : wline => no_esc (snd wl)) (render_solutions c ind sols).
Proof.
  intros H. unfold render_solutions. apply Forall_flat_map. eapply Forall_impl; [|exact H]. intros s Hs.
  apply render_line_ne, solution_line_noesc, Hs.
Qed.

(* the shape of render_lines_sol: the report alone in simple mode and for an exception without frames, otherwise the
   report followed by the blocks *)
Lemma render_lines_sol_shape c simple ind x sols :
  render_lines_sol c simple ind x sols
  = if simple || match x_frames x with [] => true | _ => false end then render_lines c simple ind x
    else do ls <- render_lines c simple ind x; Ok (ls ++ render_solutions c (ind + 2) sols).
Proof.
  unfold render_lines_sol. destruct simple; [reflexivity|]. cbn [orb].
  destruct (x_frames x) as [|f0 fs] eqn:EF; [|reflexivity]. unfold render_lines, render_exception. rewrite EF. reflexivity.
Qed.

Section GoodSol.
Variable sty : styles.
Hypothesis Herr : resolvable sty st_error.
Hypothesis Hb : resolvable sty st_b.
(* 2. every line handed to write_line is a line of literals and safe separators - the solutions' lines included *)
Theorem render_lines_sol_good c simple ind x sols ls :
  render_lines_sol c simple ind x sols = Ok ls -> Forall (fun wl => good_line sty (snd wl)) ls.
Proof.
  rewrite render_lines_sol_shape. destruct (simple || match x_frames x with [] => true | _ => false end).
  - apply (render_lines_good sty Herr Hb).
  - destruct (render_lines c simple ind x) as [l0|e] eqn:E; cbn [bind]; [|discriminate]. intros H. injection H as <-.
    apply Forall_app. split; [apply (render_lines_good sty Herr Hb c simple ind x l0 E)|apply good_render_solutions].
Qed.
Corollary render_lines_sol_good_ne c simple ind x sols ls :
  render_lines_sol c simple ind x sols = Ok ls -> Forall (fun wl => no_esc (snd wl)) ls -> Forall (fun wl => good_line_ne sty (snd wl)) ls.
Proof.
  intros H Hne. pose proof (render_lines_sol_good c simple ind x sols ls H) as HG. rewrite Forall_forall in *.
  intros wl Hin. apply good_noesc; [apply HG, Hin|apply Hne, Hin].
Qed.
End GoodSol.

(* ESC-free inputs and solution texts give ESC-free lines *)
Theorem lines_sol_noesc c simple ind x sols ls : inputs_ne c x -> Forall sol_ne sols ->
  render_lines_sol c simple ind x sols = Ok ls -> Forall (fun wl => no_esc (snd wl)) ls.
Proof.
  intros Hin Hs. rewrite render_lines_sol_shape. destruct (simple || match x_frames x with [] => true | _ => false end).
  - apply (lines_noesc c simple ind x ls Hin).
  - destruct (render_lines c simple ind x) as [l0|e] eqn:E; cbn [bind]; [|discriminate]. intros H. injection H as <-.
    apply Forall_app. split; [apply (lines_noesc c simple ind x l0 Hin E)|apply render_solutions_noesc, Hs].
Qed.
