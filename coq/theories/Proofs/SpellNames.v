(* C01 (parse_spells_interleaved): command names anywhere among the option items.

   The generalised line descriptions [ld2] of Model/Spell.v let the command-name spellings stand behind option items
   and behind "--".  The proof re-uses the invariants of SpellOpts / SpellArgs: to the token loop a spelling is a
   positional token ([to_item]), so [loop_items] / [loop_tail] give the scratch state; [names_first] says that the
   positional tokens of the line are the spellings followed by the values; the re-alignment ([finish2], the [finish] of
   SpellArgs with the weaker hypothesis [names_match] - a spelling after "--" may start with a dash) then sees exactly
   what it sees for the old grammar.  The old grammar embeds ([embed]): parse_spells is a corollary. *)
From Coq Require Import Lia.
From Clikit Require Import Base.Prelude Base.Res Model.Conv Model.Flags Model.Format Model.Parser Model.Spell
     Proofs.StrLemmas Proofs.FormatLemmas Proofs.ParserLemmas Proofs.SpellOpts Proofs.SpellArgs Proofs.SpellDenote
     Proofs.SpellLemmas Proofs.FmtOkLemmas.

(* ---------- the items seen as items of the old grammar ---------- *)
Definition item2_allpos (x : item2) : list str := item2_name x ++ item2_pos x.
Definition tail2_toks (t : option (list str * list str)) : list str :=
  match t with Some (ns, vs) => ns ++ vs | None => [] end.
Definition later2 (d : ld2) : bool := match l2_tail d with Some (_ :: _, _) => true | _ => false end.

Lemma to_item_facts l :
  flat_map render_item (map to_item l) = flat_map render_item2 l /\
  flat_map item_events (map to_item l) = flat_map item2_events l /\
  flat_map item_pos (map to_item l) = flat_map item2_allpos l.
Proof.
  induction l as [|x r (IH1 & IH2 & IH3)]; [repeat split; reflexivity|].
  cbn [map flat_map]. rewrite IH1, IH2, IH3. destruct x as [it|s]; repeat split; reflexivity.
Qed.

Lemma no_names_nil r : existsb is_name2 r = false -> flat_map item2_name r = [].
Proof.
  induction r as [|x r IH]; cbn [existsb flat_map]; [reflexivity|]. intros H. apply orb_false_elim in H as [H1 H2].
  destruct x as [it|s]; [|discriminate]. cbn [item2_name app]. apply IH. exact H2.
Qed.

(* no value in front of a spelling: the positional tokens are the spellings, then the values *)
Lemma names_first_split later : forall l, names_first l later = true ->
  flat_map item2_allpos l = flat_map item2_name l ++ flat_map item2_pos l /\
  (later = true -> flat_map item2_pos l = []).
Proof.
  induction l as [|x r IH]; cbn [names_first flat_map]; [split; reflexivity|].
  intros H. apply andb_prop in H as [Hx Hr]. destruct (IH Hr) as [IH1 IH2]. rewrite IH1.
  destruct x as [it|s].
  - destruct (is_pos2 (I2 it)) eqn:Hp.
    + destruct it as [| | | |s]; try discriminate. apply andb_prop in Hx as [Hl Hn].
      apply negb_true_iff in Hl, Hn. rewrite (no_names_nil r Hn). subst later.
      unfold item2_allpos. cbn [item2_name item2_pos item_pos app]. split; [reflexivity|discriminate].
    + assert (item_pos it = []) as E by (destruct it; try reflexivity; discriminate).
      unfold item2_allpos. cbn [item2_name item2_pos app]. rewrite E. cbn [app]. split; [reflexivity|exact IH2].
  - unfold item2_allpos. cbn [item2_name item2_pos app]. split; [reflexivity|exact IH2].
Qed.

Lemma allpos_split d : names_first (l2_items d) (later2 d) = true ->
  flat_map item_pos (map to_item (l2_items d)) ++ tail2_toks (l2_tail d) = names2 d ++ values2 d.
Proof.
  intros H. destruct (to_item_facts (l2_items d)) as (_ & _ & ->).
  destruct (names_first_split _ _ H) as [E1 E2]. rewrite E1. unfold names2, values2, tail2_toks, later2 in *.
  destruct (l2_tail d) as [[ns vs]|].
  - destruct ns as [|n ns'].
    + cbn [app]. rewrite app_nil_r. rewrite <- app_assoc. reflexivity.
    + rewrite (E2 eq_refl). cbn [app]. rewrite app_nil_r. rewrite <- !app_assoc. reflexivity.
  - rewrite !app_nil_r. reflexivity.
Qed.

(* ---------- the re-alignment under the weaker hypothesis on the spellings ---------- *)
Lemma names_match_length cns names : names_match cns names = true -> length names <= length cns.
Proof.
  revert cns. induction names as [|s r IH]; intros cns H; [cbn; lia|].
  destruct cns as [|c cns]; [discriminate|]. cbn [names_match] in H.
  apply andb_prop in H as [_ H]. specialize (IH cns H). cbn [length]. lia.
Qed.

Lemma skip_names_spec2 V : forall names cns j,
  names_match cns names = true -> no_clash cns names V = true ->
  skip_names (names ++ V) cns j = (V, skipn (length names) cns, j + length names).
Proof.
  induction names as [|s r IH]; intros cns j Hn Hc; cbn [app length skipn].
  - rewrite Nat.add_0_r. unfold no_clash in Hc. cbn [length skipn] in Hc.
    destruct V as [|v V']; [destruct cns; reflexivity|]. destruct cns as [|c cns']; [reflexivity|].
    cbn [skip_names]. apply negb_true_iff in Hc. rewrite Hc. reflexivity.
  - destruct cns as [|c cns']; [discriminate|]. cbn [names_match] in Hn.
    apply andb_prop in Hn as [Hn Hr]. apply andb_prop in Hn as [Hp Hm].
    cbn [skip_names]. rewrite Hp, Hm. cbn [andb].
    rewrite IH; [f_equal; lia|exact Hr|exact Hc].
Qed.

Lemma names_ok_match cns names : names_ok cns names = true -> names_match cns names = true.
Proof.
  revert cns. induction names as [|s r IH]; intros cns H; [destruct cns; reflexivity|].
  destruct cns as [|c cns]; [discriminate|]. cbn [names_ok names_match] in *.
  apply andb_prop in H as [H Hr]. apply andb_prop in H as [Hp Hm].
  rewrite (plain_nonempty s Hp), Hm, (IH cns Hr). reflexivity.
Qed.

(* the section Finish of SpellArgs, with [names_match] for [names_ok] *)
Section Finish2.
  Variables (f g : fmt) (A : list (str * arg)) (cns : list (str * cname)).
  Hypothesis FF : fmt_facts f g A cns.
  Variables (names V : list str).
  Hypothesis Hnames : names_match cns names = true.
  Hypothesis Hfit : fits (get_arguments_all f) V = true.

  Let real := get_arguments_all f.
  Let m := length cns.
  Let pseudo := firstn m A.

  Let A_split2 : A = pseudo ++ real.
  Proof. exact (A_split f g A cns FF). Qed.
  Let pseudo_len2 : length pseudo = m.
  Proof. exact (pseudo_len f g A cns FF). Qed.
  Let pseudo_keys2 : map fst pseudo = map fst cns.
  Proof. exact (ff_pseudo _ _ _ _ FF). Qed.
  Let pseudo_single2 : Forall (fun na => a_multi (snd na) = false) pseudo.
  Proof. exact (ff_single _ _ _ _ FF). Qed.
  Let real_nodup2 : NoDup (map fst real).
  Proof. exact (real_nodup f g A cns FF). Qed.
  Let real_names2 : Forall (fun na => fst na = a_name (snd na)) real.
  Proof. exact (real_names f g A cns FF). Qed.
  Let cns_not_real2 n : In n (map fst cns) -> shas n real = false.
  Proof. exact (cns_not_real f g A cns FF n). Qed.

  Lemma names_le2 : length names <= m.
  Proof. apply names_match_length. exact Hnames. Qed.

  Lemma shape_line2 : shape A (names ++ V) = true.
  Proof.
    rewrite A_split2, (shape_app_single _ _ _ pseudo_single2), pseudo_len2.
    eapply shape_shorter; [apply fits_shape; exact Hfit|].
    pose proof names_le2. rewrite skipn_length, app_length. lia.
  Qed.

  Hypothesis Hclash : no_clash cns names V = true.
  Hypothesis Hreq : req_ok (get_arguments_all f) V = true.

  Lemma finish2 len po :
    exists st2,
      insert_missing A cns len {| ps_args := place A (names ++ V); ps_opts := po |} = Ok st2 /\
      ps_opts st2 = po /\ missing_required A st2 = false /\
      set_arguments f {| ar_opts := []; ar_args := [] |} (ps_args st2) =
      Ok {| ar_opts := []; ar_args := place_typed (get_arguments_all f) V |}.
  Proof.
    pose proof names_le2 as Hk. pose proof (fits_shape _ _ Hfit) as Hsh. fold real in Hsh.
    set (fixed0 := map (fun c : str * cname => (fst c, RCmd (snd c))) (skipn (length names) cns)).
    assert (forall n, In n (map fst fixed0) -> In n (map fst cns)) as Hfx.
    { intros n Hn. unfold fixed0 in Hn. rewrite map_map in Hn. cbn [fst] in Hn.
      rewrite <- (firstn_skipn (length names) cns), map_app, in_app_iff. now right. }
    assert (copy_values V real len fixed0 = Ok (fixed0 ++ place real V)) as Hcopy.
    { apply copy_values_place; [exact Hsh|exact real_nodup2|].
      intros n Hn Hn2. apply Hfx in Hn2. apply cns_not_real2 in Hn2. rewrite (in_keys_shas real n Hn) in Hn2. discriminate. }
    exists {| ps_args := supd (place A (names ++ V)) (fixed0 ++ place real V); ps_opts := po |}.
    split; [|split; [reflexivity|split]].
    - unfold insert_missing. cbn [ps_args ps_opts]. rewrite (flatten_place _ _ shape_line2).
      rewrite (skip_names_spec2 V names cns 0 Hnames Hclash). cbn [Nat.add].
      replace (length names + length (skipn (length names) cns)) with m by (rewrite skipn_length; fold m; lia).
      unfold m. rewrite (ff_real _ _ _ _ FF). fold real. fold fixed0. rewrite Hcopy. reflexivity.
    - (* every required argument is present *)
      cbn [ps_args]. unfold missing_required.
      destruct (existsb _ A) eqn:E; [exfalso|reflexivity].
      apply existsb_exists in E as [[n a] [Hin H]]. cbn [fst snd ps_args] in H.
      apply andb_prop in H as [Hr Hs]. apply negb_true_iff in Hs.
      rewrite A_split2 in Hin. apply in_app_or in Hin as [Hin|Hin].
      + (* a pseudo-argument: filled by the loop or by the omitted command name *)
        assert (In n (map fst cns)) as Hn.
        { rewrite <- pseudo_keys2. change n with (fst (n, a)). now apply in_map. }
        rewrite <- (firstn_skipn (length names) cns), map_app, in_app_iff in Hn. destruct Hn as [Hn|Hn].
        * rewrite supd_keeps in Hs; [discriminate|]. apply in_keys_shas.
          rewrite A_split2, (place_app _ _ _ pseudo_single2), map_app, in_app_iff. left.
          rewrite (place_single_keys _ _ pseudo_single2), pseudo_keys2, firstn_length, pseudo_len2, app_length.
          rewrite <- firstn_map in Hn. eapply firstn_in_le; [|exact Hn]. lia.
        * rewrite supd_has in Hs; [discriminate|]. rewrite map_app, in_app_iff. left.
          unfold fixed0. rewrite map_map. cbn [fst]. exact Hn.
      + rewrite supd_has in Hs; [discriminate|]. rewrite map_app, in_app_iff. right.
        eapply req_ok_in; eauto.
    - cbn [ps_args]. rewrite set_arguments_filter. fold real. rewrite filter_supd, filter_app.
      rewrite (filter_none real fixed0) by (intros k0 Hk0; apply cns_not_real2, Hfx, Hk0).
      rewrite (filter_all real (place real V)) by (intros k0 Hk0; apply in_keys_shas; eapply place_keys_in; exact Hk0).
      cbn [app].
      rewrite A_split2 at 1. rewrite (place_app _ _ _ pseudo_single2), filter_app, pseudo_len2.
      rewrite (filter_none real (place pseudo _)).
      2:{ intros k0 Hk0. apply cns_not_real2. rewrite <- pseudo_keys2. eapply place_keys_in. exact Hk0. }
      rewrite (filter_all real (place real _)) by (intros k0 Hk0; apply in_keys_shas; eapply place_keys_in; exact Hk0).
      cbn [app].
      pose proof (supd_prefix (place real V) (place real (skipn m (names ++ V))) []) as Hsup. cbn [app] in Hsup.
      rewrite Hsup.
      + pose proof (set_arguments_place f real_nodup2 real_names2 real V {| ar_opts := []; ar_args := [] |}) as Hset.
        cbn [ar_opts ar_args app] in Hset. apply Hset; [apply incl_refl|exact real_nodup2|intros n _ []|exact Hfit].
      + apply place_keys_nodup. exact real_nodup2.
      + apply place_keys_prefix. rewrite skipn_length, app_length. lia.
  Qed.
End Finish2.

(* ---------- the token loop over the rendered line ---------- *)
Lemma loop2_line f g A cns len d :
  fmt_facts f g A cns -> items_ok f g (map to_item (l2_items d)) = true ->
  names_first (l2_items d) (later2 d) = true ->
  shape A (names2 d ++ values2 d) = true ->
  loop (S (length (render2 d))) g len true ps_empty (render2 d) =
  ({| ps_args := place A (names2 d ++ values2 d); ps_opts := fold_left raw_event (events2 d) [] |}, None).
Proof.
  intros FF Hit Hnf Hsh. pose proof (allpos_split d Hnf) as Hall. rewrite <- Hall in *. clear Hall.
  destruct d as [items tail]. unfold render2, events2 in *. cbn [l2_items l2_tail] in *.
  set (items' := map to_item items) in *.
  destruct (to_item_facts items) as (E1 & E2 & _). fold items' in E1, E2. rewrite <- E1, <- E2.
  pose proof (render_items_length items') as Hlen.
  assert (next_dash (render_tail2 tail) = true) as Hnd by (destruct tail as [[ns vs]|]; reflexivity).
  rewrite (loop_items f g A len (ff_args _ _ _ _ FF) (ff_names _ _ _ _ FF) (ff_nodup _ _ _ _ FF) items' [] ps_empty);
    [|symmetry; apply place_nil|cbn [app]; eapply shape_app_l; exact Hsh|exact Hit|exact Hnd|rewrite app_length; lia].
  cbn [app ps_opts ps_empty]. rewrite app_length.
  destruct tail as [[ns vs]|]; cbn [render_tail2 tail2_toks] in *.
  - cbn [length].
    replace (S (length (flat_map render_item items') + S (length (ns ++ vs))) - length items')
      with (S (S (length (flat_map render_item items') + length (ns ++ vs) - length items'))) by lia.
    rewrite loop_dd. rewrite (loop_tail g A len (ff_args _ _ _ _ FF) (ff_names _ _ _ _ FF) (ff_nodup _ _ _ _ FF) (ns ++ vs)
                                (flat_map item_pos items'));
      [|reflexivity|exact Hsh|lia].
    cbn [ps_opts]. reflexivity.
  - cbn [length]. rewrite Nat.add_0_r.
    replace (S (length (flat_map render_item items')) - length items')
      with (S (length (flat_map render_item items') - length items')) by lia.
    cbn [loop]. rewrite app_nil_r. reflexivity.
Qed.

(* the events of the line satisfy ev_ok *)
Lemma events2_ok f g d : items_ok f g (map to_item (l2_items d)) = true -> Forall (ev_ok f) (events2 d).
Proof.
  intros H. unfold events2. destruct (to_item_facts (l2_items d)) as (_ & <- & _). eapply items_events_ok. exact H.
Qed.

(* ---------- parse_spells for the generalised grammar ---------- *)
Theorem parse_spells2_lemma f d : fmt_ok f = true -> wf_line2 f d = true ->
  forall lenient, parse f lenient (render2 d) = Ok (denote2 f d).
Proof.
  intros Hf Hwf len. destruct (fmt_ok_inv f Hf) as (g & A & cns & FF).
  unfold wf_line2 in Hwf. rewrite (ff_aug _ _ _ _ FF) in Hwf.
  apply andb_prop in Hwf as [Hwf Hclash]. apply andb_prop in Hwf as [Hwf Hreq]. apply andb_prop in Hwf as [Hwf Hfit].
  apply andb_prop in Hwf as [Hwf Hn]. apply andb_prop in Hwf as [Hit Hnf].
  unfold parse, parse_on. rewrite (ff_aug _ _ _ _ FF).
  rewrite (loop2_line f g A cns len d FF Hit Hnf (shape_line2 f g A cns FF _ _ Hn Hfit)).
  destruct (finish2 f g A cns FF (names2 d) (values2 d) Hn Hfit Hclash Hreq len (fold_left raw_event (events2 d) []))
    as (st2 & Hins & Hopts & Hmiss & Hset).
  rewrite Hins, Hmiss. cbn [andb snd]. rewrite Hset. cbn [bind]. rewrite Hopts.
  rewrite (set_options_events f (events2 d)); [reflexivity| |reflexivity].
  eapply events2_ok. exact Hit.
Qed.

Theorem parse_spells2_inv_lemma f d : fmt_inv f -> wf_line2 f d = true ->
  forall lenient, parse f lenient (render2 d) = Ok (denote2 f d).
Proof. intros Hi. apply parse_spells2_lemma. now apply wf_implies_fmt_ok_lemma. Qed.
Theorem parse_spells2_reachable_lemma f d : api_format f -> wf_line2 f d = true ->
  forall lenient, parse f lenient (render2 d) = Ok (denote2 f d).
Proof. intros Hi. apply parse_spells2_lemma. now apply api_format_fmt_ok_lemma. Qed.

Definition spells2 (f : fmt) (asg : args) (line : list str) : Prop :=
  exists d, wf_line2 f d = true /\ render2 d = line /\ denote2 f d = asg.
Lemma spells2_parse f asg line : fmt_ok f = true -> spells2 f asg line ->
  forall lenient, parse f lenient line = Ok asg.
Proof. intros Hf (d & Hwf & <- & <-). apply parse_spells2_lemma; assumption. Qed.

(* ---------- the old grammar is a part of the new one ---------- *)
Lemma embed_lists names items :
  flat_map render_item2 (map IName names ++ map I2 items) = names ++ flat_map render_item items /\
  flat_map item2_name (map IName names ++ map I2 items) = names /\
  flat_map item2_pos (map IName names ++ map I2 items) = flat_map item_pos items /\
  flat_map item2_events (map IName names ++ map I2 items) = flat_map item_events items /\
  map to_item (map IName names ++ map I2 items) = map IPos names ++ items.
Proof.
  induction names as [|s r (IH1 & IH2 & IH3 & IH4 & IH5)].
  - cbn [map app]. induction items as [|it l (IH1 & IH2 & IH3 & IH4 & IH5)]; [repeat split; reflexivity|].
    cbn [map flat_map render_item2 item2_name item2_pos item2_events to_item app] in *.
    rewrite IH1, IH2, IH3, IH4, IH5. repeat split; reflexivity.
  - cbn [map flat_map render_item2 item2_name item2_pos item2_events to_item app] in *.
    rewrite IH1, IH2, IH3, IH4, IH5. repeat split; reflexivity.
Qed.

Lemma render2_embed d : render2 (embed d) = render d.
Proof.
  destruct d as [names items tail]. unfold render2, render, embed. cbn [l2_items l2_tail ld_names ld_items ld_tail].
  destruct (embed_lists names items) as (-> & _). rewrite <- app_assoc. destruct tail; reflexivity.
Qed.
Lemma names2_embed d : names2 (embed d) = ld_names d.
Proof.
  destruct d as [names items tail]. unfold names2, embed. cbn [l2_items l2_tail ld_names ld_items ld_tail].
  destruct (embed_lists names items) as (_ & -> & _). destruct tail; apply app_nil_r.
Qed.
Lemma values2_embed d : values2 (embed d) = values d.
Proof.
  destruct d as [names items tail]. unfold values2, values, embed. cbn [l2_items l2_tail ld_names ld_items ld_tail].
  destruct (embed_lists names items) as (_ & _ & -> & _). destruct tail; reflexivity.
Qed.
Lemma events2_embed d : events2 (embed d) = events d.
Proof.
  destruct d as [names items tail]. unfold events2, events, embed. cbn [l2_items l2_tail ld_names ld_items ld_tail].
  destruct (embed_lists names items) as (_ & _ & _ & -> & _). reflexivity.
Qed.
Lemma denote2_embed f d : denote2 f (embed d) = denote f d.
Proof. unfold denote2, denote. rewrite events2_embed, values2_embed. reflexivity. Qed.

Lemma names_first_embed names items : names_first (map IName names ++ map I2 items) false = true.
Proof.
  induction names as [|s r IH]; cbn [map app names_first is_pos2]; [|exact IH].
  induction items as [|it l IH]; cbn [map names_first]; [reflexivity|]. rewrite IH, andb_true_r.
  assert (existsb is_name2 (map I2 l) = false) as E by (clear; induction l; cbn; auto).
  rewrite E. destruct (is_pos2 (I2 it)); reflexivity.
Qed.

Lemma wf_embed f d : wf_line f d = true -> wf_line2 f (embed d) = true.
Proof.
  unfold wf_line, wf_line2. destruct (aug_format f) as [[[g A] cns]|]; [|discriminate]. intros H.
  apply andb_prop in H as [H Hclash]. apply andb_prop in H as [H Hreq]. apply andb_prop in H as [H Hfit].
  apply andb_prop in H as [Hn Hit].
  rewrite names2_embed, values2_embed, Hfit, Hreq, Hclash, (names_ok_match _ _ Hn). rewrite !andb_true_r.
  destruct d as [names items tail]. unfold embed. cbn [l2_items l2_tail ld_names ld_items ld_tail] in *.
  destruct (embed_lists names items) as (_ & _ & _ & _ & ->).
  rewrite (items_ok_names f g names items (names_ok_plain _ _ Hn) Hit). cbn [andb].
  assert (match (match tail with Some vs => Some (@nil str, vs) | None => None end) with
          | Some (_ :: _, _) => true | _ => false end = false) as -> by (destruct tail; reflexivity).
  apply names_first_embed.
Qed.

Lemma embed_facts f d :
  render2 (embed d) = render d /\ denote2 f (embed d) = denote f d /\ (wf_line f d = true -> wf_line2 f (embed d) = true).
Proof. exact (conj (render2_embed d) (conj (denote2_embed f d) (wf_embed f d))). Qed.

(* parse_spells from the generalised theorem *)
Corollary parse_spells_from_interleaved f d : fmt_ok f = true -> wf_line f d = true ->
  forall lenient, parse f lenient (render d) = Ok (denote f d).
Proof.
  intros Hf Hwf len. rewrite <- render2_embed, <- denote2_embed.
  apply parse_spells2_lemma; [exact Hf|apply wf_embed; exact Hwf].
Qed.

(* ---------- the assignment is the one of the line with all spellings moved to the front ---------- *)
Lemma front_lists l :
  flat_map item_events (flat_map is_I2 l) = flat_map item2_events l /\
  flat_map item_pos (flat_map is_I2 l) = flat_map item2_pos l.
Proof.
  induction l as [|x r (IH1 & IH2)]; [split; reflexivity|]. cbn [flat_map]. rewrite !flat_map_app, IH1, IH2.
  destruct x as [it|s]; cbn [is_I2 flat_map item2_events item2_pos app]; rewrite ?app_nil_r; split; reflexivity.
Qed.
Lemma events_front d : events (names_to_front d) = events2 d.
Proof. unfold events, events2, names_to_front. cbn [ld_items]. apply front_lists. Qed.
Lemma values_front d : values (names_to_front d) = values2 d.
Proof.
  unfold values, values2, names_to_front. cbn [ld_items ld_tail]. destruct (front_lists (l2_items d)) as [_ ->].
  destruct (l2_tail d) as [[ns vs]|]; reflexivity.
Qed.
Lemma denote2_front f d : denote2 f d = denote f (names_to_front d).
Proof. unfold denote2, denote. rewrite events_front, values_front. reflexivity. Qed.

(* ---------- what the spelled assignment reports (read side of Args on denote2) ---------- *)
Lemma wf_line2_inv f d : fmt_ok f = true -> wf_line2 f d = true ->
  NoDup (map fst (get_arguments_all f)) /\ fits (get_arguments_all f) (values2 d) = true /\
  Forall (ev_ok f) (events2 d).
Proof.
  intros Hf Hwf. destruct (fmt_ok_inv f Hf) as (g & A & cns & FF).
  unfold wf_line2 in Hwf. rewrite (ff_aug _ _ _ _ FF) in Hwf.
  apply andb_prop in Hwf as [Hwf _]. apply andb_prop in Hwf as [Hwf _]. apply andb_prop in Hwf as [Hwf Hfit].
  apply andb_prop in Hwf as [Hwf _]. apply andb_prop in Hwf as [Hit _].
  split; [exact (real_nodup f g A cns FF)|]. split; [exact Hfit|]. eapply events2_ok. exact Hit.
Qed.

Lemma spelled2_option_set f d n o : get_option f n true = Ok o -> has_option f n true = true ->
  args_is_option_set f (denote2 f d) n = mentions (o_long o) (events2 d).
Proof. intros Hg Hh. rewrite denote2_front, <- events_front. apply denote_option_set; assumption. Qed.
Lemma unspelled2_option_default f d n o : get_option f n true = Ok o ->
  mentions (o_long o) (events2 d) = false -> args_option f (denote2 f d) n = Ok (opt_default_value o).
Proof. rewrite denote2_front, <- events_front. apply denote_option_unset. Qed.
Lemma spelled2_single_option f d n o es1 e es2 : get_option f n true = Ok o ->
  events2 d = es1 ++ e :: es2 -> ev_key e = o_long o -> mentions (o_long o) es2 = false ->
  (match snd e with GText _ => o_multi (fst e) = false | _ => True end) ->
  args_option f (denote2 f d) n = Ok (event_value e).
Proof. rewrite denote2_front, <- events_front. apply denote_option_single. Qed.
Lemma spelled2_multi_option f d n o : fmt_ok f = true -> wf_line2 f d = true ->
  get_option f n true = Ok o -> get_option f (o_long o) true = Ok o ->
  o_multi o = true -> mentions (o_long o) (events2 d) = true ->
  args_option f (denote2 f d) n = Ok (VList (map (fun s => conv_opt o (VStr s)) (texts_of (o_long o) (events2 d)))).
Proof.
  intros Hf Hwf Hg Hgl Hm Hmen. destruct (wf_line2_inv f d Hf Hwf) as (_ & _ & Hev).
  rewrite denote2_front, <- events_front in *. apply denote_option_multi; assumption.
Qed.
Lemma spelled2_argument_set f d i a r : fmt_ok f = true -> wf_line2 f d = true ->
  nth_error (get_arguments_all f) i = Some (a_name a, a) ->
  get_argument f r true = Ok a -> has_argument f r true = true ->
  args_is_argument_set f (denote2 f d) r = (i <? length (values2 d)).
Proof.
  intros Hf Hwf Hn Hg Hh. destruct (wf_line2_inv f d Hf Hwf) as (Hnd & Hfit & _).
  rewrite denote2_front, <- values_front in *. eapply denote_argument_set; eassumption.
Qed.
Lemma spelled2_argument_value f d i a r : fmt_ok f = true -> wf_line2 f d = true ->
  nth_error (get_arguments_all f) i = Some (a_name a, a) ->
  get_argument f r true = Ok a -> has_argument f r true = true ->
  args_argument f (denote2 f d) r =
  Ok (if i <? length (values2 d)
      then (if a_multi a then VList (map (conv_arg a) (skipn i (values2 d))) else conv_arg a (nth i (values2 d) []))
      else a_default a).
Proof.
  intros Hf Hwf Hn Hg Hh. destruct (wf_line2_inv f d Hf Hwf) as (Hnd & Hfit & _).
  rewrite denote2_front, <- values_front in *. eapply denote_argument_value; eassumption.
Qed.

(* ---------- instances (by computation) ---------- *)
From Coq Require Import String Ascii.
Module SpellNamesExamples.
  Import SpellExamples.
  (* F1: command names server (alias srv) and add; arguments host (required), port (optional, integer), files
     (multi-valued); options -v -q (flags) -n (required integer) -t (multi-valued) -c (optional value) --level.
     Options before the first command name and between the two, every item form, a separated option value that equals
     the next command name ('--tag add add'), aliases, "--" tail. *)
  Definition E1 : ld2 := {|
    l2_items := [I2 (IFlag o_quiet false); I2 (IFlag o_verbose true); IName (s "srv");
                 I2 (IVal o_num LongEq (s "-5")); I2 (IVal o_tag LongSep (s "add")); I2 (IVal o_tag ShortGlued (s "x"));
                 I2 (IVal o_num ShortSep (s "12")); I2 (IGroup [o_verbose; o_quiet] (Some (o_tag, GSep (s "y"))));
                 IName (s "add");
                 I2 (IGroup [o_verbose; o_quiet] None); I2 (IPos (s "h1"));
                 I2 (IGroup [o_quiet; o_verbose] (Some (o_color, GGlued (s "red")))); I2 (IPos (s "8080"));
                 I2 (IBare o_color false); I2 (IBare o_level true); I2 (IGroup [o_verbose] (Some (o_color, GBare)))];
    l2_tail := Some ([], [s "-a"; s ""; s "b"]) |}.
  Example E1_tokens : render2 E1 =
    [s "-q"; s "--verbose"; s "srv"; s "--num=-5"; s "--tag"; s "add"; s "-tx"; s "-n"; s "12"; s "-vqt"; s "y"; s "add";
     s "-vq"; s "h1"; s "-qvcred"; s "8080"; s "-c"; s "--level"; s "-vc"; s "--"; s "-a"; s ""; s "b"].
  Proof. vm_compute. reflexivity. Qed.
  Example E1_wf : wf_line2 F1 E1 = true. Proof. vm_compute. reflexivity. Qed.
  Example E1_value : denote2 F1 E1 =
    {| ar_opts := [(s "quiet", VBool true); (s "verbose", VBool true); (s "num", VInt 12);
                   (s "tag", VList [VStr (s "add"); VStr (s "x"); VStr (s "y")]); (s "color", VStr (s "auto")); (s "level", VInt 3)];
       ar_args := [(s "host", VStr (s "h1")); (s "port", VInt 8080); (s "files", VList [VStr (s "-a"); VStr (s ""); VStr (s "b")])] |}.
  Proof. vm_compute. reflexivity. Qed.
  Example E1_parses : forall lenient, parse F1 lenient (render2 E1) = Ok (denote2 F1 E1).
  Proof. intros []; vm_compute; reflexivity. Qed.
  Example E1_over_base : wf_line2 F2 E1 = true /\ forall lenient, parse F2 lenient (render2 E1) = Ok (denote2 F2 E1).
  Proof. split; [|intros []]; vm_compute; reflexivity. Qed.
  (* no description of the old grammar renders to these tokens with names in front: the first token is an option *)
  Example E1_names : names2 E1 = [s "srv"; s "add"] /\ values2 E1 = [s "h1"; s "8080"; s "-a"; s ""; s "b"].
  Proof. split; vm_compute; reflexivity. Qed.

  (* the second command name behind "--", then values (one of them "--", one equal to a command name) *)
  Definition E2 : ld2 := {|
    l2_items := [I2 (IFlag o_verbose false); IName (s "server"); I2 (IVal o_num ShortGlued (s "7"))];
    l2_tail := Some ([s "add"], [s "h2"; s "80"; s "--"; s "add"]) |}.
  Example E2_parses : wf_line2 F1 E2 = true /\ render2 E2 = [s "-v"; s "server"; s "-n7"; s "--"; s "add"; s "h2"; s "80"; s "--"; s "add"] /\
    forall lenient, parse F1 lenient (render2 E2) = Ok (denote2 F1 E2).
  Proof. split; [|split; [|intros []]]; vm_compute; reflexivity. Qed.
  (* both command names behind "--" *)
  Definition E3 : ld2 := {| l2_items := [I2 (IFlag o_quiet false)]; l2_tail := Some ([s "srv"; s "add"], [s "h"]) |}.
  Example E3_parses : wf_line2 F1 E3 = true /\ forall lenient, parse F1 lenient (render2 E3) = Ok (denote2 F1 E3).
  Proof. split; [|intros []]; vm_compute; reflexivity. Qed.
  (* the second command name omitted, options around the first; a value equal to the FIRST (given) name is fine *)
  Definition E4 : ld2 := {|
    l2_items := [I2 (IFlag o_verbose false); IName (s "server"); I2 (IVal o_num LongEq (s "3")); I2 (IPos (s "server"))];
    l2_tail := None |}.
  Example E4_parses : wf_line2 F1 E4 = true /\ forall lenient, parse F1 lenient (render2 E4) = Ok (denote2 F1 E4).
  Proof. split; [|intros []]; vm_compute; reflexivity. Qed.
  (* the old grammar's instance, embedded *)
  Example D1_embedded : wf_line2 F1 (embed D1) = true /\ render2 (embed D1) = render D1 /\ denote2 F1 (embed D1) = denote F1 D1.
  Proof. split; [|split]; vm_compute; reflexivity. Qed.

  (* lines the side conditions exclude, and what the parser does with them *)
  (* an omitted optional value in front of a command name: the spelling is swallowed as the value *)
  Definition Y1 : ld2 := {| l2_items := [I2 (IBare o_color true); IName (s "server"); IName (s "add"); I2 (IPos (s "h"))]; l2_tail := None |}.
  Example Y1_excluded : wf_line2 F1 Y1 = false /\ forall lenient, parse F1 lenient (render2 Y1) <> Ok (denote2 F1 Y1).
  Proof. split; [vm_compute; reflexivity|intros []; vm_compute; discriminate]. Qed.
  (* a value in front of a command name: the value is tried as the command name *)
  Definition Y2 : ld2 := {| l2_items := [I2 (IPos (s "h")); IName (s "server"); IName (s "add")]; l2_tail := None |}.
  Example Y2_excluded : wf_line2 F1 Y2 = false /\ forall lenient, parse F1 lenient (render2 Y2) <> Ok (denote2 F1 Y2).
  Proof. split; [vm_compute; reflexivity|intros []; vm_compute; discriminate]. Qed.
  (* the same with the command names behind "--" *)
  Definition Y3 : ld2 := {| l2_items := [I2 (IPos (s "h"))]; l2_tail := Some ([s "server"; s "add"], []) |}.
  Example Y3_excluded : wf_line2 F1 Y3 = false /\ forall lenient, parse F1 lenient (render2 Y3) <> Ok (denote2 F1 Y3).
  Proof. split; [vm_compute; reflexivity|intros []; vm_compute; discriminate]. Qed.
  (* the second command name without the first: nothing is matched, 'add' is the host *)
  Definition Y4 : ld2 := {| l2_items := [I2 (IFlag o_verbose false); IName (s "add"); I2 (IPos (s "h"))]; l2_tail := None |}.
  Example Y4_excluded : wf_line2 F1 Y4 = false /\ forall lenient, parse F1 lenient (render2 Y4) <> Ok (denote2 F1 Y4).
  Proof. split; [vm_compute; reflexivity|intros []; vm_compute; discriminate]. Qed.
  (* an omitted command name in front of a value equal to it, options in between *)
  Definition Y5 : ld2 := {| l2_items := [IName (s "server"); I2 (IFlag o_verbose false); I2 (IPos (s "add"))]; l2_tail := None |}.
  Example Y5_excluded : wf_line2 F1 Y5 = false /\ parse F1 true (render2 Y5) <> Ok (denote2 F1 Y5).
  Proof. split; [vm_compute; reflexivity|vm_compute; discriminate]. Qed.
End SpellNamesExamples.
