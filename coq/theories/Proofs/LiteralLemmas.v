(* Trace._literal against the markup model: a text put into markup through `literal` comes out of the formatter as it
   is (with a blank after a trailing backslash), whatever characters it contains. *)
From Coq Require Import Lia.
From Clikit Require Import Base.Prelude Base.Res Model.Conv Model.Markup Model.Trace Proofs.MarkupLemmas.

(* the text as shown: a blank after a trailing backslash *)
Definition shown (s : str) : str := if ends_with_bsl s then s ++ [32%N] else s.

(* ---------- lists two elements at a time ---------- *)
Lemma list_ind2 {X} (P : list X -> Prop) :
  P [] -> (forall c, P [c]) -> (forall c d r, P r -> P (d :: r) -> P (c :: d :: r)) -> forall l, P l.
Proof.
  intros H0 H1 H2 l. assert (P l /\ forall c, P (c :: l)) as [H _]; [|exact H].
  induction l as [|d r [IHa IHb]]; [split; auto|]. split; [apply IHb|]. intros c. apply H2; auto.
Qed.

(* ---------- A. unescape undoes double_bsl ---------- *)
Lemma unescape_cons2 c d r :
  unescape (c :: d :: r) = if N.eqb c BSL && N.eqb d LT then LT :: unescape r else c :: unescape (d :: r).
Proof. reflexivity. Qed.
Lemma double_bsl_cons2 c d r :
  double_bsl (c :: d :: r) = if N.eqb c BSL && N.eqb d LT then BSL :: BSL :: double_bsl (d :: r) else c :: double_bsl (d :: r).
Proof. reflexivity. Qed.
Lemma unescape_head c r : c <> BSL -> unescape (c :: r) = c :: unescape r.
Proof.
  intros Hc. destruct r as [|d r]; [reflexivity|]. rewrite unescape_cons2.
  destruct (N.eqb_spec c BSL); [contradiction|reflexivity].
Qed.
Lemma double_bsl_head c r : c <> BSL -> double_bsl (c :: r) = c :: double_bsl r.
Proof.
  intros Hc. destruct r as [|d r]; [reflexivity|]. rewrite double_bsl_cons2.
  destruct (N.eqb_spec c BSL); [contradiction|reflexivity].
Qed.
(* double_bsl keeps the first character *)
Lemma double_bsl_hd d r : exists tl, double_bsl (d :: r) = d :: tl.
Proof.
  destruct r as [|e r]; [eexists; reflexivity|]. rewrite double_bsl_cons2.
  destruct (N.eqb_spec d BSL) as [->|]; cbn [andb]; [|eexists; reflexivity].
  destruct (N.eqb BSL e && N.eqb e LT); destruct (N.eqb e LT); eexists; reflexivity.
Qed.
Lemma LT_not_BSL : LT <> BSL. Proof. discriminate. Qed.

Lemma unescape_double_bsl : forall s, unescape (double_bsl s) = s.
Proof.
  induction s as [|c|c d r IHr IHd] using list_ind2; [reflexivity|reflexivity|].
  rewrite double_bsl_cons2.
  destruct (N.eqb_spec c BSL) as [->|Hc]; cbn [andb].
  - destruct (N.eqb_spec d LT) as [->|Hd].
    + rewrite (double_bsl_head LT r LT_not_BSL) in *. rewrite (unescape_head LT _ LT_not_BSL) in IHd.
      rewrite unescape_cons2. change (N.eqb BSL BSL && N.eqb BSL LT) with false. cbv iota.
      rewrite unescape_cons2. change (N.eqb BSL BSL && N.eqb LT LT) with true. cbv iota.
      injection IHd as ->. reflexivity.
    + destruct (double_bsl_hd d r) as [tl E]. rewrite E in *. rewrite unescape_cons2.
      destruct (N.eqb_spec d LT); [contradiction|]. rewrite Bool.andb_false_r. now rewrite IHd.
  - rewrite (unescape_head c _ Hc). now rewrite IHd.
Qed.

(* unescape over a concatenation: the only interaction is a backslash at the end of the left part before a '<' at the
   start of the right part *)
Lemma ends_cons c x : x <> [] -> ends_with_bsl (c :: x) = ends_with_bsl x.
Proof.
  intros Hx. unfold ends_with_bsl. cbn [rev]. destruct (rev x) as [|e r] eqn:E; [|reflexivity].
  apply (f_equal (@rev N)) in E. rewrite rev_involutive in E. contradiction.
Qed.
Lemma ends_app a b : ends_with_bsl (a ++ b) = match b with [] => ends_with_bsl a | _ => ends_with_bsl b end.
Proof.
  destruct b as [|c b]; [now rewrite app_nil_r|]. unfold ends_with_bsl. rewrite rev_app_distr.
  destruct (rev (c :: b)) as [|e r] eqn:E; [|reflexivity].
  apply (f_equal (@rev N)) in E. rewrite rev_involutive in E. discriminate.
Qed.
Lemma ends_single c : ends_with_bsl [c] = N.eqb c BSL. Proof. reflexivity. Qed.

Lemma unescape_app_l : forall a b, ends_with_bsl a = false -> unescape (a ++ b) = unescape a ++ unescape b.
Proof.
  induction a as [|c|c d r IHr IHd] using list_ind2; intros b Ha; [reflexivity| |].
  - rewrite ends_single in Ha. cbn [app]. rewrite unescape_head; [reflexivity|]. intros ->. discriminate.
  - rewrite ends_cons in Ha by discriminate. cbn [app]. rewrite !unescape_cons2.
    destruct (N.eqb c BSL && N.eqb d LT) eqn:E.
    + cbn [app]. f_equal. apply IHr. destruct r as [|e r']; [reflexivity|]. rewrite ends_cons in Ha by discriminate. exact Ha.
    + cbn [app]. f_equal. apply (IHd b Ha).
Qed.
Definition no_lt_start (b : str) : Prop := match b with c :: _ => c <> LT | [] => True end.
Lemma unescape_app_r : forall a b, no_lt_start b -> unescape (a ++ b) = unescape a ++ unescape b.
Proof.
  induction a as [|c|c d r IHr IHd] using list_ind2; intros b Hb; [reflexivity| |].
  - cbn [app]. destruct b as [|d b]; [reflexivity|]. cbn [no_lt_start] in Hb. rewrite unescape_cons2.
    destruct (N.eqb_spec d LT); [contradiction|]. rewrite Bool.andb_false_r. reflexivity.
  - cbn [app]. rewrite !unescape_cons2. destruct (N.eqb c BSL && N.eqb d LT).
    + cbn [app]. f_equal. apply IHr, Hb.
    + cbn [app]. f_equal. apply (IHd b Hb).
Qed.
Lemma unescape_app a b : ends_with_bsl a = false \/ no_lt_start b -> unescape (a ++ b) = unescape a ++ unescape b.
Proof. intros [H|H]; [apply unescape_app_l|apply unescape_app_r]; exact H. Qed.

(* the last character survives double_bsl *)
Lemma double_bsl_nonempty d r : double_bsl (d :: r) <> [].
Proof. destruct (double_bsl_hd d r) as [tl ->]. discriminate. Qed.
Lemma ends_double_bsl : forall s, ends_with_bsl (double_bsl s) = ends_with_bsl s.
Proof.
  induction s as [|c|c d r IHr IHd] using list_ind2; [reflexivity|reflexivity|].
  rewrite double_bsl_cons2, (ends_cons c (d :: r)) by discriminate. pose proof (double_bsl_nonempty d r) as Hne.
  destruct (N.eqb c BSL && N.eqb d LT).
  - rewrite (ends_cons BSL), (ends_cons BSL); auto. discriminate.
  - rewrite ends_cons; auto.
Qed.

(* the body of a literal: what the formatter is to show, before the '<' are cut off *)
Definition lit_body (s : str) : str := if ends_with_bsl s then double_bsl s ++ [32%N] else double_bsl s.
Lemma unescape_lit_body s : unescape (lit_body s) = shown s.
Proof.
  unfold lit_body, shown. destruct (ends_with_bsl s); [|apply unescape_double_bsl].
  rewrite unescape_app_r; [|cbn; discriminate]. now rewrite unescape_double_bsl.
Qed.
Lemma ends_lit_body s : ends_with_bsl (lit_body s) = false.
Proof.
  unfold lit_body. destruct (ends_with_bsl s) eqn:E; [rewrite ends_app; reflexivity|]. now rewrite ends_double_bsl.
Qed.

(* ---------- the scanner on a literal ---------- *)
Definition close_any_tag : tag := Tag close_any true [].
Definition otag (nm : str) : tag := Tag (open_tag nm) false nm.
Definition ctag (nm : str) : tag := Tag (close_tag nm) true nm.

Lemma tagged_eq style text : tagged style text = open_tag style ++ text ++ close_any.
Proof. unfold tagged, open_tag. cbn [app]. rewrite <- app_assoc. reflexivity. Qed.
Lemma cut_lt_app tag a b : cut_lt tag (a ++ b) = cut_lt tag a ++ cut_lt tag b.
Proof. unfold cut_lt. apply flat_map_app. Qed.
Lemma literal_eq s tag : literal s tag = cut_lt tag (lit_body s).
Proof. unfold literal, lit_body. destruct (ends_with_bsl s); [|reflexivity]. rewrite cut_lt_app. reflexivity. Qed.

(* the segments the scanner finds inside the (cut) body x of a literal, and the text pending after it; cur: the text
   pending before it.  After every '<' of the body comes "</>", then the tag again: these are the only tags found *)
Fixpoint inner_segs (ot : tag) (x cur : str) : list (str * tag) :=
  match x with
  | [] => []
  | c :: r => if N.eqb c LT then (cur ++ [LT], close_any_tag) :: ([], ot) :: inner_segs ot r [] else inner_segs ot r (cur ++ [c])
  end.
Fixpoint inner_cur (x cur : str) : str :=
  match x with
  | [] => cur
  | c :: r => if N.eqb c LT then inner_cur r [] else inner_cur r (cur ++ [c])
  end.

Lemma lex_close_any done cur :
  fold_left lex_step close_any {| l_done := done; l_cur := cur; l_cand := CText |}
  = {| l_done := done ++ [(cur, close_any_tag)]; l_cur := []; l_cand := CText |}.
Proof. unfold close_any. cbn [fold_left]. rewrite step_text_lt, step_open_slash. reflexivity. Qed.
Lemma lex_lt_close_any done cur :
  fold_left lex_step (LT :: close_any) {| l_done := done; l_cur := cur; l_cand := CText |}
  = {| l_done := done ++ [(cur ++ [LT], close_any_tag)]; l_cur := []; l_cand := CText |}.
Proof.
  unfold close_any. cbn [fold_left]. rewrite step_text_lt.
  assert (lex_step {| l_done := done; l_cur := cur; l_cand := COpen |} LT = {| l_done := done; l_cur := cur ++ [LT]; l_cand := COpen |}) as ->.
  { unfold lex_step. cbn. reflexivity. }
  rewrite step_open_slash. reflexivity.
Qed.
Lemma lex_open nm : tag_name nm -> forall done cur,
  fold_left lex_step (open_tag nm) {| l_done := done; l_cur := cur; l_cand := CText |}
  = {| l_done := done ++ [(cur, otag nm)]; l_cur := []; l_cand := CText |}.
Proof. intros Hn done cur. exact (lex_tag false nm Hn done cur). Qed.
Lemma lex_close nm : tag_name nm -> forall done cur,
  fold_left lex_step (close_tag nm) {| l_done := done; l_cur := cur; l_cand := CText |}
  = {| l_done := done ++ [(cur, ctag nm)]; l_cur := []; l_cand := CText |}.
Proof. intros Hn done cur. exact (lex_tag true nm Hn done cur). Qed.

Lemma lex_cut tag : tag_name tag -> forall x done cur,
  fold_left lex_step (cut_lt tag x) {| l_done := done; l_cur := cur; l_cand := CText |}
  = {| l_done := done ++ inner_segs (otag tag) x cur; l_cur := inner_cur x cur; l_cand := CText |}.
Proof.
  intros Hn. induction x as [|c r IH]; intros done cur; [cbn; now rewrite app_nil_r|].
  change (cut_lt tag (c :: r)) with ((if N.eqb c LT then LT :: close_any ++ LT :: tag ++ [GT] else [c]) ++ cut_lt tag r).
  rewrite fold_left_app. cbn [inner_segs inner_cur]. destruct (N.eqb_spec c LT) as [->|Hc].
  - change (LT :: close_any ++ LT :: tag ++ [GT]) with ((LT :: close_any) ++ open_tag tag).
    rewrite fold_left_app, lex_lt_close_any, (lex_open tag Hn), IH, <- !app_assoc. reflexivity.
  - rewrite (lex_text [c]); [|constructor; [exact Hc|constructor]]. apply IH.
Qed.

(* ---------- a line: literals and plain separators ---------- *)
Inductive piece := PRaw (t : str) | PLit (tag s : str) | PNamed (nm s : str).
Definition piece_str (p : piece) : str :=
  match p with
  | PRaw t => t
  | PLit tag s => tagged tag (literal s tag)
  | PNamed nm s => open_tag nm ++ literal s nm ++ close_tag nm
  end.
Definition piece_shown (p : piece) : str := match p with PRaw t => t | PLit _ s => shown s | PNamed _ s => shown s end.
Definition line_str (ps : list piece) : str := flat_map piece_str ps.
Definition safe (t : str) : Prop := Forall (fun c => c <> LT /\ c <> BSL) t.
Definition resolvable (sty : styles) (tag : str) : Prop := exists p, resolve sty (py_lower tag) = Ok (Some p).
Definition piece_ok (sty : styles) (p : piece) : Prop :=
  match p with
  | PRaw t => safe t
  | PLit tag _ => tag_name tag /\ resolvable sty tag
  | PNamed nm _ => tag_name nm /\ resolvable sty nm
  end.
Definition pieces_ok (sty : styles) (ps : list piece) : Prop := Forall (piece_ok sty) ps.

Lemma safe_no_lt t : safe t -> no_lt t. Proof. intros H. eapply Forall_impl; [|exact H]. intros c [? ?]; auto. Qed.
Lemma safe_no_bsl t : safe t -> no_bsl t. Proof. intros H. eapply Forall_impl; [|exact H]. intros c [? ?]; auto. Qed.

(* what the scanner makes of a piece *)
Definition piece_segs (p : piece) (cur : str) : list (str * tag) :=
  match p with
  | PRaw _ => []
  | PLit tag s => (cur, otag tag) :: inner_segs (otag tag) (lit_body s) [] ++ [(inner_cur (lit_body s) [], close_any_tag)]
  | PNamed nm s => (cur, otag nm) :: inner_segs (otag nm) (lit_body s) [] ++ [(inner_cur (lit_body s) [], ctag nm)]
  end.
Definition piece_cur (p : piece) (cur : str) : str := match p with PRaw t => cur ++ t | _ => [] end.
Fixpoint line_segs (ps : list piece) (cur : str) : list (str * tag) :=
  match ps with [] => [] | p :: r => piece_segs p cur ++ line_segs r (piece_cur p cur) end.
Fixpoint line_cur (ps : list piece) (cur : str) : str :=
  match ps with [] => cur | p :: r => line_cur r (piece_cur p cur) end.

Lemma lex_piece sty p : piece_ok sty p -> forall done cur,
  fold_left lex_step (piece_str p) {| l_done := done; l_cur := cur; l_cand := CText |}
  = {| l_done := done ++ piece_segs p cur; l_cur := piece_cur p cur; l_cand := CText |}.
Proof.
  destruct p as [t|tag s|nm s]; cbn [piece_ok piece_str piece_segs piece_cur].
  - intros Ht done cur. rewrite (lex_text t (safe_no_lt t Ht)), app_nil_r. reflexivity.
  - intros [Hn _] done cur. rewrite tagged_eq, literal_eq, !fold_left_app, (lex_open tag Hn), (lex_cut tag Hn), lex_close_any.
    rewrite <- !app_assoc. reflexivity.
  - intros [Hn _] done cur. rewrite literal_eq, !fold_left_app, (lex_open nm Hn), (lex_cut nm Hn), (lex_close nm Hn).
    rewrite <- !app_assoc. reflexivity.
Qed.
Lemma lex_line_fold sty : forall ps, pieces_ok sty ps -> forall done cur,
  fold_left lex_step (line_str ps) {| l_done := done; l_cur := cur; l_cand := CText |}
  = {| l_done := done ++ line_segs ps cur; l_cur := line_cur ps cur; l_cand := CText |}.
Proof.
  induction 1 as [|p r Hp Hr IH]; intros done cur; [cbn; now rewrite app_nil_r|].
  change (line_str (p :: r)) with (piece_str p ++ line_str r).
  rewrite fold_left_app, (lex_piece sty p Hp), IH. cbn [line_segs line_cur]. now rewrite app_assoc.
Qed.
Lemma lex_line sty ps : pieces_ok sty ps -> lex (line_str ps) = (line_segs ps [], line_cur ps []).
Proof. intros H. unfold lex, lex_init. rewrite (lex_line_fold sty ps H). unfold lex_end. cbn. now rewrite app_nil_r. Qed.

(* ---------- running the segments: plain mode ---------- *)
(* when the message does not end with a backslash, a tag is escaped exactly when the text before it ends with one *)
Lemma esc_flag (first : bool) (pre : str) :
  (match pre with [] => first && false | _ :: _ => ends_with_bsl pre end) = ends_with_bsl pre.
Proof. destruct pre; [apply Bool.andb_false_r|reflexivity]. Qed.
Lemma run_segs_first sty col f segs sk out le :
  run_segs sty col false f segs sk out le = run_segs sty col false false segs sk out le.
Proof. destruct segs as [|[pre t] r]; [reflexivity|]. cbn [run_segs]. now rewrite !esc_flag. Qed.
Lemma run_segs_app sty col : forall a b sk out le f,
  run_segs sty col false f (a ++ b) sk out le
  = match run_segs sty col false f a sk out le with
    | Ok (sk', out', le') => run_segs sty col false false b sk' out' le'
    | Err e => Err e
    end.
Proof.
  induction a as [|[pre t] r IH]; intros b sk out le f; [cbn [app run_segs]; apply run_segs_first|].
  cbn [app run_segs]. destruct (do_tag sty col _ t sk) as [x|e]; cbn [bind]; [apply IH|reflexivity].
Qed.

Lemma do_open sty col nm p sk : resolve sty (py_lower nm) = Ok (Some p) -> do_tag sty col false (otag nm) sk = Ok (sk ++ [p], []).
Proof. intros Hr. unfold do_tag, otag. cbn [andb]. rewrite Hr. reflexivity. Qed.
Lemma do_close_any sty col sk p : do_tag sty col false close_any_tag (sk ++ [p]) = Ok (sk, []).
Proof. unfold do_tag, close_any_tag, pop_any. cbn [andb]. now rewrite removelast_last. Qed.
Lemma pop_style_top p sk : pop_style p (sk ++ [p]) = Ok sk.
Proof.
  unfold pop_style. destruct (sk ++ [p]) as [|x l] eqn:E; [destruct sk; discriminate|]. rewrite <- E.
  rewrite rev_app_distr. cbn [rev app cut_rev]. now rewrite pstyle_eqb_refl, rev_involutive.
Qed.
Lemma do_close sty col nm p sk : tag_name nm -> resolve sty (py_lower nm) = Ok (Some p) ->
  do_tag sty col false (ctag nm) (sk ++ [p]) = Ok (sk, []).
Proof.
  intros Hn Hr. unfold do_tag, ctag. destruct nm as [|c r]; [contradiction|]. cbn [andb]. rewrite Hr. cbn [bind].
  now rewrite pop_style_top.
Qed.

Lemma ends_lt cur : ends_with_bsl (cur ++ [LT]) = false. Proof. now rewrite ends_app. Qed.

Lemma run_inner sty tag p : resolve sty (py_lower tag) = Ok (Some p) -> forall x cur sk out,
  run_segs sty false false false (inner_segs (otag tag) x cur) (sk ++ [p]) out false
  = Ok (sk ++ [p], out ++ flat_map fst (inner_segs (otag tag) x cur), false).
Proof.
  intros Hr. induction x as [|c r IH]; intros cur sk out; cbn [inner_segs]; [cbn; now rewrite app_nil_r|].
  destruct (N.eqb c LT); [|apply IH].
  cbn [run_segs]. rewrite !esc_flag, ends_lt, do_close_any. cbn [bind fst snd andb].
  rewrite (do_open sty false tag p sk Hr). cbn [bind fst snd]. rewrite IH, !apply_cur_false. cbn [flat_map fst app].
  rewrite <- !app_assoc, ?app_nil_r. reflexivity.
Qed.

Lemma inner_cur_ends : forall x cur, ends_with_bsl (inner_cur x cur) = ends_with_bsl (cur ++ x).
Proof.
  induction x as [|c r IH]; intros cur; cbn [inner_cur]; [now rewrite app_nil_r|].
  destruct (N.eqb_spec c LT) as [->|Hc].
  - rewrite IH. cbn [app]. change (cur ++ LT :: r) with (cur ++ [LT] ++ r). rewrite app_assoc, (ends_app (cur ++ [LT]) r).
    destruct r; [now rewrite ends_lt|reflexivity].
  - rewrite IH, <- app_assoc. reflexivity.
Qed.
Lemma inner_text ot : forall x cur, flat_map fst (inner_segs ot x cur) ++ inner_cur x cur = cur ++ x.
Proof.
  induction x as [|c r IH]; intros cur; cbn [inner_segs inner_cur]; [cbn; now rewrite app_nil_r|].
  destruct (N.eqb_spec c LT) as [->|Hc].
  - cbn [flat_map fst app]. rewrite <- app_assoc, IH. cbn [app]. rewrite <- app_assoc. reflexivity.
  - rewrite IH, <- app_assoc. reflexivity.
Qed.

Definition piece_plain (p : piece) : str := match p with PRaw t => t | PLit _ s => lit_body s | PNamed _ s => lit_body s end.
Lemma piece_text p cur : flat_map fst (piece_segs p cur) ++ piece_cur p cur = cur ++ piece_plain p.
Proof.
  destruct p as [t|tag s|nm s]; cbn [piece_segs piece_cur piece_plain flat_map fst]; [reflexivity| |];
    rewrite flat_map_app; cbn [flat_map fst]; rewrite !app_nil_r; f_equal; apply (inner_text _ (lit_body s) []).
Qed.
Lemma line_text : forall ps cur, flat_map fst (line_segs ps cur) ++ line_cur ps cur = cur ++ flat_map piece_plain ps.
Proof.
  induction ps as [|p r IH]; intros cur; cbn [line_segs line_cur flat_map]; [now rewrite app_nil_r|].
  rewrite flat_map_app, <- app_assoc, IH, app_assoc, piece_text, <- app_assoc. reflexivity.
Qed.

Lemma run_piece sty p : piece_ok sty p -> forall cur sk out, ends_with_bsl cur = false ->
  run_segs sty false false false (piece_segs p cur) sk out false = Ok (sk, out ++ flat_map fst (piece_segs p cur), false).
Proof.
  destruct p as [t|tag s|nm s]; cbn [piece_ok piece_segs].
  - intros _ cur sk out _. cbn. now rewrite app_nil_r.
  - intros [Hn [p Hr]] cur sk out Hcur. cbn [run_segs]. rewrite esc_flag, Hcur, (do_open sty false tag p sk Hr). cbn [bind fst snd].
    rewrite run_segs_app, (run_inner sty tag p Hr). cbn [run_segs].
    rewrite esc_flag, inner_cur_ends. cbn [app]. rewrite ends_lit_body, do_close_any. cbn [bind fst snd].
    rewrite !apply_cur_false. cbn [flat_map fst]. rewrite flat_map_app. cbn [flat_map fst]. rewrite <- !app_assoc, ?app_nil_r. reflexivity.
  - intros [Hn [p Hr]] cur sk out Hcur. cbn [run_segs]. rewrite esc_flag, Hcur, (do_open sty false nm p sk Hr). cbn [bind fst snd].
    rewrite run_segs_app, (run_inner sty nm p Hr). cbn [run_segs].
    rewrite esc_flag, inner_cur_ends. cbn [app]. rewrite ends_lit_body, (do_close sty false nm p sk Hn Hr). cbn [bind fst snd].
    rewrite !apply_cur_false. cbn [flat_map fst]. rewrite flat_map_app. cbn [flat_map fst]. rewrite <- !app_assoc, ?app_nil_r. reflexivity.
Qed.
Lemma piece_cur_ends sty p cur : piece_ok sty p -> ends_with_bsl cur = false -> ends_with_bsl (piece_cur p cur) = false.
Proof.
  destruct p as [t|tag s|nm s]; cbn [piece_ok piece_cur]; try reflexivity.
  intros Ht Hcur. rewrite ends_app. destruct t as [|c t]; [exact Hcur|]. apply no_bsl_ends, safe_no_bsl, Ht.
Qed.
Lemma run_line sty : forall ps, pieces_ok sty ps -> forall cur sk out, ends_with_bsl cur = false ->
  run_segs sty false false false (line_segs ps cur) sk out false = Ok (sk, out ++ flat_map fst (line_segs ps cur), false).
Proof.
  induction 1 as [|p r Hp Hr IH]; intros cur sk out Hcur; cbn [line_segs]; [cbn; now rewrite app_nil_r|].
  rewrite run_segs_app, (run_piece sty p Hp cur sk out Hcur), IH; [|apply (piece_cur_ends sty), Hcur; exact Hp].
  rewrite flat_map_app, app_assoc. reflexivity.
Qed.

(* no piece ends with a backslash *)
Lemma piece_str_ends sty p : piece_ok sty p -> ends_with_bsl (piece_str p) = false.
Proof.
  destruct p as [t|tag s|nm s]; cbn [piece_ok piece_str].
  - intros Ht. apply no_bsl_ends, safe_no_bsl, Ht.
  - intros _. rewrite tagged_eq, app_assoc, ends_app. reflexivity.
  - intros _. unfold close_tag. change (LT :: SLASH :: nm ++ [GT]) with ((LT :: SLASH :: nm) ++ [GT]). rewrite !app_assoc, ends_app. reflexivity.
Qed.
Lemma line_str_ends sty ps : pieces_ok sty ps -> ends_with_bsl (line_str ps) = false.
Proof.
  induction 1 as [|p r Hp Hr IH]; [reflexivity|]. change (line_str (p :: r)) with (piece_str p ++ line_str r).
  rewrite ends_app. destruct (line_str r); [apply (piece_str_ends sty), Hp|exact IH].
Qed.
Lemma piece_plain_ends sty p : piece_ok sty p -> ends_with_bsl (piece_plain p) = false.
Proof.
  destruct p as [t|tag s|nm s]; cbn [piece_ok piece_plain]; intros H; try apply ends_lit_body. apply no_bsl_ends, safe_no_bsl, H.
Qed.
Lemma unescape_piece sty p : piece_ok sty p -> unescape (piece_plain p) = piece_shown p.
Proof.
  destruct p as [t|tag s|nm s]; cbn [piece_ok piece_plain piece_shown]; intros H; try apply unescape_lit_body.
  apply unescape_id, safe_no_bsl, H.
Qed.
Lemma unescape_pieces sty ps : pieces_ok sty ps -> unescape (flat_map piece_plain ps) = flat_map piece_shown ps.
Proof.
  induction 1 as [|p r Hp Hr IH]; [reflexivity|]. cbn [flat_map].
  rewrite unescape_app_l, IH, (unescape_piece sty p Hp); [reflexivity|apply (piece_plain_ends sty), Hp].
Qed.

(* ---------- C. a whole line, plain mode ---------- *)
Theorem line_plain sty sk ps : pieces_ok sty ps ->
  colorize sty false sk (line_str ps) = Ok (sk, flat_map piece_shown ps).
Proof.
  intros Hok. unfold colorize. rewrite (lex_line sty ps Hok).
  pose proof (line_text ps []) as HT. cbn [app] in HT.
  destruct (line_segs ps []) as [|sg segs] eqn:E.
  - pose proof (lex_lossless (line_str ps)) as HL. rewrite (lex_line sty ps Hok), E in HL. cbn [fst snd flat_map app] in HL.
    cbn [flat_map app] in HT. rewrite <- HL, HT, (unescape_pieces sty ps Hok). reflexivity.
  - rewrite <- E in *. rewrite (line_str_ends sty ps Hok), run_segs_first, (run_line sty ps Hok [] sk [] eq_refl).
    cbn [bind app]. rewrite !apply_cur_false, removelast_lastchar, HT, (unescape_pieces sty ps Hok). reflexivity.
Qed.

(* ---------- B. one literal ---------- *)
Theorem literal_plain sty sk tag p s : tag_name tag -> resolve sty (py_lower tag) = Ok (Some p) ->
  colorize sty false sk (tagged tag (literal s tag)) = Ok (sk, shown s).
Proof.
  intros Hn Hr. pose proof (line_plain sty sk [PLit tag s]) as H. cbn [line_str flat_map piece_str piece_shown] in H.
  rewrite !app_nil_r in H. apply H. constructor; [|constructor]. split; [exact Hn|]. exists p. exact Hr.
Qed.
Theorem literal_named_plain sty sk nm p s : tag_name nm -> resolve sty (py_lower nm) = Ok (Some p) ->
  colorize sty false sk (open_tag nm ++ literal s nm ++ close_tag nm) = Ok (sk, shown s).
Proof.
  intros Hn Hr. pose proof (line_plain sty sk [PNamed nm s]) as H. cbn [line_str flat_map piece_str piece_shown] in H.
  rewrite !app_nil_r in H. apply H. constructor; [|constructor]. split; [exact Hn|]. exists p. exact Hr.
Qed.

(* ---------- D. decorated and plain rendering in lockstep, backslashes allowed ---------- *)
(* colorize_lockstep (MarkupLemmas) asks for a message without backslash; what is needed is less: no text before a tag
   ends with a backslash (no tag is escaped) *)
Lemma unescape_P (P : N -> Prop) : forall s, Forall P s -> Forall P (unescape s).
Proof.
  induction s as [|c|c d r IHr IHd] using list_ind2; intros H; [constructor|exact H|].
  rewrite unescape_cons2. inversion H as [|? ? Hc Hdr]; subst. inversion Hdr as [|? ? Hd Hr]; subst.
  destruct (N.eqb_spec c BSL), (N.eqb_spec d LT); subst; cbn [andb]; constructor; auto.
Qed.
Lemma double_bsl_P (P : N -> Prop) : forall s, Forall P s -> Forall P (double_bsl s).
Proof.
  induction s as [|c|c d r IHr IHd] using list_ind2; intros H; [constructor|exact H|].
  rewrite double_bsl_cons2. inversion H as [|? ? Hc Hdr]; subst.
  destruct (N.eqb_spec c BSL) as [->|]; cbn [andb]; [|constructor; auto].
  destruct (N.eqb d LT); repeat constructor; auto.
Qed.

Lemma sgr_open_ends codes : ends_with_bsl (sgr_open codes) = false.
Proof.
  unfold sgr_open. change (ESC :: 91%N :: ?x ++ [109%N]) with ((ESC :: 91%N :: x) ++ [109%N]). now rewrite ends_app.
Qed.
Lemma sgr_open_no_bsl codes : no_bsl (sgr_open codes).
Proof.
  unfold sgr_open, no_bsl. constructor; [discriminate|]. constructor; [discriminate|].
  apply Forall_app; split; [apply param_no_bsl, join_params|]. constructor; [discriminate|constructor].
Qed.
(* the wrapper and unescape commute: the wrapper has no backslash, and the closing sequence does not start with '<' *)
Lemma unescape_apply st x : unescape (apply_style st x) = apply_style st (unescape x).
Proof.
  unfold apply_style, sgr_wrap. destruct (codes_of st) as [|c l]; [reflexivity|].
  rewrite (unescape_app_l _ _ (sgr_open_ends (c :: l))), (unescape_id _ (sgr_open_no_bsl (c :: l))).
  rewrite unescape_app_r; [reflexivity|]. cbn. discriminate.
Qed.
Lemma apply_style_ends st x : ends_with_bsl x = false -> ends_with_bsl (apply_style st x) = false.
Proof.
  intros Hx. unfold apply_style, sgr_wrap. destruct (codes_of st) as [|c l]; [exact Hx|]. rewrite app_assoc, ends_app. reflexivity.
Qed.
Lemma apply_cur_ends col sk x : ends_with_bsl x = false -> ends_with_bsl (apply_cur col sk x) = false.
Proof. intros Hx. unfold apply_cur. destruct x; [reflexivity|]. destruct col; [apply apply_style_ends, Hx|exact Hx]. Qed.
Lemma strips_unescape_cur sk x : no_esc x -> strips (unescape (apply_cur true sk x)) (unescape x).
Proof.
  intros Hx. unfold apply_cur. destruct x as [|c x]; [apply strips_nil|]. rewrite unescape_apply.
  apply strips_apply, unescape_P, Hx.
Qed.

(* the two outputs so far: neither ends with a backslash, and after unescape they differ by SGR sequences only *)
Definition lock (o1 o2 : str) : Prop :=
  ends_with_bsl o1 = false /\ ends_with_bsl o2 = false /\ strips (unescape o1) (unescape o2).
Lemma ends_app_false a b : ends_with_bsl a = false -> ends_with_bsl b = false -> ends_with_bsl (a ++ b) = false.
Proof. intros Ha Hb. rewrite ends_app. destruct b; assumption. Qed.
Lemma lock_nil : lock [] []. Proof. repeat split. Qed.
Lemma lock_step sk o1 o2 x : lock o1 o2 -> no_esc x -> ends_with_bsl x = false -> lock (o1 ++ apply_cur true sk x) (o2 ++ x).
Proof.
  intros (E1 & E2 & S) Hx Ex. repeat split.
  - apply ends_app_false; [exact E1|apply apply_cur_ends, Ex].
  - apply ends_app_false; assumption.
  - rewrite (unescape_app_l o1 _ E1), (unescape_app_l o2 _ E2). apply strips_app; [exact S|apply strips_unescape_cur, Hx].
Qed.
Lemma lock_same o1 o2 : lock o1 o2 -> lock (o1 ++ []) (o2 ++ []).
Proof. now rewrite !app_nil_r. Qed.

Definition seg_fine (sg : str * tag) : Prop :=
  no_esc (fst sg) /\ ends_with_bsl (fst sg) = false /\ Forall good (raw_text (snd sg)).

Lemma run_segs_lockstep_gen sty : forall segs sk o1 o2 first le,
  Forall seg_fine segs -> lock o1 o2 ->
  match run_segs sty true false first segs sk o1 le, run_segs sty false false first segs sk o2 le with
  | Ok (s1, r1, l1), Ok (s2, r2, l2) => s1 = s2 /\ l1 = l2 /\ lock r1 r2 /\ l1 = match segs with [] => le | _ => false end
  | Err e1, Err e2 => e1 = e2
  | _, _ => False
  end.
Proof.
  induction segs as [|[pre [raw cl nm]] r IH]; intros sk o1 o2 first le Hs Ho; cbn [run_segs].
  - split; [reflexivity|]. split; [reflexivity|]. split; [exact Ho|reflexivity].
  - inversion Hs as [|? ? (Hpre & Epre & Hraw) Hr]; subst. cbn [fst snd raw_text] in *.
    rewrite esc_flag, Epre.
    pose proof (do_tag_lockstep sty false raw cl nm sk) as HT.
    destruct (do_tag sty true false (Tag raw cl nm) sk) as [[s1 p1]|e1], (do_tag sty false false (Tag raw cl nm) sk) as [[s2 p2]|e2];
      cbn [bind fst snd]; try contradiction; [|exact HT].
    destruct HT as [-> HT]. rewrite apply_cur_false.
    assert (lock (o1 ++ apply_cur true sk pre ++ p1) (o2 ++ pre ++ p2)) as HL.
    { rewrite !app_assoc. pose proof (lock_step sk o1 o2 pre Ho Hpre Epre) as H1.
      destruct HT; [apply lock_same, H1|]. rewrite apply_cur_false.
      apply lock_step; [exact H1|apply good_no_esc, Hraw|apply no_bsl_ends, good_no_bsl, Hraw]. }
    specialize (IH s2 _ _ false false Hr HL).
    destruct (run_segs sty true false false r s2 _ false) as [[[s1' r1] l1]|e1], (run_segs sty false false false r s2 _ false) as [[[s2' r2] l2]|e2];
      try contradiction; auto.
    destruct IH as (E1 & E2 & E3 & E4). split; [exact E1|]. split; [exact E2|]. split; [exact E3|].
    rewrite E4. destruct r; reflexivity.
Qed.

Theorem colorize_lockstep_gen sty sk m :
  ends_with_bsl m = false -> Forall seg_fine (fst (lex m)) -> Forall good (snd (lex m)) ->
  match colorize sty true sk m, colorize sty false sk m with
  | Ok (s1, o1), Ok (s2, o2) => s1 = s2 /\ strip_sgr o1 = o2
  | Err e1, Err e2 => e1 = e2
  | _, _ => False
  end.
Proof.
  intros Em Hsegs Htail. unfold colorize. pose proof (lex_lossless m) as HL.
  destruct (lex m) as [segs tail]. cbn [fst snd] in *.
  destruct segs as [|sg segs'] eqn:ES.
  - cbn [flat_map app] in HL. subst tail. split; [reflexivity|].
    apply strips_sgr_strip, strips_text, unescape_P, good_no_esc, Htail.
  - rewrite <- ES in *. rewrite Em.
    pose proof (run_segs_lockstep_gen sty segs sk [] [] true false Hsegs lock_nil) as HR.
    destruct (run_segs sty true false true segs sk [] false) as [[[s1 r1] l1]|e1],
             (run_segs sty false false true segs sk [] false) as [[[s2 r2] l2]|e2]; try contradiction; cbn [bind]; [|exact HR].
    destruct HR as (-> & -> & HK & El). rewrite El, ES.
    set (t1 := removelast tail). set (t2 := match rev tail with c :: _ => [c] | [] => [] end).
    assert (Forall good t1) as G1 by (apply removelast_P, Htail).
    assert (Forall good t2) as G2 by (apply lastchar_P, Htail).
    split; [reflexivity|]. rewrite !apply_cur_false.
    assert (lock (r1 ++ apply_cur true s2 t1 ++ apply_cur true s2 t2) (r2 ++ t1 ++ t2)) as (_ & _ & HS).
    { rewrite !app_assoc. apply lock_step; [apply lock_step; [exact HK| |]| |];
        first [apply good_no_esc; assumption|apply no_bsl_ends, good_no_bsl; assumption]. }
    apply strips_sgr_strip, HS.
Qed.

(* the segments of a line are fine *)
Lemma tag_char_good c : tag_char c = true -> good c.
Proof. intros H. split; intros ->; vm_compute in H; discriminate. Qed.
Lemma tag_start_char c : tag_start c = true -> tag_char c = true.
Proof. intros H. unfold tag_char. now rewrite H. Qed.
Lemma tag_name_good nm : tag_name nm -> Forall good nm.
Proof.
  destruct nm as [|c r]; [contradiction|]. intros [Hc Hr]. constructor; [apply tag_char_good, tag_start_char, Hc|].
  eapply Forall_impl; [|exact Hr]. exact tag_char_good.
Qed.
Lemma good_char c : c <> ESC -> c <> BSL -> good c. Proof. split; assumption. Qed.
Lemma open_tag_good nm : tag_name nm -> Forall good (open_tag nm).
Proof.
  intros Hn. unfold open_tag. constructor; [split; discriminate|]. apply Forall_app; split; [apply tag_name_good, Hn|].
  constructor; [split; discriminate|constructor].
Qed.
Lemma close_tag_good nm : tag_name nm -> Forall good (close_tag nm).
Proof.
  intros Hn. unfold close_tag. constructor; [split; discriminate|]. constructor; [split; discriminate|].
  apply Forall_app; split; [apply tag_name_good, Hn|]. constructor; [split; discriminate|constructor].
Qed.
Lemma close_any_good : Forall good close_any.
Proof. unfold close_any. repeat constructor; discriminate. Qed.

Lemma inner_fine nm : tag_name nm -> forall x cur, no_esc x -> no_esc cur ->
  Forall seg_fine (inner_segs (otag nm) x cur) /\ no_esc (inner_cur x cur).
Proof.
  intros Hn. induction x as [|c r IH]; intros cur Hx Hcur; cbn [inner_segs inner_cur]; [split; [constructor|exact Hcur]|].
  inversion Hx as [|? ? Hc Hr]; subst.
  assert (no_esc (cur ++ [c])) as Hcc by (apply Forall_app; split; [exact Hcur|constructor; [exact Hc|constructor]]).
  destruct (N.eqb_spec c LT) as [->|Hlt]; [|apply IH; assumption].
  destruct (IH [] Hr (Forall_nil _)) as [H1 H2]. split; [|exact H2].
  constructor; [|constructor; [|exact H1]].
  - split; [exact Hcc|]. split; [apply ends_lt|apply close_any_good].
  - split; [constructor|]. split; [reflexivity|apply open_tag_good, Hn].
Qed.

(* no ESC in the texts *)
Definition piece_noesc (p : piece) : Prop := match p with PRaw t => no_esc t | PLit _ s => no_esc s | PNamed _ s => no_esc s end.
Definition pieces_noesc (ps : list piece) : Prop := Forall piece_noesc ps.
Lemma lit_body_noesc s : no_esc s -> no_esc (lit_body s).
Proof.
  intros Hs. unfold lit_body. pose proof (double_bsl_P _ s Hs) as Hd. destruct (ends_with_bsl s); [|exact Hd].
  apply Forall_app; split; [exact Hd|]. constructor; [discriminate|constructor].
Qed.
Lemma piece_fine sty p cur : piece_ok sty p -> piece_noesc p -> Forall good cur ->
  Forall seg_fine (piece_segs p cur) /\ Forall good (piece_cur p cur).
Proof.
  destruct p as [t|tag s|nm s]; cbn [piece_ok piece_noesc piece_segs piece_cur].
  - intros Ht Ht' Hcur. split; [constructor|]. apply Forall_app; split; [exact Hcur|].
    unfold safe, no_esc in *. rewrite Forall_forall in *. intros c Hin. split; [apply Ht', Hin|apply (Ht c Hin)].
  - intros [Hn _] Hs Hcur. split; [|constructor].
    destruct (inner_fine tag Hn (lit_body s) [] (lit_body_noesc s Hs) (Forall_nil _)) as [H1 H2].
    constructor; [|apply Forall_app; split; [exact H1|constructor; [|constructor]]].
    + split; [apply good_no_esc, Hcur|]. split; [apply no_bsl_ends, good_no_bsl, Hcur|apply open_tag_good, Hn].
    + split; [exact H2|]. split; [|apply close_any_good]. cbn [fst]. rewrite inner_cur_ends. cbn [app]. apply ends_lit_body.
  - intros [Hn _] Hs Hcur. split; [|constructor].
    destruct (inner_fine nm Hn (lit_body s) [] (lit_body_noesc s Hs) (Forall_nil _)) as [H1 H2].
    constructor; [|apply Forall_app; split; [exact H1|constructor; [|constructor]]].
    + split; [apply good_no_esc, Hcur|]. split; [apply no_bsl_ends, good_no_bsl, Hcur|apply open_tag_good, Hn].
    + split; [exact H2|]. split; [|apply close_tag_good, Hn]. cbn [fst]. rewrite inner_cur_ends. cbn [app]. apply ends_lit_body.
Qed.
Lemma line_fine sty : forall ps, pieces_ok sty ps -> pieces_noesc ps -> forall cur, Forall good cur ->
  Forall seg_fine (line_segs ps cur) /\ Forall good (line_cur ps cur).
Proof.
  induction 1 as [|p r Hp Hr IH]; intros Hne cur Hcur; cbn [line_segs line_cur]; [split; [constructor|exact Hcur]|].
  inversion Hne as [|? ? Hp' Hr']; subst.
  destruct (piece_fine sty p cur Hp Hp' Hcur) as [H1 H2]. destruct (IH Hr' _ H2) as [H3 H4].
  split; [apply Forall_app; split; assumption|exact H4].
Qed.

(* D. a whole line, decorated: the rendering never fails, leaves the style stack as it was, and shows the same text *)
Theorem line_decorated sty sk ps : pieces_ok sty ps -> pieces_noesc ps ->
  exists out, colorize sty true sk (line_str ps) = Ok (sk, out) /\ strip_sgr out = flat_map piece_shown ps.
Proof.
  intros Hok Hne. pose proof (colorize_lockstep_gen sty sk (line_str ps) (line_str_ends sty ps Hok)) as HL.
  rewrite (lex_line sty ps Hok) in HL. cbn [fst snd] in HL.
  destruct (line_fine sty ps Hok Hne [] (Forall_nil _)) as [H1 H2]. specialize (HL H1 H2).
  rewrite (line_plain sty sk ps Hok) in HL.
  destruct (colorize sty true sk (line_str ps)) as [[s1 o1]|e]; [|contradiction].
  destruct HL as [-> HS]. exists o1. split; [reflexivity|exact HS].
Qed.
Corollary line_never_raises sty sk col ps : pieces_ok sty ps -> pieces_noesc ps ->
  exists out, colorize sty col sk (line_str ps) = Ok (sk, out).
Proof.
  intros Hok Hne. destruct col; [|eexists; apply (line_plain sty sk ps Hok)].
  destruct (line_decorated sty sk ps Hok Hne) as (out & H & _). exists out. exact H.
Qed.
Theorem literal_decorated sty sk tag p s : tag_name tag -> resolve sty (py_lower tag) = Ok (Some p) -> no_esc s ->
  exists out, colorize sty true sk (tagged tag (literal s tag)) = Ok (sk, out) /\ strip_sgr out = shown s.
Proof.
  intros Hn Hr Hs. pose proof (line_decorated sty sk [PLit tag s]) as H. cbn [line_str flat_map piece_str piece_shown] in H.
  rewrite !app_nil_r in H. apply H; (constructor; [|constructor]); [|exact Hs]. split; [exact Hn|]. exists p. exact Hr.
Qed.
Theorem literal_named_decorated sty sk nm p s : tag_name nm -> resolve sty (py_lower nm) = Ok (Some p) -> no_esc s ->
  exists out, colorize sty true sk (open_tag nm ++ literal s nm ++ close_tag nm) = Ok (sk, out) /\ strip_sgr out = shown s.
Proof.
  intros Hn Hr Hs. pose proof (line_decorated sty sk [PNamed nm s]) as H. cbn [line_str flat_map piece_str piece_shown] in H.
  rewrite !app_nil_r in H. apply H; (constructor; [|constructor]); [|exact Hs]. split; [exact Hn|]. exists p. exact Hr.
Qed.

(* ---------- the renderer's own pieces ---------- *)
(* a text without '<' and backslash is its own literal (line numbers, counts) *)
Lemma double_bsl_id : forall s, no_bsl s -> double_bsl s = s.
Proof.
  induction s as [|c|c d r IHr IHd] using list_ind2; intros H; [reflexivity|reflexivity|].
  inversion H as [|? ? Hc Hdr]; subst. rewrite (double_bsl_head c _ Hc), (IHd Hdr). reflexivity.
Qed.
Lemma cut_lt_id tag s : no_lt s -> cut_lt tag s = s.
Proof.
  induction 1 as [|c s Hc Hs IH]; [reflexivity|]. unfold cut_lt in *. cbn [flat_map]. rewrite IH.
  destruct (N.eqb_spec c LT); [contradiction|reflexivity].
Qed.
Lemma literal_safe t tag : safe t -> literal t tag = t.
Proof.
  intros Ht. unfold literal. rewrite (no_bsl_ends t (safe_no_bsl t Ht)), (double_bsl_id t (safe_no_bsl t Ht)).
  apply cut_lt_id, safe_no_lt, Ht.
Qed.
Lemma shown_safe t : safe t -> shown t = t.
Proof. intros Ht. unfold shown. now rewrite (no_bsl_ends t (safe_no_bsl t Ht)). Qed.

(* the highlighter's theme styles are inline styles: they resolve in every style table *)
Lemma theme_tag_name h : tag_name (theme h).
Proof. destruct h; (split; [reflexivity|repeat constructor]). Qed.
Lemma theme_resolvable sty h : resolvable sty (theme h).
Proof.
  unfold resolvable, resolve. set (n := py_lower (theme h)). destruct (aget str_eqb n sty) as [st|]; [eexists; reflexivity|].
  subst n. destruct h; vm_compute; eexists; reflexivity.
Qed.
Theorem styled_plain sty sk h text : colorize sty false sk (styled h text) = Ok (sk, shown text).
Proof.
  destruct (theme_resolvable sty h) as [p Hp]. exact (literal_plain sty sk (theme h) p text (theme_tag_name h) Hp).
Qed.
(* a highlighted source line: the chunks, each with a blank after a trailing backslash *)
Definition chunk_piece (c : chunk) : piece := PLit (theme (fst c)) (snd c).
Lemma render_chunks_line cs : render_chunks cs = line_str (map chunk_piece cs).
Proof. unfold render_chunks, line_str. rewrite flat_map_concat_map, flat_map_concat_map, map_map. reflexivity. Qed.
Lemma chunks_ok sty cs : pieces_ok sty (map chunk_piece cs).
Proof. apply Forall_map, Forall_forall. intros c _. split; [apply theme_tag_name|apply theme_resolvable]. Qed.
Theorem render_chunks_plain sty sk cs :
  colorize sty false sk (render_chunks cs) = Ok (sk, flat_map (fun c => shown (snd c)) cs).
Proof.
  rewrite render_chunks_line, (line_plain sty sk _ (chunks_ok sty cs)). f_equal. f_equal.
  rewrite !flat_map_concat_map, map_map. reflexivity.
Qed.
Theorem render_chunks_decorated sty sk cs : Forall (fun c => no_esc (snd c)) cs ->
  exists out, colorize sty true sk (render_chunks cs) = Ok (sk, out) /\ strip_sgr out = flat_map (fun c => shown (snd c)) cs.
Proof.
  intros Hne. rewrite render_chunks_line.
  destruct (line_decorated sty sk _ (chunks_ok sty cs)) as (out & H1 & H2).
  { apply Forall_map. eapply Forall_impl; [|exact Hne]. intros c Hc. exact Hc. }
  exists out. split; [exact H1|]. rewrite H2, !flat_map_concat_map, map_map. reflexivity.
Qed.

(* ---------- E. examples ---------- *)
Module Examples.
(* the style table of a formatter made with clikit's <b> (bold) on top of pastel's own four styles *)
Definition cs_b : cstyle :=
  {| c_tag := Some st_b; c_fg := None; c_bg := None; c_bold := true; c_italic := false; c_dark := false;
     c_underlined := false; c_blinking := false; c_inverse := false; c_hidden := false |}.
Definition demo_sty : styles := match new_formatter (FAnsi false) [cs_b] with Ok f => f_styles f | Err _ => [] end.

Definition t_bold : str := [60;98;62;98;111;108;100;60;47;98;62]%N.    (* <b>bold</b> *)
Definition t_esc_lt : str := [97;92;60;98]%N.                          (* a\<b *)
Definition t_bsl_end : str := [120;92]%N.                              (* x\ *)
Definition t_close : str := [60;47;62]%N.                              (* </> *)
Definition t_fg : str := [60;102;103;61;114;101;100;62]%N.             (* <fg=red> *)
Definition t_nl : str := [108;49;10;108;50;60]%N.                      (* l1 NL l2< *)
Definition nasty : list str := [t_bold; t_esc_lt; t_bsl_end; t_close; t_fg; t_nl].

(* the hypotheses of B hold for the tags the renderer uses *)
Example names_ok : Forall tag_name [th_comment; th_marker; st_green; st_cyan; st_error; st_b].
Proof. repeat constructor. Qed.
Example resolve_comment : exists p, resolve demo_sty (py_lower th_comment) = Ok (Some p). Proof. eexists. vm_compute. reflexivity. Qed.
Example resolve_error : exists p, resolve demo_sty (py_lower st_error) = Ok (Some p). Proof. eexists. vm_compute. reflexivity. Qed.
Example resolve_b : exists p, resolve demo_sty (py_lower st_b) = Ok (Some p). Proof. eexists. vm_compute. reflexivity. Qed.

(* B on the nasty texts: <fg=default;options=dark,italic>...</>, <error>...</error>, <b>...</b> *)
Example shown_nasty : map shown nasty = [t_bold; t_esc_lt; t_bsl_end ++ [32%N]; t_close; t_fg; t_nl].
Proof. vm_compute. reflexivity. Qed.
Example B_tagged : map (fun s => colorize demo_sty false [] (tagged th_comment (literal s th_comment))) nasty
                   = map (fun s => Ok ([], shown s)) nasty.
Proof. vm_compute. reflexivity. Qed.
Example B_error : map (fun s => colorize demo_sty false [] (open_tag st_error ++ literal s st_error ++ close_tag st_error)) nasty
                  = map (fun s => Ok ([], shown s)) nasty.
Proof. vm_compute. reflexivity. Qed.
Example B_b : map (fun s => colorize demo_sty false [] (open_tag st_b ++ literal s st_b ++ close_tag st_b)) nasty
              = map (fun s => Ok ([], shown s)) nasty.
Proof. vm_compute. reflexivity. Qed.
(* what the markup of one of them looks like:  <b><</><b>b>bold<</><b>/b></b>  *)
Example literal_bold : open_tag st_b ++ literal t_bold st_b ++ close_tag st_b
  = [60;98;62; 60;60;47;62;60;98;62; 98;62;98;111;108;100; 60;60;47;62;60;98;62; 47;98;62; 60;47;98;62]%N.
Proof. vm_compute. reflexivity. Qed.
(* without _literal the text would be read as markup: the tags vanish *)
Example unprotected : colorize demo_sty false [] (open_tag st_b ++ t_bold ++ close_tag st_b) = Ok ([], [98;111;108;100]%N).
Proof. vm_compute. reflexivity. Qed.

(* C and D on a line:  "  12: " <fg=magenta;options=bold>..</> " " <error>..</error> <fg=default>..</> <b>..</b> ... *)
Definition demo_line : list piece :=
  [PRaw [32;32;49;50;58;32]%N; PLit th_keyword t_bold; PRaw [32%N]; PNamed st_error t_esc_lt; PLit th_default t_bsl_end;
   PNamed st_b t_close; PLit th_comment t_fg; PRaw [58%N]; PNamed st_b t_nl; PRaw [32;32]%N].
Example demo_line_ok : pieces_ok demo_sty demo_line.
Proof.
  unfold demo_line. repeat (apply Forall_cons; [|]); try apply Forall_nil;
    try (split; [split; [reflexivity|repeat constructor]|eexists; vm_compute; reflexivity]);
    repeat constructor; discriminate.
Qed.
Example demo_line_noesc : pieces_noesc demo_line.
Proof. unfold demo_line. repeat constructor; discriminate. Qed.
Example C_line : colorize demo_sty false [] (line_str demo_line) = Ok ([], flat_map piece_shown demo_line).
Proof. vm_compute. reflexivity. Qed.
Example C_line_text : flat_map piece_shown demo_line
  = ([32;32;49;50;58;32] ++ t_bold ++ [32] ++ t_esc_lt ++ t_bsl_end ++ [32] ++ t_close ++ t_fg ++ [58] ++ t_nl ++ [32;32])%N.
Proof. vm_compute. reflexivity. Qed.
Example D_line : match colorize demo_sty true [] (line_str demo_line) with
                 | Ok (sk, out) => sk = [] /\ strip_sgr out = flat_map piece_shown demo_line /\ out <> flat_map piece_shown demo_line
                 | Err _ => False
                 end.
Proof. vm_compute. repeat split. discriminate. Qed.
(* the same through the theorems *)
Example C_line_thm : colorize demo_sty false [] (line_str demo_line) = Ok ([], flat_map piece_shown demo_line).
Proof. apply line_plain, demo_line_ok. Qed.
End Examples.

Print Assumptions unescape_double_bsl.
Print Assumptions literal_plain.
Print Assumptions literal_named_plain.
Print Assumptions line_plain.
Print Assumptions colorize_lockstep_gen.
Print Assumptions line_decorated.
Print Assumptions render_chunks_decorated.
