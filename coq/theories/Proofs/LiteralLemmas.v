(* Trace._literal against the markup model: a text put into markup through `literal` comes out of the formatter as it
   is (with a blank after a trailing backslash), whatever characters it contains. *)
From Coq Require Import Lia.
From Clikit Require Import Base.Prelude Base.Res Model.Conv Model.Markup Model.Trace Proofs.MarkupLemmas.

(* the text as shown: a blank after a trailing backslash *)
Definition shown (s : str) : str := if ends_with_bsl s then s ++ [32%N] else s.

(* ---------- lists two elements at a time ---------- *)
Lemma list_ind2 {X} (P : list X -> Prop) :
  P [] -> (forall c, P [c]) -> (forall c d r, P r -> P (d :: r) -> P (c :: d :: r)) -> forall l, P l.
Proof.
  intros H0 H1 H2 l. assert (P l /\ forall c, P (c :: l)) as [H _]; [|exact H].
  induction l as [|d r [IHa IHb]]; [split; auto|]. split; [apply IHb|]. intros c. apply H2; auto.
Qed.

(* ---------- A. unescape undoes double_bsl ---------- *)
Lemma unescape_cons2 c d r :
  unescape (c :: d :: r) = if N.eqb c BSL && N.eqb d LT then LT :: unescape r else c :: unescape (d :: r).
Proof. reflexivity. Qed.
Lemma double_bsl_cons2 c d r :
  double_bsl (c :: d :: r) = if N.eqb c BSL && N.eqb d LT then BSL :: BSL :: double_bsl (d :: r) else c :: double_bsl (d :: r).
Proof. reflexivity. Qed.
Lemma unescape_head c r : c <> BSL -> unescape (c :: r) = c :: unescape r.
Proof.
  intros Hc. destruct r as [|d r]; [reflexivity|]. rewrite unescape_cons2.
  destruct (N.eqb_spec c BSL); [contradiction|reflexivity].
Qed.
Lemma double_bsl_head c r : c <> BSL -> double_bsl (c :: r) = c :: double_bsl r.
Proof.
  intros Hc. destruct r as [|d r]; [reflexivity|]. rewrite double_bsl_cons2.
  destruct (N.eqb_spec c BSL); [contradiction|reflexivity].
Qed.
(* double_bsl keeps the first character *)
Lemma double_bsl_hd d r : exists tl, double_bsl (d :: r) = d :: tl.
Proof.
  destruct r as [|e r]; [eexists; reflexivity|]. rewrite double_bsl_cons2.
  destruct (N.eqb_spec d BSL) as [->|]; cbn [andb]; [|eexists; reflexivity].
  destruct (N.eqb BSL e && N.eqb e LT); destruct (N.eqb e LT); eexists; reflexivity.
Qed.
Lemma LT_not_BSL : LT <> BSL. Proof. discriminate. Qed.

Lemma unescape_double_bsl : forall s, unescape (double_bsl s) = s.
Proof.
  induction s as [|c|c d r IHr IHd] using list_ind2; [reflexivity|reflexivity|].
  rewrite double_bsl_cons2.
  destruct (N.eqb_spec c BSL) as [->|Hc]; cbn [andb].
  - destruct (N.eqb_spec d LT) as [->|Hd].
    + rewrite (double_bsl_head LT r LT_not_BSL) in *. rewrite (unescape_head LT _ LT_not_BSL) in IHd.
      rewrite unescape_cons2. change (N.eqb BSL BSL && N.eqb BSL LT) with false. cbv iota.
      rewrite unescape_cons2. change (N.eqb BSL BSL && N.eqb LT LT) with true. cbv iota.
      injection IHd as ->. reflexivity.
    + destruct (double_bsl_hd d r) as [tl E]. rewrite E in *. rewrite unescape_cons2.
      destruct (N.eqb_spec d LT); [contradiction|]. rewrite Bool.andb_false_r. now rewrite IHd.
  - rewrite (unescape_head c _ Hc). now rewrite IHd.
Qed.

(* unescape over a concatenation: the only interaction is a backslash at the end of the left part before a '<' at the
   start of the right part *)
Lemma ends_cons c x : x <> [] -> ends_with_bsl (c :: x) = ends_with_bsl x.
Proof.
  intros Hx. unfold ends_with_bsl. cbn [rev]. destruct (rev x) as [|e r] eqn:E; [|reflexivity].
  apply (f_equal (@rev N)) in E. rewrite rev_involutive in E. contradiction.
Qed.
Lemma ends_app a b : ends_with_bsl (a ++ b) = match b with [] => ends_with_bsl a | _ => ends_with_bsl b end.
Proof.
  destruct b as [|c b]; [now rewrite app_nil_r|]. unfold ends_with_bsl. rewrite rev_app_distr.
  destruct (rev (c :: b)) as [|e r] eqn:E; [|reflexivity].
  apply (f_equal (@rev N)) in E. rewrite rev_involutive in E. discriminate.
Qed.
Lemma ends_single c : ends_with_bsl [c] = N.eqb c BSL. Proof. reflexivity. Qed.

Lemma unescape_app_l : forall a b, ends_with_bsl a = false -> unescape (a ++ b) = unescape a ++ unescape b.
Proof.
  induction a as [|c|c d r IHr IHd] using list_ind2; intros b Ha; [reflexivity| |].
  - rewrite ends_single in Ha. cbn [app]. rewrite unescape_head; [reflexivity|]. intros ->. discriminate.
  - rewrite ends_cons in Ha by discriminate. cbn [app]. rewrite !unescape_cons2.
    destruct (N.eqb c BSL && N.eqb d LT) eqn:E.
    + cbn [app]. f_equal. apply IHr. destruct r as [|e r']; [reflexivity|]. rewrite ends_cons in Ha by discriminate. exact Ha.
    + cbn [app]. f_equal. apply (IHd b Ha).
Qed.
Definition no_lt_start (b : str) : Prop := match b with c :: _ => c <> LT | [] => True end.
Lemma unescape_app_r : forall a b, no_lt_start b -> unescape (a ++ b) = unescape a ++ unescape b.
Proof.
  induction a as [|c|c d r IHr IHd] using list_ind2; intros b Hb; [reflexivity| |].
  - cbn [app]. destruct b as [|d b]; [reflexivity|]. cbn [no_lt_start] in Hb. rewrite unescape_cons2.
    destruct (N.eqb_spec d LT); [contradiction|]. rewrite Bool.andb_false_r. reflexivity.
  - cbn [app]. rewrite !unescape_cons2. destruct (N.eqb c BSL && N.eqb d LT).
    + cbn [app]. f_equal. apply IHr, Hb.
    + cbn [app]. f_equal. apply (IHd b Hb).
Qed.
Lemma unescape_app a b : ends_with_bsl a = false \/ no_lt_start b -> unescape (a ++ b) = unescape a ++ unescape b.
Proof. intros [H|H]; [apply unescape_app_l|apply unescape_app_r]; exact H. Qed.

(* the last character survives double_bsl *)
Lemma double_bsl_nonempty d r : double_bsl (d :: r) <> [].
Proof. destruct (double_bsl_hd d r) as [tl ->]. discriminate. Qed.
Lemma ends_double_bsl : forall s, ends_with_bsl (double_bsl s) = ends_with_bsl s.
Proof.
  induction s as [|c|c d r IHr IHd] using list_ind2; [reflexivity|reflexivity|].
  rewrite double_bsl_cons2, (ends_cons c (d :: r)) by discriminate. pose proof (double_bsl_nonempty d r) as Hne.
  destruct (N.eqb c BSL && N.eqb d LT).
  - rewrite (ends_cons BSL), (ends_cons BSL); auto. discriminate.
  - rewrite ends_cons; auto.
Qed.

(* the body of a literal: what the formatter is to show, before the '<' are cut off *)
Definition lit_body (s : str) : str := if ends_with_bsl s then double_bsl s ++ [32%N] else double_bsl s.
Lemma unescape_lit_body s : unescape (lit_body s) = shown s.
Proof.
  unfold lit_body, shown. destruct (ends_with_bsl s); [|apply unescape_double_bsl].
  rewrite unescape_app_r; [|cbn; discriminate]. now rewrite unescape_double_bsl.
Qed.
Lemma ends_lit_body s : ends_with_bsl (lit_body s) = false.
Proof.
  unfold lit_body. destruct (ends_with_bsl s) eqn:E; [rewrite ends_app; reflexivity|]. now rewrite ends_double_bsl.
Qed.
