(* C02: instances asked for by the Coq review (REPORT "C02: minor issues" 1 and 4).
     - conversion_is_all_that_is_left and lenient_extends_strict had no Example;
     - no Example was over a format WITH a base although "own and inherited" is advertised;
     - the hypothesis opts_ok_w hides a divergence of the model from the code: a value-optional option whose
       default is a float (or, typed INTEGER, a float; or a list) - see OutsideDomain below. *)
From Coq Require Import Lia String Ascii.
From Clikit Require Import Base.Prelude Base.Res Model.Conv Model.Flags Model.Format Model.Parser Model.Spell
     Proofs.ParserLemmas Proofs.SpellDenote Proofs.SpellLemmas Proofs.FmtOkLemmas Proofs.SpellArgs Proofs.SpellOpts
     Proofs.ClassifyLemmas Proofs.ClassifyLineLemmas.

Module MoreExamples.
  Import SpellExamples FmtOkExamples LineExamples ValueExamples.

  (* ---- conversion_is_all_that_is_left (parse_form_line) ----
     U1 = srv add h1 --num=5 http   over F1 = server add <host> [<port:int>] [<files>...]: the written forms are
     fine, the values fit in number and reach the required argument; the parse IS the conversion of what the line
     stores, and that fails on "http".  W2 = the same with 8080: the conversion succeeds. *)
  Example conversion_instance :
    forms_ok F1 U1 = true /\ shape (get_arguments_all F1) (values U1) = true /\ req_ok (get_arguments_all F1) (values U1) = true /\
    (forall len, parse F1 len (render U1) =
       do a1 <- set_arguments F1 {| ar_opts := []; ar_args := [] |} (place (get_arguments_all F1) (values U1));
       set_options F1 a1 (fold_left raw_event (events U1) [])) /\
    place (get_arguments_all F1) (values U1) = [(s "host", RStr (s "h1")); (s "port", RStr (s "http"))] /\
    set_arguments F1 {| ar_opts := []; ar_args := [] |} (place (get_arguments_all F1) (values U1)) = Err ValueError /\
    (forall len, parse F1 len (render W2) =
       do a1 <- set_arguments F1 {| ar_opts := []; ar_args := [] |} (place (get_arguments_all F1) (values W2));
       set_options F1 a1 (fold_left raw_event (events W2) [])) /\
    (do a1 <- set_arguments F1 {| ar_opts := []; ar_args := [] |} (place (get_arguments_all F1) (values W2));
     set_options F1 a1 (fold_left raw_event (events W2) [])) =
      Ok {| ar_opts := [(s "num", VInt 5)]; ar_args := [(s "host", VStr (s "h1")); (s "port", VInt 8080)] |}.
  Proof.
    split; [vm_compute; reflexivity|]. split; [vm_compute; reflexivity|]. split; [vm_compute; reflexivity|].
    split; [intros len; apply parse_form_line; vm_compute; reflexivity|].
    split; [vm_compute; reflexivity|]. split; [vm_compute; reflexivity|].
    split; [intros len; apply parse_form_line; vm_compute; reflexivity|]. vm_compute. reflexivity.
  Qed.

  (* ---- lenient_extends_strict ---- the strict result, carried over by the theorem; and the converse is false *)
  Definition Tk (l : list string) : list str := map s l.
  Definition ok_line := Tk ["srv"; "add"; "h1"; "--num=5"; "-vq"; "8080"; "--"; "-x"]%string.
  Example lenient_extends_strict_instance :
    parse F1 false ok_line =
      Ok {| ar_opts := [(s "num", VInt 5); (s "verbose", VBool true); (s "quiet", VBool true)];
            ar_args := [(s "host", VStr (s "h1")); (s "port", VInt 8080); (s "files", VList [VStr (s "-x")])] |} /\
    parse F1 true ok_line = parse F1 false ok_line /\
    (* not conversely: lenient parsing accepts lines strict parsing rejects *)
    parse F1 false (Tk ["h1"; "--nope"; "--verbose=1"]%string) = Err NoSuchOption /\
    parse F1 true (Tk ["h1"; "--nope"; "--verbose=1"]%string) = Ok {| ar_opts := []; ar_args := [(s "host", VStr (s "h1"))] |}.
  Proof.
    assert (parse F1 false ok_line =
      Ok {| ar_opts := [(s "num", VInt 5); (s "verbose", VBool true); (s "quiet", VBool true)];
            ar_args := [(s "host", VStr (s "h1")); (s "port", VInt 8080); (s "files", VList [VStr (s "-x")])] |}) as H
      by (vm_compute; reflexivity).
    split; [exact H|]. split; [rewrite H; exact (lenient_extends_strict_lemma F1 ok_line _ H)|].
    split; vm_compute; reflexivity.
  Qed.

  (* ---- a format WITH a base ----
     G (FmtOkExamples; api_format): own command name add, arguments [<port:int>] [<files>...], options --num/-n (value
     required, int), --tag/-t (multi), --level; INHERITED command name server/srv, argument <host>, options
     --verbose/-v, --quiet/-q (flags), --color/-c (value optional).  One fault each, around the well-formed line D1 / on
     mutated lines; the error kinds theorem through the augmented format of G. *)
  Definition G' := fst (fst (aug_of G)).  Definition Gar := snd (fst (aug_of G)).  Definition Gcn := snd (aug_of G).
  Lemma G_aug : aug_format G = Ok (G', Gar, Gcn).  Proof. vm_compute. reflexivity. Qed.
  Lemma G_listed_ok : opts_listed_ok G = true.  Proof. vm_compute. reflexivity. Qed.
  Lemma G_opts_ok_w : opts_ok_w G'.  Proof. exact (opts_listed_ok_w G G' Gar Gcn G_aug G_listed_ok). Qed.
  Definition M1b := L [s "srv"; s "add"] [IFlag o_verbose false; IVal o_num LongSep (s "5")] None.
  Example over_a_base :
    f_base G <> None /\ api_format G /\ fmt_ok G = true /\ wf_line G D1 = true /\
    map fst (get_options_all G) = [s "num"; s "tag"; s "level"; s "verbose"; s "quiet"; s "color"] /\
    map fst (f_opts G) = [s "num"; s "tag"; s "level"] /\
    (* clause 1, unknown option, between the items of D1 *)
    parse G false (insert_tok D1 3 (s "--nope")) = Err NoSuchOption /\
    parse G false (insert_tok D1 4 (s "-vz")) = Err NoSuchOption /\
    (* clause 2, a value for the INHERITED flag --quiet *)
    parse G false (insert_tok D1 0 (s "--quiet=1")) = Err CannotParse /\
    (* clause 3, the value of the OWN option --num left out (an option follows) *)
    parse G false (insert_tok D1 2 (s "--num")) = Err CannotParse /\
    (* clause 4, the INHERITED required argument host gets no value: srv add -v --num 5 *)
    parse G false (render M1b) = Err CannotParse /\
    (* clause 6, the OWN typed argument port: srv add h1 --num=5 http; the own option --num: ... --num=five ... *)
    (forall len, parse G len (render U1) = Err ValueError) /\
    (forall len, parse G len (render U3) = Err ValueError) /\
    (* every error of every line, both modes *)
    (forall len toks k, parse G len toks = Err k -> allowed k /\ (len = true -> k = ValueError)) /\
    (forall toks, parse G true toks <> Err CannotParse /\ parse G true toks <> Err NoSuchOption).
  Proof.
    split; [vm_compute; discriminate|]. split; [exact G_api|]. split; [exact G_fmt_ok_computed|]. split; [exact G_line_ok|].
    split; [vm_compute; reflexivity|]. split; [vm_compute; reflexivity|].
    split; [apply (unknown_option_in_line_rejected_lemma G D1 3 G_fmt_ok_computed G_line_ok); [discriminate|vm_compute; reflexivity|vm_compute; reflexivity]|].
    split; [apply (unknown_short_option_in_line_rejected_lemma G D1 4 G_fmt_ok_computed G_line_ok [118%N] 122%N []); vm_compute; reflexivity|].
    split; [apply (flag_with_value_in_line_rejected_lemma G D1 0 G_fmt_ok_computed G_line_ok o_quiet (s "quiet") (s "1"));
            [vm_compute; tauto|vm_compute; reflexivity|vm_compute; reflexivity|vm_compute; reflexivity]|].
    split; [apply (value_missing_in_line_rejected_lemma G D1 2 G_fmt_ok_computed G_line_ok o_num (s "num"));
            [vm_compute; tauto|vm_compute; reflexivity|discriminate|vm_compute; reflexivity|vm_compute; reflexivity|vm_compute; reflexivity]|].
    split; [apply missing_required_rejected_lemma; vm_compute; reflexivity|].
    split; [apply unconvertible_positional_rejected_lemma; vm_compute; reflexivity|].
    split; [apply (unconvertible_option_item_rejected_lemma G U3 [IPos (s "h1")] (IVal o_num LongEq (s "five")) [IPos (s "8080")] o_num (s "five"));
            try (vm_compute; reflexivity); right; vm_compute; reflexivity|].
    split; [intros len toks k; exact (parse_error_kinds_w G len toks G' Gar Gcn G_aug G_opts_ok_w k)|].
    exact (line_lenient_no_parse_error G G_fmt_ok_computed G_listed_ok).
  Qed.
End MoreExamples.

(* ---- outside the domain of opts_ok_w: a MODEL / CODE DIVERGENCE hidden by the hypothesis ----
   opts_ok_w asks conv_input (o_default o) - the default is None, a bool, an int or a str - of every option whose value
   is not required.  Three valid API objects that are outside (all three: opt_ok_wb = false), and the bare option:
     Option("lvl", "l", OPTIONAL_VALUE | INTEGER, default=0.5), "x --lvl":
        model : Err (Other 9) in BOTH modes - not one of the three documented kinds, so the conclusion of
                strict_error_kinds_w FAILS for this format: the hypothesis is necessary IN THE MODEL;
        Python: DefaultArgsParser().parse succeeds with {'lvl': 0}   (parse_int(0.5) = int(0.5)).
     Option("lst", None, OPTIONAL_VALUE, default=['a']), "x --lst":
        model : Err (Other 9);  Python: succeeds with {'lst': "['a']"}   (str(list)).
     Option("ratio", "r", OPTIONAL_VALUE | FLOAT, default=0.5), "x --ratio":
        model : Ok {'ratio': 0.5} = Python.  Here the hypothesis is merely stronger than needed (no divergence).
   The model's typed conversion (Conv.parse_typed) converts None/bool/int/str inputs (and a float to FLOAT) and answers
   Other 9 for a float to INTEGER and for a list.  The C02 generator never uses such defaults, so the tie does not see it. *)
Module OutsideDomain.
  Open Scope string_scope.
  Definition o_lvl := mkopt "lvl" (Some "l") (16 + 512) (VFloat (S_ "0.5")).          (* OPTIONAL_VALUE | INTEGER, default 0.5 *)
  Definition o_lst := mkopt "lst" None 16 (VList [VStr (S_ "a")]).                     (* OPTIONAL_VALUE | STRING, default ['a'] *)
  Definition o_ratio := mkopt "ratio" (Some "r") (16 + 1024) (VFloat (S_ "0.5")).     (* OPTIONAL_VALUE | FLOAT, default 0.5 *)
  Definition fA := fmt_of (ex_args ++ [EOpt o_ratio]).
  Definition fB := fmt_of (ex_args ++ [EOpt o_lvl]).
  Definition fC := fmt_of (ex_args ++ [EOpt o_lst]).
  Definition fB' := fst (fst (aug_of fB)).
  Lemma fB_aug : aug_format fB = Ok (fB', snd (fst (aug_of fB)), snd (aug_of fB)).  Proof. vm_compute. reflexivity. Qed.
  Example outside_domain :
    opt_ok_wb o_lvl = false /\ opt_ok_wb o_lst = false /\ opt_ok_wb o_ratio = false /\
    opts_listed_ok fB = false /\ ~ opts_ok_w fB' /\ Spell.fmt_ok fB = true /\
    parse fB false (T ["x"; "--lvl"]) = Err (Other 9) /\ parse fB true (T ["x"; "--lvl"]) = Err (Other 9) /\
    ~ allowed (Other 9) /\
    parse fC false (T ["x"; "--lst"]) = Err (Other 9) /\ parse fC true (T ["x"; "--lst"]) = Err (Other 9) /\
    (* the FLOAT option with a float default is excluded by the hypothesis although the model handles it *)
    parse fA false (T ["x"; "--ratio"]) =
      Ok {| ar_opts := [(S_ "ratio", VFloat (S_ "0.5"))]; ar_args := [(S_ "src", VStr (S_ "x"))] |} /\
    (* with the value written out the INTEGER option is inside the model *)
    parse fB false (T ["x"; "--lvl=7"]) =
      Ok {| ar_opts := [(S_ "lvl", VInt 7)]; ar_args := [(S_ "src", VStr (S_ "x"))] |}.
  Proof.
    split; [vm_compute; reflexivity|]. split; [vm_compute; reflexivity|]. split; [vm_compute; reflexivity|].
    split; [vm_compute; reflexivity|]. split.
    { intros H. destruct (H (S_ "lvl") o_lvl) as [_ Hc]; [vm_compute; reflexivity|].
      specialize (Hc eq_refl). vm_compute in Hc. discriminate. }
    split; [vm_compute; reflexivity|]. split; [vm_compute; reflexivity|]. split; [vm_compute; reflexivity|].
    split; [intros [H|[H|H]]; discriminate|].
    split; [vm_compute; reflexivity|]. split; [vm_compute; reflexivity|]. split; vm_compute; reflexivity.
  Qed.
  Close Scope string_scope.
End OutsideDomain.
