(* C13, the byte-level statements of HelpBytesLemmas / HelpBytesRegionLemmas for pages the model reports in the region (in_region,
   Model/HelpRegion.v: the flag the check compares): there the page renders, so the statements need no "if it renders"; and
   for the ANSI formatter, of the visible text (strip_sgr). *)
From Coq Require Import Lia.
From Clikit Require Import Base.Prelude Base.Res Model.Conv Model.Flags Model.Format Model.Markup Model.Wrap Model.Help Model.HelpRegion.
From Clikit Require Import Proofs.WrapLemmas Proofs.HelpLemmas Proofs.MarkupLemmas Proofs.LiteralLemmas Proofs.MarkupShrinkLemmas
  Proofs.HelpPlainLemmas Proofs.HelpCleanLemmas Proofs.HelpRenderLemmas Proofs.HelpRegionLemmas Proofs.HelpBytesLemmas Proofs.HelpBytesRegionLemmas.

Lemma plain_not_null f : f_kind f = FPlain -> f_kind f <> FNull. Proof. congruence. Qed.

Theorem command_page_bytes_complete_in_region W f sty app_name ch aliases help subs :
  f_kind f = FPlain -> in_region (f_styles f) W (command_page sty app_name ch aliases help subs) = true ->
  exists s, render_page W f (command_page sty app_name ch aliases help subs) = Ok s /\
  (forall a, In a (chain_args ch) -> arg_name_ok a -> arg_written (f_styles f) a s)
  /\ (forall h, In h (own_opts ch) \/ In h (base_opts ch) -> opt_written h s)
  /\ (forall sb, In sb subs -> sb_enabled sb = true -> sb_anonymous sb = false -> sb_hidden sb = false ->
        (name_ok (sb_name sb) -> on_line (sb_name sb) s)
        /\ (forall a, In a (sb_args sb) -> arg_name_ok a -> arg_written (f_styles f) a s)
        /\ (forall h, In h (sb_opts sb) -> opt_written h s)).
Proof.
  intros Hk Hr. destruct (in_region_renders_lemma W f _ (plain_not_null f Hk) Hr) as [s Hs]. exists s. split; [exact Hs|].
  exact (command_page_bytes_complete_lemma W f sty app_name ch aliases help subs s Hk Hs).
Qed.
Theorem application_page_bytes_complete_in_region W f sty app_name display version gopts cmds help :
  f_kind f = FPlain -> in_region (f_styles f) W (application_page sty app_name display version gopts cmds help) = true ->
  exists s, render_page W f (application_page sty app_name display version gopts cmds help) = Ok s /\
  (forall h, In h gopts -> opt_written h s)
  /\ arg_written (f_styles f) the_command_arg s /\ arg_written (f_styles f) the_arg_arg s
  /\ (forall c, In c cmds -> ac_enabled c && negb (ac_anonymous c) && negb (ac_hidden c) = true ->
        name_ok (ac_name c) -> on_line (ac_name c) s).
Proof.
  intros Hk Hr. destruct (in_region_renders_lemma W f _ (plain_not_null f Hk) Hr) as [s Hs]. exists s. split; [exact Hs|].
  exact (application_page_bytes_complete_lemma W f sty app_name display version gopts cmds help s Hk Hs).
Qed.

(* what a word found in the COMMANDS section is a word of *)
Definition commands_word (sty : styles) (subs : list sub) (n : str) : Prop :=
  infix_of n (vis sty H_COMMANDS)
  \/ exists sv x, In sv subs /\ visible sv = true /\ In x (sub_block sv) /\ infix_of n (elem_vis sty (snd x)).
Definition available_word (sty : styles) (cmds : list appcmd) (n : str) : Prop :=
  infix_of n (vis sty H_AVAILABLE)
  \/ exists c, In c cmds /\ cmd_visible c = true /\ infix_of n (elem_vis sty (snd (cmd_line c))).

(* decided (for concrete configurations: vm_compute) *)
Definition commands_wordb (sty : styles) (subs : list sub) (n : str) : bool :=
  infixb n (vis sty H_COMMANDS)
  || existsb (fun sv => visible sv && existsb (fun x => infixb n (elem_vis sty (snd x))) (sub_block sv)) subs.
Definition available_wordb (sty : styles) (cmds : list appcmd) (n : str) : bool :=
  infixb n (vis sty H_AVAILABLE)
  || existsb (fun c => cmd_visible c && infixb n (elem_vis sty (snd (cmd_line c)))) cmds.
Lemma commands_word_decided sty subs n : commands_word sty subs n -> commands_wordb sty subs n = true.
Proof.
  unfold commands_wordb. intros [H|(sv & x & H1 & H2 & H3 & H4)]; apply orb_true_iff; [left; now apply infixb_spec|right].
  apply existsb_exists. exists sv. split; [exact H1|]. rewrite H2. cbn [andb]. apply existsb_exists. exists x. split; [exact H3|now apply infixb_spec].
Qed.
Lemma available_word_decided sty cmds n : available_word sty cmds n -> available_wordb sty cmds n = true.
Proof.
  unfold available_wordb. intros [H|(c & H1 & H2 & H3)]; apply orb_true_iff; [left; now apply infixb_spec|right].
  apply existsb_exists. exists c. split; [exact H1|]. rewrite H2. cbn [andb]. now apply infixb_spec.
Qed.
(* The COMMANDS section of a command page in the region: a piece s2 of the page that holds every enabled, named, non-hidden
   sub-command with its arguments and options, and in which every word (no white space in it) is a word of the heading or of the
   visible characters of an element of the block of such a sub-command - a hidden or disabled command contributes nothing. *)
Theorem hidden_never_printed_lemma W f sty app_name ch aliases help subs :
  f_kind f = FPlain -> in_region (f_styles f) W (command_page sty app_name ch aliases help subs) = true ->
  exists s s1 s2 s3, render_page W f (command_page sty app_name ch aliases help subs) = Ok s /\
    s = s1 ++ s2 ++ s3 /\ text_of (f_styles f) W (commands_section subs) s2 /\ section_complete (f_styles f) W subs s2 /\
    forall n, n <> [] -> spacefree n -> infix_of n s2 -> commands_word (f_styles f) subs n.
Proof.
  intros Hk Hr. destruct (in_region_renders_lemma W f _ (plain_not_null f Hk) Hr) as [s Hs]. destruct (in_region_spec _ _ _ Hr) as [_ Hok].
  destruct (commands_section_words W f sty app_name ch aliases help subs s Hk Hok Hs) as (s1 & s2 & s3 & H1 & H2 & H4).
  exists s, s1, s2, s3. split; [exact Hs|]. split; [exact H1|]. split; [exact H2|]. split; [now apply commands_section_text|exact H4].
Qed.
Theorem hidden_never_printed_app_lemma W f sty app_name display version gopts cmds help :
  f_kind f = FPlain -> in_region (f_styles f) W (application_page sty app_name display version gopts cmds help) = true ->
  exists s s1 s2 s3, render_page W f (application_page sty app_name display version gopts cmds help) = Ok s /\
    s = s1 ++ s2 ++ s3 /\ text_of (f_styles f) W (available_section cmds) s2 /\
    forall n, n <> [] -> spacefree n -> infix_of n s2 -> available_word (f_styles f) cmds n.
Proof.
  intros Hk Hr. destruct (in_region_renders_lemma W f _ (plain_not_null f Hk) Hr) as [s Hs]. destruct (in_region_spec _ _ _ Hr) as [_ Hok].
  destruct (available_section_words W f sty app_name display version gopts cmds help s Hk Hok Hs) as (s1 & s2 & s3 & H1 & H2 & H4).
  exists s, s1, s2, s3. auto.
Qed.

(* ---- the ANSI formatter: the visible text (SGR sequences removed) of a page without ESC and backslash is the plain page ---- *)
Theorem hidden_never_printed_ansi_lemma W f sty app_name ch aliases help subs s :
  is_ansi f -> good_layout (command_page sty app_name ch aliases help subs) ->
  in_region (f_styles f) W (command_page sty app_name ch aliases help subs) = true ->
  render_page W f (command_page sty app_name ch aliases help subs) = Ok s ->
  exists s1 s2 s3, strip_sgr s = s1 ++ s2 ++ s3 /\ text_of (f_styles f) W (commands_section subs) s2 /\
    section_complete (f_styles f) W subs s2 /\
    forall n, n <> [] -> spacefree n -> infix_of n s2 -> commands_word (f_styles f) subs n.
Proof.
  intros Hk Hg Hr Hs. apply (ansi_page_visible_lemma W f _ s Hk Hg) in Hs. destruct (in_region_spec _ _ _ Hr) as [_ Hok].
  destruct (commands_section_words W (as_plain f) sty app_name ch aliases help subs (strip_sgr s) (as_plain_kind f) Hok Hs) as (s1 & s2 & s3 & H1 & H2 & H4).
  exists s1, s2, s3. split; [exact H1|]. split; [exact H2|]. split; [now apply (commands_section_text (f_styles f))|exact H4].
Qed.
Theorem page_bytes_are_the_visible_texts_ansi W f l s : is_ansi f -> good_layout l -> layout_ok (f_styles f) W l ->
  render_page W f l = Ok s -> filter nsp (strip_sgr s) = concat (map (fun x => elem_vis (f_styles f) (snd x)) l).
Proof.
  intros Hk Hg Hok Hs. apply (ansi_page_visible_lemma W f _ s Hk Hg) in Hs.
  exact (page_bytes_are_the_visible_texts W (as_plain f) l (strip_sgr s) (as_plain_kind f) Hok Hs).
Qed.

(* a formatter clikit builds (its style set contains DefaultStyleSet's) knows the style c1 *)
From Clikit Require Import Model.OutputM Model.Trace Proofs.TraceRenderLemmas Proofs.TraceEscLemmas.
Lemma clikit_formatter_c1 f : clikit_formatter f -> resolvable (f_styles f) NM_C1.
Proof.
  intros (k & set & Hk & Hin & H).
  apply (new_formatter_resolves k set f (mk_style [99;49]%N (Some [99;121;97;110]%N) false false) NM_C1 H Hk); [|reflexivity|reflexivity].
  apply Hin. do 6 right. left. reflexivity.
Qed.
