(* Proofs about Model/Parser.v (C02, C05; C01 builds on them). *)
From Coq Require Import Lia.
From Clikit Require Import Base.Prelude Base.Res Model.Conv Model.Flags Model.Format Model.Parser
     Proofs.StrLemmas Proofs.FlagsLemmas Proofs.FormatLemmas.

(* ---------- has_* implies get_* succeeds ---------- *)
Lemma has_option_get f n : has_option_all f n = true -> exists o, get_option_all f n = Ok o.
Proof.
  induction f as [cn co cs ar os oss hm ho|bf cn co cs ar os oss hm ho IH] using fmt_ind';
    cbn [has_option_all get_option_all]; rewrite !shas_sget;
    destruct (sget n os); try (eexists; reflexivity); destruct (sget n oss); try (eexists; reflexivity); cbn.
  - discriminate.
  - exact IH.
Qed.
Lemma has_arg_get f r : has_argument f r true = true -> exists a, get_argument f r true = Ok a.
Proof.
  unfold has_argument, get_argument. cbn [get_arguments]. destruct r as [n|i].
  - rewrite shas_sget. destruct (sget n (get_arguments_all f)); [eauto|discriminate].
  - intros H. apply andb_prop in H as [H0 H1]. apply Z.leb_le in H0. apply Z.ltb_lt in H1.
    destruct (Z.leb_spec (Z.of_nat (length (get_arguments_all f))) i); [lia|].
    destruct (Z.ltb_spec i 0); [lia|].
    destruct (nth_error (get_arguments_all f) (Z.to_nat i)) as [[k a]|] eqn:E; [eauto|].
    apply nth_error_None in E. lia.
Qed.

(* ---------- the kinds of error the token loop can produce ---------- *)
Definition pk (k : ekind) : Prop := k = CannotParse \/ k = NoSuchOption.
Definition opts_ok (f : fmt) : Prop :=
  forall n o, get_option f n true = Ok o ->
    (o_multi o = true -> o_required o = true) /\ conv_input (o_default o) = true.
Definition st_plain (st : pstate) : Prop :=
  forall n d, In (n, ODefault d) (ps_opts st) -> conv_input d = true.

Lemma in_sset {V} k (v : V) d k' v' : In (k', v') (sset k v d) -> (k' = k /\ v' = v) \/ In (k', v') d.
Proof.
  unfold sset. induction d as [|[k2 v2] r IH]; cbn.
  - intros [H|[]]. inversion H. auto.
  - destruct (str_eqb_spec k k2) as [->|Hn]; cbn.
    + intros [H|H]; [inversion H; auto|auto].
    + intros [H|H]; [auto|]. destruct (IH H); auto.
Qed.
Lemma st_plain_set st n v :
  st_plain st -> (forall d, v = ODefault d -> conv_input d = true) ->
  st_plain {| ps_args := ps_args st; ps_opts := sset n v (ps_opts st) |}.
Proof.
  intros Hp Hv m d. cbn. intros H. apply in_sset in H as [[_ H]|H]; [apply Hv; auto|eapply Hp; eauto].
Qed.

Lemma add_long_spec f st n v t :
  opts_ok f -> st_plain st ->
  match add_long_option f st n v t with
  | Ok (st', t') => st_plain st' /\ length t' <= length t /\ ps_args st' = ps_args st
  | Err k => pk k
  end.
Proof.
  intros Hok Hp. unfold add_long_option.
  destruct (has_option f n true) eqn:Hh; cbn [negb]; [|right; reflexivity].
  destruct (has_option_get f n Hh) as [o Ho]. cbn [get_option]. rewrite Ho. cbn [bind].
  destruct (Hok n o Ho) as [Hm Hd].
  destruct (match v with Some _ => negb (o_accepts o) | None => false end); [left; reflexivity|].
  set (vt := match v, o_accepts o, t with
             | None, true, nxt :: rest =>
                 if nonempty nxt && negb (starts_dash nxt) then (Some nxt, rest)
                 else if negb (nonempty nxt) then (Some [], rest) else (None, t)
             | _, _, _ => (v, t) end).
  assert (length (snd vt) <= length t) as Hl.
  { unfold vt. destruct v; [cbn; lia|]. destruct (o_accepts o); [|cbn; lia]. destruct t as [|nxt rest]; [cbn; lia|].
    destruct (nonempty nxt && negb (starts_dash nxt)); [cbn; lia|]. destruct (negb (nonempty nxt)); cbn; lia. }
  destruct vt as [v' t']. cbn [snd] in Hl.
  destruct (match v' with Some [] => None | x => x end) as [s|].
  - destruct (o_multi o); (split; [apply st_plain_set; [assumption|intros ? HH; discriminate HH]|split; [exact Hl|reflexivity]]).
  - destruct (o_required o) eqn:Hr; [left; reflexivity|].
    destruct (o_multi o) eqn:Hmu; [discriminate (Hm eq_refl)|].
    split; [|split; [exact Hl|reflexivity]].
    apply st_plain_set; [assumption|]. destruct (o_optional o); intros d Hdd; inversion Hdd; subst; exact Hd.
Qed.

Lemma add_short_spec f st n v t :
  opts_ok f -> st_plain st ->
  match add_short_option f st n v t with
  | Ok (st', t') => st_plain st' /\ length t' <= length t /\ ps_args st' = ps_args st
  | Err k => pk k
  end.
Proof.
  intros Hok Hp. unfold add_short_option.
  destruct (has_option f n true) eqn:Hh; cbn [negb]; [|right; reflexivity].
  destruct (has_option_get f n Hh) as [o Ho]. cbn [get_option]. rewrite Ho. cbn [bind].
  apply add_long_spec; assumption.
Qed.

Lemma take_value_len t : length (snd (take_value t)) <= length t.
Proof. destruct t as [|v r]; cbn; [lia|]. destruct (nonempty v && starts_dash v); cbn; lia. Qed.

Lemma parse_long_spec f st tok t :
  opts_ok f -> st_plain st ->
  match parse_long_option f st tok t with
  | Ok (st', t') => st_plain st' /\ length t' <= length t /\ ps_args st' = ps_args st
  | Err k => pk k
  end.
Proof.
  intros Hok Hp. unfold parse_long_option.
  destruct (split_eq (skipn 2 tok) []) as [[n v]|]; [apply add_long_spec; assumption|].
  destruct (accepts f (skipn 2 tok)); [|apply add_long_spec; assumption].
  pose proof (take_value_len t) as Hl. destruct (take_value t) as [v t']. cbn [snd] in Hl.
  pose proof (add_long_spec f st (skipn 2 tok) v t' Hok Hp) as H.
  destruct (add_long_option f st (skipn 2 tok) v t') as [[st' t'']|k]; [|exact H].
  destruct H as (H1 & H2 & H3). repeat split; auto; lia.
Qed.

Lemma short_set_spec f : opts_ok f -> forall name st t, st_plain st ->
  st_plain (snd (short_set f st name t)) /\ ps_args (snd (short_set f st name t)) = ps_args st /\
  match fst (short_set f st name t) with
  | Ok (st', t') => st' = snd (short_set f st name t) /\ length t' <= length t
  | Err k => pk k
  end.
Proof.
  intros Hok. induction name as [|c rest IH]; intros st t Hp; cbn [short_set fst snd].
  - repeat split; auto.
  - destruct (has_option f [c] true) eqn:Hh; cbn [negb fst snd]; [|repeat split; auto; right; reflexivity].
    destruct (has_option_get f [c] Hh) as [o Ho]. cbn [get_option]. rewrite Ho.
    destruct (o_accepts o).
    + pose proof (add_long_spec f st (o_long o) (match rest with [] => None | _ => Some rest end) t Hok Hp) as H.
      destruct (add_long_option f st (o_long o) _ t) as [[st' t']|k]; cbn [fst snd].
      * destruct H as (H1 & H2 & H3). repeat split; auto.
      * repeat split; auto.
    + pose proof (add_long_spec f st (o_long o) None t Hok Hp) as H.
      destruct (add_long_option f st (o_long o) None t) as [[st' t']|k]; cbn [fst snd].
      * destruct H as (H1 & H2 & H3). destruct (IH st' t' H1) as (I1 & I2 & I3).
        split; [exact I1|]. split; [congruence|].
        destruct (fst (short_set f st' rest t')) as [[st2 t2]|k]; [|exact I3].
        destruct I3 as [I3 I4]. split; [exact I3|lia].
      * repeat split; auto.
Qed.

Lemma parse_short_spec f st tok t :
  opts_ok f -> st_plain st -> skipn 1 tok <> [] ->
  st_plain (snd (parse_short_option f st tok t)) /\ ps_args (snd (parse_short_option f st tok t)) = ps_args st /\
  match fst (parse_short_option f st tok t) with
  | Ok (st', t') => st' = snd (parse_short_option f st tok t) /\ length t' <= length t
  | Err k => pk k
  end.
Proof.
  intros Hok Hp Hne. unfold parse_short_option.
  destruct (skipn 1 tok) as [|c [|c2 rest]]; [contradiction| |].
  - destruct (accepts f [c]).
    + pose proof (take_value_len t) as Hl. destruct (take_value t) as [v t']. cbn [snd] in Hl.
      pose proof (add_short_spec f st [c] v t' Hok Hp) as H.
      destruct (add_short_option f st [c] v t') as [[st' t'']|k]; cbn [fst snd].
      * destruct H as (H1 & H2 & H3). repeat split; auto; lia.
      * repeat split; auto.
    + pose proof (add_short_spec f st [c] None t Hok Hp) as H.
      destruct (add_short_option f st [c] None t) as [[st' t'']|k]; cbn [fst snd].
      * destruct H as (H1 & H2 & H3). repeat split; auto.
      * repeat split; auto.
  - destruct (accepts f [c]).
    + pose proof (add_short_spec f st [c] (Some (c2 :: rest)) t Hok Hp) as H.
      destruct (add_short_option f st [c] (Some (c2 :: rest)) t) as [[st' t'']|k]; cbn [fst snd].
      * destruct H as (H1 & H2 & H3). repeat split; auto.
      * repeat split; auto.
    + apply short_set_spec; assumption.
Qed.

Lemma parse_argument_spec f len st tok :
  st_plain st ->
  match parse_argument f len st tok with
  | Ok st' => st_plain st'
  | Err k => k = CannotParse
  end.
Proof.
  intros Hp. unfold parse_argument.
  destruct (has_argument f (APos (Z.of_nat (length (ps_args st)))) true) eqn:H1.
  - destruct (has_arg_get f _ H1) as [a Ha]. rewrite Ha. cbn [bind]. destruct (a_multi a); exact Hp.
  - destruct (has_argument f (APos (Z.of_nat (length (ps_args st)) - 1)) true) eqn:H2.
    + destruct (has_arg_get f _ H2) as [a Ha]. rewrite Ha. cbn [bind].
      destruct (a_multi a); [exact Hp|]. destruct len; [exact Hp|reflexivity].
    + destruct len; [exact Hp|reflexivity].
Qed.

Lemma starts_dash_skipn tok : starts_dash tok = true -> str_eqb tok [DASH] = false -> skipn 1 tok <> [].
Proof.
  destruct tok as [|c [|d r]]; cbn; try discriminate.
  intros H. apply N.eqb_eq in H. subst c. rewrite N.eqb_refl. discriminate.
Qed.

Lemma loop_spec f len : opts_ok f -> forall fuel p st tokens, st_plain st -> length tokens < fuel ->
  st_plain (fst (loop fuel f len p st tokens)) /\
  forall k, snd (loop fuel f len p st tokens) = Some k -> pk k.
Proof.
  intros Hok. induction fuel as [|fuel IH]; intros p st tokens Hp Hf; [lia|]. cbn [loop].
  destruct tokens as [|tok rest]; [cbn; split; [exact Hp|discriminate]|]. cbn [length] in Hf.
  assert (forall st', st_plain st' -> forall p' rest', length rest' <= length rest ->
            st_plain (fst (loop fuel f len p' st' rest')) /\
            forall k, snd (loop fuel f len p' st' rest') = Some k -> pk k) as Hrec.
  { intros. apply IH; [assumption|lia]. }
  assert (st_plain (fst (match parse_argument f len st tok with
                         | Ok st' => loop fuel f len p st' rest | Err k => (st, Some k) end)) /\
          forall k, snd (match parse_argument f len st tok with
                         | Ok st' => loop fuel f len p st' rest | Err k => (st, Some k) end) = Some k -> pk k) as Harg.
  { pose proof (parse_argument_spec f len st tok Hp) as H.
    destruct (parse_argument f len st tok) as [st'|k]; [apply Hrec; [assumption|lia]|].
    cbn. split; [exact Hp|]. intros k' Hk. inversion Hk; subst. left. reflexivity. }
  destruct (p && negb (nonempty tok)); [exact Harg|].
  destruct (p && is_dd tok); [apply Hrec; [assumption|lia]|].
  destruct (p && starts_dd tok).
  { pose proof (parse_long_spec f st tok rest Hok Hp) as H.
    destruct (parse_long_option f st tok rest) as [[st' rest']|k].
    - destruct H as (H1 & H2 & _). apply Hrec; assumption.
    - cbn. split; [exact Hp|]. intros k' Hk. inversion Hk; subst. exact H. }
  destruct (p && starts_dash tok && negb (str_eqb tok [DASH])) eqn:Hs; [|exact Harg].
  apply andb_prop in Hs as [Hs Hnd]. apply andb_prop in Hs as [_ Hsd].
  assert (skipn 1 tok <> []) as Hne by (apply starts_dash_skipn; [assumption|now destruct (str_eqb tok [DASH])]).
  destruct (parse_short_spec f st tok rest Hok Hp Hne) as (S1 & _ & S3).
  destruct (parse_short_option f st tok rest) as [[[st' rest']|k] st2]; cbn [fst snd] in *.
  - destruct S3 as [-> Hl]. apply Hrec; assumption.
  - split; [exact S1|]. intros k' Hk. inversion Hk; subst. exact S3.
Qed.

(* ---------- re-alignment against omitted command names ---------- *)
Lemma copy_values_err vals : forall ars len fixed k, copy_values vals ars len fixed = Err k -> k = CannotParse /\ len = false.
Proof.
  induction vals as [|v r IH]; intros ars len fixed k; cbn [copy_values]; [discriminate|].
  destruct ars as [|[n a] ars'].
  - destruct len; [discriminate|]. intros H. inversion H. auto.
  - destruct (a_multi a); apply IH.
Qed.
Lemma insert_missing_spec arguments cns len st :
  match insert_missing arguments cns len st with
  | Ok st' => ps_opts st' = ps_opts st
  | Err k => k = CannotParse /\ len = false
  end.
Proof.
  unfold insert_missing. destruct (skip_names (flatten (ps_args st)) cns 0) as [[vals' cns'] k].
  destruct (copy_values vals' _ len _) eqn:E; cbn [bind]; [reflexivity|]. eapply copy_values_err; eauto.
Qed.

(* ---------- storing into Args: only ValueError ---------- *)
Lemma parse_typed_str t nl s : forall k, parse_typed t nl (VStr s) = Err k -> k = ValueError.
Proof.
  intros k H. pose proof (conv_typed_lemma t nl (VStr s) eq_refl) as Hc. rewrite H in Hc. exact Hc.
Qed.
Lemma parse_each_err t nl l : forall k, parse_each t nl l = Err k -> k = ValueError.
Proof.
  induction l as [|s r IH]; intros k; cbn [parse_each]; [discriminate|].
  destruct (parse_typed t nl (VStr s)) eqn:E; cbn [bind]; [|intros H; inversion H; subst; eapply parse_typed_str; eauto].
  destruct (parse_each t nl r) eqn:E2; cbn [bind]; [discriminate|]. intros H. inversion H; subst. now apply IH.
Qed.
Lemma parse_odd_err t s : forall k, parse_odd t s = Err k -> k = ValueError.
Proof. destruct t; cbn; intros k H; inversion H; reflexivity. Qed.
Lemma parse_raw_arg_err t nl v : forall k, parse_raw_arg t nl v = Err k -> k = ValueError.
Proof.
  destruct v; cbn [parse_raw_arg]; intros k H; [eapply parse_typed_str|eapply parse_odd_err|eapply parse_odd_err]; eauto.
Qed.
Lemma parse_raw_opt_err t nl v : (forall d, v = ODefault d -> conv_input d = true) ->
  forall k, parse_raw_opt t nl v = Err k -> k = ValueError.
Proof.
  intros Hd. destruct v as [s| |d|l]; cbn [parse_raw_opt]; intros k H.
  - eapply parse_typed_str; eauto.
  - pose proof (conv_typed_lemma t nl (VBool true) eq_refl) as Hc. rewrite H in Hc. exact Hc.
  - pose proof (conv_typed_lemma t nl d (Hd d eq_refl)) as Hc. rewrite H in Hc. exact Hc.
  - eapply parse_odd_err; eauto.
Qed.

Lemma set_arguments_err f : forall l a k, set_arguments f a l = Err k -> k = ValueError.
Proof.
  induction l as [|[n v] r IH]; intros a k; cbn [set_arguments]; [discriminate|].
  destruct (has_argument f (AName n) true) eqn:Hh; [|apply IH].
  destruct (has_arg_get f _ Hh) as [ar Har]. unfold set_argument. rewrite Har. cbn [bind].
  set (X := if a_multi ar then _ else _). destruct X as [pv|k'] eqn:E; subst X; cbn [bind].
  - apply IH.
  - intros H. inversion H; subst. clear H. destruct (a_multi ar).
    + destruct v as [s|l|c]; cbn beta iota in E.
      * destruct (parse_raw_arg (a_type ar) (a_nullable ar) (RStr s)) eqn:E2; cbn [bind] in E; [discriminate|].
        inversion E; subst. eapply parse_raw_arg_err; eauto.
      * destruct (parse_each (a_type ar) (a_nullable ar) l) eqn:E2; cbn [bind] in E; [discriminate|].
        inversion E; subst. eapply parse_each_err; eauto.
      * destruct (parse_raw_arg (a_type ar) (a_nullable ar) (RCmd c)) eqn:E2; cbn [bind] in E; [discriminate|].
        inversion E; subst. eapply parse_raw_arg_err; eauto.
    + eapply parse_raw_arg_err; eauto.
Qed.

Lemma set_options_err f : forall l a k,
  (forall n d, In (n, ODefault d) l -> conv_input d = true) ->
  set_options f a l = Err k -> k = ValueError.
Proof.
  induction l as [|[n v] r IH]; intros a k Hd; cbn [set_options]; [discriminate|].
  assert (forall n d, In (n, ODefault d) r -> conv_input d = true) as Hd' by (intros; eapply Hd; right; eauto).
  destruct (has_option f n true) eqn:Hh; [|apply IH; assumption].
  destruct (has_option_get f n Hh) as [o Ho]. unfold set_option. cbn [get_option]. rewrite Ho. cbn [bind].
  assert (forall d, v = ODefault d -> conv_input d = true) as Hv by (intros d ->; eapply Hd; left; reflexivity).
  set (X := if o_multi o then _ else _). destruct X as [pv|k'] eqn:E; subst X; cbn [bind].
  - apply IH; assumption.
  - intros H. inversion H; subst. clear H. destruct (o_multi o).
    + destruct v as [s| |d|l].
      * destruct (parse_raw_opt (o_type o) (o_nullable o) (OStr s)) eqn:E2; cbn [bind] in E; [discriminate|].
        inversion E; subst. eapply parse_raw_opt_err; eauto.
      * destruct (parse_raw_opt (o_type o) (o_nullable o) OTrue) eqn:E2; cbn [bind] in E; [discriminate|].
        inversion E; subst. eapply parse_raw_opt_err; eauto.
      * destruct (parse_raw_opt (o_type o) (o_nullable o) (ODefault d)) eqn:E2; cbn [bind] in E; [discriminate|].
        inversion E; subst. eapply parse_raw_opt_err; eauto.
      * destruct (parse_each (o_type o) (o_nullable o) l) eqn:E2; cbn [bind] in E; [discriminate|].
        inversion E; subst. eapply parse_each_err; eauto.
    + destruct (o_accepts o); [eapply parse_raw_opt_err; eauto|discriminate].
Qed.


(* ---------- C02: the kinds of error a parse can end in ---------- *)
Definition allowed (k : ekind) : Prop := k = CannotParse \/ k = NoSuchOption \/ k = ValueError.

Lemma st_plain_empty : st_plain ps_empty.
Proof. intros n d []. Qed.

Lemma parse_error_kinds f len toks f' arguments cns :
  aug_format f = Ok (f', arguments, cns) -> opts_ok f' ->
  forall k, parse f len toks = Err k ->
    allowed k /\ (len = true -> k = ValueError).
Proof.
  intros Haug Hok k. unfold parse, parse_on. rewrite Haug.
  destruct (loop_spec f' len Hok (S (length toks)) true ps_empty toks st_plain_empty ltac:(lia)) as [Hp He].
  destruct (loop (S (length toks)) f' len true ps_empty toks) as [st1 e]. cbn [fst snd] in *.
  assert (forall k0, (match e with
                      | Some CannotParse | Some NoSuchOption => if len then None else e
                      | _ => e end) = Some k0 -> pk k0 /\ len = false) as Hfilter.
  { intros k0. destruct e as [k1|]; [|discriminate]. destruct (He k1 eq_refl) as [->| ->];
      (destruct len; [discriminate|]); intros H; inversion H; subst; split; auto; unfold pk; auto. }
  destruct (match e with
            | Some CannotParse | Some NoSuchOption => if len then None else e
            | _ => e end) as [k0|].
  - cbn [snd]. intros H. inversion H; subst. destruct (Hfilter k eq_refl) as [[->| ->] ->];
      (split; [unfold allowed; auto|discriminate]).
  - pose proof (insert_missing_spec arguments cns len st1) as Hi.
    destruct (insert_missing arguments cns len st1) as [st2|k2].
    + destruct (missing_required arguments st2 && negb len) eqn:Hm; cbn [snd].
      * intros H. inversion H; subst. split; [unfold allowed; auto|].
        intros ->. rewrite andb_false_r in Hm. discriminate.
      * destruct (set_arguments f {| ar_opts := []; ar_args := [] |} (ps_args st2)) as [a1|k1] eqn:Ea; cbn [bind].
        -- intros H. assert (k = ValueError) as ->; [|split; [unfold allowed; auto|auto]].
           eapply set_options_err; [|exact H]. intros n d Hin. rewrite Hi in Hin. eapply Hp; eauto.
        -- intros H. inversion H; subst. assert (k = ValueError) as -> by (eapply set_arguments_err; eauto).
           split; [unfold allowed; auto|auto].
    + cbn [snd]. intros H. inversion H; subst. destruct Hi as [-> ->]. split; [unfold allowed; auto|discriminate].
Qed.

(* ---------- C02: lenient parsing returns what strict parsing returns whenever the latter succeeds ---------- *)
Lemma parse_argument_mono f st tok st' :
  parse_argument f false st tok = Ok st' -> parse_argument f true st tok = Ok st'.
Proof.
  unfold parse_argument. destruct (has_argument f (APos (Z.of_nat (length (ps_args st)))) true); [auto|].
  destruct (has_argument f (APos (Z.of_nat (length (ps_args st)) - 1)) true); [|discriminate].
  destruct (get_argument f _ true); cbn [bind]; [|auto]. destruct (a_multi x); [auto|discriminate].
Qed.

Lemma loop_mono f : forall fuel p st toks st',
  loop fuel f false p st toks = (st', None) -> loop fuel f true p st toks = (st', None).
Proof.
  induction fuel as [|fuel IH]; intros p st toks st'; cbn [loop]; [discriminate|].
  destruct toks as [|tok rest]; [auto|].
  assert (match parse_argument f false st tok with
          | Ok st0 => loop fuel f false p st0 rest | Err k => (st, Some k) end = (st', None) ->
          match parse_argument f true st tok with
          | Ok st0 => loop fuel f true p st0 rest | Err k => (st, Some k) end = (st', None)) as Harg.
  { destruct (parse_argument f false st tok) as [st0|k] eqn:E; [|discriminate].
    rewrite (parse_argument_mono _ _ _ _ E). apply IH. }
  destruct (p && negb (nonempty tok)); [exact Harg|].
  destruct (p && is_dd tok); [apply IH|].
  destruct (p && starts_dd tok).
  { destruct (parse_long_option f st tok rest) as [[st0 rest']|k]; [apply IH|auto]. }
  destruct (p && starts_dash tok && negb (str_eqb tok [DASH])); [|exact Harg].
  destruct (parse_short_option f st tok rest) as [[[st0 rest']|k] st2]; [apply IH|auto].
Qed.

Lemma copy_values_mono vals : forall ars fixed r,
  copy_values vals ars false fixed = Ok r -> copy_values vals ars true fixed = Ok r.
Proof.
  induction vals as [|v vs IH]; intros ars fixed r; cbn [copy_values]; [auto|].
  destruct ars as [|[n a] ars']; [discriminate|]. destruct (a_multi a); apply IH.
Qed.
Lemma insert_missing_mono arguments cns st st' :
  insert_missing arguments cns false st = Ok st' -> insert_missing arguments cns true st = Ok st'.
Proof.
  unfold insert_missing. destruct (skip_names (flatten (ps_args st)) cns 0) as [[vals' cns'] k].
  destruct (copy_values vals' _ false _) as [fx|] eqn:E; cbn [bind]; [|discriminate].
  rewrite (copy_values_mono _ _ _ _ E). auto.
Qed.

Lemma lenient_extends_strict_lemma f toks r : parse f false toks = Ok r -> parse f true toks = Ok r.
Proof.
  unfold parse, parse_on. destruct (aug_format f) as [[[f' arguments] cns]|]; [|discriminate].
  destruct (loop (S (length toks)) f' false true ps_empty toks) as [st1 e] eqn:El.
  destruct e as [k|].
  - destruct k; cbn [snd]; discriminate.
  - rewrite (loop_mono _ _ _ _ _ _ El).
    destruct (insert_missing arguments cns false st1) as [st2|] eqn:Ei; [|discriminate].
    rewrite (insert_missing_mono _ _ _ _ Ei).
    destruct (missing_required arguments st2); cbn [andb negb snd]; [discriminate|auto].
Qed.

(* ---------- C05: a parse does not depend on the parser object's scratch state ---------- *)
Lemma parse_on_ignores_scratch st0 f len toks : snd (parse_on st0 f len toks) = parse f len toks.
Proof. reflexivity. Qed.

Definition request := (fmt * bool * list str)%type.
Fixpoint run_history (st : pstate) (reqs : list request) : list (res args) :=
  match reqs with
  | [] => []
  | (f, len, toks) :: r => let '(st', res) := parse_on st f len toks in res :: run_history st' r
  end.
Lemma reuse_eq_fresh_lemma reqs : forall st,
  run_history st reqs = map (fun q : request => let '(f, len, toks) := q in parse f len toks) reqs.
Proof.
  induction reqs as [|[[f len] toks] r IH]; intros st; cbn [run_history map]; [reflexivity|].
  pose proof (parse_on_ignores_scratch st f len toks) as H.
  destruct (parse_on st f len toks) as [st' res]. cbn [snd] in H. rewrite H, IH. reflexivity.
Qed.

(* ---------- C01: the read side of Args ---------- *)
Lemma option_access_agrees f a n m o :
  get_option f n true = Ok o -> get_option f m true = Ok o ->
  args_option f a n = args_option f a m.
Proof. intros Hn Hm. unfold args_option. rewrite Hn, Hm. reflexivity. Qed.

Lemma option_set_agrees f a n m o :
  has_option f n true = true -> has_option f m true = true ->
  get_option f n true = Ok o -> get_option f m true = Ok o ->
  args_is_option_set f a n = args_is_option_set f a m.
Proof. intros H1 H2 Hn Hm. unfold args_is_option_set. rewrite H1, H2, Hn, Hm. reflexivity. Qed.

Lemma argument_access_agrees f a r1 r2 ar :
  get_argument f r1 true = Ok ar -> get_argument f r2 true = Ok ar ->
  args_argument f a r1 = args_argument f a r2.
Proof. intros H1 H2. unfold args_argument. rewrite H1, H2. reflexivity. Qed.

Lemma argument_set_agrees f a r1 r2 ar :
  has_argument f r1 true = true -> has_argument f r2 true = true ->
  get_argument f r1 true = Ok ar -> get_argument f r2 true = Ok ar ->
  args_is_argument_set f a r1 = args_is_argument_set f a r2.
Proof. intros G1 G2 H1 H2. unfold args_is_argument_set. rewrite G1, G2, H1, H2. reflexivity. Qed.

Lemma unset_option_default f a n o :
  get_option f n true = Ok o -> sget (o_long o) (ar_opts a) = None ->
  args_option f a n = Ok (if o_accepts o then o_default o else VBool false).
Proof. intros H1 H2. unfold args_option. rewrite H1. cbn [bind]. rewrite H2. reflexivity. Qed.
Lemma unset_argument_default f a r ar :
  get_argument f r true = Ok ar -> sget (a_name ar) (ar_args a) = None ->
  args_argument f a r = Ok (a_default ar).
Proof. intros H1 H2. unfold args_argument. rewrite H1. cbn [bind]. rewrite H2. reflexivity. Qed.

(* after the "--" separator no token is read as an option: the option scratch map is frozen *)
Lemma loop_after_dd_keeps_options f len : forall fuel st toks,
  ps_opts (fst (loop fuel f len false st toks)) = ps_opts st.
Proof.
  induction fuel as [|fuel IH]; intros st toks; cbn [loop]; [reflexivity|].
  destruct toks as [|tok rest]; [reflexivity|]. cbn [andb].
  unfold parse_argument.
  destruct (has_argument f (APos (Z.of_nat (length (ps_args st)))) true).
  - destruct (get_argument f _ true) as [a|k]; cbn [bind]; [|reflexivity].
    destruct (a_multi a); rewrite IH; reflexivity.
  - destruct (has_argument f (APos (Z.of_nat (length (ps_args st)) - 1)) true).
    + destruct (get_argument f _ true) as [a|k]; cbn [bind]; [|reflexivity].
      destruct (a_multi a); [rewrite IH; reflexivity|]. destruct len; [apply IH|reflexivity].
    + destruct len; [apply IH|reflexivity].
Qed.
