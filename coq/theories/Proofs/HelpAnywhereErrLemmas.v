(* C09, the help switch anywhere: the help command's own lenient parse of the line can only fail with a value error -
   given that the options its format lists (the global options, and its own) are well-formed objects
   (ClassifyLineLemmas.opts_listed_ok: a multi-valued option requires a value; the default of an option that does not
   require one is a value the conversions accept - what Option's constructor guarantees, C07).  CannotParse / NoSuchOption
   are swallowed by leniency, the token loop has fuel to spare, the re-alignment cannot fail leniently; what is left
   is Args.set_option converting the value of a typed global option. *)
From Clikit Require Import Base.Prelude Base.Res Model.Conv Model.Flags Model.Format Model.Parser Model.Spell
     Model.Resolver Model.Tokenizer Model.Switches
     Proofs.StrLemmas Proofs.FormatLemmas Proofs.ParserLemmas Proofs.SpellArgs Proofs.FmtOkLemmas
     Proofs.HelpSamePageLemmas Proofs.HelpRunLemmas Proofs.HelpAnywhereLemmas.
From Clikit Require Proofs.ClassifyLemmas Proofs.ClassifyLineLemmas.

Lemma lenient_parse_value_error_only f toks k : fmt_inv f -> ClassifyLineLemmas.opts_listed_ok f = true ->
  parse f true toks = Err k -> k = ValueError.
Proof.
  intros Hinv Hl H. pose proof (wf_implies_fmt_ok_lemma f Hinv) as Hok. apply fmt_ok_inv in Hok as (g & A & cns & FF).
  pose proof (ClassifyLineLemmas.opts_listed_ok_w f g A cns (ff_aug _ _ _ _ FF) Hl) as Hw.
  destruct (ClassifyLemmas.parse_error_kinds_w f true toks g A cns (ff_aug _ _ _ _ FF) Hw k H) as [_ Hv]. now apply Hv.
Qed.

(* the options of the help command's format are well-formed objects *)
Definition help_options_ok (a : application) : bool :=
  match find_cmd a S_help with Some hc => ClassifyLineLemmas.opts_listed_ok (b_fmt hc) | None => false end.

Theorem help_line_parse_errors cfg a toks k : build_app cfg = Ok a -> default_help_config cfg = true ->
  help_options_ok a = true -> help_line_parse a toks = Err k -> k = ValueError.
Proof.
  intros Hb Hc Ho. destruct (default_help_setup cfg a Hb Hc) as (hc & f & arg & o & HS).
  unfold help_options_ok, help_line_parse in *. rewrite (setup_find a hc f arg o HS) in *. rewrite (setup_fmt a hc f arg o HS) in *.
  destruct (parse f true toks) as [x|k0] eqn:E; cbn [bind]; [discriminate|]. intros H. inversion H; subst k0.
  eapply lenient_parse_value_error_only; [exact (hs_inv _ _ _ _ _ HS)|exact Ho|exact E].
Qed.
