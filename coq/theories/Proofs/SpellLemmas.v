(* C01: a well-formed line parses to the assignment it spells (Model/Spell.v).
   Part 0: sanity checks of the definitions on a concrete format (by computation), before the
   general proof. *)
From Coq Require Import Lia String Ascii.
From Clikit Require Import Base.Prelude Base.Res Model.Conv Model.Flags Model.Format Model.Parser Model.Spell
     Proofs.StrLemmas Proofs.FlagsLemmas Proofs.FormatLemmas Proofs.ParserLemmas Proofs.SpellOpts Proofs.SpellArgs Proofs.SpellDenote.

Module SpellExamples.
  Definition s (x : string) : str := map N_of_ascii (list_ascii_of_string x).
  (* NO_VALUE | STRING | PREFER_SHORT *)
  Definition o_verbose := {| o_long := s "verbose"; o_short := Some (s "v"); o_flags := 134; o_default := VNone |}.
  Definition o_quiet := {| o_long := s "quiet"; o_short := Some (s "q"); o_flags := 134; o_default := VNone |}.
  (* REQUIRED_VALUE | INTEGER *)
  Definition o_num := {| o_long := s "num"; o_short := Some (s "n"); o_flags := 522; o_default := VNone |}.
  (* REQUIRED_VALUE | MULTI_VALUED | STRING *)
  Definition o_tag := {| o_long := s "tag"; o_short := Some (s "t"); o_flags := 170; o_default := VList [] |}.
  (* OPTIONAL_VALUE | STRING *)
  Definition o_color := {| o_long := s "color"; o_short := Some (s "c"); o_flags := 146; o_default := VStr (s "auto") |}.
  (* OPTIONAL_VALUE | INTEGER | NULLABLE, no short name *)
  Definition o_level := {| o_long := s "level"; o_short := None; o_flags := 2577; o_default := VInt 3 |}.
  Definition a_host := {| a_name := s "host"; a_flags := 17; a_default := VNone |}.        (* REQUIRED | STRING *)
  Definition a_port := {| a_name := s "port"; a_flags := 66; a_default := VInt 80 |}.      (* OPTIONAL | INTEGER *)
  Definition a_files := {| a_name := s "files"; a_flags := 22; a_default := VList [] |}.   (* OPTIONAL | MULTI_VALUED | STRING *)
  Definition c_server := {| cn_name := s "server"; cn_aliases := [s "srv"] |}.
  Definition c_add := {| cn_name := s "add"; cn_aliases := [] |}.
  Definition mk (es : list element) (b : option fmt) : fmt :=
    match format_of_elements es b with Ok f => f | Err _ => empty_builder None end.
  (* command names, three arguments (required, optional typed, multi-valued), six options *)
  Definition F1 := mk [ECName c_server; ECName c_add; EArg a_host; EArg a_port; EArg a_files;
                       EOpt o_verbose; EOpt o_quiet; EOpt o_num; EOpt o_tag; EOpt o_color; EOpt o_level] None.
  (* the same spread over a base format *)
  Definition F2 := mk [ECName c_add; EArg a_port; EArg a_files; EOpt o_num; EOpt o_tag; EOpt o_level]
                      (Some (mk [ECName c_server; EArg a_host; EOpt o_verbose; EOpt o_quiet; EOpt o_color] None)).
  (* options only *)
  Definition F0 := mk [EOpt o_verbose; EOpt o_quiet; EOpt o_num; EOpt o_tag; EOpt o_color; EOpt o_level] None.

  (* an argument that has the name of the first pseudo-argument (the parser's fresh-name loop must skip it) *)
  Definition a_cmd11 := {| a_name := s "cmd11"; a_flags := 17; a_default := VNone |}.
  Definition F3 := mk [ECName c_server; ECName c_add; EArg a_cmd11; EArg a_host; EOpt o_verbose] None.
  Definition D6 := {| ld_names := [s "server"]; ld_items := [IPos (s "x"); IFlag o_verbose false; IPos (s "y")]; ld_tail := None |}.
  Example F3_ok : fmt_ok F3 = true /\ wf_line F3 D6 = true /\
                  denote F3 D6 = {| ar_opts := [(s "verbose", VBool true)];
                                    ar_args := [(s "cmd11", VStr (s "x")); (s "host", VStr (s "y"))] |}.
  Proof. split; [|split]; vm_compute; reflexivity. Qed.

  Example F0_ok : fmt_ok F0 = true. Proof. vm_compute. reflexivity. Qed.
  Example F1_ok : fmt_ok F1 = true. Proof. vm_compute. reflexivity. Qed.
  Example F2_ok : fmt_ok F2 = true. Proof. vm_compute. reflexivity. Qed.

  (* every item form; aliases for the command names; "--" tail with dash-leading and empty tokens *)
  Definition D1 := {| ld_names := [s "srv"; s "add"];
    ld_items := [IFlag o_verbose true; IPos (s "h1"); IVal o_num LongEq (s "-5"); IVal o_tag ShortGlued (s "x");
                 IGroup [o_verbose; o_quiet] (Some (o_tag, GSep (s "y"))); IPos (s "8080"); IBare o_color false;
                 IVal o_tag LongSep (s "z"); IBare o_level true];
    ld_tail := Some [s "-a"; s ""; s "b"] |}.
  Example D1_wf : wf_line F1 D1 = true. Proof. vm_compute. reflexivity. Qed.
  Example D1_tokens : render D1 =
    [s "srv"; s "add"; s "--verbose"; s "h1"; s "--num=-5"; s "-tx"; s "-vqt"; s "y"; s "8080"; s "-c"; s "--tag"; s "z";
     s "--level"; s "--"; s "-a"; s ""; s "b"].
  Proof. vm_compute. reflexivity. Qed.
  Example D1_value : denote F1 D1 =
    {| ar_opts := [(s "verbose", VBool true); (s "num", VInt (-5)); (s "tag", VList [VStr (s "x"); VStr (s "y"); VStr (s "z")]);
                   (s "quiet", VBool true); (s "color", VStr (s "auto")); (s "level", VInt 3)];
       ar_args := [(s "host", VStr (s "h1")); (s "port", VInt 8080); (s "files", VList [VStr (s "-a"); VStr (s ""); VStr (s "b")])] |}.
  Proof. vm_compute. reflexivity. Qed.
  Example D1_parses : forall lenient, parse F1 lenient (render D1) = Ok (denote F1 D1).
  Proof. intros []; vm_compute; reflexivity. Qed.
  Example D1_parses_over_base : wf_line F2 D1 = true /\ forall lenient, parse F2 lenient (render D1) = Ok (denote F2 D1).
  Proof. split; [|intros []]; vm_compute; reflexivity. Qed.

  (* command names omitted; short separated value; grouped flags with glued value; "null" of a nullable option *)
  Definition D2 := {| ld_names := [];
    ld_items := [IVal o_num ShortSep (s "12"); IPos (s "h2"); IGroup [o_quiet; o_verbose] (Some (o_color, GGlued (s "red")));
                 IVal o_level LongEq (s "null"); IVal o_num ShortGlued (s "7")];
    ld_tail := None |}.
  Example D2_parses : wf_line F1 D2 = true /\ forall lenient, parse F1 lenient (render D2) = Ok (denote F1 D2).
  Proof. split; [|intros []]; vm_compute; reflexivity. Qed.
  Example D2_value : denote F1 D2 =
    {| ar_opts := [(s "num", VInt 7); (s "quiet", VBool true); (s "verbose", VBool true); (s "color", VStr (s "red")); (s "level", VNone)];
       ar_args := [(s "host", VStr (s "h2"))] |}.
  Proof. vm_compute. reflexivity. Qed.

  (* first command name only; grouped flags alone; group with omitted optional value at the end of the line *)
  Definition D3 := {| ld_names := [s "server"];
    ld_items := [IGroup [o_verbose; o_quiet; o_verbose] None; IPos (s "h3"); IFlag o_quiet false;
                 IGroup [o_verbose] (Some (o_color, GBare))];
    ld_tail := Some [] |}.
  Example D3_parses : wf_line F1 D3 = true /\ forall lenient, parse F1 lenient (render D3) = Ok (denote F1 D3).
  Proof. split; [|intros []]; vm_compute; reflexivity. Qed.

  (* options only (the domain of stage 1) *)
  Definition D4 := {| ld_names := [];
    ld_items := [IVal o_tag LongEq (s "a=b"); IBare o_color true; IGroup [o_verbose; o_quiet] (Some (o_num, GSep (s "3")));
                 IVal o_color ShortSep (s "x"); IFlag o_verbose false; IVal o_tag ShortSep (s "c")];
    ld_tail := None |}.
  Example D4_parses : wf_line F0 D4 = true /\ no_positionals D4 = true /\ no_names D4 = true /\
                      forall lenient, parse F0 lenient (render D4) = Ok (denote F0 D4).
  Proof. split; [|split; [|split; [|intros []]]]; vm_compute; reflexivity. Qed.

  (* "-" and the empty token as positionals; "-" may even follow an omitted optional value *)
  Definition D5 := {| ld_names := [s "server"; s "add"];
    ld_items := [IBare o_color true; IPos (s "-"); IPos (s "80"); IFlag o_quiet false; IPos (s "")];
    ld_tail := None |}.
  Example D5_parses : wf_line F1 D5 = true /\ forall lenient, parse F1 lenient (render D5) = Ok (denote F1 D5).
  Proof. split; [|intros []]; vm_compute; reflexivity. Qed.

  (* lines the side conditions exclude, and what the parser does with them *)
  (* an omitted optional value followed by a positional: the positional is swallowed *)
  Definition X1 := {| ld_names := []; ld_items := [IBare o_color true; IPos (s "h")]; ld_tail := None |}.
  Example X1_excluded : wf_line F1 X1 = false /\ parse F1 true (render X1) <> Ok (denote F1 X1).
  Proof. split; [vm_compute; reflexivity|vm_compute; discriminate]. Qed.
  (* an omitted command name followed by a value equal to it *)
  Definition X2 := {| ld_names := []; ld_items := [IPos (s "srv")]; ld_tail := None |}.
  Example X2_excluded : wf_line F1 X2 = false /\ parse F1 true (render X2) <> Ok (denote F1 X2).
  Proof. split; [vm_compute; reflexivity|vm_compute; discriminate]. Qed.
  (* an omitted optional value followed by an empty token: the token is swallowed *)
  Definition X3 := {| ld_names := [s "server"; s "add"]; ld_items := [IPos (s "h"); IBare o_color true; IPos (s "")]; ld_tail := None |}.
  Example X3_excluded : wf_line F1 X3 = false /\ parse F1 true (render X3) <> Ok (denote F1 X3).
  Proof. split; [vm_compute; reflexivity|vm_compute; discriminate]. Qed.
  (* "--name=" : the empty value counts as no value; for a REQUIRED_VALUE option the line is rejected *)
  Definition X4 := {| ld_names := []; ld_items := [IVal o_num LongEq (s "")]; ld_tail := None |}.
  Example X4_excluded : wf_line F0 X4 = false /\ parse F0 false (render X4) = Err CannotParse.
  Proof. split; vm_compute; reflexivity. Qed.
  (* a value after "--" that equals the first omitted command name is still taken for the command name *)
  Definition X5 := {| ld_names := []; ld_items := []; ld_tail := Some [s "server"] |}.
  Example X5_excluded : wf_line F1 X5 = false /\ parse F1 true (render X5) <> Ok (denote F1 X5).
  Proof. split; [vm_compute; reflexivity|vm_compute; discriminate]. Qed.
End SpellExamples.

(* ---------- the token loop over the rendered line ---------- *)
Lemma names_ok_plain cns names : names_ok cns names = true -> Forall (fun s => plain_tok s = true) names.
Proof.
  revert cns. induction names as [|s r IH]; intros cns H; [constructor|].
  destruct cns as [|c cns]; [discriminate|]. cbn [names_ok] in H. apply andb_prop in H as [H Hr].
  apply andb_prop in H as [Hp _]. constructor; [exact Hp|eapply IH; exact Hr].
Qed.
Lemma items_ok_names f g names items : Forall (fun s => plain_tok s = true) names ->
  items_ok f g items = true -> items_ok f g (map IPos names ++ items) = true.
Proof.
  induction 1 as [|s r Hs Hr IH]; intros Hi; [exact Hi|]. cbn [map app items_ok item_ok looks_ahead].
  rewrite (IH Hi). unfold plain_tok in Hs. apply andb_prop in Hs as [_ Hs]. unfold pos_tok. rewrite Hs. reflexivity.
Qed.
Lemma names_as_items names items :
  flat_map render_item (map IPos names ++ items) = names ++ flat_map render_item items /\
  flat_map item_pos (map IPos names ++ items) = names ++ flat_map item_pos items /\
  flat_map item_events (map IPos names ++ items) = flat_map item_events items.
Proof.
  induction names as [|s r (IH1 & IH2 & IH3)]; [repeat split; reflexivity|].
  cbn [map app flat_map render_item item_pos item_events]. rewrite IH1, IH2, IH3. repeat split; reflexivity.
Qed.

Lemma loop_line f g A cns len d :
  fmt_facts f g A cns -> names_ok cns (ld_names d) = true -> items_ok f g (ld_items d) = true ->
  shape A (ld_names d ++ values d) = true ->
  loop (S (length (render d))) g len true ps_empty (render d) =
  ({| ps_args := place A (ld_names d ++ values d); ps_opts := fold_left raw_event (events d) [] |}, None).
Proof.
  intros FF Hn Hit Hsh. destruct d as [names items tail]. unfold render, values, events in *. cbn [ld_names ld_items ld_tail] in *.
  set (items' := map IPos names ++ items).
  destruct (names_as_items names items) as (E1 & E2 & E3). fold items' in E1, E2, E3.
  rewrite app_assoc, <- E1.
  assert (items_ok f g items' = true) as Hit' by (apply items_ok_names; [eapply names_ok_plain; exact Hn|exact Hit]).
  pose proof (render_items_length items') as Hlen.
  assert (next_dash (render_tail tail) = true) as Hnd by (destruct tail; reflexivity).
  rewrite app_assoc in Hsh. rewrite <- E2 in Hsh.
  rewrite (loop_items f g A len (ff_args _ _ _ _ FF) (ff_names _ _ _ _ FF) (ff_nodup _ _ _ _ FF) items' [] ps_empty);
    [|symmetry; apply place_nil|cbn [app]; eapply shape_app_l; exact Hsh|exact Hit'|exact Hnd|rewrite app_length; lia].
  cbn [app ps_opts ps_empty]. rewrite E3. rewrite app_length.
  destruct tail as [tl|]; cbn [render_tail].
  - cbn [length].
    replace (S (length (flat_map render_item items') + S (length tl)) - length items')
      with (S (S (length (flat_map render_item items') + length tl - length items'))) by lia.
    rewrite loop_dd. rewrite (loop_tail g A len (ff_args _ _ _ _ FF) (ff_names _ _ _ _ FF) (ff_nodup _ _ _ _ FF) tl
                                (flat_map item_pos items'));
      [|reflexivity|exact Hsh|lia].
    cbn [ps_opts]. rewrite E2, <- app_assoc. reflexivity.
  - cbn [length]. rewrite Nat.add_0_r.
    replace (S (length (flat_map render_item items')) - length items')
      with (S (length (flat_map render_item items') - length items')) by lia.
    cbn [loop]. rewrite E2, app_nil_r. reflexivity.
Qed.

(* ---------- parse_spells ---------- *)
Theorem parse_spells_lemma f d : fmt_ok f = true -> wf_line f d = true ->
  forall lenient, parse f lenient (render d) = Ok (denote f d).
Proof.
  intros Hf Hwf len. destruct (fmt_ok_inv f Hf) as (g & A & cns & FF).
  unfold wf_line in Hwf. rewrite (ff_aug _ _ _ _ FF) in Hwf.
  apply andb_prop in Hwf as [Hwf Hclash]. apply andb_prop in Hwf as [Hwf Hreq]. apply andb_prop in Hwf as [Hwf Hfit].
  apply andb_prop in Hwf as [Hn Hit].
  unfold parse, parse_on. rewrite (ff_aug _ _ _ _ FF).
  rewrite (loop_line f g A cns len d FF Hn Hit (shape_line f g A cns FF _ _ Hn Hfit)).
  destruct (finish f g A cns FF (ld_names d) (values d) Hn Hfit Hclash Hreq len (fold_left raw_event (events d) []))
    as (st2 & Hins & Hopts & Hmiss & Hset).
  rewrite Hins, Hmiss. cbn [andb snd]. rewrite Hset. cbn [bind]. rewrite Hopts.
  rewrite (set_options_events f (events d)); [reflexivity| |reflexivity].
  unfold events. eapply items_events_ok. exact Hit.
Qed.

(* the stages of the proof plan, as corollaries *)
Corollary parse_spells_stage1_lemma f d : fmt_ok f = true -> wf_line f d = true ->
  no_positionals d = true -> no_names d = true ->
  forall lenient, parse f lenient (render d) = Ok (denote f d).
Proof. intros Hf Hwf _ _. exact (parse_spells_lemma f d Hf Hwf). Qed.
Corollary parse_spells_stage2_lemma f d : fmt_ok f = true -> wf_line f d = true -> no_names d = true ->
  forall lenient, parse f lenient (render d) = Ok (denote f d).
Proof. intros Hf Hwf _. exact (parse_spells_lemma f d Hf Hwf). Qed.

(* ---------- what the spelled assignment reports (read side of Args on denote) ---------- *)
Lemma wf_line_inv f d : fmt_ok f = true -> wf_line f d = true ->
  NoDup (map fst (get_arguments_all f)) /\ fits (get_arguments_all f) (values d) = true /\
  Forall (ev_ok f) (events d).
Proof.
  intros Hf Hwf. destruct (fmt_ok_inv f Hf) as (g & A & cns & FF).
  unfold wf_line in Hwf. rewrite (ff_aug _ _ _ _ FF) in Hwf.
  apply andb_prop in Hwf as [Hwf _]. apply andb_prop in Hwf as [Hwf _]. apply andb_prop in Hwf as [Hwf Hfit].
  apply andb_prop in Hwf as [_ Hit].
  split; [exact (real_nodup f g A cns FF)|]. split; [exact Hfit|]. unfold events. eapply items_events_ok. exact Hit.
Qed.

Lemma spelled_multi_option_lemma f d n o : fmt_ok f = true -> wf_line f d = true ->
  get_option f n true = Ok o -> get_option f (o_long o) true = Ok o ->
  o_multi o = true -> mentions (o_long o) (events d) = true ->
  args_option f (denote f d) n = Ok (VList (map (fun s => conv_opt o (VStr s)) (texts_of (o_long o) (events d)))).
Proof.
  intros Hf Hwf Hg Hgl Hm Hmen. destruct (wf_line_inv f d Hf Hwf) as (_ & _ & Hev).
  apply denote_option_multi; assumption.
Qed.
Lemma spelled_argument_set_lemma f d i a r : fmt_ok f = true -> wf_line f d = true ->
  nth_error (get_arguments_all f) i = Some (a_name a, a) ->
  get_argument f r true = Ok a -> has_argument f r true = true ->
  args_is_argument_set f (denote f d) r = (i <? length (values d)).
Proof.
  intros Hf Hwf Hn Hg Hh. destruct (wf_line_inv f d Hf Hwf) as (Hnd & Hfit & _).
  eapply denote_argument_set; eassumption.
Qed.
Lemma spelled_argument_value_lemma f d i a r : fmt_ok f = true -> wf_line f d = true ->
  nth_error (get_arguments_all f) i = Some (a_name a, a) ->
  get_argument f r true = Ok a -> has_argument f r true = true ->
  args_argument f (denote f d) r =
  Ok (if i <? length (values d)
      then (if a_multi a then VList (map (conv_arg a) (skipn i (values d))) else conv_arg a (nth i (values d) []))
      else a_default a).
Proof.
  intros Hf Hwf Hn Hg Hh. destruct (wf_line_inv f d Hf Hwf) as (Hnd & Hfit & _).
  eapply denote_argument_value; eassumption.
Qed.

(* the abbreviation of DESIGN.md: the line spells the assignment *)
Definition spells (f : fmt) (asg : args) (line : list str) : Prop :=
  exists d, wf_line f d = true /\ render d = line /\ denote f d = asg.
Lemma spells_parse f asg line : fmt_ok f = true -> spells f asg line ->
  forall lenient, parse f lenient line = Ok asg.
Proof. intros Hf (d & Hwf & <- & <-). apply parse_spells_lemma; assumption. Qed.
