(* C01: a well-formed line parses to the assignment it spells (Model/Spell.v).
   Part 0: sanity checks of the definitions on a concrete format (by computation), before the
   general proof. *)
From Coq Require Import Lia String Ascii.
From Clikit Require Import Base.Prelude Base.Res Model.Conv Model.Flags Model.Format Model.Parser Model.Spell
     Proofs.StrLemmas Proofs.FlagsLemmas Proofs.FormatLemmas Proofs.ParserLemmas.

Module SpellExamples.
  Definition s (x : string) : str := map N_of_ascii (list_ascii_of_string x).
  (* NO_VALUE | STRING | PREFER_SHORT *)
  Definition o_verbose := {| o_long := s "verbose"; o_short := Some (s "v"); o_flags := 134; o_default := VNone |}.
  Definition o_quiet := {| o_long := s "quiet"; o_short := Some (s "q"); o_flags := 134; o_default := VNone |}.
  (* REQUIRED_VALUE | INTEGER *)
  Definition o_num := {| o_long := s "num"; o_short := Some (s "n"); o_flags := 522; o_default := VNone |}.
  (* REQUIRED_VALUE | MULTI_VALUED | STRING *)
  Definition o_tag := {| o_long := s "tag"; o_short := Some (s "t"); o_flags := 170; o_default := VList [] |}.
  (* OPTIONAL_VALUE | STRING *)
  Definition o_color := {| o_long := s "color"; o_short := Some (s "c"); o_flags := 146; o_default := VStr (s "auto") |}.
  (* OPTIONAL_VALUE | INTEGER | NULLABLE, no short name *)
  Definition o_level := {| o_long := s "level"; o_short := None; o_flags := 2577; o_default := VInt 3 |}.
  Definition a_host := {| a_name := s "host"; a_flags := 17; a_default := VNone |}.        (* REQUIRED | STRING *)
  Definition a_port := {| a_name := s "port"; a_flags := 66; a_default := VInt 80 |}.      (* OPTIONAL | INTEGER *)
  Definition a_files := {| a_name := s "files"; a_flags := 22; a_default := VList [] |}.   (* OPTIONAL | MULTI_VALUED | STRING *)
  Definition c_server := {| cn_name := s "server"; cn_aliases := [s "srv"] |}.
  Definition c_add := {| cn_name := s "add"; cn_aliases := [] |}.
  Definition mk (es : list element) (b : option fmt) : fmt :=
    match format_of_elements es b with Ok f => f | Err _ => empty_builder None end.
  (* command names, three arguments (required, optional typed, multi-valued), six options *)
  Definition F1 := mk [ECName c_server; ECName c_add; EArg a_host; EArg a_port; EArg a_files;
                       EOpt o_verbose; EOpt o_quiet; EOpt o_num; EOpt o_tag; EOpt o_color; EOpt o_level] None.
  (* the same spread over a base format *)
  Definition F2 := mk [ECName c_add; EArg a_port; EArg a_files; EOpt o_num; EOpt o_tag; EOpt o_level]
                      (Some (mk [ECName c_server; EArg a_host; EOpt o_verbose; EOpt o_quiet; EOpt o_color] None)).
  (* options only *)
  Definition F0 := mk [EOpt o_verbose; EOpt o_quiet; EOpt o_num; EOpt o_tag; EOpt o_color; EOpt o_level] None.

  Example F0_ok : fmt_ok F0 = true. Proof. vm_compute. reflexivity. Qed.
  Example F1_ok : fmt_ok F1 = true. Proof. vm_compute. reflexivity. Qed.
  Example F2_ok : fmt_ok F2 = true. Proof. vm_compute. reflexivity. Qed.

  (* every item form; aliases for the command names; "--" tail with dash-leading and empty tokens *)
  Definition D1 := {| ld_names := [s "srv"; s "add"];
    ld_items := [IFlag o_verbose true; IPos (s "h1"); IVal o_num LongEq (s "-5"); IVal o_tag ShortGlued (s "x");
                 IGroup [o_verbose; o_quiet] (Some (o_tag, GSep (s "y"))); IPos (s "8080"); IBare o_color false;
                 IVal o_tag LongSep (s "z"); IBare o_level true];
    ld_tail := Some [s "-a"; s ""; s "b"] |}.
  Example D1_wf : wf_line F1 D1 = true. Proof. vm_compute. reflexivity. Qed.
  Example D1_tokens : render D1 =
    [s "srv"; s "add"; s "--verbose"; s "h1"; s "--num=-5"; s "-tx"; s "-vqt"; s "y"; s "8080"; s "-c"; s "--tag"; s "z";
     s "--level"; s "--"; s "-a"; s ""; s "b"].
  Proof. vm_compute. reflexivity. Qed.
  Example D1_value : denote F1 D1 =
    {| ar_opts := [(s "verbose", VBool true); (s "num", VInt (-5)); (s "tag", VList [VStr (s "x"); VStr (s "y"); VStr (s "z")]);
                   (s "quiet", VBool true); (s "color", VStr (s "auto")); (s "level", VInt 3)];
       ar_args := [(s "host", VStr (s "h1")); (s "port", VInt 8080); (s "files", VList [VStr (s "-a"); VStr (s ""); VStr (s "b")])] |}.
  Proof. vm_compute. reflexivity. Qed.
  Example D1_parses : forall lenient, parse F1 lenient (render D1) = Ok (denote F1 D1).
  Proof. intros []; vm_compute; reflexivity. Qed.
  Example D1_parses_over_base : wf_line F2 D1 = true /\ forall lenient, parse F2 lenient (render D1) = Ok (denote F2 D1).
  Proof. split; [|intros []]; vm_compute; reflexivity. Qed.

  (* command names omitted; short separated value; grouped flags with glued value; "null" of a nullable option *)
  Definition D2 := {| ld_names := [];
    ld_items := [IVal o_num ShortSep (s "12"); IPos (s "h2"); IGroup [o_quiet; o_verbose] (Some (o_color, GGlued (s "red")));
                 IVal o_level LongEq (s "null"); IVal o_num ShortGlued (s "7")];
    ld_tail := None |}.
  Example D2_parses : wf_line F1 D2 = true /\ forall lenient, parse F1 lenient (render D2) = Ok (denote F1 D2).
  Proof. split; [|intros []]; vm_compute; reflexivity. Qed.
  Example D2_value : denote F1 D2 =
    {| ar_opts := [(s "num", VInt 7); (s "quiet", VBool true); (s "verbose", VBool true); (s "color", VStr (s "red")); (s "level", VNone)];
       ar_args := [(s "host", VStr (s "h2"))] |}.
  Proof. vm_compute. reflexivity. Qed.

  (* first command name only; grouped flags alone; group with omitted optional value at the end of the line *)
  Definition D3 := {| ld_names := [s "server"];
    ld_items := [IGroup [o_verbose; o_quiet; o_verbose] None; IPos (s "h3"); IFlag o_quiet false;
                 IGroup [o_verbose] (Some (o_color, GBare))];
    ld_tail := Some [] |}.
  Example D3_parses : wf_line F1 D3 = true /\ forall lenient, parse F1 lenient (render D3) = Ok (denote F1 D3).
  Proof. split; [|intros []]; vm_compute; reflexivity. Qed.

  (* options only (the domain of stage 1) *)
  Definition D4 := {| ld_names := [];
    ld_items := [IVal o_tag LongEq (s "a=b"); IBare o_color true; IGroup [o_verbose; o_quiet] (Some (o_num, GSep (s "3")));
                 IVal o_color ShortSep (s "x"); IFlag o_verbose false; IVal o_tag ShortSep (s "c")];
    ld_tail := None |}.
  Example D4_parses : wf_line F0 D4 = true /\ no_positionals D4 = true /\ no_names D4 = true /\
                      forall lenient, parse F0 lenient (render D4) = Ok (denote F0 D4).
  Proof. split; [|split; [|split; [|intros []]]]; vm_compute; reflexivity. Qed.

  (* lines the side conditions exclude, and what the parser does with them *)
  (* an omitted optional value followed by a positional: the positional is swallowed *)
  Definition X1 := {| ld_names := []; ld_items := [IBare o_color true; IPos (s "h")]; ld_tail := None |}.
  Example X1_excluded : wf_line F1 X1 = false /\ parse F1 true (render X1) <> Ok (denote F1 X1).
  Proof. split; [vm_compute; reflexivity|vm_compute; discriminate]. Qed.
  (* an omitted command name followed by a value equal to it *)
  Definition X2 := {| ld_names := []; ld_items := [IPos (s "srv")]; ld_tail := None |}.
  Example X2_excluded : wf_line F1 X2 = false /\ parse F1 true (render X2) <> Ok (denote F1 X2).
  Proof. split; [vm_compute; reflexivity|vm_compute; discriminate]. Qed.
End SpellExamples.
