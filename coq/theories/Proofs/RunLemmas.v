(* Proofs about Model/Run.v (C04). *)
From Coq Require Import Lia.
From Clikit Require Import Base.Prelude Base.Res Model.Conv Model.Run.

Lemma clamp_range z : (1 <= clamp z <= 255)%Z.
Proof. unfold clamp. lia. Qed.

(* the status handle() returns is 0 or in 1..255 *)
Lemma handle_status debug ls h s n : handle debug ls h = (inl s, n) -> (0 <= s <= 255)%Z.
Proof.
  unfold handle. destruct (do_handle ls h) as [r calls].
  destruct r as [v|e].
  - destruct (truthy v); cbn [negb]; [|intros H; inversion H; lia].
    destruct (to_int v); intros H; inversion H. pose proof (clamp_range z). lia.
  - destruct (e_keyboard e && negb debug); [cbn; intros H; inversion H; cbn; lia|discriminate].
Qed.

(* a run with exception catching enabled whose report renderer returns: an integer status in 0..255, never an escape *)
Lemma run_status_lemma debug ls h :
  exists s, r_end (run true debug true ls h) = Status s /\ (0 <= s <= 255)%Z.
Proof.
  unfold run. destruct (handle debug ls h) as [[s|e] calls] eqn:E.
  - exists s. split; [reflexivity|]. eapply handle_status; eauto.
  - destruct (e_keyboard e); cbn; exists 1%Z; split; auto; lia.
Qed.

(* the handler of the selected command is invoked exactly once, unless a pre-handle listener handled the
   event or failed - then not at all *)
Definition listeners_pass (ls : list listener) : Prop := dispatch_pre ls None = inl None.
Lemma handler_once_lemma catch debug ok ls h :
  (listeners_pass ls -> r_handler_calls (run catch debug ok ls h) = 1) /\
  (~ listeners_pass ls -> r_handler_calls (run catch debug ok ls h) = 0).
Proof.
  unfold listeners_pass, run, handle, do_handle.
  destruct (dispatch_pre ls None) as [[st|]|e] eqn:E; split; intros H; try discriminate; try (exfalso; apply H; reflexivity).
  - destruct (negb (truthy st)); [reflexivity|]. destruct (to_int st); [reflexivity|]. cbn.
    destruct catch, ok; reflexivity.
  - destruct h as [v|e].
    + destruct (negb (truthy v)); [reflexivity|]. destruct (to_int v); [reflexivity|]. cbn. destruct catch, ok; reflexivity.
    + destruct (e_keyboard e && negb debug) eqn:Ek; [reflexivity|]. destruct (e_keyboard e), catch, ok; reflexivity.
  - destruct (e_keyboard e && negb debug) eqn:Ek; [reflexivity|]. destruct (e_keyboard e), catch, ok; reflexivity.
Qed.

(* with passing listeners: status 0 exactly for a falsy return value; the clamped integer for a truthy
   convertible one; status 1 with an error report for every other exception (KeyboardInterrupt: 1, no report) *)
Lemma ret_falsy debug ls v : listeners_pass ls -> truthy v = false ->
  run true debug true ls (Ret v) = {| r_end := Status 0; r_handler_calls := 1; r_reported := false; r_simple := false |}.
Proof. unfold listeners_pass, run, handle, do_handle. intros -> ->. reflexivity. Qed.
Lemma ret_truthy debug ls v z : listeners_pass ls -> truthy v = true -> to_int v = Some z ->
  run true debug true ls (Ret v) = {| r_end := Status (clamp z); r_handler_calls := 1; r_reported := false; r_simple := false |}.
Proof. unfold listeners_pass, run, handle, do_handle. intros -> -> ->. reflexivity. Qed.
Lemma ret_unconvertible debug ls v : listeners_pass ls -> truthy v = true -> to_int v = None ->
  run true debug true ls (Ret v) = {| r_end := Status 1; r_handler_calls := 1; r_reported := true; r_simple := false |}.
Proof. unfold listeners_pass, run, handle, do_handle. intros -> -> ->. reflexivity. Qed.
Lemma raise_reported debug ls e : listeners_pass ls -> e_keyboard e = false ->
  run true debug true ls (Raise e) = {| r_end := Status 1; r_handler_calls := 1; r_reported := true; r_simple := e_clikit e |}.
Proof. unfold listeners_pass, run, handle, do_handle. intros -> He. rewrite He. cbn. rewrite He. reflexivity. Qed.
Lemma raise_keyboard debug ls e : listeners_pass ls -> e_keyboard e = true ->
  run true debug true ls (Raise e) = {| r_end := Status 1; r_handler_calls := 1; r_reported := false; r_simple := false |}.
Proof.
  unfold listeners_pass, run, handle, do_handle. intros -> He. rewrite He. destruct debug; cbn; [rewrite He|]; reflexivity.
Qed.
Lemma status_zero_iff_lemma debug ls v : listeners_pass ls ->
  (r_end (run true debug true ls (Ret v)) = Status 0 <-> truthy v = false).
Proof.
  intros Hl. split.
  - destruct (truthy v) eqn:Et; [|reflexivity]. destruct (to_int v) as [z|] eqn:Ez.
    + rewrite (ret_truthy _ _ _ _ Hl Et Ez). cbn. intros H. inversion H. pose proof (clamp_range z). lia.
    + rewrite (ret_unconvertible _ _ _ Hl Et Ez). cbn. discriminate.
  - intros Et. rewrite (ret_falsy _ _ _ Hl Et). reflexivity.
Qed.
