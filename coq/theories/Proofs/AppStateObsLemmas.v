(* C17: the whole observation of a run (summary + the arguments the handler is given) is independent of the history, and
   one raw-arguments object may be handed to run() again (Model/AppState.v: obs_on, run_same). *)
From Coq Require Import Lia.
From Clikit Require Import Base.Prelude Base.Res Model.Conv Model.Format Model.Parser Model.Resolver Model.Run
     Model.Tokenizer Model.Switches Model.AppState Proofs.AppStateLemmas Proofs.AppStateRestoreLemmas.

Lemma obs_on_state st a toks : fst (obs_on st a toks) = fst (run_on st a toks).
Proof. unfold obs_on. destruct (run_on st a toks); reflexivity. Qed.
Lemma obs_on_summary st a toks : fst (snd (obs_on st a toks)) = snd (run_on st a toks).
Proof. unfold obs_on. destruct (run_on st a toks); reflexivity. Qed.
(* the observation reads the state only through the application as the overrides make it *)
Lemma obs_on_obs st st' a toks : apply_state st a = apply_state st' a -> snd (obs_on st a toks) = snd (obs_on st' a toks).
Proof.
  intros H. pose proof (run_on_obs st st' a toks H) as Ho. unfold obs_on.
  destruct (run_on st a toks) as [s1 sm1], (run_on st' a toks) as [s2 sm2]. cbn [snd] in *. subst sm2. now rewrite H.
Qed.
Lemma obs_on_keeps st a toks : apply_state (fst (obs_on st a toks)) a = apply_state st a.
Proof. rewrite obs_on_state. apply run_on_state_holds. Qed.

(* every run of a history: the summary AND the arguments its handler is given are those of a fresh application *)
Lemma runs_obs_independent_from a : forall lines st, apply_state st a = apply_state [] a ->
  runs_obs_on st a lines = map (fun l => snd (obs_on [] a l)) lines.
Proof.
  induction lines as [|l r IH]; intros st Hst; cbn [runs_obs_on map]; [reflexivity|].
  pose proof (obs_on_obs st [] a l Hst) as Ho. pose proof (obs_on_keeps st a l) as Hk.
  destruct (obs_on st a l) as [st1 o]. cbn [fst snd] in *. rewrite Ho. f_equal. apply IH. congruence.
Qed.
Lemma runs_obs_independent_fresh a lines : runs_obs_on [] a lines = map (fun l => snd (obs_on [] a l)) lines.
Proof. now apply runs_obs_independent_from. Qed.
(* the arguments are the ones the resolver parses for the line on the fresh application *)
Lemma fresh_handler_args a toks : apply_state [] a = a ->
  snd (snd (obs_on [] a toks)) = handler_args a toks (sm_action (run_summary false a toks)).
Proof. intros H. unfold obs_on, run_on. rewrite H. cbn [snd]. destruct (sm_action (run_summary false a toks)); reflexivity. Qed.

(* ---- the raw-arguments object ---- *)
(* since the repair the help resolver works on a copy: a run leaves the caller's tokens as they were *)
Lemma raw_args_unaltered_lemma x toks : raw_after false x toks = toks.
Proof. destruct x, toks; reflexivity. Qed.
(* ONE object handed to run() n times: every run sees the same tokens and gives what a fresh application gives *)
Lemma run_same_lemma a toks : forall n st, apply_state st a = apply_state [] a ->
  snd (run_same false n st a toks) = repeat (toks, snd (obs_on [] a toks)) n /\
  apply_state (fst (run_same false n st a toks)) a = apply_state [] a.
Proof.
  induction n as [|n IH]; intros st Hst; cbn [run_same repeat]; [split; [reflexivity|exact Hst]|].
  pose proof (obs_on_obs st [] a toks Hst) as Ho. pose proof (obs_on_keeps st a toks) as Hk.
  destruct (obs_on st a toks) as [st1 o]. cbn [fst snd] in *. rewrite raw_args_unaltered_lemma.
  assert (H1 : apply_state st1 a = apply_state [] a) by congruence.
  destruct (IH st1 H1) as [Hs Hf]. destruct (run_same false n st1 a toks) as [st2 r]. cbn [fst snd] in *.
  split; [rewrite Ho, Hs; reflexivity|exact Hf].
Qed.
Lemma runs_twice_lemma a : forall lines st, apply_state st a = apply_state [] a ->
  runs_twice_on false st a lines = flat_map (fun l => [(l, snd (obs_on [] a l)); (l, snd (obs_on [] a l))]) lines.
Proof.
  induction lines as [|l r IH]; intros st Hst; cbn [runs_twice_on flat_map]; [reflexivity|].
  destruct (run_same_lemma a l 2 st Hst) as [Hs Hf]. destruct (run_same false 2 st a l) as [st' os]. cbn [fst snd] in *.
  rewrite Hs. cbn [repeat app]. do 2 f_equal. apply IH. exact Hf.
Qed.

(* before the repair (del args.tokens[0] in the caller's object): "help go" handed to run() twice shows the help page of
   go, then RUNS go *)
Module RawArgsExample.
Definition s_go : str := [103;111]%N.
Definition s_command : str := [99;111;109;109;97;110;100]%N.
Definition o_help : opt := {| o_long := S_help; o_short := Some [104%N]; o_flags := 4 + 2 + 128; o_default := VNone |}.
Definition a_command : arg := {| a_name := s_command; a_flags := 2 + 4 + 16; a_default := VList [] |}.
Definition cfg : appcfg :=
  {| ac_opts := [o_help]; ac_args := [];
     ac_cmds := [Cmd S_help [] true false true false [] [a_command] []; Cmd s_go [] false false true false [] [] []] |}.
Example reuse_refuted_in_place :
  match build_app cfg with
  | Ok a => map (fun to => (fst to, sm_action (fst (snd to)))) (snd (run_same true 2 [] a [S_help; s_go]))
            = [([S_help; s_go], AHelpCmd [s_go]); ([s_go], AHandler [s_go])]
  | Err _ => False
  end.
Proof. vm_compute. reflexivity. Qed.
Example reuse_holds_with_copy :
  match build_app cfg with
  | Ok a => map (fun to => (fst to, sm_action (fst (snd to)))) (snd (run_same false 2 [] a [S_help; s_go]))
            = [([S_help; s_go], AHelpCmd [s_go]); ([S_help; s_go], AHelpCmd [s_go])]
  | Err _ => False
  end.
Proof. vm_compute. reflexivity. Qed.
End RawArgsExample.
