From Coq Require Import Lia.
From Clikit Require Import Base.Prelude Model.Gate Proofs.Bits.



Lemma may_write_level q v f : (0 <= v)%Z ->
  may_write q v f = negb q && (lowest_level f <=? v)%Z.
Proof.
  intros Hv. unfold may_write, lowest_level.
  destruct q; cbn [negb andb]; [reflexivity|].
  destruct f as [f|].
  - change VERBOSE with (2 ^ 0)%Z at 1. change VERY_VERBOSE with (2 ^ 1)%Z at 1. change DEBUG with (2 ^ 2)%Z at 1.
    rewrite !land_pow2_testbit by lia. rewrite !negb_involutive.
    destruct (Z.testbit f 0); [reflexivity|].
    destruct (Z.testbit f 1); [reflexivity|].
    destruct (Z.testbit f 2); [reflexivity|].
    unfold NORMAL. symmetry. apply Z.leb_le. lia.
  - cbn. unfold NORMAL. symmetry. apply Z.leb_le. lia.
Qed.

Lemma may_write_none q v f : may_write q v f = true -> may_write q v None = true.
Proof. unfold may_write. destruct q; [discriminate|]. reflexivity. Qed.

Lemma gate_iff_lemma k a m q v f p :
  path k a m = Some p ->
  emits k a m q v (if takes_flags m then f else None) = may_write q v (if takes_flags m then f else None).
Proof.
  unfold emits. intros Hp. rewrite Hp.
  destruct k, a, m; cbn in Hp; inversion Hp; subst; cbn [forallb takes_flags];
    rewrite ?andb_true_r; try reflexivity;
    destruct (may_write q v f) eqn:E; cbn; try reflexivity;
    try (now rewrite (may_write_none _ _ _ E));
    destruct (may_write q v None); reflexivity.
Qed.

Lemma gate_monotone_lemma v v' f : (0 <= v <= v')%Z ->
  may_write false v f = true -> may_write false v' f = true.
Proof.
  intros Hv. rewrite !may_write_level by lia. cbn. rewrite !Z.leb_le. lia.
Qed.
Lemma quiet_silent_lemma v f : may_write true v f = false.
Proof. reflexivity. Qed.

