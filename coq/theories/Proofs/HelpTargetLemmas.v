(* "help <path>" and "<path> --help" resolve to the same help target (Model/Switches.v help_target), hence print the
   same page: both walk the names of <path>; what differs is only the token list handed to the lenient parse. *)
From Clikit Require Import Base.Prelude Base.Res Model.Conv Model.Format Model.Parser Model.Resolver Model.Switches
     Proofs.StrLemmas Proofs.ResolverLemmas.

(* the leading "help" word is dropped *)
Lemma help_word_dropped a toks :
  (match toks with t :: _ => str_eqb t S_help = false | [] => True end) ->
  help_target a (S_help :: toks) = help_target a toks.
Proof.
  intros H. unfold help_target. rewrite str_eqb_refl. destruct toks as [|t r]; [reflexivity|]. now rewrite H.
Qed.

(* a command without default sub-commands: both spellings give the path walked *)
Lemma help_same_target a path o r b p x1 x2 :
  forallb lead_ok path = true ->
  (match path with t :: _ => str_eqb t S_help = false | [] => True end) ->
  starts_dash o = true ->
  walk (named_of (ap_cmds a)) None path = Ok (Some (b, p)) ->
  defaults_of (b_subs b) = [] ->
  parse (b_fmt b) true path = Ok x1 -> parse (b_fmt b) true (path ++ o :: r) = Ok x2 ->
  help_target a (S_help :: path) = Ok p /\ help_target a (path ++ o :: r) = Ok p.
Proof.
  intros Hl Hh Ho Hw Hd Hp1 Hp2.
  destruct path as [|t path']; [cbn in Hw; discriminate|].
  split.
  - rewrite help_word_dropped by exact Hh. unfold help_target. rewrite Hh.
    rewrite (leading_all _ Hl), Hw. cbn [bind]. rewrite Hd. cbn [help_pick_default bind]. unfold help_lenient. now rewrite Hp1.
  - unfold help_target. cbn [app]. rewrite Hh. change (t :: path' ++ o :: r) with ((t :: path') ++ o :: r).
    rewrite (leading_cut _ o r Hl (option_is_stopper _ Ho)), Hw. cbn [bind]. rewrite Hd. cbn [help_pick_default bind]. unfold help_lenient. now rewrite Hp2.
Qed.
