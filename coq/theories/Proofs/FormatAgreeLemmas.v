(* C06, full agreement of a builder and the format built from it.

   ArgsFormat(builder) copies the builder's base, command names, arguments, options and flags, but REBUILDS
   the option short-name index and both command-option indexes from the listings.  The invariant idx_inv
   says that the builder's own indexes are exactly those rebuilt ones; it holds for every empty builder
   (over any base whatsoever) and is kept by every builder operation, so that for every reachable builder
   build_format f = f, and in particular every public query is answered identically. *)
From Clikit Require Import Base.Prelude Base.Res Model.Conv Model.Flags Model.Format Proofs.StrLemmas Proofs.FormatLemmas.

(* ---------- the rebuilt indexes, named ---------- *)
Definition short_step (d : list (str * opt)) (no : str * opt) : list (str * opt) :=
  match o_short (snd no) with Some s => sset s (snd no) d | None => d end.
(* what ArgsFormat.__init__ computes for _options_by_short_name *)
Definition short_index (os : list (str * opt)) : list (str * opt) := fold_left short_step os [].

Definition addkeys {V} (v : V) (ks : list str) (d : list (str * V)) : list (str * V) :=
  fold_left (fun d a => sset a v d) ks d.
(* the keys under which a command option is filed: long index, short index *)
Definition lkeys (c : copt) : list str := co_long c :: co_lals c.
Definition skeys (c : copt) : list str := olist (co_short c) ++ co_sals c.
Definition cstep (acc : list (str * copt) * list (str * copt)) (c : copt) : list (str * copt) * list (str * copt) :=
  (addkeys c (lkeys c) (fst acc), addkeys c (skeys c) (snd acc)).

(* the builder's own indexes are the ones the format would rebuild from the listings *)
Definition idx_inv (f : fmt) : Prop :=
  f_opts_short f = short_index (f_opts f) /\
  (f_copts f, f_copts_short f) = index_copts (map snd (f_copts f)).

Lemma addkeys_skeys (c : copt) (cs : list (str * copt)) :
  addkeys c (skeys c) cs =
  fold_left (fun d a => sset a c d) (co_sals c) (match co_short c with Some s => sset s c cs | None => cs end).
Proof. unfold addkeys, skeys. destruct (co_short c) as [s|]; reflexivity. Qed.

Lemma index_copts_fold (l : list copt) : index_copts l = fold_left cstep l ([], []).
Proof.
  unfold index_copts. generalize (@nil (str * copt), @nil (str * copt)).
  induction l as [|c r IH]; intros acc; cbn [fold_left]; [reflexivity|].
  rewrite IH. f_equal. destruct acc as [co cs]. unfold cstep. cbn [fst snd].
  rewrite addkeys_skeys. reflexivity.
Qed.

Lemma idx_inv_build f : idx_inv f -> build_format f = f.
Proof.
  destruct f as [b cn co cs ar os oss hm ho]. unfold idx_inv. cbn [f_opts_short f_opts f_copts f_copts_short].
  intros [Hs Hc]. unfold build_format. rewrite <- Hc.
  change (fold_left _ os []) with (short_index os). rewrite <- Hs. reflexivity.
Qed.

(* ---------- association-list facts ---------- *)
Section Keys.
  Context {V : Type}.
  Implicit Types (d : list (str * V)) (v : V).

  Lemma sset_same k v d : sget k d = Some v -> sset k v d = d.
  Proof.
    unfold sget, sset. induction d as [|[k' v'] r IH]; cbn [aget aset]; [discriminate|].
    destruct (str_eqb k k'); intros H; [inversion H; reflexivity|]. now rewrite IH.
  Qed.

  Lemma addkeys_id v ks : forall d, (forall k, In k ks -> sget k d = Some v) -> addkeys v ks d = d.
  Proof.
    unfold addkeys. induction ks as [|k r IH]; intros d H; cbn [fold_left]; [reflexivity|].
    rewrite sset_same by (apply H; now left). apply IH. intros k' Hk'. apply H. now right.
  Qed.

  Lemma addkeys_get v ks k d : In k ks -> sget k (addkeys v ks d) = Some v.
  Proof.
    intros Hk. unfold addkeys, sget, sset. rewrite sget_fold_sset.
    assert (existsb (str_eqb k) ks = true) as ->; [|reflexivity].
    apply existsb_exists. exists k. split; [exact Hk|apply str_eqb_refl].
  Qed.

  (* keys absent from d0 are appended behind d0, all with value v; nothing in d0 moves *)
  Lemma addkeys_ext v ks : forall d0 ext,
    (forall k, In k ks -> sget k d0 = None) -> Forall (fun e => snd e = v) ext ->
    exists more, addkeys v ks (d0 ++ ext) = d0 ++ ext ++ more /\ Forall (fun e => snd e = v) more.
  Proof.
    induction ks as [|k r IH]; intros d0 ext Hfr Hext.
    - exists []. cbn. now rewrite app_nil_r.
    - assert (Hk : sget k d0 = None) by (apply Hfr; now left).
      assert (Hr : forall k', In k' r -> sget k' d0 = None) by (intros k' Hk'; apply Hfr; now right).
      unfold addkeys. cbn [fold_left]. fold (addkeys v r (sset k v (d0 ++ ext))).
      destruct (sget k ext) as [w|] eqn:Ek.
      + assert (w = v) as ->.
        { unfold sget in Ek. apply sget_in in Ek. rewrite Forall_forall in Hext. exact (Hext _ Ek). }
        rewrite sset_same; [apply IH; assumption|].
        unfold sget in *. rewrite sget_app, Hk. exact Ek.
      + assert (sset k v (d0 ++ ext) = d0 ++ (ext ++ [(k, v)])) as ->.
        { unfold sset, sget in *. rewrite sset_absent by (rewrite sget_app, Hk; exact Ek). now rewrite <- app_assoc. }
        destruct (IH d0 (ext ++ [(k, v)]) Hr) as [more [Hm Hf]].
        { apply Forall_app. split; [exact Hext|]. constructor; [reflexivity|constructor]. }
        exists ((k, v) :: more). split; [|constructor; [reflexivity|exact Hf]].
        rewrite Hm, <- app_assoc. reflexivity.
  Qed.
End Keys.

(* ---------- own tables do not hold a name that is not taken ---------- *)
Lemma not_taken_own b cn co cs ar os oss hm ho n :
  opt_name_taken (Fmt b cn co cs ar os oss hm ho) n = false ->
  sget n os = None /\ sget n oss = None /\ sget n co = None /\ sget n cs = None.
Proof.
  unfold opt_name_taken. cbn [has_option_all has_command_option_all]. rewrite !shas_sget. intros H.
  apply orb_false_elim in H as [Ho Hc].
  apply orb_false_elim in Ho as [Ho _]. apply orb_false_elim in Ho as [Ho1 Ho2].
  apply orb_false_elim in Hc as [Hc _]. apply orb_false_elim in Hc as [Hc1 Hc2].
  destruct (sget n os), (sget n oss), (sget n co), (sget n cs); try discriminate. repeat split; reflexivity.
Qed.

Lemma existsb_false_in {X} (p : X -> bool) l x : existsb p l = false -> In x l -> p x = false.
Proof.
  intros H Hx. destruct (p x) eqn:E; [|reflexivity].
  assert (existsb p l = true) by (apply existsb_exists; eauto). congruence.
Qed.

(* ---------- add_option ---------- *)
Lemma short_index_snoc os no : short_index (os ++ [no]) = short_step (short_index os) no.
Proof. unfold short_index. now rewrite fold_left_app. Qed.

Lemma add_option_keeps_idx f o f' : idx_inv f -> add_option f o = Ok f' -> idx_inv f'.
Proof.
  unfold add_option. destruct (opt_name_taken f (o_long o)) eqn:Hl; [discriminate|].
  destruct (optname_taken f (o_short o)); [discriminate|].
  destruct f as [b cn co cs ar os oss hm ho]. intros [Hs Hc] H. inversion H; subst f'. clear H.
  apply not_taken_own in Hl as (Hos & _).
  unfold idx_inv in *. cbn [f_opts_short f_opts f_copts f_copts_short] in *. split; [|exact Hc].
  unfold sset, sget in *. rewrite (sset_absent _ _ _ Hos), short_index_snoc, <- Hs.
  unfold short_step. cbn [snd]. reflexivity.
Qed.

(* ---------- add_command_option ---------- *)
Lemma cstep_fixed acc c : forall l,
  cstep acc c = acc -> Forall (fun e : str * copt => snd e = c) l -> fold_left cstep (map snd l) acc = acc.
Proof.
  induction l as [|[k x] r IH]; intros Hfix Hall; cbn [map fold_left]; [reflexivity|].
  pose proof (Forall_inv Hall) as Hx. pose proof (Forall_inv_tail Hall) as Hr.
  cbn [snd] in *. rewrite Hx, Hfix. now apply IH.
Qed.

Lemma cstep_idem acc c : cstep (cstep acc c) c = cstep acc c.
Proof.
  unfold cstep. cbn [fst snd]. f_equal; apply addkeys_id; intros k Hk; now apply addkeys_get.
Qed.

Lemma add_copt_shape b cn co cs ar os oss hm ho c f' :
  add_command_option (Fmt b cn co cs ar os oss hm ho) c = Ok f' ->
  f' = Fmt b cn (fst (cstep (co, cs) c)) (snd (cstep (co, cs) c)) ar os oss hm ho /\
  (forall k, In k (lkeys c) -> sget k co = None).
Proof.
  unfold add_command_option. set (f := Fmt b cn co cs ar os oss hm ho).
  destruct (opt_name_taken f (co_long c)) eqn:Hl; [discriminate|].
  destruct (existsb (opt_name_taken f) (co_lals c)) eqn:Hla; [discriminate|].
  destruct (optname_taken f (co_short c)); [discriminate|].
  destruct (existsb (opt_name_taken f) (co_sals c)); [discriminate|].
  unfold f. intros H. inversion H; subst f'. clear H. split.
  - unfold cstep. cbn [fst snd]. rewrite addkeys_skeys. reflexivity.
  - intros k [<-|Hk].
    + now apply not_taken_own in Hl as (_ & _ & Hco & _).
    + pose proof (existsb_false_in _ _ k Hla Hk) as Hk'. now apply not_taken_own in Hk' as (_ & _ & Hco & _).
Qed.

Lemma add_copt_keeps_idx f c f' : idx_inv f -> add_command_option f c = Ok f' -> idx_inv f'.
Proof.
  destruct f as [b cn co cs ar os oss hm ho]. intros [Hs Hc] H.
  apply add_copt_shape in H as [-> Hfr].
  unfold idx_inv in *. cbn [f_opts_short f_opts f_copts f_copts_short] in *. split; [exact Hs|].
  rewrite index_copts_fold in *.
  (* the long index grows behind co, by entries that all hold c, the first of them under the long name *)
  assert (exists more, fst (cstep (co, cs) c) = co ++ (co_long c, c) :: more /\ Forall (fun e => snd e = c) more) as [more [Hco Hall]].
  { unfold cstep, lkeys. cbn [fst]. unfold addkeys at 1. cbn [fold_left]. fold (addkeys c (co_lals c) (sset (co_long c) c co)).
    assert (sset (co_long c) c co = co ++ [(co_long c, c)]) as ->.
    { unfold sset, sget in *. apply sset_absent. apply Hfr. now left. }
    destruct (addkeys_ext c (co_lals c) co [(co_long c, c)]) as [more [Hm Hf]].
    - intros k Hk. apply Hfr. now right.
    - constructor; [reflexivity|constructor].
    - exists more. split; [exact Hm|exact Hf]. }
  rewrite Hco at 2. rewrite map_app, fold_left_app, <- Hc. cbn [map fold_left snd].
  rewrite (cstep_fixed _ c more (cstep_idem _ _) Hall). symmetry. apply surjective_pairing.
Qed.

(* ---------- every builder operation ---------- *)
Lemma add_argument_keeps_idx f a f' : idx_inv f -> add_argument f a = Ok f' -> idx_inv f'.
Proof.
  intros Hi H. unfold add_argument in H.
  repeat match type of H with (if ?c then _ else _) = _ => destruct c; [discriminate|] end.
  destruct f. inversion H; subst. exact Hi.
Qed.
Lemma add_cname_keeps_idx f c f' : idx_inv f -> add_command_name f c = Ok f' -> idx_inv f'.
Proof. intros Hi H. destruct f. cbn in H. inversion H; subst. exact Hi. Qed.

Lemma add_all_keeps {X} (P : fmt -> Prop) (add : fmt -> X -> res fmt) :
  (forall f x f', P f -> add f x = Ok f' -> P f') ->
  forall xs f, P f -> P (fst (add_all add f xs)).
Proof.
  intros Hadd. induction xs as [|x r IH]; intros f Hf; cbn [add_all]; [exact Hf|].
  destruct (add f x) as [f'|k] eqn:E; [|exact Hf]. apply IH. eapply Hadd; eauto.
Qed.

Lemma bstep_keeps_idx f o : idx_inv f -> idx_inv (fst (bstep f o)).
Proof.
  intros Hi. destruct o as [o|c|a|c|l|l|l|l]; cbn [bstep].
  - destruct (add_option f o) eqn:E; cbn [lift fst]; [eapply add_option_keeps_idx; eauto|exact Hi].
  - destruct (add_command_option f c) eqn:E; cbn [lift fst]; [eapply add_copt_keeps_idx; eauto|exact Hi].
  - destruct (add_argument f a) eqn:E; cbn [lift fst]; [eapply add_argument_keeps_idx; eauto|exact Hi].
  - destruct (add_command_name f c) eqn:E; cbn [lift fst]; [eapply add_cname_keeps_idx; eauto|exact Hi].
  - destruct f as [b cn co cs ar os oss hm ho].
    apply (add_all_keeps idx_inv add_option add_option_keeps_idx).
    destruct Hi as [_ Hc]. split; [reflexivity|exact Hc].
  - destruct f as [b cn co cs ar os oss hm ho].
    apply (add_all_keeps idx_inv add_command_option add_copt_keeps_idx).
    destruct Hi as [Hs _]. split; [exact Hs|reflexivity].
  - destruct f as [b cn co cs ar os oss hm ho].
    apply (add_all_keeps idx_inv add_argument add_argument_keeps_idx). exact Hi.
  - destruct f as [b cn co cs ar os oss hm ho].
    apply (add_all_keeps idx_inv add_command_name add_cname_keeps_idx). exact Hi.
Qed.

Lemma empty_builder_idx base : idx_inv (empty_builder base).
Proof. split; reflexivity. Qed.

Lemma brun_keeps_idx ops : forall f, idx_inv f -> idx_inv (brun f ops).
Proof.
  induction ops as [|o r IH]; intros f Hi; cbn [brun]; [exact Hi|]. apply IH. now apply bstep_keeps_idx.
Qed.

(* ArgsFormat(elements, base) goes through the same additions *)
Lemma add_elements_keeps_idx es : forall f f', idx_inv f -> add_elements f es = Ok f' -> idx_inv f'.
Proof.
  induction es as [|e r IH]; intros f f' Hi H; cbn [add_elements] in H; [inversion H; subst; exact Hi|].
  destruct e as [o|c|a|c]; unfold bind at 1 in H;
    match type of H with (match ?x with _ => _ end) = _ => destruct x as [f1|k] eqn:E; [|discriminate] end;
    (apply (IH f1 f'); [|exact H]).
  - eapply add_option_keeps_idx; eauto.
  - eapply add_copt_keeps_idx; eauto.
  - eapply add_argument_keeps_idx; eauto.
  - eapply add_cname_keeps_idx; eauto.
Qed.

(* ---------- the public queries, one type ---------- *)
Inductive query :=
| QCommandNames (incl : bool) | QHasCommandNames (incl : bool)
| QHasCommandOption (n : str) (incl : bool) | QGetCommandOption (n : str) (incl : bool)
| QCommandOptions (incl : bool) | QHasCommandOptions (incl : bool)
| QHasArgument (r : aref) (incl : bool) | QGetArgument (r : aref) (incl : bool)
| QArguments (incl : bool) | QHasArguments (incl : bool)
| QHasMulti (incl : bool) | QHasOptional (incl : bool) | QHasRequired (incl : bool)
| QHasOption (n : str) (incl : bool) | QGetOption (n : str) (incl : bool)
| QOptions (incl : bool) | QHasOptions (incl : bool)
| QBase.

Inductive answer :=
| ABool (b : bool) | ACNames (l : list cname) | ACOpt (r : res copt) | ACOpts (l : list copt)
| AArg (r : res arg) | AArgs (l : list (str * arg)) | AOpt (r : res opt) | AOpts (l : list (str * opt))
| AFmt (b : option fmt).

Definition ask (f : fmt) (q : query) : answer :=
  match q with
  | QCommandNames i => ACNames (get_command_names f i)
  | QHasCommandNames i => ABool (has_command_names f i)
  | QHasCommandOption n i => ABool (has_command_option f n i)
  | QGetCommandOption n i => ACOpt (get_command_option f n i)
  | QCommandOptions i => ACOpts (get_command_options f i)
  | QHasCommandOptions i => ABool (has_command_options f i)
  | QHasArgument r i => ABool (has_argument f r i)
  | QGetArgument r i => AArg (get_argument f r i)
  | QArguments i => AArgs (get_arguments f i)
  | QHasArguments i => ABool (has_arguments f i)
  | QHasMulti i => ABool (has_multi f i)
  | QHasOptional i => ABool (has_optional f i)
  | QHasRequired i => ABool (has_required f i)
  | QHasOption n i => ABool (has_option f n i)
  | QGetOption n i => AOpt (get_option f n i)
  | QOptions i => AOpts (get_options f i)
  | QHasOptions i => ABool (has_options f i)
  | QBase => AFmt (f_base f)
  end.

Lemma idx_inv_agrees f : idx_inv f -> forall q, ask (build_format f) q = ask f q.
Proof. intros Hi q. now rewrite (idx_inv_build f Hi). Qed.

Lemma reachable_build_id base ops : build_format (brun (empty_builder base) ops) = brun (empty_builder base) ops.
Proof. apply idx_inv_build, brun_keeps_idx, empty_builder_idx. Qed.

Lemma reachable_agrees base ops q :
  ask (build_format (brun (empty_builder base) ops)) q = ask (brun (empty_builder base) ops) q.
Proof. now rewrite reachable_build_id. Qed.

Lemma format_of_elements_agrees es base f b :
  add_elements (empty_builder base) es = Ok b -> format_of_elements es base = Ok f ->
  forall q, ask f q = ask b q.
Proof.
  intros Hb Hf q. unfold format_of_elements in Hf. rewrite Hb in Hf. cbn [bind] in Hf. inversion Hf; subst f.
  apply idx_inv_agrees. eapply add_elements_keeps_idx; [apply empty_builder_idx|exact Hb].
Qed.

(* the option queries spelled out, for both include_base values *)
Lemma idx_inv_option_queries f : idx_inv f -> forall n incl,
  has_option (build_format f) n incl = has_option f n incl /\
  get_option (build_format f) n incl = get_option f n incl /\
  has_command_option (build_format f) n incl = has_command_option f n incl /\
  get_command_option (build_format f) n incl = get_command_option f n incl /\
  get_command_options (build_format f) incl = get_command_options f incl /\
  has_command_options (build_format f) incl = has_command_options f incl /\
  has_options (build_format f) incl = has_options f incl /\
  has_arguments (build_format f) incl = has_arguments f incl /\
  has_command_names (build_format f) incl = has_command_names f incl.
Proof. intros Hi n incl. rewrite (idx_inv_build f Hi). repeat split; reflexivity. Qed.

(* ---------- what the rebuilt indexes hold (reading of the invariant) ---------- *)
(* a short name found in the rebuilt index belongs to a listed option having that short name *)
Lemma short_index_sound os : forall s o,
  sget s (short_index os) = Some o -> In o (map snd os) /\ o_short o = Some s.
Proof.
  induction os as [|no r IH] using rev_ind; intros s o H; [discriminate|].
  rewrite short_index_snoc in H. unfold short_step in H. rewrite map_app, in_app_iff. cbn [map In].
  destruct (o_short (snd no)) as [s'|] eqn:Es.
  - unfold sget, sset in H. rewrite sget_sset in H. destruct (str_eqb_spec s s') as [->|Hn].
    + inversion H; subst. split; [right; now left|exact Es].
    + destruct (IH s o H) as [Hin Hsh]. split; [now left|exact Hsh].
  - destruct (IH s o H) as [Hin Hsh]. split; [now left|exact Hsh].
Qed.
(* every listed option with a short name is found under it (the last such one, if several shared it) *)
Lemma short_index_complete os : forall o s,
  In o (map snd os) -> o_short o = Some s -> exists o', sget s (short_index os) = Some o' /\ o_short o' = Some s.
Proof.
  induction os as [|no r IH] using rev_ind; intros o s Hin Hs; [contradiction|].
  rewrite short_index_snoc. unfold short_step. rewrite map_app, in_app_iff in Hin. cbn [map In] in Hin.
  destruct Hin as [Hin|[<-|[]]].
  - destruct (IH o s Hin Hs) as [o' [Hg Ho']].
    destruct (o_short (snd no)) as [s'|] eqn:Es; [|eauto].
    unfold sget, sset in *. rewrite sget_sset. destruct (str_eqb_spec s s') as [->|Hn]; eauto.
  - rewrite Hs. unfold sget, sset. rewrite sget_sset, str_eqb_refl. eauto.
Qed.

(* ---------- lookup by position: existence and lookup agree, and both read the listing ---------- *)
From Coq Require Import Lia.
Definition nth_arg (ars : list (str * arg)) (i : Z) : option arg :=
  if (i <? 0)%Z then None else option_map snd (nth_error ars (Z.to_nat i)).
Lemma get_argument_pos f i incl :
  get_argument f (APos i) incl = match nth_arg (get_arguments f incl) i with Some a => Ok a | None => Err NoSuchArgument end.
Proof.
  unfold get_argument, nth_arg. set (ars := get_arguments f incl).
  destruct (Z.leb_spec (Z.of_nat (length ars)) i) as [Hle|Hlt].
  - destruct (Z.ltb_spec i 0) as [H0|H0]; [reflexivity|].
    assert (nth_error ars (Z.to_nat i) = None) as -> by (apply nth_error_None; lia). reflexivity.
  - destruct (Z.ltb_spec i 0) as [H0|H0]; [reflexivity|].
    destruct (nth_error ars (Z.to_nat i)) as [[n a]|] eqn:E; reflexivity.
Qed.
Lemma has_argument_pos f i incl :
  has_argument f (APos i) incl = match nth_arg (get_arguments f incl) i with Some _ => true | None => false end.
Proof.
  unfold has_argument, nth_arg. set (ars := get_arguments f incl).
  destruct (Z.ltb_spec i 0) as [H0|H0].
  - destruct (Z.leb_spec 0 i); [lia|reflexivity].
  - destruct (Z.leb_spec 0 i); [|lia]. cbn [andb].
    destruct (Z.ltb_spec i (Z.of_nat (length ars))) as [Hlt|Hge].
    + destruct (nth_error ars (Z.to_nat i)) eqn:E; [reflexivity|]. apply nth_error_None in E. lia.
    + assert (nth_error ars (Z.to_nat i) = None) as -> by (apply nth_error_None; lia). reflexivity.
Qed.
