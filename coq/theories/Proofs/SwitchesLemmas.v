(* Proofs about Model/Switches.v (C09). *)
From Coq Require Import Lia Permutation.
From Clikit Require Import Base.Prelude Base.Res Model.Conv Model.Format Model.Parser Model.Resolver Model.Run
     Model.Tokenizer Model.Gate Model.Switches Proofs.StrLemmas Proofs.TokenizerLemmas Proofs.GateLemmas.

Lemma has_token_perm t l l' : Permutation l l' -> has_token t l = has_token t l'.
Proof.
  unfold has_token. induction 1; cbn; auto.
  - now rewrite IHPermutation.
  - destruct (str_eqb t x), (str_eqb t y); reflexivity.
  - congruence.
Qed.
Lemma has_token_app t l1 l2 : has_token t (l1 ++ l2) = has_token t l1 || has_token t l2.
Proof. unfold has_token. apply existsb_app. Qed.

(* the settings depend only on WHICH option tokens are present, not on their order or position *)
Lemma settings_perm_lemma debug l l' : Permutation l l' -> io_settings debug l = io_settings debug l'.
Proof.
  intros H. unfold io_settings.
  rewrite !(has_token_perm _ _ _ H). reflexivity.
Qed.
Lemma wants_help_perm l l' : Permutation l l' -> wants_help l = wants_help l'.
Proof. intros H. unfold wants_help. now rewrite !(has_token_perm _ _ _ H). Qed.

(* inserting a switch anywhere among the option tokens = putting it first *)
Lemma settings_insert_lemma debug l1 s l2 : io_settings debug (l1 ++ s :: l2) = io_settings debug (s :: l1 ++ l2).
Proof. apply settings_perm_lemma. apply Permutation_sym, Permutation_middle. Qed.

(* tokens after the first "--" have no effect on the settings or the help decision *)
Lemma option_tokens_tail l t t' :
  option_tokens (l ++ [DASH; DASH] :: t) = option_tokens (l ++ [DASH; DASH] :: t').
Proof.
  induction l as [|x r IH]; cbn [app option_tokens].
  - reflexivity.
  - destruct (is_ddash x); [reflexivity|]. now rewrite IH.
Qed.
Lemma summary_settings_tail debug a l t t' :
  sm_settings (run_summary debug a (l ++ [DASH; DASH] :: t)) = sm_settings (run_summary debug a (l ++ [DASH; DASH] :: t')).
Proof. unfold run_summary. cbn [sm_settings]. now rewrite (option_tokens_tail l t t'). Qed.

(* the table: which switch does what *)
Lemma quiet_table debug ots : s_quiet (io_settings debug ots) = has_token T_quiet ots || has_token T_q ots.
Proof. reflexivity. Qed.
Lemma interactive_table debug ots :
  s_interactive (io_settings debug ots) = negb (has_token T_no_interaction ots || has_token T_n ots).
Proof. reflexivity. Qed.
Lemma verbosity_table ots :
  s_verbosity (io_settings false ots) =
    if has_token T_vvv ots then DEBUG else if has_token T_vv ots then VERY_VERBOSE else if has_token T_v ots then VERBOSE else NORMAL.
Proof. unfold io_settings. cbn [s_verbosity]. now rewrite orb_false_r. Qed.
Lemma ansi_table debug ots stream_ansi :
  decorated (io_settings debug ots) stream_ansi =
    if has_token T_no_ansi ots then false else if has_token T_ansi ots then true else stream_ansi.
Proof. unfold decorated, io_settings. cbn [s_ansi]. destruct (has_token T_no_ansi ots), (has_token T_ansi ots); reflexivity. Qed.

(* with C10: under the quiet switch no write path emits anything, error reports included *)
Lemma quiet_silences_lemma debug ots k a m f :
  (has_token T_quiet ots || has_token T_q ots) = true ->
  emits k a m (s_quiet (io_settings debug ots)) (s_verbosity (io_settings debug ots)) f = false.
Proof.
  intros H. rewrite quiet_table, H. unfold emits. destruct (path k a m) as [p|] eqn:E; [|reflexivity].
  destruct p as [|s p]; [destruct k, a, m; discriminate E|]. cbn [forallb]. reflexivity.
Qed.

(* the help switch: whatever else is on the line, the run shows a help page (or fails resolving its target) and
   never reaches a command handler; likewise the version switch for the command selected *)
Lemma help_switch_lemma debug a toks :
  wants_help (option_tokens toks) = true ->
  match sm_action (run_summary debug a toks) with AHandler _ => False | _ => True end.
Proof.
  intros H. unfold run_summary. cbn [sm_action]. rewrite H.
  destruct (find_cmd a S_help); [|exact I].
  destruct (parse (b_fmt b) true toks); [|exact I].
  destruct (args_is_option_set (b_fmt b) x S_version || wants_version (option_tokens toks)); [exact I|].
  destruct (args_is_argument_set (b_fmt b) x _); [|exact I].
  destruct (help_target a toks); exact I.
Qed.
Lemma version_switch_lemma debug a toks path f x :
  wants_help (option_tokens toks) = false -> resolve a toks = Ok (path, f, x) ->
  args_is_option_set f x S_version = true ->
  sm_action (run_summary debug a toks) = AVersion path.
Proof.
  intros Hh Hr Hv. unfold run_summary. cbn [sm_action]. rewrite Hh, Hr, Hv. reflexivity.
Qed.
Lemma handler_runs_lemma debug a toks path f x :
  wants_help (option_tokens toks) = false -> wants_version (option_tokens toks) = false -> resolve a toks = Ok (path, f, x) ->
  args_is_option_set f x S_version = false -> (forall p, path = [p] -> str_eqb p S_help = false) ->
  sm_action (run_summary debug a toks) = AHandler path.
Proof.
  intros Hh Hw Hr Hv Hp. unfold run_summary. cbn [sm_action]. rewrite Hh, Hw, Hr, Hv. cbn [orb].
  destruct path as [|p [|q r]]; try reflexivity. rewrite (Hp p eq_refl). reflexivity.
Qed.

(* the version switch as a TOKEN (fix e9d73cf): wherever -V / --version stands among the option tokens, whatever else is
   on the line and whichever command the line selects, no handler runs; when the line resolves to a command, the run
   is exactly "print name and version for that command" *)
Lemma wants_version_perm l l' : Permutation l l' -> wants_version l = wants_version l'.
Proof. intros H. unfold wants_version. now rewrite !(has_token_perm _ _ _ H). Qed.
Lemma version_token_never_handler debug a toks :
  wants_version (option_tokens toks) = true ->
  match sm_action (run_summary debug a toks) with AHandler _ => False | _ => True end.
Proof.
  intros H. destruct (wants_help (option_tokens toks)) eqn:Hh; [now apply help_switch_lemma|].
  unfold run_summary. cbn [sm_action]. rewrite Hh, H.
  destruct (resolve a toks) as [[[path f] x]|k]; [|exact I].
  rewrite orb_true_r. exact I.
Qed.
Lemma version_token_prints debug a toks path f x :
  wants_version (option_tokens toks) = true -> wants_help (option_tokens toks) = false ->
  resolve a toks = Ok (path, f, x) ->
  sm_action (run_summary debug a toks) = AVersion path.
Proof.
  intros H Hh Hr. unfold run_summary. cbn [sm_action]. rewrite Hh, H, Hr, orb_true_r. reflexivity.
Qed.
(* with the help switch as well, the help command is the one "selected": name and version, or an error of its lenient parse *)
Lemma version_token_with_help debug a toks :
  wants_version (option_tokens toks) = true -> wants_help (option_tokens toks) = true ->
  match sm_action (run_summary debug a toks) with AVersion _ | AError _ => True | _ => False end.
Proof.
  intros H Hh. unfold run_summary. cbn [sm_action]. rewrite Hh, H.
  destruct (find_cmd a S_help); [|exact I].
  destruct (parse (b_fmt b) true toks); [|exact I].
  rewrite orb_true_r. exact I.
Qed.
(* a version token after "--" is not a switch *)
Lemma wants_version_tail l t t' :
  wants_version (option_tokens (l ++ [DASH; DASH] :: t)) = wants_version (option_tokens (l ++ [DASH; DASH] :: t')).
Proof. now rewrite (option_tokens_tail l t t'). Qed.
