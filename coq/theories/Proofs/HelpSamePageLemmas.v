(* "help <path>", "<path> --help" and "<path> -h" resolve to the same help target (C13), for every application built
   from a configuration whose global options define the help switch the way DefaultApplicationConfig does
   (long name "help", short name "h", no value), commands with default sub-commands included, with no hypothesis on
   what the parser answers.

   The reason: every command format extends the global format, so the switch is an option of every format the
   resolver parses with; a line of plain tokens followed by the switch is then parsed exactly like the line without
   it, plus one stored flag - same success, same error - under the command's own leniency (the probe of the default
   sub-commands) as well as leniently (the parse of the command picked). *)
From Coq Require Import Lia.
From Clikit Require Import Base.Prelude Base.Res Model.Conv Model.Flags Model.Format Model.Parser Model.Resolver
     Model.Switches Proofs.StrLemmas Proofs.FormatLemmas Proofs.ParserLemmas Proofs.ResolverLemmas
     Proofs.HelpTargetLemmas.

(* ================= association lists ================= *)
Lemma sset_keys {V} k (v : V) d :
  map fst (sset k v d) = if shas k d then map fst d else map fst d ++ [k].
Proof.
  unfold sset, shas, ahas. induction d as [|[k' v'] r IH]; cbn [aset aget map fst app]; [reflexivity|].
  destruct (str_eqb k k'); cbn [map fst]; [reflexivity|]. rewrite IH.
  destruct (aget str_eqb k r); reflexivity.
Qed.
Lemma sset_nodup {V} k (v : V) d : NoDup (map fst d) -> NoDup (map fst (sset k v d)).
Proof.
  intros Hn. rewrite sset_keys. rewrite shas_sget. destruct (sget k d) eqn:E; [exact Hn|].
  apply NoDup_app_snoc; [exact Hn|]. now apply sget_none_notin.
Qed.
Lemma nodup_in_sget {V} n (v : V) d : NoDup (map fst d) -> In (n, v) d -> sget n d = Some v.
Proof.
  unfold sget. induction d as [|[k w] r IH]; cbn [map fst aget]; intros Hn Hi; [destruct Hi|].
  inversion Hn as [|? ? Hk Hr]; subst. destruct Hi as [Hi|Hi].
  - inversion Hi; subst. now rewrite str_eqb_refl.
  - destruct (str_eqb_spec n k) as [->|Hne]; [|now apply IH].
    exfalso. apply Hk. change k with (fst (k, v)). now apply in_map.
Qed.
Lemma in_supdate {V} (d2 d1 : list (str * V)) k v : In (k, v) (supdate d1 d2) -> In (k, v) d1 \/ In (k, v) d2.
Proof.
  unfold supdate. revert d1. induction d2 as [|[k2 v2] r IH]; intros d1; cbn [fold_left fst snd]; [auto|].
  intros H. apply IH in H as [H|H]; [|right; now right].
  apply in_sset in H as [[-> ->]|H]; [right; now left|now left].
Qed.
(* dict.update, read at a key all of whose new values are the same *)
Lemma sget_supdate_all {V} n (o : V) (d2 d1 : list (str * V)) :
  (forall v, In (n, v) d2 -> v = o) ->
  sget n (supdate d1 d2) = if existsb (fun kv => str_eqb n (fst kv)) d2 then Some o else sget n d1.
Proof.
  unfold supdate. revert d1. induction d2 as [|[k2 v2] r IH]; intros d1 Hall; cbn [fold_left existsb fst snd]; [reflexivity|].
  rewrite IH by (intros v Hv; apply Hall; now right).
  destruct (existsb (fun kv => str_eqb n (fst kv)) r); [now rewrite orb_true_r|]. rewrite orb_false_r.
  unfold sget, sset. rewrite sget_sset. destruct (str_eqb_spec n k2) as [->|]; [|reflexivity].
  now rewrite (Hall v2 (or_introl eq_refl)).
Qed.
Lemma in_existsb_key {V} n (v : V) d : In (n, v) d -> existsb (fun kv => str_eqb n (fst kv)) d = true.
Proof. intros H. apply existsb_exists. exists (n, v). split; [exact H|apply str_eqb_refl]. Qed.
Lemma supdate_carry {V} n (o : V) d1 d2 :
  sget n d1 = None -> In (n, o) d2 -> (forall v, In (n, v) d2 -> v = o) ->
  In (n, o) (supdate d1 d2) /\ forall v, In (n, v) (supdate d1 d2) -> v = o.
Proof.
  intros H1 Hin Hall. split.
  - apply sget_in. fold (@sget V). rewrite (sget_supdate_all n o d2 d1 Hall), (in_existsb_key _ _ _ Hin). reflexivity.
  - intros v Hv. apply in_supdate in Hv as [Hv|Hv]; [|now apply Hall].
    exfalso. apply (sget_none_notin n d1 H1). change n with (fst (n, v)). now apply in_map.
Qed.

(* ================= one step of ArgsFormatBuilder ================= *)
Definition add_elem (f : fmt) (e : element) : res fmt :=
  match e with
  | EOpt o => add_option f o | ECOpt c => add_command_option f c
  | EArg a => add_argument f a | ECName c => add_command_name f c
  end.
Lemma add_elements_cons f e r : add_elements f (e :: r) = (do f' <- add_elem f e; add_elements f' r).
Proof. destruct e; reflexivity. Qed.
Lemma add_elements_inv (P : fmt -> Prop) :
  (forall f e f', P f -> add_elem f e = Ok f' -> P f') ->
  forall es f f', P f -> add_elements f es = Ok f' -> P f'.
Proof.
  intros Hstep. induction es as [|e r IH]; intros f f' Hf H.
  - cbn in H. inversion H; subst. exact Hf.
  - rewrite add_elements_cons in H. destruct (add_elem f e) as [f1|k] eqn:E; cbn [bind] in H; [|discriminate].
    eapply IH; [|exact H]. eapply Hstep; eauto.
Qed.

Lemma taken_false_own f n : opt_name_taken f n = false ->
  sget n (f_opts f) = None /\ sget n (f_opts_short f) = None /\ has_option_all f n = false.
Proof.
  unfold opt_name_taken. intros H. apply orb_false_elim in H as [H _]. split; [|split; [|exact H]];
    destruct f as [b cn co cs ar os oss hm ho]; cbn [has_option_all f_opts f_opts_short] in *;
    rewrite !shas_sget in H; destruct (sget n os), (sget n oss); try discriminate; reflexivity.
Qed.
Lemma add_option_inv f o f' : add_option f o = Ok f' ->
  opt_name_taken f (o_long o) = false /\ optname_taken f (o_short o) = false /\
  f_opts f' = sset (o_long o) o (f_opts f) /\
  f_opts_short f' = match o_short o with Some s => sset s o (f_opts_short f) | None => f_opts_short f end /\
  f_base f' = f_base f.
Proof.
  unfold add_option. destruct (opt_name_taken f (o_long o)); [discriminate|].
  destruct (optname_taken f (o_short o)); [discriminate|].
  destruct f as [b cn co cs ar os oss hm ho]. intros H. inversion H; subst. cbn. repeat split; reflexivity.
Qed.
Lemma add_other_inv f e f' : (forall o, e <> EOpt o) -> add_elem f e = Ok f' ->
  f_opts f' = f_opts f /\ f_opts_short f' = f_opts_short f /\ f_base f' = f_base f.
Proof.
  intros Hne. destruct e as [o|c|a|c]; cbn [add_elem]; [destruct (Hne o eq_refl)| | |].
  - unfold add_command_option.
    repeat match goal with |- (if ?c then _ else _) = _ -> _ => destruct c; [discriminate|] end.
    destruct f. intros H. inversion H; subst. cbn. auto.
  - unfold add_argument.
    repeat match goal with |- (if ?c then _ else _) = _ -> _ => destruct c; [discriminate|] end.
    destruct f. intros H. inversion H; subst. cbn. auto.
  - destruct f. cbn. intros H. inversion H; subst. cbn. auto.
Qed.

Lemma add_elem_names_wf f e f' : names_wf f -> add_elem f e = Ok f' -> names_wf f'.
Proof.
  intros Hw. destruct e as [o|c|a|c]; cbn [add_elem]; intros H.
  - eapply add_option_keeps_wf; eauto.
  - eapply add_copt_keeps_wf; eauto.
  - unfold add_argument in H.
    repeat match type of H with (if ?c then _ else _) = _ => destruct c; [discriminate|] end.
    destruct f. inversion H; subst. exact Hw.
  - destruct f. cbn in H. inversion H; subst. exact Hw.
Qed.

(* an entry of the long or of the short index stays what it is: a later option with that name is refused *)
Lemma add_elem_keeps_long f e f' n v : add_elem f e = Ok f' -> sget n (f_opts f) = Some v -> sget n (f_opts f') = Some v.
Proof.
  intros H Hn. destruct e as [o|c|a|c].
  - apply add_option_inv in H as (Ht & _ & -> & _). apply taken_false_own in Ht as (Ht & _).
    unfold sget, sset in *. rewrite sget_sset. destruct (str_eqb_spec n (o_long o)) as [->|]; [congruence|exact Hn].
  - apply add_other_inv in H as (-> & _); [exact Hn|discriminate].
  - apply add_other_inv in H as (-> & _); [exact Hn|discriminate].
  - apply add_other_inv in H as (-> & _); [exact Hn|discriminate].
Qed.
Lemma add_elem_keeps_short f e f' n v :
  add_elem f e = Ok f' -> sget n (f_opts_short f) = Some v -> sget n (f_opts_short f') = Some v.
Proof.
  intros H Hn. destruct e as [o|c|a|c].
  - apply add_option_inv in H as (_ & Ht & _ & -> & _). destruct (o_short o) as [s|]; [|exact Hn].
    cbn [optname_taken] in Ht. apply taken_false_own in Ht as (_ & Ht & _).
    unfold sget, sset in *. rewrite sget_sset. destruct (str_eqb_spec n s) as [->|]; [congruence|exact Hn].
  - apply add_other_inv in H as (_ & -> & _); [exact Hn|discriminate].
  - apply add_other_inv in H as (_ & -> & _); [exact Hn|discriminate].
  - apply add_other_inv in H as (_ & -> & _); [exact Hn|discriminate].
Qed.

(* an option among the elements added is found under its long name, and under its short name in the builder's index *)
Lemma add_elements_has es : forall f b o, add_elements f es = Ok b -> In (EOpt o) es ->
  sget (o_long o) (f_opts b) = Some o /\ forall s, o_short o = Some s -> sget s (f_opts_short b) = Some o.
Proof.
  induction es as [|e r IH]; intros f b o H Hin; [destruct Hin|].
  rewrite add_elements_cons in H. destruct (add_elem f e) as [f1|k] eqn:E; cbn [bind] in H; [|discriminate].
  destruct Hin as [->|Hin]; [|eapply IH; eauto].
  cbn [add_elem] in E. apply add_option_inv in E as (_ & _ & Hl & Hs & _).
  assert (sget (o_long o) (f_opts f1) = Some o) as H1.
  { rewrite Hl. unfold sget, sset. now rewrite sget_sset, str_eqb_refl. }
  assert (forall s, o_short o = Some s -> sget s (f_opts_short f1) = Some o) as H2.
  { intros s Es. rewrite Hs, Es. unfold sget, sset. now rewrite sget_sset, str_eqb_refl. }
  clear Hl Hs. split.
  - revert H1. generalize (o_long o) as n. revert H. generalize f1 as g. clear.
    induction r as [|e r IH]; intros g H n Hn; [cbn in H; inversion H; subst; exact Hn|].
    rewrite add_elements_cons in H. destruct (add_elem g e) as [g1|k] eqn:E; cbn [bind] in H; [|discriminate].
    eapply IH; [exact H|]. eapply add_elem_keeps_long; eauto.
  - intros s Es. specialize (H2 s Es). revert H2. revert H. generalize f1 as g. clear.
    induction r as [|e r IH]; intros g H Hn; [cbn in H; inversion H; subst; exact Hn|].
    rewrite add_elements_cons in H. destruct (add_elem g e) as [g1|k] eqn:E; cbn [bind] in H; [|discriminate].
    eapply IH; [exact H|]. eapply add_elem_keeps_short; eauto.
Qed.

(* the builder's invariants: distinct keys; every option listed is indexed under its short name *)
Definition short_indexed (f : fmt) : Prop :=
  forall k o s, In (k, o) (f_opts f) -> o_short o = Some s -> sget s (f_opts_short f) = Some o.
Lemma add_elem_short_indexed f e f' : short_indexed f -> add_elem f e = Ok f' -> short_indexed f'.
Proof.
  intros Hi H. destruct e as [o|c|a|c];
    try (apply add_other_inv in H as (Ho & Hs & _); [|discriminate]; unfold short_indexed; rewrite Ho, Hs; exact Hi).
  apply add_option_inv in H as (_ & Ht & Ho & Hs & _). intros k o2 s Hin Es. rewrite Ho in Hin. rewrite Hs.
  apply in_sset in Hin as [[-> ->]|Hin].
  - rewrite Es. unfold sget, sset. now rewrite sget_sset, str_eqb_refl.
  - specialize (Hi k o2 s Hin Es). destruct (o_short o) as [s1|]; [|exact Hi].
    cbn [optname_taken] in Ht. apply taken_false_own in Ht as (_ & Ht & _).
    unfold sget, sset in *. rewrite sget_sset. destruct (str_eqb_spec s s1) as [->|]; [congruence|exact Hi].
Qed.
Lemma add_elem_nodup f e f' : NoDup (map fst (f_opts f)) -> add_elem f e = Ok f' -> NoDup (map fst (f_opts f')).
Proof.
  intros Hn H. destruct e as [o|c|a|c];
    try (apply add_other_inv in H as (-> & _); [exact Hn|discriminate]).
  apply add_option_inv in H as (_ & _ & -> & _). now apply sset_nodup.
Qed.

(* ArgsFormat.__init__ rebuilds the short index from the listing *)
Definition reindex (os : list (str * opt)) (acc : list (str * opt)) : list (str * opt) :=
  fold_left (fun d no => match o_short (snd no) with Some s => sset s (snd no) d | None => d end) os acc.
Lemma build_format_short f : f_opts_short (build_format f) = reindex (f_opts f) [].
Proof. destruct f as [b cn co cs ar os oss hm ho]. unfold build_format. destruct (index_copts (map snd co)). reflexivity. Qed.
Lemma reindex_all s o : forall os acc,
  (forall k o2, In (k, o2) os -> o_short o2 = Some s -> o2 = o) ->
  sget s (reindex os acc) = if existsb (fun no => match o_short (snd no) with Some s2 => str_eqb s s2 | None => false end) os
                            then Some o else sget s acc.
Proof.
  unfold reindex. induction os as [|[k o2] r IH]; intros acc Hall; cbn [fold_left existsb snd]; [reflexivity|].
  rewrite IH by (intros k' o' Hin; apply (Hall k' o'); now right).
  destruct (existsb _ r); [now rewrite orb_true_r|]. rewrite orb_false_r.
  destruct (o_short o2) as [s2|] eqn:E2; [|reflexivity].
  unfold sget, sset. rewrite sget_sset. destruct (str_eqb_spec s s2) as [->|]; [|reflexivity].
  now rewrite (Hall k o2 (or_introl eq_refl) E2).
Qed.

(* ================= a format built without a base knows the options it was given ================= *)
Lemma built_knows_option es b o :
  add_elements (empty_builder None) es = Ok b -> In (EOpt o) es ->
  has_option_all (build_format b) (o_long o) = true /\ get_option_all (build_format b) (o_long o) = Ok o /\
  forall s, o_short o = Some s ->
    has_option_all (build_format b) s = true /\ get_option_all (build_format b) s = Ok o.
Proof.
  intros Hb Hin. destruct (add_elements_has es _ b o Hb Hin) as [Hl Hs].
  assert (names_wf b) as Hwf.
  { apply (add_elements_inv names_wf add_elem_names_wf es (empty_builder None) b); [|exact Hb]. exact (proj1 empty_builder_wf_none). }
  assert (short_indexed b) as Hsi.
  { apply (add_elements_inv short_indexed add_elem_short_indexed es (empty_builder None) b); [|exact Hb]. intros k o2 s []. }
  assert (f_base b = None) as Hbase.
  { apply (add_elements_inv (fun f => f_base f = None)) with (es := es) (f := empty_builder None); [|reflexivity|exact Hb].
    intros f e f' Hf He. destruct e as [o1|c|a|c];
      try (apply add_other_inv in He as (_ & _ & ->); [exact Hf|discriminate]).
    apply add_option_inv in He as (_ & _ & _ & _ & ->). exact Hf. }
  pose proof (build_format_short b) as Hre. destruct (build_format_same b) as (Hb0 & _ & _ & Ho & _).
  destruct (build_format b) as [b0 cn co cs ar os oss hm ho] eqn:Ebf. cbn [f_base f_opts f_opts_short] in *.
  rewrite Hbase in Hb0. subst b0 os oss. cbn [has_option_all get_option_all]. rewrite !shas_sget, Hl.
  split; [reflexivity|]. split; [reflexivity|]. intros s Es. specialize (Hs s Es). rewrite !shas_sget.
  assert (sget s (reindex (f_opts b) []) = Some o) as Hr.
  { rewrite (reindex_all s o).
    - replace (existsb _ (f_opts b)) with true; [reflexivity|]. symmetry. apply existsb_exists.
      exists (o_long o, o). split; [now apply sget_in|]. cbn [snd]. rewrite Es. apply str_eqb_refl.
    - intros k o2 Hk E2. specialize (Hsi k o2 s Hk E2). congruence. }
  destruct (sget s (f_opts b)) as [o1|] eqn:E1.
  - assert (o1 = o) as ->; [|split; reflexivity].
    assert (inl o1 = (inl o : opt + copt)) as Heq; [|now inversion Heq].
    apply (Hwf s); destruct b as [bb bcn bco bcs bar bos boss bhm bho]; cbn [denot f_opts f_opts_short] in *;
      rewrite E1, Hs; cbn; auto.
  - rewrite Hr. split; reflexivity.
Qed.
