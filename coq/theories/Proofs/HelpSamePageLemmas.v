(* "help <path>", "<path> --help" and "<path> -h" resolve to the same help target (C13), for every application built
   from a configuration whose global options define the help switch the way DefaultApplicationConfig does
   (long name "help", short name "h", no value), commands with default sub-commands included, with no hypothesis on
   what the parser answers.

   The reason: every command format extends the global format, so the switch is an option of every format the
   resolver parses with; a line of plain tokens followed by the switch is then parsed exactly like the line without
   it, plus one stored flag - same success, same error - under the command's own leniency (the probe of the default
   sub-commands) as well as leniently (the parse of the command picked). *)
From Coq Require Import Lia.
From Clikit Require Import Base.Prelude Base.Res Model.Conv Model.Flags Model.Format Model.Parser Model.Resolver
     Model.Switches Proofs.StrLemmas Proofs.FormatLemmas Proofs.ParserLemmas Proofs.ResolverLemmas
     Proofs.HelpTargetLemmas.

(* ================= association lists ================= *)
Lemma sset_keys {V} k (v : V) d :
  map fst (sset k v d) = if shas k d then map fst d else map fst d ++ [k].
Proof.
  unfold sset, shas, ahas. induction d as [|[k' v'] r IH]; cbn [aset aget map fst app]; [reflexivity|].
  destruct (str_eqb k k'); cbn [map fst]; [reflexivity|]. rewrite IH.
  destruct (aget str_eqb k r); reflexivity.
Qed.
Lemma sset_nodup {V} k (v : V) d : NoDup (map fst d) -> NoDup (map fst (sset k v d)).
Proof.
  intros Hn. rewrite sset_keys. rewrite shas_sget. destruct (sget k d) eqn:E; [exact Hn|].
  apply NoDup_app_snoc; [exact Hn|]. now apply sget_none_notin.
Qed.
Lemma nodup_in_sget {V} n (v : V) d : NoDup (map fst d) -> In (n, v) d -> sget n d = Some v.
Proof.
  unfold sget. induction d as [|[k w] r IH]; cbn [map fst aget]; intros Hn Hi; [destruct Hi|].
  inversion Hn as [|? ? Hk Hr]; subst. destruct Hi as [Hi|Hi].
  - inversion Hi; subst. now rewrite str_eqb_refl.
  - destruct (str_eqb_spec n k) as [->|Hne]; [|now apply IH].
    exfalso. apply Hk. change k with (fst (k, v)). now apply in_map.
Qed.
Lemma in_supdate {V} (d2 d1 : list (str * V)) k v : In (k, v) (supdate d1 d2) -> In (k, v) d1 \/ In (k, v) d2.
Proof.
  unfold supdate. revert d1. induction d2 as [|[k2 v2] r IH]; intros d1; cbn [fold_left fst snd]; [auto|].
  intros H. apply IH in H as [H|H]; [|right; now right].
  apply in_sset in H as [[-> ->]|H]; [right; now left|now left].
Qed.
(* dict.update, read at a key all of whose new values are the same *)
Lemma sget_supdate_all {V} n (o : V) (d2 d1 : list (str * V)) :
  (forall v, In (n, v) d2 -> v = o) ->
  sget n (supdate d1 d2) = if existsb (fun kv => str_eqb n (fst kv)) d2 then Some o else sget n d1.
Proof.
  unfold supdate. revert d1. induction d2 as [|[k2 v2] r IH]; intros d1 Hall; cbn [fold_left existsb fst snd]; [reflexivity|].
  rewrite IH by (intros v Hv; apply Hall; now right).
  destruct (existsb (fun kv => str_eqb n (fst kv)) r); [now rewrite orb_true_r|]. rewrite orb_false_r.
  unfold sget, sset. rewrite sget_sset. destruct (str_eqb_spec n k2) as [->|]; [|reflexivity].
  now rewrite (Hall v2 (or_introl eq_refl)).
Qed.
Lemma in_existsb_key {V} n (v : V) d : In (n, v) d -> existsb (fun kv => str_eqb n (fst kv)) d = true.
Proof. intros H. apply existsb_exists. exists (n, v). split; [exact H|apply str_eqb_refl]. Qed.
Lemma supdate_carry {V} n (o : V) d1 d2 :
  sget n d1 = None -> In (n, o) d2 -> (forall v, In (n, v) d2 -> v = o) ->
  In (n, o) (supdate d1 d2) /\ forall v, In (n, v) (supdate d1 d2) -> v = o.
Proof.
  intros H1 Hin Hall. split.
  - apply sget_in. fold (@sget V). rewrite (sget_supdate_all n o d2 d1 Hall), (in_existsb_key _ _ _ Hin). reflexivity.
  - intros v Hv. apply in_supdate in Hv as [Hv|Hv]; [|now apply Hall].
    exfalso. apply (sget_none_notin n d1 H1). change n with (fst (n, v)). now apply in_map.
Qed.

(* ================= one step of ArgsFormatBuilder ================= *)
Definition add_elem (f : fmt) (e : element) : res fmt :=
  match e with
  | EOpt o => add_option f o | ECOpt c => add_command_option f c
  | EArg a => add_argument f a | ECName c => add_command_name f c
  end.
Lemma add_elements_cons f e r : add_elements f (e :: r) = (do f' <- add_elem f e; add_elements f' r).
Proof. destruct e; reflexivity. Qed.
Lemma add_elements_inv (P : fmt -> Prop) :
  (forall f e f', P f -> add_elem f e = Ok f' -> P f') ->
  forall es f f', P f -> add_elements f es = Ok f' -> P f'.
Proof.
  intros Hstep. induction es as [|e r IH]; intros f f' Hf H.
  - cbn in H. inversion H; subst. exact Hf.
  - rewrite add_elements_cons in H. destruct (add_elem f e) as [f1|k] eqn:E; cbn [bind] in H; [|discriminate].
    eapply IH; [|exact H]. eapply Hstep; eauto.
Qed.

Lemma taken_false_own f n : opt_name_taken f n = false ->
  sget n (f_opts f) = None /\ sget n (f_opts_short f) = None /\ has_option_all f n = false.
Proof.
  unfold opt_name_taken. intros H. apply orb_false_elim in H as [H _]. split; [|split; [|exact H]];
    destruct f as [b cn co cs ar os oss hm ho]; cbn [has_option_all f_opts f_opts_short] in *;
    rewrite !shas_sget in H; destruct (sget n os), (sget n oss); try discriminate; reflexivity.
Qed.
Lemma add_option_inv f o f' : add_option f o = Ok f' ->
  opt_name_taken f (o_long o) = false /\ optname_taken f (o_short o) = false /\
  f_opts f' = sset (o_long o) o (f_opts f) /\
  f_opts_short f' = match o_short o with Some s => sset s o (f_opts_short f) | None => f_opts_short f end /\
  f_base f' = f_base f.
Proof.
  unfold add_option. destruct (opt_name_taken f (o_long o)); [discriminate|].
  destruct (optname_taken f (o_short o)); [discriminate|].
  destruct f as [b cn co cs ar os oss hm ho]. intros H. inversion H; subst. cbn. repeat split; reflexivity.
Qed.
Lemma add_other_inv f e f' : (forall o, e <> EOpt o) -> add_elem f e = Ok f' ->
  f_opts f' = f_opts f /\ f_opts_short f' = f_opts_short f /\ f_base f' = f_base f.
Proof.
  intros Hne. destruct e as [o|c|a|c]; cbn [add_elem]; [destruct (Hne o eq_refl)| | |].
  - unfold add_command_option.
    repeat match goal with |- (if ?c then _ else _) = _ -> _ => destruct c; [discriminate|] end.
    destruct f. intros H. inversion H; subst. cbn. auto.
  - unfold add_argument.
    repeat match goal with |- (if ?c then _ else _) = _ -> _ => destruct c; [discriminate|] end.
    destruct f. intros H. inversion H; subst. cbn. auto.
  - destruct f. cbn. intros H. inversion H; subst. cbn. auto.
Qed.

Lemma add_elem_names_wf f e f' : names_wf f -> add_elem f e = Ok f' -> names_wf f'.
Proof.
  intros Hw. destruct e as [o|c|a|c]; cbn [add_elem]; intros H.
  - eapply add_option_keeps_wf; eauto.
  - eapply add_copt_keeps_wf; eauto.
  - unfold add_argument in H.
    repeat match type of H with (if ?c then _ else _) = _ => destruct c; [discriminate|] end.
    destruct f. inversion H; subst. exact Hw.
  - destruct f. cbn in H. inversion H; subst. exact Hw.
Qed.

(* an entry of the long or of the short index stays what it is: a later option with that name is refused *)
Lemma add_elem_keeps_long f e f' n v : add_elem f e = Ok f' -> sget n (f_opts f) = Some v -> sget n (f_opts f') = Some v.
Proof.
  intros H Hn. destruct e as [o|c|a|c].
  - apply add_option_inv in H as (Ht & _ & -> & _). apply taken_false_own in Ht as (Ht & _).
    unfold sget, sset in *. rewrite sget_sset. destruct (str_eqb_spec n (o_long o)) as [->|]; [congruence|exact Hn].
  - apply add_other_inv in H as (-> & _); [exact Hn|discriminate].
  - apply add_other_inv in H as (-> & _); [exact Hn|discriminate].
  - apply add_other_inv in H as (-> & _); [exact Hn|discriminate].
Qed.
Lemma add_elem_keeps_short f e f' n v :
  add_elem f e = Ok f' -> sget n (f_opts_short f) = Some v -> sget n (f_opts_short f') = Some v.
Proof.
  intros H Hn. destruct e as [o|c|a|c].
  - apply add_option_inv in H as (_ & Ht & _ & -> & _). destruct (o_short o) as [s|]; [|exact Hn].
    cbn [optname_taken] in Ht. apply taken_false_own in Ht as (_ & Ht & _).
    unfold sget, sset in *. rewrite sget_sset. destruct (str_eqb_spec n s) as [->|]; [congruence|exact Hn].
  - apply add_other_inv in H as (_ & -> & _); [exact Hn|discriminate].
  - apply add_other_inv in H as (_ & -> & _); [exact Hn|discriminate].
  - apply add_other_inv in H as (_ & -> & _); [exact Hn|discriminate].
Qed.

(* an option among the elements added is found under its long name, and under its short name in the builder's index *)
Lemma add_elements_has es : forall f b o, add_elements f es = Ok b -> In (EOpt o) es ->
  sget (o_long o) (f_opts b) = Some o /\ forall s, o_short o = Some s -> sget s (f_opts_short b) = Some o.
Proof.
  induction es as [|e r IH]; intros f b o H Hin; [destruct Hin|].
  rewrite add_elements_cons in H. destruct (add_elem f e) as [f1|k] eqn:E; cbn [bind] in H; [|discriminate].
  destruct Hin as [->|Hin]; [|eapply IH; eauto].
  cbn [add_elem] in E. apply add_option_inv in E as (_ & _ & Hl & Hs & _).
  assert (sget (o_long o) (f_opts f1) = Some o) as H1.
  { rewrite Hl. unfold sget, sset. now rewrite sget_sset, str_eqb_refl. }
  assert (forall s, o_short o = Some s -> sget s (f_opts_short f1) = Some o) as H2.
  { intros s Es. rewrite Hs, Es. unfold sget, sset. now rewrite sget_sset, str_eqb_refl. }
  clear Hl Hs. split.
  - revert H1. generalize (o_long o) as n. revert H. generalize f1 as g. clear.
    induction r as [|e r IH]; intros g H n Hn; [cbn in H; inversion H; subst; exact Hn|].
    rewrite add_elements_cons in H. destruct (add_elem g e) as [g1|k] eqn:E; cbn [bind] in H; [|discriminate].
    eapply IH; [exact H|]. eapply add_elem_keeps_long; eauto.
  - intros s Es. specialize (H2 s Es). revert H2. revert H. generalize f1 as g. clear.
    induction r as [|e r IH]; intros g H Hn; [cbn in H; inversion H; subst; exact Hn|].
    rewrite add_elements_cons in H. destruct (add_elem g e) as [g1|k] eqn:E; cbn [bind] in H; [|discriminate].
    eapply IH; [exact H|]. eapply add_elem_keeps_short; eauto.
Qed.

(* the builder's invariants: distinct keys; every option listed is indexed under its short name *)
Definition short_indexed (f : fmt) : Prop :=
  forall k o s, In (k, o) (f_opts f) -> o_short o = Some s -> sget s (f_opts_short f) = Some o.
Lemma add_elem_short_indexed f e f' : short_indexed f -> add_elem f e = Ok f' -> short_indexed f'.
Proof.
  intros Hi H. destruct e as [o|c|a|c];
    try (apply add_other_inv in H as (Ho & Hs & _); [|discriminate]; unfold short_indexed; rewrite Ho, Hs; exact Hi).
  apply add_option_inv in H as (_ & Ht & Ho & Hs & _). intros k o2 s Hin Es. rewrite Ho in Hin. rewrite Hs.
  apply in_sset in Hin as [[-> ->]|Hin].
  - rewrite Es. unfold sget, sset. now rewrite sget_sset, str_eqb_refl.
  - specialize (Hi k o2 s Hin Es). destruct (o_short o) as [s1|]; [|exact Hi].
    cbn [optname_taken] in Ht. apply taken_false_own in Ht as (_ & Ht & _).
    unfold sget, sset in *. rewrite sget_sset. destruct (str_eqb_spec s s1) as [->|]; [congruence|exact Hi].
Qed.
Lemma add_elem_nodup f e f' : NoDup (map fst (f_opts f)) -> add_elem f e = Ok f' -> NoDup (map fst (f_opts f')).
Proof.
  intros Hn H. destruct e as [o|c|a|c];
    try (apply add_other_inv in H as (-> & _); [exact Hn|discriminate]).
  apply add_option_inv in H as (_ & _ & -> & _). now apply sset_nodup.
Qed.

(* ArgsFormat.__init__ rebuilds the short index from the listing *)
Definition reindex (os : list (str * opt)) (acc : list (str * opt)) : list (str * opt) :=
  fold_left (fun d no => match o_short (snd no) with Some s => sset s (snd no) d | None => d end) os acc.
Lemma build_format_short f : f_opts_short (build_format f) = reindex (f_opts f) [].
Proof. destruct f as [b cn co cs ar os oss hm ho]. unfold build_format. destruct (index_copts (map snd co)). reflexivity. Qed.
Lemma reindex_all s o : forall os acc,
  (forall k o2, In (k, o2) os -> o_short o2 = Some s -> o2 = o) ->
  sget s (reindex os acc) = if existsb (fun no => match o_short (snd no) with Some s2 => str_eqb s s2 | None => false end) os
                            then Some o else sget s acc.
Proof.
  unfold reindex. induction os as [|[k o2] r IH]; intros acc Hall; cbn [fold_left existsb snd]; [reflexivity|].
  rewrite IH by (intros k' o' Hin; apply (Hall k' o'); now right).
  destruct (existsb _ r); [now rewrite orb_true_r|]. rewrite orb_false_r.
  destruct (o_short o2) as [s2|] eqn:E2; [|reflexivity].
  unfold sget, sset. rewrite sget_sset. destruct (str_eqb_spec s s2) as [->|]; [|reflexivity].
  now rewrite (Hall k o2 (or_introl eq_refl) E2).
Qed.

(* ================= a format built without a base knows the options it was given ================= *)
Lemma built_knows_option es b o :
  add_elements (empty_builder None) es = Ok b -> In (EOpt o) es ->
  has_option_all (build_format b) (o_long o) = true /\ get_option_all (build_format b) (o_long o) = Ok o /\
  forall s, o_short o = Some s ->
    has_option_all (build_format b) s = true /\ get_option_all (build_format b) s = Ok o.
Proof.
  intros Hb Hin. destruct (add_elements_has es _ b o Hb Hin) as [Hl Hs].
  assert (names_wf b) as Hwf.
  { apply (add_elements_inv names_wf add_elem_names_wf es (empty_builder None) b); [|exact Hb]. exact (proj1 empty_builder_wf_none). }
  assert (short_indexed b) as Hsi.
  { apply (add_elements_inv short_indexed add_elem_short_indexed es (empty_builder None) b); [|exact Hb]. intros k o2 s []. }
  assert (f_base b = None) as Hbase.
  { apply (add_elements_inv (fun f => f_base f = None)) with (es := es) (f := empty_builder None); [|reflexivity|exact Hb].
    intros f e f' Hf He. destruct e as [o1|c|a|c];
      try (apply add_other_inv in He as (_ & _ & ->); [exact Hf|discriminate]).
    apply add_option_inv in He as (_ & _ & _ & _ & ->). exact Hf. }
  pose proof (build_format_short b) as Hre. destruct (build_format_same b) as (Hb0 & _ & _ & Ho & _).
  destruct (build_format b) as [b0 cn co cs ar os oss hm ho] eqn:Ebf. cbn [f_base f_opts f_opts_short] in *.
  rewrite Hbase in Hb0. subst b0 os oss. cbn [has_option_all get_option_all]. rewrite !shas_sget, Hl.
  split; [reflexivity|]. split; [reflexivity|]. intros s Es. specialize (Hs s Es). rewrite !shas_sget.
  assert (sget s (reindex (f_opts b) []) = Some o) as Hr.
  { rewrite (reindex_all s o).
    - replace (existsb _ (f_opts b)) with true; [reflexivity|]. symmetry. apply existsb_exists.
      exists (o_long o, o). split; [now apply sget_in|]. cbn [snd]. rewrite Es. apply str_eqb_refl.
    - intros k o2 Hk E2. specialize (Hsi k o2 s Hk E2). congruence. }
  destruct (sget s (f_opts b)) as [o1|] eqn:E1.
  - assert (o1 = o) as ->; [|split; reflexivity].
    assert (inl o1 = (inl o : opt + copt)) as Heq; [|now inversion Heq].
    apply (Hwf s); destruct b as [bb bcn bco bcs bar bos boss bhm bho]; cbn [denot f_opts f_opts_short] in *;
      rewrite E1, Hs; cbn; auto.
  - rewrite Hr. split; reflexivity.
Qed.

(* ================= the option is carried down the chain of base formats ================= *)
(* [carries o f]: under o's long name the format f (own level or a base) finds o, and lists o and nothing else *)
Definition carries (o : opt) (f : fmt) : Prop :=
  has_option_all f (o_long o) = true /\ get_option_all f (o_long o) = Ok o /\
  In (o_long o, o) (get_options_all f) /\ (forall v, In (o_long o, v) (get_options_all f) -> v = o).

Lemma carries_base es o g : format_of_elements es None = Ok g -> In (EOpt o) es -> carries o g.
Proof.
  unfold format_of_elements. destruct (add_elements (empty_builder None) es) as [b|k] eqn:Hb; cbn [bind]; [|discriminate].
  intros H Hin. inversion H; subst g. clear H.
  destruct (built_knows_option es b o Hb Hin) as (H1 & H2 & _).
  destruct (add_elements_has es _ b o Hb Hin) as [Hl _].
  assert (NoDup (map fst (f_opts b))) as Hnd.
  { apply (add_elements_inv (fun f => NoDup (map fst (f_opts f))) add_elem_nodup es (empty_builder None) b); [constructor|exact Hb]. }
  assert (f_base b = None) as Hbase.
  { apply (add_elements_inv (fun f => f_base f = None)) with (es := es) (f := empty_builder None); [|reflexivity|exact Hb].
    intros f e f' Hf He. destruct e as [o1|c|a|c];
      try (apply add_other_inv in He as (_ & _ & ->); [exact Hf|discriminate]).
    apply add_option_inv in He as (_ & _ & _ & _ & ->). exact Hf. }
  split; [exact H1|]. split; [exact H2|].
  destruct (build_format_same b) as (Hb0 & _ & _ & Ho & _).
  destruct (build_format b) as [b0 cn co cs ar os oss hm ho]. cbn [f_base f_opts] in Hb0, Ho. rewrite Hbase in Hb0. subst b0 os.
  cbn [get_options_all]. split; [now apply sget_in|].
  intros v Hv. apply (nodup_in_sget _ _ _ Hnd) in Hv. congruence.
Qed.

Lemma has_option_base f bf n : f_base f = Some bf -> has_option_all bf n = true -> has_option_all f n = true.
Proof. destruct f as [b cn co cs ar os oss hm ho]. cbn. intros -> ->. now rewrite orb_true_r. Qed.
Lemma reindex_none n : forall os acc,
  (forall k o2, In (k, o2) os -> o_short o2 <> Some n) -> sget n (reindex os acc) = sget n acc.
Proof.
  unfold reindex. induction os as [|[k o2] r IH]; intros acc Hall; cbn [fold_left snd]; [reflexivity|].
  rewrite IH by (intros k' o' Hin; apply (Hall k' o'); now right).
  destruct (o_short o2) as [s2|] eqn:E2; [|reflexivity].
  unfold sget, sset. rewrite sget_sset. destruct (str_eqb_spec n s2) as [->|]; [|reflexivity].
  exfalso. exact (Hall k o2 (or_introl eq_refl) E2).
Qed.

Lemma carries_step es o bf f : carries o bf -> format_of_elements es (Some bf) = Ok f -> carries o f.
Proof.
  intros (B1 & B2 & B3 & B4). unfold format_of_elements.
  destruct (add_elements (empty_builder (Some bf)) es) as [b|k] eqn:Hb; cbn [bind]; [|discriminate].
  intros H. inversion H; subst f. clear H. set (n := o_long o) in *.
  assert (f_base b = Some bf /\ sget n (f_opts b) = None /\ forall k o2, In (k, o2) (f_opts b) -> o_short o2 <> Some n) as (I1 & I2 & I3).
  { apply (add_elements_inv (fun f => f_base f = Some bf /\ sget n (f_opts f) = None /\
                                     forall k o2, In (k, o2) (f_opts f) -> o_short o2 <> Some n))
      with (es := es) (f := empty_builder (Some bf)); [|cbn; repeat split; auto|exact Hb].
    intros f e f' (J1 & J2 & J3) He.
    destruct e as [o3|c|a|c];
      try (apply add_other_inv in He as (-> & _ & ->); [auto|discriminate]).
    apply add_option_inv in He as (Hl & Hs & -> & _ & ->).
    pose proof (has_option_base f bf n J1 B1) as Hhas.
    apply taken_false_own in Hl as (_ & _ & Hl).
    assert (o_long o3 <> n) as Hn1 by (intros E; rewrite E in Hl; congruence).
    assert (o_short o3 <> Some n) as Hn2.
    { intros E. rewrite E in Hs. cbn [optname_taken] in Hs. apply taken_false_own in Hs as (_ & _ & Hs). congruence. }
    split; [exact J1|]. split.
    - unfold sget, sset in *. rewrite sget_sset. destruct (str_eqb_spec n (o_long o3)); [congruence|exact J2].
    - intros k o2 Hin. apply in_sset in Hin as [[-> ->]|Hin]; [exact Hn2|eapply J3; eauto]. }
  pose proof (build_format_short b) as Hre. destruct (build_format_same b) as (Hb0 & _ & _ & Ho & _).
  destruct (build_format b) as [b0 cn co cs ar os oss hm ho]. cbn [f_base f_opts f_opts_short] in Hb0, Ho, Hre.
  rewrite I1 in Hb0. subst b0 os oss. unfold carries. fold n. cbn [has_option_all get_option_all get_options_all].
  rewrite B1, B2, I2, (reindex_none n _ [] I3), !orb_true_r. cbn [sget aget].
  split; [reflexivity|]. split; [reflexivity|]. apply supdate_carry; assumption.
Qed.

(* ================= the parser: plain tokens followed by the help switch ================= *)
(* Option.NO_VALUE, as validated by C07: no value accepted, none required, not multi-valued *)
Definition no_value (o : opt) : Prop := o_accepts o = false /\ o_required o = false /\ o_multi o = false.
(* sw is a spelling of the help switch o: "--help", or "-h" if o has that short name *)
Definition help_switch_of (o : opt) (sw : str) : Prop :=
  o_long o = S_help /\ (sw = T_help \/ (sw = T_h /\ o_short o = Some [104%N])).

(* same success, same error *)
Definition same_ok {X} (r1 r2 : res X) : Prop :=
  match r1 with Ok _ => exists x, r2 = Ok x | Err k => r2 = Err k end.
Lemma same_ok_refl {X} (r : res X) : same_ok r r.
Proof. destruct r; cbn; eauto. Qed.

(* the augmented format the token loop runs on knows the switch *)
Lemma aug_knows f o F ars cns : carries o f -> aug_format f = Ok (F, ars, cns) ->
  has_option_all F (o_long o) = true /\ get_option_all F (o_long o) = Ok o /\
  forall s, o_short o = Some s -> has_option_all F s = true /\ get_option_all F s = Ok o.
Proof.
  intros (_ & _ & Hin & _). unfold aug_format. cbv zeta.
  match goal with |- (do f' <- format_of_elements ?es None; _) = _ -> _ =>
    set (ES := es); destruct (format_of_elements ES None) as [f1|k] eqn:E; cbn [bind]; [|discriminate] end.
  intros H. inversion H; subst. clear H. unfold format_of_elements in E.
  destruct (add_elements (empty_builder None) ES) as [b|k] eqn:Hb; cbn [bind] in E; [|discriminate].
  inversion E; subst F. apply (built_knows_option ES b o Hb).
  unfold ES. apply in_or_app. right. apply in_or_app. right.
  apply in_map_iff. exists (o_long o, o). split; [reflexivity|exact Hin].
Qed.

Lemma starts_dd_dash t : starts_dash t = false -> starts_dd t = false.
Proof. destruct t as [|a [|b r]]; cbn; try reflexivity. intros ->. reflexivity. Qed.
Lemma lead_ok_step F len fuel st t rest : lead_ok t = true ->
  loop (S fuel) F len true st (t :: rest) =
  match parse_argument F len st t with Ok st' => loop fuel F len true st' rest | Err k => (st, Some k) end.
Proof.
  unfold lead_ok. intros H. apply andb_prop in H as [H H3]. apply andb_prop in H as [H1 H2].
  destruct (starts_dash t) eqn:Hd; [discriminate|]. destruct (is_dd t) eqn:Hdd; [discriminate|].
  cbn [loop]. rewrite H1, Hdd, Hd, (starts_dd_dash t Hd). reflexivity.
Qed.
Lemma parse_argument_opts F len st t st' : parse_argument F len st t = Ok st' -> ps_opts st' = ps_opts st.
Proof.
  unfold parse_argument. destruct (has_argument F (APos (Z.of_nat (length (ps_args st)))) true).
  - destruct (get_argument F _ true) as [a|k]; cbn [bind]; [|discriminate].
    destruct (a_multi a); intros H; inversion H; reflexivity.
  - destruct (has_argument F (APos (Z.of_nat (length (ps_args st)) - 1)) true).
    + destruct (get_argument F _ true) as [a|k]; cbn [bind]; [|discriminate].
      destruct (a_multi a); [intros H; inversion H; reflexivity|].
      destruct len; intros H; inversion H; reflexivity.
    + destruct len; intros H; inversion H; reflexivity.
Qed.

Section Switch.
  Variables (F : fmt) (o : opt).
  Hypothesis Hlong : o_long o = S_help.
  Hypothesis Hnv : no_value o.
  Hypothesis Hhas : has_option_all F S_help = true.
  Hypothesis Hget : get_option_all F S_help = Ok o.

  Lemma add_long_switch st :
    exists v, add_long_option F st S_help None [] =
              Ok ({| ps_args := ps_args st; ps_opts := sset S_help v (ps_opts st) |}, []).
  Proof.
    destruct Hnv as (Ha & Hr & Hm). unfold add_long_option. cbn [has_option get_option].
    rewrite Hhas, Hget. cbn [negb bind]. rewrite Ha, Hr, Hm. eexists. reflexivity.
  Qed.
  Lemma long_switch st :
    exists v, parse_long_option F st T_help [] =
              Ok ({| ps_args := ps_args st; ps_opts := sset S_help v (ps_opts st) |}, []).
  Proof.
    destruct Hnv as (Ha & _). unfold parse_long_option. change (skipn 2 T_help) with S_help.
    change (split_eq S_help []) with (@None (str * str)). unfold accepts. cbn [has_option get_option].
    rewrite Hhas, Hget, Ha. cbn [andb]. apply add_long_switch.
  Qed.
  Lemma short_switch st :
    has_option_all F [104%N] = true -> get_option_all F [104%N] = Ok o ->
    exists v, parse_short_option F st T_h [] =
              (Ok ({| ps_args := ps_args st; ps_opts := sset S_help v (ps_opts st) |}, []),
               {| ps_args := ps_args st; ps_opts := sset S_help v (ps_opts st) |}).
  Proof.
    intros Hh Hg. destruct Hnv as (Ha & _). unfold parse_short_option. change (skipn 1 T_h) with [104%N].
    unfold accepts. cbn [has_option get_option]. rewrite Hh, Hg, Ha. cbn [andb].
    unfold add_short_option. cbn [has_option get_option]. rewrite Hh, Hg. cbn [negb bind]. rewrite Hlong.
    destruct (add_long_switch st) as [v ->]. exists v. reflexivity.
  Qed.

  Variable sw : str.
  Hypothesis Hsw : sw = T_help \/ (sw = T_h /\ has_option_all F [104%N] = true /\ get_option_all F [104%N] = Ok o).

  Lemma switch_loop len st m :
    exists v, loop (S (S m)) F len true st [sw] =
              ({| ps_args := ps_args st; ps_opts := sset S_help v (ps_opts st) |}, None).
  Proof.
    destruct Hsw as [->|(-> & Hh & Hg)].
    - destruct (long_switch st) as [v Hv]. exists v. cbn [loop].
      change (true && negb (nonempty T_help)) with false. change (true && is_dd T_help) with false.
      change (true && starts_dd T_help) with true. cbv iota. rewrite Hv. reflexivity.
    - destruct (short_switch st Hh Hg) as [v Hv]. exists v. cbn [loop].
      change (true && negb (nonempty T_h)) with false. change (true && is_dd T_h) with false.
      change (true && starts_dd T_h) with false.
      change (true && starts_dash T_h && negb (str_eqb T_h [DASH])) with true. cbv iota. rewrite Hv. reflexivity.
  Qed.

  (* the loop over plain tokens leaves the options alone; with the switch behind them it ends in the same error, or
     in the same state plus the stored switch *)
  Lemma loop_suffix len : forall path fuel st, forallb lead_ok path = true -> length path < fuel ->
    ps_opts (fst (loop fuel F len true st path)) = ps_opts st /\
    match snd (loop fuel F len true st path) with
    | None => exists v, loop (S fuel) F len true st (path ++ [sw]) =
                        ({| ps_args := ps_args (fst (loop fuel F len true st path));
                            ps_opts := sset S_help v (ps_opts st) |}, None)
    | Some k => loop (S fuel) F len true st (path ++ [sw]) = (fst (loop fuel F len true st path), Some k)
    end.
  Proof.
    induction path as [|t r IH]; intros fuel st Hl Hf.
    - destruct fuel as [|m]; [cbn in Hf; lia|]. cbn [loop fst snd app]. split; [reflexivity|]. apply switch_loop.
    - destruct fuel as [|m]; [cbn in Hf; lia|]. cbn [length] in Hf. cbn [forallb] in Hl.
      apply andb_prop in Hl as [Ht Hr]. cbn [app]. rewrite !(lead_ok_step _ _ _ _ _ _ Ht).
      destruct (parse_argument F len st t) as [st'|k] eqn:Ep; [|cbn [fst snd]; auto].
      destruct (IH m st' Hr ltac:(lia)) as [I1 I2]. rewrite (parse_argument_opts _ _ _ _ _ Ep) in I1, I2.
      split; [exact I1|exact I2].
  Qed.
End Switch.

Lemma insert_missing_swap A C len st X :
  insert_missing A C len {| ps_args := ps_args st; ps_opts := X |} =
  match insert_missing A C len st with
  | Ok st2 => Ok {| ps_args := ps_args st2; ps_opts := X |}
  | Err k => Err k end.
Proof.
  unfold insert_missing. cbn [ps_args ps_opts]. destruct (skip_names (flatten (ps_args st)) C 0) as [[vals' cns'] k].
  destruct (copy_values vals' _ len _); reflexivity.
Qed.

(* the parse of <plain tokens> <switch> succeeds exactly when the parse of <plain tokens> does, and fails alike *)
Lemma parse_switch f o sw len path :
  carries o f -> no_value o -> help_switch_of o sw -> forallb lead_ok path = true ->
  same_ok (parse f len path) (parse f len (path ++ [sw])).
Proof.
  intros Hc Hnv [Hlong Hsw] Hl. unfold parse, parse_on.
  destruct (aug_format f) as [[[F ars] cns]|k] eqn:Ea; [|cbn; reflexivity].
  destruct (aug_knows f o F ars cns Hc Ea) as (A1 & A2 & A3). rewrite Hlong in A1, A2.
  assert (sw = T_help \/ (sw = T_h /\ has_option_all F [104%N] = true /\ get_option_all F [104%N] = Ok o)) as Hsw'.
  { destruct Hsw as [->|[-> Hs]]; [now left|right]. destruct (A3 _ Hs). auto. }
  destruct (loop_suffix F o Hlong Hnv A1 A2 sw Hsw' len path (S (length path)) ps_empty Hl ltac:(lia)) as [L1 L2].
  replace (S (length (path ++ [sw]))) with (S (S (length path))) by (rewrite app_length; cbn; lia).
  destruct (loop (S (length path)) F len true ps_empty path) as [st1 e]. cbn [fst snd] in L1, L2.
  destruct e as [k|].
  - rewrite L2. apply same_ok_refl.
  - destruct L2 as [v ->]. cbn [ps_opts ps_empty]. cbv iota.
    rewrite (insert_missing_swap ars cns len st1).
    pose proof (insert_missing_spec ars cns len st1) as Hi.
    destruct (insert_missing ars cns len st1) as [st2|k]; [|cbn; reflexivity].
    unfold missing_required. cbn [ps_args].
    destruct (existsb _ ars && negb len); [cbn; reflexivity|]. cbn [snd ps_args ps_opts].
    rewrite Hi, L1. cbn [ps_opts ps_empty].
    destruct (set_arguments f {| ar_opts := []; ar_args := [] |} (ps_args st2)) as [a1|k]; cbn [bind]; [|reflexivity].
    destruct Hc as (C1 & C2 & _). rewrite Hlong in C1, C2. destruct Hnv as (Ha & _ & Hm).
    change (sset S_help v []) with [(S_help, v)]. cbn [set_options same_ok has_option]. rewrite C1.
    unfold set_option. cbn [get_option]. rewrite C2. cbn [bind]. rewrite Hm, Ha. cbn [bind]. eexists. reflexivity.
Qed.

(* ================= the command tree ================= *)
(* every format of the command and of its sub-commands, at any depth, satisfies P *)
Fixpoint tree_ok (P : fmt -> Prop) (b : bcmd) : Prop :=
  match b with BCmd _ _ _ _ _ f subs =>
    P f /\ (fix go (l : list bcmd) : Prop := match l with [] => True | x :: r => tree_ok P x /\ go r end) subs end.
Lemma tree_ok_unfold P b : tree_ok P b <-> P (b_fmt b) /\ Forall (tree_ok P) (b_subs b).
Proof.
  destruct b as [n al d an len f subs]. cbn [tree_ok b_fmt b_subs]. split; intros [H1 H2]; (split; [exact H1|]).
  - induction subs as [|x r IH]; constructor; [apply H2|apply IH, H2].
  - induction subs as [|x r IH]; [exact I|]. inversion H2; subst. split; [assumption|apply IH; assumption].
Qed.

Lemma coll_fold_in (L : list bcmd) : forall l c,
  (forall k x, In (k, x) (cc_cmds c) -> In x L) -> (forall x, In x l -> In x L) ->
  forall k x, In (k, x) (cc_cmds (fold_left coll_add l c)) -> In x L.
Proof.
  induction l as [|b r IH]; intros c Hc Hl k x; cbn [fold_left]; [apply Hc|].
  apply IH; [|intros y Hy; apply Hl; now right].
  intros k' x' Hin. cbn [coll_add cc_cmds] in Hin. apply in_sset in Hin as [[_ ->]|Hin]; [apply Hl; now left|eapply Hc; eauto].
Qed.
Lemma coll_of_in l k x : In (k, x) (cc_cmds (coll_of l)) -> In x l.
Proof. apply (coll_fold_in l l coll_empty); [intros ? ? []|auto]. Qed.
Lemma coll_get_in l n b : coll_get (coll_of l) n = Ok b -> In b l.
Proof.
  unfold coll_get. destruct (sget n (cc_cmds (coll_of l))) as [b0|] eqn:E.
  - intros H. inversion H; subst. apply sget_in in E. eapply coll_of_in; eauto.
  - destruct (sget n (cc_alias (coll_of l))) as [m|]; [|discriminate].
    destruct (sget m (cc_cmds (coll_of l))) as [b0|] eqn:E2; [|discriminate].
    intros H. inversion H; subst. apply sget_in in E2. eapply coll_of_in; eauto.
Qed.
Lemma named_get_in l n b : coll_get (named_of l) n = Ok b -> In b l.
Proof. intros H. apply coll_get_in in H. now apply filter_In in H as [H _]. Qed.
Lemma defaults_of_in l d : In d (defaults_of l) -> In d l.
Proof.
  unfold defaults_of. intros H. apply in_map_iff in H as [[k x] [<- H]]. apply coll_of_in in H.
  now apply filter_In in H as [H _].
Qed.

(* the command the walk reaches is in the tree *)
Lemma walk_tree_ok P : forall names l cur b p,
  Forall (tree_ok P) l -> (forall b0 p0, cur = Some (b0, p0) -> tree_ok P b0) ->
  walk (named_of l) cur names = Ok (Some (b, p)) -> tree_ok P b.
Proof.
  induction names as [|n r IH]; intros l cur b p Hl Hcur; cbn [walk].
  - intros H. inversion H. eapply Hcur; eauto.
  - destruct (coll_contains (named_of l) n); cbn [negb]; [|intros H; inversion H; eapply Hcur; eauto].
    destruct (coll_get (named_of l) n) as [b0|k] eqn:Hg; cbn [bind]; [|discriminate].
    apply named_get_in in Hg. pose proof (proj1 (Forall_forall _ _) Hl b0 Hg) as Hb0.
    apply IH; [apply tree_ok_unfold, Hb0|]. intros b1 p1 E. inversion E; subst. exact Hb0.
Qed.

(* ================= the probe of the default (sub-)commands ================= *)
Section Pick.
  Variables t1 t2 : list str.
  Let Q (d : bcmd) : Prop := forall len, same_ok (parse (b_fmt d) len t1) (parse (b_fmt d) len t2).

  Lemma help_lenient_same f : same_ok (parse f true t1) (parse f true t2) -> help_lenient f t1 = help_lenient f t2.
  Proof.
    unfold help_lenient, same_ok. destruct (parse f true t1) as [x|k]; [intros [x2 ->]; reflexivity|intros ->; reflexivity].
  Qed.

  Lemma pick_default_switch : forall ds first1 first2,
    Forall Q ds -> option_map fst first1 = option_map fst first2 -> (forall b k, first1 = Some (b, k) -> Q b) ->
    match help_pick_default ds t1 first1 with
    | Err k => help_pick_default ds t2 first2 = Err k
    | Ok None => help_pick_default ds t2 first2 = Ok None
    | Ok (Some (d, _)) => Q d /\ exists r2, help_pick_default ds t2 first2 = Ok (Some (d, r2))
    end.
  Proof.
    induction ds as [|d r IH]; intros first1 first2 Hds Hf Hq; cbn [help_pick_default].
    - destruct first1 as [[b1 k1]|], first2 as [[b2 k2]|]; cbn in Hf; try discriminate; [|reflexivity].
      inversion Hf; subst. split; [eapply Hq; eauto|eauto].
    - inversion Hds as [|? ? Hd Hr]; subst. pose proof (Hd (b_lenient d)) as Hp. unfold same_ok in Hp.
      destruct (parse (b_fmt d) (b_lenient d) t1) as [x|k].
      + destruct Hp as [x2 ->]. split; [exact Hd|eauto].
      + rewrite Hp. destruct k; try reflexivity.
        * apply IH; [exact Hr| |].
          -- destruct first1 as [[b1 k1]|], first2 as [[b2 k2]|]; cbn in Hf |- *; try discriminate; auto.
          -- intros b k E. destruct first1 as [[b1 k1]|]; [eapply Hq; eauto|]. inversion E; subst. exact Hd.
        * apply IH; [exact Hr| |].
          -- destruct first1 as [[b1 k1]|], first2 as [[b2 k2]|]; cbn in Hf |- *; try discriminate; auto.
          -- intros b k E. destruct first1 as [[b1 k1]|]; [eapply Hq; eauto|]. inversion E; subst. exact Hd.
  Qed.

  (* ... followed by the lenient parse of the command picked *)
  Lemma pick_then_parse {Y} ds (K : bcmd -> Y) (alt1 alt2 : res Y) :
    Forall Q ds -> alt1 = alt2 ->
    (do d <- help_pick_default ds t1 None;
     match d with Some (dc, _) => do x <- help_lenient (b_fmt dc) t1; Ok (K dc) | None => alt1 end) =
    (do d <- help_pick_default ds t2 None;
     match d with Some (dc, _) => do x <- help_lenient (b_fmt dc) t2; Ok (K dc) | None => alt2 end).
  Proof.
    intros Hds <-. pose proof (pick_default_switch ds None None Hds eq_refl ltac:(discriminate)) as H.
    destruct (help_pick_default ds t1 None) as [[[d r1]|]|k].
    - destruct H as [Hd [r2 ->]]. cbn [bind]. now rewrite (help_lenient_same (b_fmt d) (Hd true)).
    - rewrite H. reflexivity.
    - rewrite H. reflexivity.
  Qed.
End Pick.

(* ================= help <path> = <path> --help = <path> -h ================= *)
Theorem help_same_target_app a o sw path :
  Forall (tree_ok (carries o)) (ap_cmds a) -> no_value o -> help_switch_of o sw ->
  forallb lead_ok path = true ->
  (match path with t :: _ => str_eqb t S_help = false | [] => True end) ->
  help_target a (S_help :: path) = help_target a (path ++ [sw]).
Proof.
  intros Ht Hnv Hsw Hl Hh. rewrite help_word_dropped by exact Hh.
  assert (str_eqb sw S_help = false /\ stopper sw = true) as [Hs1 Hs2].
  { destruct Hsw as [_ [->|[-> _]]]; split; reflexivity. }
  assert (forall l, Forall (tree_ok (carries o)) l ->
            Forall (fun d => forall len, same_ok (parse (b_fmt d) len path) (parse (b_fmt d) len (path ++ [sw])))
                   (defaults_of l)) as Hdefs.
  { intros l Hall. apply Forall_forall. intros d Hd len. apply defaults_of_in in Hd.
    pose proof (proj1 (Forall_forall _ _) Hall d Hd) as Hd'. apply tree_ok_unfold in Hd' as [Hc _].
    apply (parse_switch _ o); assumption. }
  unfold help_target.
  assert ((match path ++ [sw] with t :: r => if str_eqb t S_help then r else path ++ [sw] | [] => [] end) = path ++ [sw]) as ->.
  { destruct path as [|t r]; cbn [app]; [now rewrite Hs1|now rewrite Hh]. }
  assert ((match path with t :: r => if str_eqb t S_help then r else path | [] => [] end) = path) as ->.
  { destruct path as [|t r]; [reflexivity|now rewrite Hh]. }
  rewrite (leading_all _ Hl), (leading_cut _ sw [] Hl Hs2).
  destruct (walk (named_of (ap_cmds a)) None path) as [[[b p]|]|k] eqn:Hw; cbn [bind]; [| |reflexivity].
  - pose proof (walk_tree_ok (carries o) path (ap_cmds a) None b p Ht ltac:(discriminate) Hw) as Hb.
    apply tree_ok_unfold in Hb as [Hc Hsubs].
    apply (pick_then_parse path (path ++ [sw]) (defaults_of (b_subs b)) (fun dc => p ++ [b_name dc])); [apply Hdefs, Hsubs|].
    now rewrite (help_lenient_same path (path ++ [sw]) (b_fmt b) (parse_switch _ o sw true path Hc Hnv Hsw Hl)).
  - destruct path as [|t r]; [|reflexivity].
    apply (pick_then_parse [] ([] ++ [sw]) (defaults_of (ap_cmds a)) (fun dc => [b_name dc])); [apply Hdefs, Ht|reflexivity].
Qed.

(* ================= build_app: every command format extends the global format ================= *)
Lemma cmd_ind' (P : cmd -> Prop) :
  (forall name al d an en len opts args subs, Forall P subs -> P (Cmd name al d an en len opts args subs)) ->
  forall c, P c.
Proof.
  intros H. fix F 1. intros [name al d an en len opts args subs]. apply H.
  induction subs as [|s r IHr]; constructor; [apply F|exact IHr].
Qed.

Definition cmd_enabled (c : cmd) : bool := let '(Cmd _ _ _ _ en _ _ _ _) := c in en.
Definition build_subs_of (f : fmt) : list cmd -> res (list bcmd) :=
  fix build_subs (l : list cmd) : res (list bcmd) :=
    match l with
    | [] => Ok []
    | (Cmd _ _ _ _ en _ _ _ _ as s) :: r =>
      if en then (do b <- build_cmd (Some f) s; do bs <- build_subs r; Ok (b :: bs)) else build_subs r
    end.
Lemma build_subs_cons f s r :
  build_subs_of f (s :: r) =
  if cmd_enabled s then (do b <- build_cmd (Some f) s; do bs <- build_subs_of f r; Ok (b :: bs)) else build_subs_of f r.
Proof. destruct s. reflexivity. Qed.
Lemma build_cmd_eq base name al d an en len opts args subs :
  build_cmd base (Cmd name al d an en len opts args subs) =
  (do f <- format_of_elements (cmd_elements name al an opts args) base;
   do bs <- build_subs_of f subs; Ok (BCmd name al d an len f bs)).
Proof. reflexivity. Qed.

Section Build.
  Variable P : fmt -> Prop.
  Hypothesis Hstep : forall es bf f, P bf -> format_of_elements es (Some bf) = Ok f -> P f.

  Lemma build_cmd_ok : forall c base b, P base -> build_cmd (Some base) c = Ok b -> tree_ok P b.
  Proof.
    induction c as [name al d an en len opts args subs IH] using cmd_ind'. intros base b Hb. rewrite build_cmd_eq.
    destruct (format_of_elements (cmd_elements name al an opts args) (Some base)) as [f|k] eqn:Ef; cbn [bind]; [|discriminate].
    pose proof (Hstep _ _ _ Hb Ef) as Hf.
    destruct (build_subs_of f subs) as [bs|k] eqn:Ebs; cbn [bind]; [|discriminate].
    intros H. inversion H; subst b. clear H. apply tree_ok_unfold. cbn [b_fmt b_subs]. split; [exact Hf|].
    revert bs Ebs. induction subs as [|s r IHr]; intros bs Ebs.
    - cbn in Ebs. inversion Ebs. constructor.
    - inversion IH as [|? ? Hs Hr]; subst. rewrite build_subs_cons in Ebs.
      destruct (cmd_enabled s); [|now apply IHr].
      destruct (build_cmd (Some f) s) as [b1|k] eqn:E1; cbn [bind] in Ebs; [|discriminate].
      destruct (build_subs_of f r) as [bs1|k] eqn:E2; cbn [bind] in Ebs; [|discriminate].
      inversion Ebs; subst. constructor; [eapply Hs; eauto|now apply IHr].
  Qed.

  Lemma build_cmds_ok g : P g -> forall l seen cs, build_cmds g seen l = Ok cs -> Forall (tree_ok P) cs.
  Proof.
    intros Hg. induction l as [|c r IH]; intros seen cs; [cbn; intros H; inversion H; constructor|].
    destruct c as [name al d an en len opts args subs]. cbn [build_cmds].
    destruct (negb en); [apply IH|]. destruct name as [|ch name]; [discriminate|].
    destruct (existsb _ seen); [discriminate|].
    destruct (build_cmd (Some g) _) as [b|k] eqn:E1; cbn [bind]; [|discriminate].
    destruct (build_cmds g _ r) as [bs|k] eqn:E2; cbn [bind]; [|discriminate].
    intros H. inversion H; subst. constructor; [eapply build_cmd_ok; eauto|eapply IH; eauto].
  Qed.
End Build.

(* an option among the global options of the configuration is carried by the format of every command *)
Theorem build_app_carries cfg a o :
  build_app cfg = Ok a -> In o (ac_opts cfg) -> Forall (tree_ok (carries o)) (ap_cmds a).
Proof.
  unfold build_app. intros H Hin.
  destruct (format_of_elements (map EArg (ac_args cfg) ++ map EOpt (ac_opts cfg)) None) as [g|k] eqn:Eg; cbn [bind] in H; [|discriminate].
  destruct (build_cmds g [] (ac_cmds cfg)) as [cs|k] eqn:Ec; cbn [bind] in H; [|discriminate].
  inversion H; subst a. cbn [ap_cmds].
  apply (build_cmds_ok (carries o) (fun es bf f => carries_step es o bf f) g) with (l := ac_cmds cfg) (seen := []); [|exact Ec].
  apply (carries_base _ o g Eg). apply in_or_app. right. now apply in_map.
Qed.

(* ================= the configuration-level statement ================= *)
(* the global help option as DefaultApplicationConfig defines it: add_option("help", "h", Option.NO_VALUE, ...) *)
Definition is_help_option (o : opt) : bool :=
  str_eqb (o_long o) S_help && match o_short o with Some s => str_eqb s [104%N] | None => false end &&
  negb (o_accepts o) && negb (o_required o) && negb (o_multi o).
Definition defines_help (cfg : appcfg) : bool := existsb is_help_option (ac_opts cfg).

Lemma is_help_option_spec o : is_help_option o = true ->
  no_value o /\ help_switch_of o T_help /\ help_switch_of o T_h.
Proof.
  unfold is_help_option. intros H.
  apply andb_prop in H as [H H5]. apply andb_prop in H as [H H4]. apply andb_prop in H as [H H3].
  apply andb_prop in H as [H1 H2].
  destruct (str_eqb_spec (o_long o) S_help) as [Hl|]; [|discriminate].
  destruct (o_short o) as [s|] eqn:Es; [|discriminate]. destruct (str_eqb_spec s [104%N]) as [->|]; [|discriminate].
  unfold no_value, help_switch_of. destruct (o_accepts o), (o_required o), (o_multi o); try discriminate. auto 10.
Qed.

(* For every application built from a configuration that defines the help option, and every line of plain tokens
   (not empty, not "--", not option-like) that does not start with the word "help":
   "help <line>", "<line> --help" and "<line> -h" have the same help target - the same path, or the same error. *)
Theorem help_same_target cfg a path :
  build_app cfg = Ok a -> defines_help cfg = true ->
  forallb lead_ok path = true ->
  (match path with t :: _ => str_eqb t S_help = false | [] => True end) ->
  help_target a (S_help :: path) = help_target a (path ++ [T_help]) /\
  help_target a (S_help :: path) = help_target a (path ++ [T_h]).
Proof.
  intros Hb Hd Hl Hh. unfold defines_help in Hd. apply existsb_exists in Hd as [o [Hin Ho]].
  apply is_help_option_spec in Ho as (Hnv & H1 & H2).
  pose proof (build_app_carries cfg a o Hb Hin) as Ht.
  split; eapply help_same_target_app; eauto.
Qed.

(* The statement of HelpTargetLemmas.help_same_target with its second parse hypothesis discharged (and "-h" added): for
   a command without default sub-commands whose lenient parse of the plain line succeeds, all three spellings give the
   path walked.  The remaining hypothesis cannot be derived from the configuration: a typed argument makes the lenient
   parse raise ValueError (Props/C13.v, ex_help_value_error) - then all three spellings raise it. *)
Corollary help_target_no_defaults cfg a path b p x1 :
  build_app cfg = Ok a -> defines_help cfg = true ->
  forallb lead_ok path = true ->
  (match path with t :: _ => str_eqb t S_help = false | [] => True end) ->
  walk (named_of (ap_cmds a)) None path = Ok (Some (b, p)) ->
  defaults_of (b_subs b) = [] ->
  parse (b_fmt b) true path = Ok x1 ->
  help_target a (S_help :: path) = Ok p /\ help_target a (path ++ [T_help]) = Ok p /\ help_target a (path ++ [T_h]) = Ok p.
Proof.
  intros Hb Hd Hl Hh Hw Hdef Hp. destruct (help_same_target cfg a path Hb Hd Hl Hh) as [E1 E2].
  assert (help_target a (S_help :: path) = Ok p) as H0.
  { rewrite help_word_dropped by exact Hh. unfold help_target.
    assert ((match path with t :: r => if str_eqb t S_help then r else path | [] => [] end) = path) as ->.
    { destruct path as [|t r]; [reflexivity|now rewrite Hh]. }
    rewrite (leading_all _ Hl), Hw. cbn [bind]. rewrite Hdef. cbn [help_pick_default bind]. unfold help_lenient. now rewrite Hp. }
  rewrite <- E1, <- E2. auto.
Qed.
