(* Strings (lists of code points) and str-keyed association lists. *)
From Coq Require Import Lia.
From Clikit Require Import Base.Prelude.

Lemma str_eqb_spec a b : reflect (a = b) (str_eqb a b).
Proof.
  revert b. induction a as [|x a IH]; intros [|y b]; cbn; try (constructor; congruence).
  destruct (N.eqb_spec x y) as [->|Hn]; cbn.
  - destruct (IH b) as [->|Hn]; constructor; congruence.
  - constructor. congruence.
Qed.
Lemma str_eqb_refl a : str_eqb a a = true.
Proof. destruct (str_eqb_spec a a); congruence. Qed.
Lemma str_eqb_sym a b : str_eqb a b = str_eqb b a.
Proof. destruct (str_eqb_spec a b), (str_eqb_spec b a); congruence. Qed.

Section StrAssoc.
  Context {V : Type}.
  Notation sget := (@aget str V str_eqb).
  Notation sset := (@aset str V str_eqb).

  Lemma sget_sset k v n (d : list (str * V)) :
    sget n (sset k v d) = if str_eqb n k then Some v else sget n d.
  Proof.
    induction d as [|[k' v'] r IH]; cbn.
    - reflexivity.
    - destruct (str_eqb_spec k k') as [->|Hk]; cbn.
      + destruct (str_eqb n k'); reflexivity.
      + rewrite IH. destruct (str_eqb_spec n k') as [->|Hn]; [|reflexivity].
        destruct (str_eqb_spec k' k); [congruence|reflexivity].
  Qed.
  Lemma sget_fold_sset (als : list str) v n (d : list (str * V)) :
    sget n (fold_left (fun d a => sset a v d) als d) = if existsb (str_eqb n) als then Some v else sget n d.
  Proof.
    revert d. induction als as [|a r IH]; intros d; cbn; [reflexivity|].
    rewrite IH, sget_sset. destruct (existsb (str_eqb n) r); [now rewrite orb_true_r|].
    rewrite orb_false_r. reflexivity.
  Qed.
  Lemma sset_absent k v (d : list (str * V)) : sget k d = None -> sset k v d = d ++ [(k, v)].
  Proof.
    induction d as [|[k' v'] r IH]; cbn; [reflexivity|].
    destruct (str_eqb k k'); [discriminate|]. intros H. now rewrite IH.
  Qed.
  Lemma sget_app n (d1 d2 : list (str * V)) :
    sget n (d1 ++ d2) = match sget n d1 with Some v => Some v | None => sget n d2 end.
  Proof. induction d1 as [|[k v] r IH]; cbn; [reflexivity|]. destruct (str_eqb n k); auto. Qed.
  Lemma sget_in n v (d : list (str * V)) : sget n d = Some v -> In (n, v) d.
  Proof.
    induction d as [|[k w] r IH]; cbn; [discriminate|].
    destruct (str_eqb_spec n k) as [->|Hn]; intros H; [inversion H; now left | right; auto].
  Qed.
  Lemma sget_none_notin n (d : list (str * V)) : sget n d = None -> ~ In n (map fst d).
  Proof.
    induction d as [|[k w] r IH]; cbn; [tauto|].
    destruct (str_eqb_spec n k) as [->|Hn]; [discriminate|]. intros H [Hk|Hi]; [congruence|]. now apply IH.
  Qed.
  Lemma notin_sget_none n (d : list (str * V)) : ~ In n (map fst d) -> sget n d = None.
  Proof.
    induction d as [|[k w] r IH]; cbn; [reflexivity|]. intros H.
    destruct (str_eqb_spec n k) as [->|Hn]; [tauto|]. apply IH. tauto.
  Qed.
End StrAssoc.

Lemma NoDup_app_snoc {X} (l : list X) p : NoDup l -> ~ In p l -> NoDup (l ++ [p]).
Proof.
  induction l as [|a r IH]; intros Hn Hp; cbn; [repeat constructor; auto|].
  inversion Hn; subst. constructor.
  - rewrite in_app_iff. cbn in *. intuition congruence.
  - apply IH; auto. cbn in Hp. tauto.
Qed.
