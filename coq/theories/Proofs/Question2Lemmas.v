(* Proofs about Model/QuestionText.v (C18): the text layer agrees with the outcome layer of Model/Question.v. *)
From Coq Require Import Lia.
From Clikit Require Import Base.Prelude Base.Res Model.Conv Model.Question Model.QuestionText.

(* ---------- the validator has a message exactly for what it rejects ---------- *)
Lemma value_msg_agrees cs v :
  match validate_value cs v with inr _ => value_msg cs v = None | inl _ => exists m, value_msg cs v = Some m end.
Proof.
  unfold validate_value, value_msg. destruct (positions cs v 0) as [|i [|j r]]; eauto.
  destruct (int_of_str v) as [z|]; eauto.
  destruct ((0 <=? z)%Z && (z <? Z.of_nat (length cs))%Z); eauto.
  destruct (nth_error cs (Z.to_nat z)); eauto.
Qed.
Lemma values_msg_agrees cs : forall vs,
  match validate_values cs vs with inr _ => values_msg cs vs = None | inl _ => exists m, values_msg cs vs = Some m end.
Proof.
  induction vs as [|v r IH]; cbn; [reflexivity|].
  pose proof (value_msg_agrees cs v) as H. destruct (validate_value cs v) as [e|x].
  - destruct H as [m ->]. eauto.
  - rewrite H. destruct (validate_values cs r) as [e|xs]; exact IH.
Qed.
Lemma validate_msg_agrees q s :
  match validate q s with inr _ => validate_msg q s = None | inl _ => exists m, validate_msg q s = Some m end.
Proof.
  unfold validate, validate_msg. destruct s as [s|]; [|eauto]. destruct (q_multi q).
  - destruct (forallb _ _); [|eauto].
    pose proof (values_msg_agrees (q_choices q) (split_on COMMA (remove_spaces s))) as H.
    destruct (validate_values _ _); exact H.
  - pose proof (value_msg_agrees (q_choices q) s) as H. destruct (validate_value _ _); exact H.
Qed.

(* ---------- the error output is a dialogue: prompt, then (error line, prompt) per error printed ---------- *)
Definition tail_text (p : str) (msgs : list str) : str := concat (map (fun m => m ++ [NLc] ++ p) msgs).
Lemma dialogue_eq p msgs : dialogue p msgs = p ++ tail_text p msgs.
Proof. reflexivity. Qed.
Definition pre_of (last : option str) : str := match last with Some m => m ++ [NLc] | None => [] end.
Definition both {X Y} (a : option X) (b : option Y) : Prop :=
  match a, b with Some _, Some _ => True | None, None => True | _, _ => False end.
Definition bump {X} (last : option X) (n : nat) : nat := match last with Some _ => S n | None => n end.

Lemma ask_text_zero q p script last : ask_text q p script (Some 0) last = ([], last).
Proof. destruct script; reflexivity. Qed.
Lemma ask_loop_zero q script last n e pr :
  ask_loop q script (Some 0) last n e pr =
  {| o_end := match last with Some er => Failed er | None => Failed VOther end; o_lines_read := n; o_errors_printed := e; o_prompts := pr |}.
Proof. destruct script; reflexivity. Qed.

Lemma ask_text_dialogue q p : forall script att laste lastm n e pr,
  both laste lastm -> att <> Some 0 ->
  exists msgs,
    fst (ask_text q p script att lastm) = pre_of lastm ++ p ++ tail_text p msgs /\
    o_errors_printed (ask_loop q script att laste n e pr) = bump laste e + length msgs /\
    o_prompts (ask_loop q script att laste n e pr) = S pr + length msgs.
Proof.
  induction script as [|line rest IH]; intros att laste lastm n e pr Hb Ha.
  - exists []. destruct att as [[|k]|]; [congruence| |];
      (destruct laste, lastm; try contradiction; cbn; rewrite ?app_nil_r; repeat split; lia).
  - assert (Hstep : forall att', (att = None /\ att' = None) \/ (exists k, att = Some (S k) /\ att' = Some k) ->
        exists msgs,
          fst (ask_text q p (line :: rest) att lastm) = pre_of lastm ++ p ++ tail_text p msgs /\
          o_errors_printed (ask_loop q (line :: rest) att laste n e pr) = bump laste e + length msgs /\
          o_prompts (ask_loop q (line :: rest) att laste n e pr) = S pr + length msgs).
    { intros att' Hatt.
      assert (Hunf_t : ask_text q p (line :: rest) att lastm =
                match validate_msg q (effective_answer q line) with
                | None => (pre_of lastm ++ p, None)
                | Some m => let '(t, f) := ask_text q p rest att' (Some m) in (pre_of lastm ++ p ++ t, f)
                end).
      { destruct Hatt as [[-> ->]|[k [-> ->]]]; reflexivity. }
      assert (Hunf_l : ask_loop q (line :: rest) att laste n e pr =
                match validate q (effective_answer q line) with
                | inr a => {| o_end := Answered a; o_lines_read := S n; o_errors_printed := bump laste e; o_prompts := S pr |}
                | inl er => ask_loop q rest att' (Some er) (S n) (bump laste e) (S pr)
                end).
      { destruct Hatt as [[-> ->]|[k [-> ->]]]; destruct laste; reflexivity. }
      rewrite Hunf_t, Hunf_l. clear Hunf_t Hunf_l.
      pose proof (validate_msg_agrees q (effective_answer q line)) as Hv.
      destruct (validate q (effective_answer q line)) as [er|a].
      - destruct Hv as [m ->].
        destruct att' as [[|k']|].
        + (* the budget is used up by this entry: its error is raised, nothing more is written *)
          exists []. rewrite ask_text_zero, ask_loop_zero. cbn. rewrite ?app_nil_r. repeat split; lia.
        + destruct (IH (Some (S k')) (Some er) (Some m) (S n) (bump laste e) (S pr) I ltac:(congruence)) as (msgs & H1 & H2 & H3).
          exists (m :: msgs). destruct (ask_text q p rest (Some (S k')) (Some m)) as [t f]. cbn [fst] in *. subst t.
          rewrite H2, H3. cbn [pre_of tail_text map concat length bump]. rewrite <- !app_assoc. repeat split; try lia.
        + destruct (IH None (Some er) (Some m) (S n) (bump laste e) (S pr) I ltac:(congruence)) as (msgs & H1 & H2 & H3).
          exists (m :: msgs). destruct (ask_text q p rest None (Some m)) as [t f]. cbn [fst] in *. subst t.
          rewrite H2, H3. cbn [pre_of tail_text map concat length bump]. rewrite <- !app_assoc. repeat split; try lia.
      - rewrite Hv. exists []. cbn. rewrite ?app_nil_r. repeat split; lia. }
    destruct att as [[|k]|]; [congruence| |].
    + apply (Hstep (Some k)). right. eauto.
    + apply (Hstep None). left. auto.
Qed.

Lemma choice_text_is_dialogue q prompt script : q_attempts q <> Some 0 ->
  exists msgs, fst (choice_text true q prompt script) = dialogue prompt msgs /\
               length msgs = o_errors_printed (ask_choice true q script) /\
               S (length msgs) = o_prompts (ask_choice true q script).
Proof.
  intros Ha. unfold choice_text, ask_choice. cbn [negb].
  destruct (ask_text_dialogue q prompt script (q_attempts q) None None 0 0 0 I Ha) as (msgs & H1 & H2 & H3).
  exists msgs. rewrite H1, H2, H3, dialogue_eq. cbn. repeat split; lia.
Qed.

(* a question that fails says why: the message of the entry that used up the budget *)
Lemma ask_text_failure q p : forall script att laste lastm n e pr er,
  both laste lastm -> o_end (ask_loop q script att laste n e pr) = Failed er ->
  (att = Some 0 -> lastm <> None) -> exists m, snd (ask_text q p script att lastm) = Some m.
Proof.
  induction script as [|line rest IH]; intros att laste lastm n e pr er Hb He H0.
  - destruct att as [[|k]|]; cbn in *; try discriminate.
    destruct lastm as [m|]; [eauto|]. exfalso. apply H0; reflexivity.
  - destruct att as [[|k]|].
    + cbn. destruct lastm as [m|]; [eauto|]. exfalso. apply H0; reflexivity.
    + cbn [ask_loop ask_text] in *. pose proof (validate_msg_agrees q (effective_answer q line)) as Hv.
      destruct (validate q (effective_answer q line)) as [er'|a]; [|cbn in He; discriminate].
      destruct Hv as [m ->]. cbn [option_map pred] in *.
      destruct (IH (Some k) (Some er') (Some m) _ _ _ er I He ltac:(intros _; congruence)) as [m' Hm].
      destruct (ask_text q p rest (Some k) (Some m)) as [t f]. cbn in *. eauto.
    + cbn [ask_loop ask_text] in *. pose proof (validate_msg_agrees q (effective_answer q line)) as Hv.
      destruct (validate q (effective_answer q line)) as [er'|a]; [|cbn in He; discriminate].
      destruct Hv as [m ->]. cbn [option_map] in *.
      destruct (IH None (Some er') (Some m) _ _ _ er I He ltac:(intros; congruence)) as [m' Hm].
      destruct (ask_text q p rest None (Some m)) as [t f]. cbn in *. eauto.
Qed.
Lemma choice_failure_has_message q prompt script er : q_attempts q <> Some 0 ->
  o_end (ask_choice true q script) = Failed er -> exists m, snd (choice_text true q prompt script) = Some m.
Proof.
  intros Ha He. unfold choice_text, ask_choice in *. cbn [negb] in *.
  eapply (ask_text_failure q prompt script (q_attempts q) None None 0 0 0 er I He). intros H. contradiction.
Qed.

(* ---------- the plain question with a validator: the same accounting ---------- *)
Definition plain_rejected (p : plainq) (acc : list str) (line : str) : Prop := plain_check acc (plain_value p line) <> None.
Lemma plain_loop_until_valid p acc prompt : forall bad good rest att last n,
  Forall (plain_rejected p acc) bad -> plain_check acc (plain_value p good) = None ->
  (match att with Some k => length bad < k | None => True end) ->
  let r := plain_loop p acc prompt (bad ++ good :: rest) att last n in
  pt_end r = Answered (plain_answer (plain_value p good)) /\ pt_read r = n + length bad + 1.
Proof.
  induction bad as [|b bad IH]; intros good rest att last n Hb Hg Hk.
  - cbn [app]. destruct att as [[|k]|]; cbn in Hk; try lia; cbn; rewrite Hg; cbn; split; auto; lia.
  - inversion Hb as [|? ? Hb1 Hb2]; subst. unfold plain_rejected in Hb1.
    destruct att as [[|k]|]; cbn in Hk; try lia; cbn [app plain_loop];
      destruct (plain_check acc (plain_value p b)) as [m|] eqn:E; try congruence; cbn [pt_end pt_read option_map pred].
    + destruct (IH good rest (Some k) (Some m) (S n) Hb2 Hg ltac:(cbn; lia)) as [H1 H2]. cbn zeta in *. rewrite H1, H2. split; auto. cbn. lia.
    + destruct (IH good rest None (Some m) (S n) Hb2 Hg I) as [H1 H2]. cbn zeta in *. rewrite H1, H2. split; auto. cbn. lia.
Qed.
Lemma plain_loop_zero p acc prompt script last n :
  plain_loop p acc prompt script (Some 0) last n = {| pt_end := Failed VInvalid; pt_msg := last; pt_read := n; pt_text := [] |}.
Proof. destruct script; reflexivity. Qed.
Lemma plain_loop_budget p acc prompt : forall bad rest last n,
  Forall (plain_rejected p acc) bad -> bad <> [] ->
  let r := plain_loop p acc prompt (bad ++ rest) (Some (length bad)) last n in
  pt_end r = Failed VInvalid /\ pt_read r = n + length bad /\ pt_msg r <> None.
Proof.
  induction bad as [|b bad IH]; intros rest last n Hb Hne; [congruence|].
  inversion Hb as [|? ? Hb1 Hb2]; subst. unfold plain_rejected in Hb1.
  cbn [app length plain_loop]. destruct (plain_check acc (plain_value p b)) as [m|] eqn:E; [|congruence].
  cbn [pt_end pt_read pt_msg option_map pred].
  destruct bad as [|b' bad'].
  - cbn [app length]. rewrite plain_loop_zero. cbn. repeat split; try lia. congruence.
  - destruct (IH rest (Some m) (S n) Hb2 ltac:(congruence)) as (H1 & H2 & H3). cbn zeta in *. rewrite H1, H2. repeat split; auto. cbn [length]. lia.
Qed.
