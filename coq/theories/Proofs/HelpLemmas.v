From Clikit Require Import Base.Prelude Base.Res Model.Help.
