(* Proofs about the help pages (Model/Help.v): what a page lists (completeness), what it never lists (hiding),
   and that the rendered text fits the terminal. *)
From Coq Require Import Lia ZifyBool Permutation Sorted.
From Clikit Require Import Base.Prelude Base.Res Model.Conv Model.Flags Model.Format Model.Markup Model.Wrap Model.Help.
From Clikit Require Import Proofs.WrapLemmas.

(* ================= sorted(commands, key = name) ================= *)
Lemma insert_by_perm {X} (key : X -> str) x l : Permutation (insert_by key x l) (x :: l).
Proof.
  induction l as [|y r IH]; cbn [insert_by]; [auto|]. destruct (str_leb (key x) (key y)); [auto|].
  eapply perm_trans; [apply perm_skip, IH|apply perm_swap].
Qed.
Lemma sort_by_perm {X} (key : X -> str) l : Permutation (sort_by key l) l.
Proof.
  induction l as [|x l IH]; cbn [sort_by fold_right]; [constructor|].
  eapply perm_trans; [apply insert_by_perm|]. constructor. exact IH.
Qed.

Lemma str_leb_total a : forall b, str_leb a b = true \/ str_leb b a = true.
Proof. induction a as [|x a IH]; intros [|y b]; cbn [str_leb]; auto. destruct (N.ltb_spec x y), (N.ltb_spec y x); auto. Qed.
Lemma str_leb_trans a : forall b c, str_leb a b = true -> str_leb b c = true -> str_leb a c = true.
Proof.
  induction a as [|x a IH]; intros [|y b] [|z c]; cbn [str_leb]; auto; try discriminate.
  destruct (N.ltb_spec x y), (N.ltb_spec y x), (N.ltb_spec y z), (N.ltb_spec z y), (N.ltb_spec x z), (N.ltb_spec z x);
    try discriminate; try lia; try reflexivity; eauto.
Qed.
Lemma str_leb_refl a : str_leb a a = true.
Proof. induction a as [|x a IH]; cbn [str_leb]; [reflexivity|]. now rewrite N.ltb_irrefl. Qed.

Definition key_le {X} (key : X -> str) (a b : X) : Prop := str_leb (key a) (key b) = true.

Lemma Forall_perm {X} (P : X -> Prop) l l' : Permutation l l' -> Forall P l -> Forall P l'.
Proof. intros Hp H. apply Forall_forall. intros x Hx. rewrite Forall_forall in H. apply H. eapply Permutation_in; [apply Permutation_sym, Hp|exact Hx]. Qed.

Lemma insert_by_sorted {X} (key : X -> str) x l :
  StronglySorted (key_le key) l -> StronglySorted (key_le key) (insert_by key x l).
Proof.
  induction 1 as [|y r Hs IH Hy]; cbn [insert_by]; [repeat constructor|].
  destruct (str_leb (key x) (key y)) eqn:E.
  - constructor; [constructor; assumption|]. constructor; [exact E|].
    eapply Forall_impl; [|exact Hy]. intros z Hz. unfold key_le in *. eapply str_leb_trans; eassumption.
  - constructor; [exact IH|]. eapply Forall_perm; [apply Permutation_sym, insert_by_perm|].
    constructor; [|exact Hy]. unfold key_le. destruct (str_leb_total (key x) (key y)) as [H|H]; [congruence|exact H].
Qed.
Lemma sort_by_sorted {X} (key : X -> str) l : StronglySorted (key_le key) (sort_by key l).
Proof. induction l as [|x l IH]; cbn [sort_by fold_right]; [constructor|]. apply insert_by_sorted, IH. Qed.

Lemma Forall_filter {X} (P : X -> Prop) f l : Forall P l -> Forall P (filter f l).
Proof. induction 1 as [|x l Hx _ IH]; cbn [filter]; [constructor|]. destruct (f x); [constructor|]; assumption. Qed.
Lemma filter_sorted {X} (R : X -> X -> Prop) f l : StronglySorted R l -> StronglySorted R (filter f l).
Proof.
  induction 1 as [|x l Hs IH Hx]; cbn [filter]; [constructor|]. destruct (f x); [|exact IH].
  constructor; [exact IH|]. now apply Forall_filter.
Qed.
Lemma filter_perm {X} (f : X -> bool) l l' : Permutation l l' -> Permutation (filter f l) (filter f l').
Proof.
  induction 1 as [|x l l' _ IH|x y l|l l' l'' _ IH1 _ IH2]; cbn [filter].
  - constructor.
  - destruct (f x); [constructor|]; exact IH.
  - destruct (f x), (f y); try apply Permutation_refl. apply perm_swap.
  - eapply perm_trans; eassumption.
Qed.
Lemma filter_filter {X} (f g : X -> bool) l : filter f (filter g l) = filter (fun x => g x && f x) l.
Proof. induction l as [|x l IH]; [reflexivity|]. cbn [filter]. destruct (g x); cbn [filter andb]; [destruct (f x)|]; now rewrite IH. Qed.

(* ================= the sections of a command page ================= *)
Definition H_USAGE : str := ([60;98;62;85;83;65;71;69;60;47;98;62]%N).
Definition H_ARGUMENTS : str := ([60;98;62;65;82;71;85;77;69;78;84;83;60;47;98;62]%N).
Definition H_COMMANDS : str := ([60;98;62;67;79;77;77;65;78;68;83;60;47;98;62]%N).
Definition H_OPTIONS : str := ([60;98;62;79;80;84;73;79;78;83;60;47;98;62]%N).
Definition H_GLOBAL : str := ([60;98;62;71;76;79;66;65;76;32;79;80;84;73;79;78;83;60;47;98;62]%N).
Definition H_AVAILABLE : str := ([60;98;62;65;86;65;73;76;65;66;76;69;32;67;79;77;77;65;78;68;83;60;47;98;62]%N).
Definition C1 : str := ([60;99;49;62]%N).        (* the tag opening the c1 style *)
Definition C1E : str := ([60;47;99;49;62]%N).    (* and closing it *)

(* a sub-command is listed when it is enabled, named and not hidden *)
Definition visible (s : sub) : bool := sb_enabled s && negb (sb_anonymous s) && negb (sb_hidden s).
Definition named_subs (subs : list sub) : list sub := filter (fun s => negb (sb_anonymous s)) (filter sb_enabled subs).
Definition listed_subs (subs : list sub) : list sub := filter (fun s => negb (sb_hidden s)) (sort_by sb_name (named_subs subs)).
Definition commands_section (subs : list sub) : layout :=
  match named_subs subs with [] => [] | _ => (0, EPara H_COMMANDS) :: flat_map sub_block (listed_subs subs) end.

Definition arguments_section (ch : list level) : layout :=
  match chain_args ch with [] => [] | l => (0, EPara H_ARGUMENTS) :: block (at0 (map render_argument l)) ++ [(0, EEmpty)] end.
Definition options_section (ch : list level) : layout :=
  match own_opts ch with [] => [] | l => (0, EPara H_OPTIONS) :: block (at0 (map render_option l)) ++ [(0, EEmpty)] end.
Definition global_options_section (l : list hopt) : layout :=
  match l with [] => [] | x :: r => (0, EPara H_GLOBAL) :: block (at0 (map render_option (x :: r))) ++ [(0, EEmpty)] end.
Definition aliases_section (aliases : list str) : layout :=
  match aliases with [] => [] | _ => [(2, EEmpty); (2, EPara (([97;108;105;97;115;101;115;58;32]%N) ++ join_comma aliases))] end.

(* USAGE: one synopsis per entry; an entry = (names, options, arguments) and whether the last name is bracketed *)
Definition usage_entry : Type := (list str * list hopt * list harg) * bool.
Definition sub_fmt (ch : list level) (s : sub) : list str * list hopt * list harg :=
  (chain_names ch ++ (if sb_anonymous s then [] else [sb_name s]), sb_opts s, chain_args ch ++ sb_args s).
Definition own_fmt (ch : list level) : list str * list hopt * list harg := (chain_names ch, own_opts ch, chain_args ch).
Definition usage_entries (ch : list level) (subs : list sub) : list usage_entry :=
  (match filter sb_default (filter sb_enabled subs) with
   | [] => [(own_fmt ch, false)]
   | _ => map (fun s => (sub_fmt ch s, negb (sb_anonymous s))) (filter sb_default (filter sb_enabled subs))
   end) ++
  map (fun s => (sub_fmt ch s, false)) (filter (fun s => negb (sb_hidden s) && negb (sb_default s)) (filter sb_enabled subs)).
Definition usage_prefixes (n : nat) : list str :=
  (match n with S (S _) => [32; 32; 32; 32]%N | _ => [] end) :: repeat ([111;114;58;32]%N) n.
Definition usage_line (sty : styles) (app_name : option str) (xp : usage_entry * str) : nat * elem :=
  let '((names, opts, args), lo) := fst xp in (2, synopsis sty app_name names opts args (snd xp) lo).
Definition usage_section (sty : styles) (app_name : option str) (ch : list level) (subs : list sub) : layout :=
  map (usage_line sty app_name) (combine (usage_entries ch subs) (usage_prefixes (length (usage_entries ch subs)))).

Lemma usage_prefixes_eq {X} (l : list X) :
  usage_prefixes (length l) = (match l with _ :: _ :: _ => [32; 32; 32; 32]%N | _ => [] end) :: repeat ([111;114;58;32]%N) (length l).
Proof. destruct l as [|a [|b l]]; reflexivity. Qed.

Lemma command_page_sections sty app_name ch aliases help subs :
  command_page sty app_name ch aliases help subs =
  [(0, EPara H_USAGE)] ++ usage_section sty app_name ch subs ++ aliases_section aliases ++ [(0, EEmpty)] ++
  arguments_section ch ++ commands_section subs ++ options_section ch ++ global_options_section (base_opts ch) ++
  description_block help.
Proof.
  unfold command_page, usage_section. cbv zeta.
  change (map _ (filter sb_default (filter sb_enabled subs)))
    with (map (fun s => (sub_fmt ch s, negb (sb_anonymous s))) (filter sb_default (filter sb_enabled subs))).
  fold (own_fmt ch). rewrite (usage_prefixes_eq (usage_entries ch subs)).
  reflexivity.
Qed.

(* the page around the COMMANDS section *)
Definition command_page_before sty app_name ch aliases subs : layout :=
  [(0, EPara H_USAGE)] ++ usage_section sty app_name ch subs ++ aliases_section aliases ++ [(0, EEmpty)] ++ arguments_section ch.
Definition command_page_after ch help : layout :=
  options_section ch ++ global_options_section (base_opts ch) ++ description_block help.
Lemma command_page_decomposes sty app_name ch aliases help subs :
  command_page sty app_name ch aliases help subs =
  command_page_before sty app_name ch aliases subs ++ commands_section subs ++ command_page_after ch help.
Proof. rewrite command_page_sections. unfold command_page_before, command_page_after. now rewrite <- !app_assoc. Qed.

(* ================= hiding: the COMMANDS section ================= *)
Lemma listed_subs_perm subs : Permutation (listed_subs subs) (filter visible subs).
Proof.
  unfold listed_subs, named_subs. eapply perm_trans; [apply filter_perm, sort_by_perm|].
  rewrite !filter_filter. erewrite filter_ext; [apply Permutation_refl|]. intros x. unfold visible. now rewrite andb_assoc.
Qed.
Lemma listed_subs_sorted subs : StronglySorted (key_le sb_name) (listed_subs subs).
Proof. apply filter_sorted, sort_by_sorted. Qed.
Lemma listed_subs_in subs s : In s (listed_subs subs) <-> In s subs /\ visible s = true.
Proof.
  rewrite <- filter_In. split; apply Permutation_in; [|apply Permutation_sym]; apply listed_subs_perm.
Qed.
Lemma named_subs_nil subs : named_subs subs = [] -> listed_subs subs = [].
Proof. unfold listed_subs. now intros ->. Qed.
Lemma commands_section_spec subs :
  commands_section subs = match named_subs subs with [] => [] | _ => (0, EPara H_COMMANDS) :: flat_map sub_block (listed_subs subs) end
  /\ Permutation (listed_subs subs) (filter visible subs)
  /\ StronglySorted (key_le sb_name) (listed_subs subs).
Proof. split; [reflexivity|]. split; [apply listed_subs_perm|apply listed_subs_sorted]. Qed.

(* the lines at indentation 2 of the section are the names of the listed commands, nothing else *)
Definition name_line (s : sub) : nat * elem := (2, EPara (u_tag (sb_name s))).
Definition at_indent (n : nat) (l : layout) : layout := filter (fun x => Nat.eqb (fst x) n) l.
Lemma at_indent_cons n i e l : at_indent n ((i, e) :: l) = if Nat.eqb i n then (i, e) :: at_indent n l else at_indent n l.
Proof. reflexivity. Qed.
Lemma at2_block_block l : at_indent 2 (block (block l)) = [].
Proof. unfold at_indent, block. induction l as [|x l IH]; [reflexivity|]. cbn [map filter fst]. exact IH. Qed.
Lemma at2_sub_block s : at_indent 2 (sub_block s) = [name_line s].
Proof. unfold sub_block. rewrite at_indent_cons, at2_block_block. reflexivity. Qed.
Lemma at2_flat_map l : at_indent 2 (flat_map sub_block l) = map name_line l.
Proof.
  induction l as [|s l IH]; [reflexivity|]. cbn [flat_map map]. unfold at_indent in *. rewrite filter_app, IH.
  fold (at_indent 2 (sub_block s)). now rewrite at2_sub_block.
Qed.
Lemma commands_section_names subs : at_indent 2 (commands_section subs) = map name_line (listed_subs subs).
Proof.
  unfold commands_section. destruct (named_subs subs) eqn:E.
  - now rewrite (named_subs_nil _ E).
  - rewrite at_indent_cons. apply at2_flat_map.
Qed.

Lemma hidden_never_listed_lemma subs s :
  In (name_line s) (commands_section subs) ->
  exists s', In s' subs /\ sb_name s' = sb_name s /\ sb_enabled s' = true /\ sb_anonymous s' = false /\ sb_hidden s' = false.
Proof.
  intros H. assert (H2 : In (name_line s) (at_indent 2 (commands_section subs))).
  { apply filter_In. split; [exact H|reflexivity]. }
  rewrite commands_section_names in H2. apply in_map_iff in H2. destruct H2 as (s' & E & Hs').
  apply listed_subs_in in Hs'. destruct Hs' as [Hin Hv]. exists s'. split; [exact Hin|].
  unfold visible in Hv. apply andb_prop in Hv. destruct Hv as [Hv H3]. apply andb_prop in Hv. destruct Hv as [H1 H2].
  apply negb_true_iff in H2, H3. unfold name_line, u_tag in E. injection E as E.
  apply app_inv_tail in E. auto.
Qed.

(* ================= completeness of a command page ================= *)
Lemma in_block i e l : In (i, e) l -> In (2 + i, e) (block l).
Proof. intros H. unfold block. apply in_map_iff. exists (i, e). auto. Qed.
Lemma in_at0 e l : In e l -> In (0, e) (at0 l).
Proof. intros H. unfold at0. apply in_map_iff. exists e. auto. Qed.

Lemma sub_block_lists s :
  In (name_line s) (sub_block s)
  /\ (forall a, In a (sb_args s) -> In (4, render_argument a) (sub_block s))
  /\ (forall h, In h (sb_opts s) -> In (4, render_option h) (sub_block s))
  /\ (forall d, nonempty_opt (sb_desc s) = Some d -> In (4, EPara d) (sub_block s))
  /\ (forall d, nonempty_opt (sb_help s) = Some d -> In (4, EPara d) (sub_block s)).
Proof.
  unfold sub_block. split; [left; reflexivity|].
  split; [|split; [|split]].
  - intros a Ha. right. apply (in_block 2), (in_block 0). rewrite !in_app_iff. right. right. left.
    destruct (sb_args s) as [|x l]; [contradiction|]. apply in_or_app. left. apply in_at0, in_map, Ha.
  - intros h Hh. right. apply (in_block 2), (in_block 0). rewrite !in_app_iff. right. right. right. left.
    destruct (sb_opts s) as [|x l]; [contradiction|]. apply in_or_app. left. apply in_at0, in_map, Hh.
  - intros d Hd. right. apply (in_block 2), (in_block 0). rewrite !in_app_iff. left. rewrite Hd. left. reflexivity.
  - intros d Hd. right. apply (in_block 2), (in_block 0). rewrite !in_app_iff. right. left. rewrite Hd. left. reflexivity.
Qed.

Lemma arguments_section_lists ch a : In a (chain_args ch) -> In (2, render_argument a) (arguments_section ch).
Proof.
  intros H. unfold arguments_section. destruct (chain_args ch) as [|x l]; [contradiction|].
  right. apply in_or_app. left. apply (in_block 0), in_at0, in_map, H.
Qed.
Lemma options_section_lists ch h : In h (own_opts ch) -> In (2, render_option h) (options_section ch).
Proof.
  intros H. unfold options_section. destruct (own_opts ch) as [|x l]; [contradiction|].
  right. apply in_or_app. left. apply (in_block 0), in_at0, in_map, H.
Qed.
Lemma global_options_section_lists l h : In h l -> In (2, render_option h) (global_options_section l).
Proof.
  intros H. unfold global_options_section. destruct l as [|x l]; [contradiction|].
  right. apply in_or_app. left. apply (in_block 0), in_at0, in_map, H.
Qed.
Lemma commands_section_lists subs s : In s subs -> visible s = true -> incl (sub_block s) (commands_section subs).
Proof.
  intros Hs Hv x Hx. assert (Hl : In s (listed_subs subs)) by (apply listed_subs_in; auto).
  unfold commands_section. destruct (named_subs subs) eqn:E; [rewrite (named_subs_nil _ E) in Hl; contradiction|].
  right. apply in_flat_map. exists s. auto.
Qed.

(* own and inherited: every option of every level of the chain is an own option or an option of a base *)
Lemma chain_opts_split ch l h : In l ch -> In h (lv_opts l) -> In h (own_opts ch) \/ In h (base_opts ch).
Proof.
  intros Hl Hh. unfold own_opts, base_opts. apply in_rev in Hl. destruct (rev ch) as [|x r]; [contradiction|].
  destruct Hl as [->|Hl]; [left; exact Hh|]. right. apply in_flat_map. eauto.
Qed.
Lemma chain_args_in ch l a : In l ch -> In a (lv_args l) -> In a (chain_args ch).
Proof. intros Hl Ha. unfold chain_args. apply in_flat_map. eauto. Qed.

Lemma command_page_complete_lemma sty app_name ch aliases help subs :
  let page := command_page sty app_name ch aliases help subs in
  (forall a, In a (chain_args ch) -> In (2, render_argument a) page)
  /\ (forall h, In h (own_opts ch) -> In (2, render_option h) page)
  /\ (forall h, In h (base_opts ch) -> In (2, render_option h) page)
  /\ (forall s, In s subs -> sb_enabled s = true -> sb_anonymous s = false -> sb_hidden s = false ->
        incl (sub_block s) page
        /\ In (2, EPara (u_tag (sb_name s))) page
        /\ (forall a, In a (sb_args s) -> In (4, render_argument a) page)
        /\ (forall h, In h (sb_opts s) -> In (4, render_option h) page)).
Proof.
  cbv zeta. rewrite command_page_sections.
  split; [|split; [|split]].
  - intros a Ha. apply arguments_section_lists in Ha. rewrite !in_app_iff. tauto.
  - intros h Hh. apply options_section_lists in Hh. rewrite !in_app_iff. tauto.
  - intros h Hh. apply global_options_section_lists in Hh. rewrite !in_app_iff. tauto.
  - intros s Hs H1 H2 H3.
    assert (Hincl : incl (sub_block s) ([(0, EPara H_USAGE)] ++ usage_section sty app_name ch subs ++ aliases_section aliases ++
              [(0, EEmpty)] ++ arguments_section ch ++ commands_section subs ++ options_section ch ++
              global_options_section (base_opts ch) ++ description_block help)).
    { intros x Hx. apply (commands_section_lists subs s Hs) in Hx; [|unfold visible; now rewrite H1, H2, H3].
      rewrite !in_app_iff. tauto. }
    destruct (sub_block_lists s) as (L1 & L2 & L3 & _).
    split; [exact Hincl|]. split; [apply Hincl, L1|]. split; intros y Hy; apply Hincl; auto.
Qed.
Lemma command_page_inherited sty app_name ch aliases help subs l :
  In l ch ->
  (forall a, In a (lv_args l) -> In (2, render_argument a) (command_page sty app_name ch aliases help subs))
  /\ (forall h, In h (lv_opts l) -> In (2, render_option h) (command_page sty app_name ch aliases help subs)).
Proof.
  intros Hl. destruct (command_page_complete_lemma sty app_name ch aliases help subs) as (P1 & P2 & P3 & _). cbv zeta in *.
  split; [intros a Ha; apply P1; eapply chain_args_in; eassumption|].
  intros h Hh. destruct (chain_opts_split ch l h Hl Hh); auto.
Qed.

(* ---- names in a label ---- *)
Definition elem_label (e : elem) : str := match e with ELab l _ _ _ => l | _ => [] end.
Definition elem_text (e : elem) : str := match e with ELab _ t _ _ => t | EPara t => t | EEmpty => [] end.
Lemma render_option_names_lemma h :
  elem_label (render_option h) =
  if bit (o_flags (h_o h)) 0      (* the long name is preferred *)
  then C1 ++ (DASH :: DASH :: o_long (h_o h)) ++ C1E ++
       match o_short (h_o h) with Some s => [32; 40]%N ++ (DASH :: s) ++ [41]%N | None => [] end
  else C1 ++ (DASH :: match o_short (h_o h) with Some s => s | None => [] end) ++ C1E ++
       [32; 40]%N ++ (DASH :: DASH :: o_long (h_o h)) ++ [41]%N.
Proof. unfold render_option, opt_preferred. destruct (bit (o_flags (h_o h)) 0); [destruct (o_short (h_o h))|]; reflexivity. Qed.
Lemma render_argument_name_lemma a :
  elem_label (render_argument a) = C1 ++ [60%N] ++ C1E ++ C1 ++ a_name (h_a a) ++ [62%N] ++ C1E.
Proof. reflexivity. Qed.

(* ---- the synopsis ---- *)
Definition syn_opt_part (sty : styles) (h : hopt) : str :=
  let o := h_o h in
  let nm := fst (opt_preferred o) in
  [91%N] ++ (if o_required o then nm ++ [160%N] ++ placeholder sty (h_vname h)
             else if o_optional o then nm ++ [160; 91]%N ++ placeholder sty (h_vname h) ++ [93%N]
             else nm) ++ [93%N].
Definition syn_arg_parts (sty : styles) (a : harg) : list str :=
  let n := a_name (h_a a) in
  let n1 := n ++ (if a_multi (h_a a) then [49%N] else []) in
  (if a_required (h_a a) then placeholder sty n1 else [91%N] ++ placeholder sty n1 ++ [93%N])
  :: (if a_multi (h_a a) then [[46; 46; 46; 32; 91]%N ++ placeholder sty (n ++ [78%N]) ++ [93%N]] else []).
Definition syn_parts (sty : styles) (opts : list hopt) (args : list harg) : list str :=
  map (syn_opt_part sty) opts ++ flat_map (syn_arg_parts sty) args.
Lemma synopsis_text sty app_name names opts args prefix lo :
  elem_text (synopsis sty app_name names opts args prefix lo) = join_with 32%N (syn_parts sty opts args).
Proof. reflexivity. Qed.

Definition infix_of (p s : str) : Prop := exists u v, s = u ++ p ++ v.
Lemma join_with_infix sep p : forall l, In p l -> infix_of p (join_with sep l).
Proof.
  induction l as [|x l IH]; [contradiction|]. intros [->|H].
  - destruct l as [|y l]; [exists [], []; cbn; now rewrite app_nil_r|]. exists [], (sep :: join_with sep (y :: l)). reflexivity.
  - destruct (IH H) as (u & v & E). destruct l as [|y l]; [contradiction|].
    exists (x ++ sep :: u), v. cbn [join_with] in *. rewrite E, <- app_assoc. reflexivity.
Qed.
Lemma synopsis_lists_all_lemma sty app_name names opts args prefix lo :
  let t := elem_text (synopsis sty app_name names opts args prefix lo) in
  (forall h, In h opts -> In (syn_opt_part sty h) (syn_parts sty opts args) /\ infix_of (syn_opt_part sty h) t)
  /\ (forall a p, In a args -> In p (syn_arg_parts sty a) -> In p (syn_parts sty opts args) /\ infix_of p t).
Proof.
  cbv zeta. rewrite synopsis_text. split.
  - intros h Hh. assert (H : In (syn_opt_part sty h) (syn_parts sty opts args)) by (apply in_or_app; left; now apply in_map).
    split; [exact H|now apply join_with_infix].
  - intros a p Ha Hp. assert (H : In p (syn_parts sty opts args)) by (apply in_or_app; right; apply in_flat_map; eauto).
    split; [exact H|now apply join_with_infix].
Qed.
(* what a part spells: the preferred option name; the argument name between angle brackets *)
Lemma syn_opt_part_name sty h : exists tail, syn_opt_part sty h = [91%N] ++ fst (opt_preferred (h_o h)) ++ tail.
Proof.
  unfold syn_opt_part. cbv zeta. destruct (o_required (h_o h)); [|destruct (o_optional (h_o h))].
  - eexists. rewrite <- app_assoc. reflexivity.
  - eexists. rewrite <- app_assoc. reflexivity.
  - eexists. reflexivity.
Qed.
Lemma syn_arg_part_name sty a : exists p, In p (syn_arg_parts sty a) /\ infix_of ([60%N] ++ a_name (h_a a)) p.
Proof.
  unfold syn_arg_parts. cbv zeta. eexists. split; [left; reflexivity|]. unfold placeholder, infix_of.
  set (sfx := if a_multi (h_a a) then [49%N] else []). set (esc := if is_tag sty (a_name (h_a a) ++ sfx) then [92%N] else []).
  destruct (a_required (h_a a)).
  - exists esc, (sfx ++ [62%N]). now rewrite <- !app_assoc.
  - exists ([91%N] ++ esc), (sfx ++ [62%N] ++ [93%N]). now rewrite <- !app_assoc.
Qed.

(* ---- USAGE ---- *)
Lemma usage_section_length sty app_name ch subs : length (usage_section sty app_name ch subs) = length (usage_entries ch subs).
Proof. unfold usage_section, usage_prefixes. rewrite map_length, combine_length. cbn [length]. rewrite repeat_length. lia. Qed.
Lemma usage_entry_origin ch subs e : In e (usage_entries ch subs) ->
  (e = (own_fmt ch, false) /\ (forall s, In s subs -> sb_enabled s = true -> sb_default s = false))
  \/ exists s, In s subs /\ sb_enabled s = true /\ (sb_default s = true \/ sb_hidden s = false) /\ fst e = sub_fmt ch s.
Proof.
  unfold usage_entries. intros H. apply in_app_or in H. destruct H as [H|H].
  - destruct (filter sb_default (filter sb_enabled subs)) as [|d ds] eqn:E.
    + destruct H as [<-|[]]. left. split; [reflexivity|]. intros s Hs He. destruct (sb_default s) eqn:Ed; [|reflexivity].
      assert (Hin : In s (filter sb_default (filter sb_enabled subs))) by (apply filter_In; split; [apply filter_In|]; auto).
      rewrite E in Hin. contradiction.
    + rewrite <- E in H. apply in_map_iff in H. destruct H as (s & <- & Hs). apply filter_In in Hs. destruct Hs as [Hs Hd].
      apply filter_In in Hs. destruct Hs as [Hs He]. right. exists s. auto.
  - apply in_map_iff in H. destruct H as (s & <- & Hs). apply filter_In in Hs. destruct Hs as [Hs Hd].
    apply filter_In in Hs. destruct Hs as [Hs He]. apply andb_prop in Hd. destruct Hd as [Hh _]. apply negb_true_iff in Hh.
    right. exists s. auto.
Qed.
(* an enabled default sub-command has its synopsis in USAGE - hidden or not *)
Lemma usage_lists_defaults ch subs s : In s subs -> sb_enabled s = true -> sb_default s = true ->
  In (sub_fmt ch s, negb (sb_anonymous s)) (usage_entries ch subs).
Proof.
  intros Hs He Hd. unfold usage_entries. apply in_or_app. left.
  assert (Hin : In s (filter sb_default (filter sb_enabled subs))) by (apply filter_In; split; [apply filter_In|]; auto).
  destruct (filter sb_default (filter sb_enabled subs)) as [|d ds] eqn:E; [contradiction|].
  apply in_map_iff. exists s. auto.
Qed.
Lemma usage_lists_visible ch subs s : In s subs -> sb_enabled s = true -> sb_default s = false -> sb_hidden s = false ->
  In (sub_fmt ch s, false) (usage_entries ch subs).
Proof.
  intros Hs He Hd Hh. unfold usage_entries. apply in_or_app. right. apply in_map_iff. exists s. split; [reflexivity|].
  apply filter_In. split; [apply filter_In; auto|]. now rewrite Hd, Hh.
Qed.
Lemma in_combine_fst {X Y} (x : X) : forall (l : list X) (l' : list Y), In x l -> length l <= length l' -> exists y, In (x, y) (combine l l').
Proof.
  induction l as [|a l IH]; intros l' Hx Hl; [contradiction|]. destruct l' as [|b l']; [cbn in Hl; lia|].
  destruct Hx as [->|Hx]; [exists b; left; reflexivity|]. destruct (IH l' Hx) as [y Hy]; [cbn in Hl; lia|]. exists y. right. exact Hy.
Qed.
Lemma usage_section_lists sty app_name ch subs names opts args lo :
  In ((names, opts, args), lo) (usage_entries ch subs) ->
  exists prefix, In (2, synopsis sty app_name names opts args prefix lo) (usage_section sty app_name ch subs).
Proof.
  intros H. destruct (in_combine_fst _ _ (usage_prefixes (length (usage_entries ch subs))) H) as [p Hp].
  { unfold usage_prefixes. cbn [length]. rewrite repeat_length. apply Nat.le_succ_diag_r. }
  exists p. unfold usage_section. apply in_map_iff. exists ((names, opts, args), lo, p). split; [reflexivity|exact Hp].
Qed.
Lemma command_page_usage sty app_name ch aliases help subs names opts args lo :
  In ((names, opts, args), lo) (usage_entries ch subs) ->
  exists prefix, In (2, synopsis sty app_name names opts args prefix lo) (command_page sty app_name ch aliases help subs).
Proof.
  intros H. destruct (usage_section_lists sty app_name ch subs _ _ _ _ H) as [p Hp]. exists p.
  rewrite command_page_sections, !in_app_iff. tauto.
Qed.

(* ================= the application page ================= *)
Definition cmd_visible (c : appcmd) : bool := ac_enabled c && negb (ac_anonymous c) && negb (ac_hidden c).
Definition named_cmds (cmds : list appcmd) : list appcmd := filter (fun c => ac_enabled c && negb (ac_anonymous c)) cmds.
Definition listed_cmds (cmds : list appcmd) : list appcmd := filter (fun c => negb (ac_hidden c)) (sort_by ac_name (named_cmds cmds)).
Definition cmd_line (c : appcmd) : nat * elem := (2, ELab (C1 ++ ac_name c ++ C1E) (ac_desc c) 2 true).
Definition available_section (cmds : list appcmd) : layout :=
  match named_cmds cmds with [] => [] | _ => (0, EPara H_AVAILABLE) :: map cmd_line (listed_cmds cmds) ++ [(0, EEmpty)] end.
Definition builtin_args : list harg := [the_command_arg; the_arg_arg].
Definition application_page_before sty app_name display version gopts : layout :=
  [(0, name_version display version); (0, EEmpty); (0, EPara H_USAGE); (2, synopsis sty app_name [] gopts builtin_args [] false); (0, EEmpty)] ++
  ((0, EPara H_ARGUMENTS) :: block (at0 (map render_argument builtin_args)) ++ [(0, EEmpty)]) ++
  global_options_section gopts.
Lemma application_page_decomposes sty app_name display version gopts cmds help :
  application_page sty app_name display version gopts cmds help =
  application_page_before sty app_name display version gopts ++ available_section cmds ++ description_block help.
Proof.
  unfold application_page, application_page_before. cbv zeta. rewrite <- !app_assoc.
  do 2 (apply (f_equal2 (@app _)); [reflexivity|]). apply (f_equal2 (@app _)); [|reflexivity].
  destruct gopts; reflexivity.
Qed.

Lemma listed_cmds_perm cmds : Permutation (listed_cmds cmds) (filter cmd_visible cmds).
Proof.
  unfold listed_cmds, named_cmds. eapply perm_trans; [apply filter_perm, sort_by_perm|].
  rewrite !filter_filter. apply Permutation_refl.
Qed.
Lemma listed_cmds_sorted cmds : StronglySorted (key_le ac_name) (listed_cmds cmds).
Proof. apply filter_sorted, sort_by_sorted. Qed.
Lemma listed_cmds_in cmds c : In c (listed_cmds cmds) <-> In c cmds /\ cmd_visible c = true.
Proof. rewrite <- filter_In. split; apply Permutation_in; [|apply Permutation_sym]; apply listed_cmds_perm. Qed.
Lemma named_cmds_nil cmds : named_cmds cmds = [] -> listed_cmds cmds = [].
Proof. unfold listed_cmds. now intros ->. Qed.
Lemma available_section_spec cmds :
  available_section cmds = match named_cmds cmds with [] => [] | _ => (0, EPara H_AVAILABLE) :: map cmd_line (listed_cmds cmds) ++ [(0, EEmpty)] end
  /\ Permutation (listed_cmds cmds) (filter cmd_visible cmds)
  /\ StronglySorted (key_le ac_name) (listed_cmds cmds).
Proof. split; [reflexivity|]. split; [apply listed_cmds_perm|apply listed_cmds_sorted]. Qed.
Lemma at2_cmd_lines l : at_indent 2 (map cmd_line l ++ [(0, EEmpty)]) = map cmd_line l.
Proof. induction l as [|c l IH]; [reflexivity|]. cbn [map app]. unfold cmd_line at 1. rewrite at_indent_cons. cbn [Nat.eqb]. now rewrite IH. Qed.
Lemma available_section_names cmds : at_indent 2 (available_section cmds) = map cmd_line (listed_cmds cmds).
Proof.
  unfold available_section. destruct (named_cmds cmds) eqn:E.
  - now rewrite (named_cmds_nil _ E).
  - rewrite at_indent_cons. apply at2_cmd_lines.
Qed.
Lemma hidden_never_listed_app_lemma cmds name text padding aligned :
  In (2, ELab (C1 ++ name ++ C1E) text padding aligned) (available_section cmds) ->
  exists c, In c cmds /\ ac_name c = name /\ ac_enabled c = true /\ ac_anonymous c = false /\ ac_hidden c = false.
Proof.
  intros H. assert (H2 : In (2, ELab (C1 ++ name ++ C1E) text padding aligned) (at_indent 2 (available_section cmds))).
  { apply filter_In. split; [exact H|reflexivity]. }
  rewrite available_section_names in H2. apply in_map_iff in H2. destruct H2 as (c & E & Hc).
  apply listed_cmds_in in Hc. destruct Hc as [Hin Hv]. exists c. split; [exact Hin|].
  unfold cmd_visible in Hv. apply andb_prop in Hv. destruct Hv as [Hv H3]. apply andb_prop in Hv. destruct Hv as [H1 H2].
  apply negb_true_iff in H2, H3. unfold cmd_line in E. injection E as E _ _. apply app_inv_tail in E. auto.
Qed.

Lemma application_page_complete_lemma sty app_name display version gopts cmds help :
  let page := application_page sty app_name display version gopts cmds help in
  (forall h, In h gopts -> In (2, render_option h) page)
  /\ In (2, render_argument the_command_arg) page /\ In (2, render_argument the_arg_arg) page
  /\ In (2, synopsis sty app_name [] gopts [the_command_arg; the_arg_arg] [] false) page
  /\ (forall c, In c cmds -> ac_enabled c && negb (ac_anonymous c) && negb (ac_hidden c) = true ->
        In (2, ELab (C1 ++ ac_name c ++ C1E) (ac_desc c) 2 true) page).
Proof.
  cbv zeta. rewrite application_page_decomposes. unfold application_page_before.
  split; [|split; [|split; [|split]]].
  - intros h Hh. apply global_options_section_lists in Hh. rewrite !in_app_iff. tauto.
  - apply in_or_app. left. apply in_or_app. right. apply in_or_app. left. right. left. reflexivity.
  - apply in_or_app. left. apply in_or_app. right. apply in_or_app. left. right. right. left. reflexivity.
  - apply in_or_app. left. apply in_or_app. left. right. right. right. left. reflexivity.
  - intros c Hc Hv. assert (Hl : In c (listed_cmds cmds)) by (apply listed_cmds_in; auto).
    apply in_or_app. right. apply in_or_app. left. unfold available_section.
    destruct (named_cmds cmds) eqn:E; [rewrite (named_cmds_nil _ E) in Hl; contradiction|].
    right. apply in_or_app. left. apply (in_map cmd_line) in Hl. exact Hl.
Qed.

(* ================= width ================= *)
Local Open Scope Z_scope.
Definition no_nl (s : str) : Prop := Forall (fun c => c <> 10%N) s.

(* okr b1 b s: walking s, the current line still has room for b1 characters and every later line for b *)
Fixpoint okr (b1 b : Z) (s : str) : Prop :=
  match s with
  | [] => 0 <= b1
  | c :: r => if N.eqb c 10 then 0 <= b1 /\ okr b b r else okr (b1 - 1) b r
  end.

Lemma okr_nonneg b s : forall b1, okr b1 b s -> 0 <= b1.
Proof. induction s as [|c r IH]; intros b1 H; cbn [okr] in H; [exact H|]. destruct (N.eqb c 10); [tauto|]. apply IH in H. lia. Qed.
Lemma okr_mono b s : forall b1 b1', b1 <= b1' -> okr b1 b s -> okr b1' b s.
Proof.
  induction s as [|c r IH]; intros b1 b1' Hle H; cbn [okr] in *; [lia|].
  destruct (N.eqb c 10); [split; [lia|tauto]|]. eapply IH; [|exact H]. lia.
Qed.
Lemma okr_prefix b q p : forall b1, okr b1 b (p ++ q) -> okr b1 b p.
Proof.
  induction p as [|c r IH]; intros b1 H; cbn [app okr] in *; [eapply okr_nonneg, H|].
  destruct (N.eqb c 10); [split; [tauto|apply IH; tauto]|]. apply IH, H.
Qed.
Lemma zlen_app a b : zlen (a ++ b) = zlen a + zlen b.
Proof. unfold zlen. rewrite app_length. lia. Qed.
Lemma zlen_cons c s : zlen (c :: s) = 1 + zlen s.
Proof. unfold zlen. cbn [length]. lia. Qed.
Lemma zlen_spaces n : zlen (spaces n) = Z.of_nat n.
Proof. unfold zlen, spaces. now rewrite repeat_length. Qed.
Lemma zlen_nonneg s : 0 <= zlen s.
Proof. unfold zlen. lia. Qed.
Lemma no_nl_spaces n : no_nl (spaces n).
Proof. unfold no_nl, spaces. apply Forall_forall. intros c Hc. apply repeat_spec in Hc. subst. discriminate. Qed.
Lemma no_nl_app a b : no_nl a -> no_nl b -> no_nl (a ++ b).
Proof. intros. apply Forall_app. auto. Qed.

Lemma okr_nonl_app b l s : no_nl l -> forall b1, okr b1 b (l ++ s) <-> okr (b1 - zlen l) b s.
Proof.
  induction 1 as [|c l Hc Hl IH]; intros b1; cbn [app].
  - unfold zlen. cbn [length]. now rewrite Z.sub_0_r.
  - cbn [okr]. apply N.eqb_neq in Hc. rewrite Hc, IH, zlen_cons. now replace (b1 - 1 - zlen l) with (b1 - (1 + zlen l)) by lia.
Qed.
Lemma okr_nonl b l b1 : no_nl l -> zlen l <= b1 -> okr b1 b l.
Proof. intros Hl Hb. rewrite <- (app_nil_r l). apply okr_nonl_app; [exact Hl|]. cbn [okr]. lia. Qed.
Lemma okr_app_nl b q p : forall b1, okr b1 b p -> okr b b q -> okr b1 b (p ++ 10%N :: q).
Proof.
  induction p as [|c r IH]; intros b1 Hp Hq; cbn [app okr] in *; [cbn [N.eqb Pos.eqb]; auto|].
  destruct (N.eqb c 10); [split; [tauto|apply IH; tauto]|]. apply IH; assumption.
Qed.

Lemma okr_join prefix b wl : no_nl prefix -> zlen prefix + wl <= b -> 0 <= wl ->
  forall lines b1, Forall no_nl lines -> Forall (fun l => zlen l <= wl) lines -> wl <= b1 -> okr b1 b (join_lines prefix lines).
Proof.
  intros Hp Hb Hwl. induction lines as [|l r IH]; intros b1 Hn Hl Hb1; [cbn; lia|].
  inversion Hn as [|? ? Hn1 Hn2]; subst. inversion Hl as [|? ? Hl1 Hl2]; subst.
  destruct r as [|l2 r].
  - cbn [join_lines]. apply okr_nonl; [exact Hn1|lia].
  - change (join_lines prefix (l :: l2 :: r)) with (l ++ 10%N :: prefix ++ join_lines prefix (l2 :: r)).
    apply okr_nonl_app; [exact Hn1|]. cbn [okr N.eqb Pos.eqb]. split; [lia|].
    apply okr_nonl_app; [exact Hp|]. apply IH; [exact Hn2|exact Hl2|lia].
Qed.

(* the link with the lines of the text *)
Lemma okr_split b s : forall b1, okr b1 b s ->
  zlen (hd [] (split_on 10%N s)) <= b1 /\ Forall (fun l => zlen l <= b) (tl (split_on 10%N s)).
Proof.
  induction s as [|c r IH]; intros b1 H; cbn [okr split_on] in *.
  - cbn. split; [exact H|constructor].
  - destruct (N.eqb c 10).
    + destruct H as [H0 H]. apply IH in H. cbn [hd tl]. split; [exact H0|].
      destruct (split_on 10%N r) as [|x xs]; [constructor|]. cbn [hd tl] in H. constructor; tauto.
    + apply IH in H. destruct (split_on 10%N r) as [|x xs]; cbn [hd tl] in *.
      * split; [|constructor]. unfold zlen in *. cbn [length] in *. lia.
      * rewrite zlen_cons. split; [lia|tauto].
Qed.
Lemma okr_lines b s : okr b b s -> Forall (fun l => zlen l <= b) (split_on 10%N s).
Proof.
  intros H. apply okr_split in H. destruct (split_on 10%N s) as [|x xs]; [constructor|]. cbn [hd tl] in H. constructor; tauto.
Qed.

(* rstrip only shortens *)
Lemma rstrip_rev_suffix r : exists t, r = t ++ rstrip_rev r.
Proof.
  induction r as [|c r [t IH]]; [exists []; reflexivity|]. cbn [rstrip_rev].
  destruct (is_space c); [exists (c :: t); cbn; now rewrite <- IH|exists []; reflexivity].
Qed.
Lemma rstrip_prefix s : exists t, s = rstrip s ++ t.
Proof.
  unfold rstrip. destruct (rstrip_rev_suffix (rev s)) as [t Ht]. exists (rev t).
  rewrite <- rev_app_distr, <- Ht. symmetry. apply rev_involutive.
Qed.
Lemma okr_rstrip b1 b s : okr b1 b s -> okr b1 b (rstrip s).
Proof. destruct (rstrip_prefix s) as [t Ht]. rewrite Ht at 1. apply okr_prefix. Qed.

(* ---- one element ---- *)
Definition first_bound (W vis : Z) (e : elem) : Z :=
  match e with ELab label _ _ _ => W - 1 + (zlen label - vis) | _ => W - 1 end.
Definition wrap_width (W off : Z) (ind : nat) (vis : Z) (e : elem) : Z :=
  match e with
  | ELab label text padding aligned => W - 1 - Z.max (if aligned then off - Z.of_nat ind else 0) (vis + Z.of_nat padding) - Z.of_nat ind
  | _ => W - 1 - Z.of_nat ind
  end.

Lemma wrap_ok_facts text w ls : wrap text w = Ok ls ->
  1 <= w /\ Forall no_nl ls /\ Forall (fun l => zlen l <= w) ls.
Proof.
  intros H. split; [apply wrap_ok_chunks in H; tauto|]. split; [apply (wrap_lines_no_newline_lemma _ _ _ H)|].
  apply (wrap_lines_fit_lemma _ _ _ H).
Qed.

Lemma elem_raw_fits W off ind vis e raw :
  elem_raw W off ind vis e = Ok raw -> 1 <= W -> 0 <= vis -> no_nl (elem_label e) ->
  exists body, raw = body ++ [10%N] /\ okr (first_bound W vis e) (W - 1) body.
Proof.
  intros H HW Hvis Hlab. destruct e as [t|label text padding aligned|]; cbn [elem_raw first_bound] in *.
  - destruct (wrap t (W - 1 - Z.of_nat ind)) as [lines|k] eqn:Ew; [|discriminate]. cbn [bind] in H. injection H as <-.
    apply wrap_ok_facts in Ew. destruct Ew as (Hw & Hnl & Hfit).
    exists (spaces ind ++ rstrip (join_lines (spaces ind) lines)). split; [now rewrite <- app_assoc|].
    destruct (rstrip_prefix (join_lines (spaces ind) lines)) as [t' Ht].
    apply (okr_prefix _ t'). rewrite <- app_assoc, <- Ht.
    apply okr_nonl_app; [apply no_nl_spaces|]. rewrite zlen_spaces.
    apply (okr_join _ _ (W - 1 - Z.of_nat ind)); [apply no_nl_spaces|rewrite zlen_spaces; lia|lia|exact Hnl|exact Hfit|lia].
  - cbv zeta in H.
    set (to := Z.max (if aligned then off - Z.of_nat ind else 0) (vis + Z.of_nat padding)) in *.
    destruct (wrap text (W - 1 - to - Z.of_nat ind)) as [lines|k] eqn:Ew; [|discriminate]. cbn [bind] in H. injection H as <-.
    apply wrap_ok_facts in Ew. destruct Ew as (Hw & Hnl & Hfit).
    assert (Hto : vis + Z.of_nat padding <= to) by (subst to; lia).
    set (J := join_lines (spaces ind ++ spaces (Z.to_nat to)) lines).
    eexists. split; [reflexivity|]. apply okr_rstrip.
    destruct (rstrip_prefix J) as [t' Ht].
    apply (okr_prefix _ t'). rewrite <- !app_assoc, <- Ht. unfold ljust. rewrite <- app_assoc.
    cbn [elem_label] in Hlab.
    apply okr_nonl_app; [apply no_nl_spaces|]. apply okr_nonl_app; [exact Hlab|]. apply okr_nonl_app; [apply no_nl_spaces|].
    rewrite !zlen_spaces. pose proof (zlen_nonneg label) as Hl0.
    replace (W - 1 + (zlen label - vis) - Z.of_nat ind - zlen label - Z.of_nat (Z.to_nat (to + (zlen label - vis) - zlen label)))
      with (W - 1 - to - Z.of_nat ind) by lia.
    apply (okr_join _ _ (W - 1 - to - Z.of_nat ind)); [apply no_nl_app; apply no_nl_spaces| |lia|exact Hnl|exact Hfit|lia].
    rewrite zlen_app, !zlen_spaces. lia.
  - injection H as <-. exists []. split; [reflexivity|]. cbn. lia.
Qed.

(* the lines of the raw text: the first within W - 1 plus the invisible part of the label, the others within W - 1 *)
Lemma page_fits_lemma W off ind vis e raw :
  elem_raw W off ind vis e = Ok raw -> 1 <= W -> 0 <= vis -> no_nl (elem_label e) ->
  exists body, raw = body ++ [10%N]
    /\ zlen (hd [] (split_on 10%N body)) <= first_bound W vis e
    /\ Forall (fun l => zlen l <= W - 1) (tl (split_on 10%N body)).
Proof.
  intros H HW Hv Hl. destruct (elem_raw_fits _ _ _ _ _ _ H HW Hv Hl) as (body & E & Hok).
  exists body. split; [exact E|]. apply okr_split, Hok.
Qed.

Lemma elem_raw_ok W off ind vis e : (match e with EEmpty => True | _ => 1 <= wrap_width W off ind vis e end) ->
  exists raw, elem_raw W off ind vis e = Ok raw.
Proof.
  intros H. destruct e as [t|label text padding aligned|]; cbn [elem_raw wrap_width] in *; [| |eauto].
  - destruct (wrap_total_lemma t _ H) as [ls ->]. cbn [bind]. eauto.
  - cbv zeta. destruct (wrap_total_lemma text _ H) as [ls ->]. cbn [bind]. eauto.
Qed.
Lemma elem_raw_vis W off ind v v' e : (match e with ELab _ _ _ _ => False | _ => True end) -> elem_raw W off ind v e = elem_raw W off ind v' e.
Proof. destruct e; [reflexivity|contradiction|reflexivity]. Qed.

(* render_elem fails only where one of its two formatter calls fails, or the wrap width is below one *)
Lemma render_elem_ok_lemma W off f ind e :
  match e with
  | ELab label _ _ _ => forall x, remove_format f label = Ok x -> 1 <= wrap_width W off ind (zlen (snd x)) e ->
      exists raw, elem_raw W off ind (zlen (snd x)) e = Ok raw /\ render_elem W off f ind e = emit (fst x) raw
  | _ => (match e with EEmpty => True | _ => 1 <= wrap_width W off ind 0 e end) ->
      exists raw, elem_raw W off ind 0 e = Ok raw /\ render_elem W off f ind e = emit f raw
  end.
Proof.
  destruct e as [t|label text padding aligned|].
  - intros H. destruct (elem_raw_ok W off ind 0 (EPara t) H) as [raw Hr]. exists raw. split; [exact Hr|].
    unfold render_elem. now rewrite Hr.
  - intros x Hx H. destruct (elem_raw_ok W off ind (zlen (snd x)) (ELab label text padding aligned) H) as [raw Hr].
    exists raw. split; [exact Hr|]. unfold render_elem. rewrite Hx. cbn [bind]. now rewrite Hr.
  - intros _. exists [10%N]. split; reflexivity.
Qed.

(* ---- the null formatter: the page is the raw text ---- *)
Lemma remove_format_null f s : f_kind f = FNull -> remove_format f s = Ok (f, s).
Proof. intros H. unfold remove_format. now rewrite H. Qed.
Lemma emit_null f s : f_kind f = FNull -> emit f s = Ok (f, s).
Proof. intros H. unfold emit. rewrite H. now apply remove_format_null. Qed.
Lemma render_elem_null W off f ind e : f_kind f = FNull ->
  render_elem W off f ind e = do raw <- elem_raw W off ind (zlen (elem_label e)) e; Ok (f, raw).
Proof.
  intros H. destruct e as [t|label text padding aligned|]; unfold render_elem.
  - rewrite (elem_raw_vis _ _ _ 0 (zlen (elem_label (EPara t)))) by exact I.
    destruct (elem_raw _ _ _ _ _); cbn [bind]; [now apply emit_null|reflexivity].
  - rewrite (remove_format_null _ _ H). cbn [bind fst snd elem_label].
    destruct (elem_raw _ _ _ _ _); cbn [bind]; [now apply emit_null|reflexivity].
  - cbn [elem_raw bind]. now apply emit_null.
Qed.

Fixpoint align_off (l : layout) (acc : Z) : Z :=
  match l with
  | [] => acc
  | (ind, ELab label _ padding true) :: r => align_off r (Z.max acc (Z.of_nat ind + zlen label + Z.of_nat padding))
  | _ :: r => align_off r acc
  end.
Lemma align_null f : f_kind f = FNull -> forall l acc, align f l acc = Ok (f, align_off l acc).
Proof.
  intros H. induction l as [|[ind e] r IH]; intros acc; [reflexivity|]. cbn [align align_off].
  destruct e as [t|label text padding aligned|]; [apply IH| |apply IH].
  destruct aligned; [|apply IH]. rewrite (remove_format_null _ _ H). cbn [bind fst snd]. apply IH.
Qed.

Definition one_line_labels (l : layout) : Prop := Forall (fun x => no_nl (elem_label (snd x))) l.
(* out is empty or a sequence of lines, each within b and ended by a newline *)
Definition lines_within (b : Z) (out : str) : Prop := out = [] \/ exists p, out = p ++ [10%N] /\ okr b b p.

Lemma render_all_null_fits W off f : f_kind f = FNull -> 1 <= W ->
  forall l out x, one_line_labels l -> render_all W off f l out = Ok x -> lines_within (W - 1) out -> lines_within (W - 1) (snd x).
Proof.
  intros Hf HW. induction l as [|[ind e] r IH]; intros out x Hl H Hout; cbn [render_all] in H.
  - injection H as <-. exact Hout.
  - inversion Hl as [|? ? Hl1 Hl2]; subst. cbn [snd] in Hl1.
    rewrite (render_elem_null _ _ _ _ _ Hf) in H.
    destruct (elem_raw W off ind (zlen (elem_label e)) e) as [raw|k] eqn:Er; [|discriminate]. cbn [bind fst snd] in H.
    apply IH in H; [exact H|exact Hl2|].
    destruct (elem_raw_fits _ _ _ _ _ _ Er HW (zlen_nonneg _) Hl1) as (body & -> & Hb).
    assert (Hb' : okr (W - 1) (W - 1) body).
    { eapply okr_mono; [|exact Hb]. destruct e; cbn [first_bound elem_label]; lia. }
    right. destruct Hout as [->|(p & -> & Hp)].
    + exists body. auto.
    + exists (p ++ 10%N :: body). split; [now rewrite <- !app_assoc|]. now apply okr_app_nl.
Qed.
Lemma lines_within_split b out : 0 <= b -> lines_within b out -> Forall (fun l => zlen l <= b) (split_on 10%N out).
Proof.
  intros Hb [->|(p & -> & Hp)]; [cbn; constructor; [cbn; lia|constructor]|].
  apply okr_lines. apply okr_app_nl; [exact Hp|cbn; lia].
Qed.
Lemma page_fits_null_lemma W f l s : f_kind f = FNull -> 1 <= W -> one_line_labels l ->
  render_page W f l = Ok s -> Forall (fun ln => zlen ln <= W - 1) (split_on 10%N s).
Proof.
  intros Hf HW Hl H. unfold render_page in H. rewrite (align_null _ Hf) in H. cbn [bind fst snd] in H.
  destruct (render_all W (align_off l 0) f l []) as [x|k] eqn:E; [|discriminate]. cbn [bind] in H. injection H as <-.
  apply lines_within_split; [lia|]. eapply render_all_null_fits; [exact Hf|exact HW|exact Hl|exact E|left; reflexivity].
Qed.

(* the width a layout needs: room for one character of text behind every indentation and label *)
Definition elem_width (off : Z) (ind : nat) (e : elem) : Z :=
  match e with
  | ELab label _ padding aligned =>
    Z.of_nat ind + Z.max (if aligned then off - Z.of_nat ind else 0) (zlen label + Z.of_nat padding) + 2
  | EPara _ => Z.of_nat ind + 2
  | EEmpty => 1
  end.
Definition needed_width (l : layout) : Z :=
  fold_right (fun x m => Z.max (elem_width (align_off l 0) (fst x) (snd x)) m) 1 l.
Lemma fold_max_bound {X} (g : X -> Z) l W : fold_right (fun x m => Z.max (g x) m) 1 l <= W -> Forall (fun x => g x <= W) l.
Proof. induction l as [|x l IH]; cbn [fold_right]; intros H; constructor; [lia|apply IH; lia]. Qed.
Lemma render_all_null_ok W off f : f_kind f = FNull ->
  forall l out, Forall (fun x => elem_width off (fst x) (snd x) <= W) l -> exists y, render_all W off f l out = Ok y.
Proof.
  intros Hf. induction l as [|[ind e] r IH]; intros out Hl; cbn [render_all]; [eauto|].
  inversion Hl as [|? ? H1 H2]; subst. cbn [fst snd] in H1. rewrite (render_elem_null _ _ _ _ _ Hf).
  destruct (elem_raw_ok W off ind (zlen (elem_label e)) e) as [raw ->].
  { destruct e; cbn [wrap_width elem_width elem_label] in *; [lia|lia|exact I]. }
  cbn [bind fst snd]. apply IH, H2.
Qed.
Lemma page_renders_null_lemma W f l : f_kind f = FNull -> needed_width l <= W -> exists s, render_page W f l = Ok s.
Proof.
  intros Hf HW. unfold render_page. rewrite (align_null _ Hf). cbn [bind fst snd].
  destruct (render_all_null_ok W (align_off l 0) f Hf l []) as [y ->]; [|cbn [bind]; eauto].
  apply fold_max_bound. exact HW.
Qed.
Lemma needed_width_pos l : 1 <= needed_width l.
Proof. unfold needed_width. generalize (align_off l 0). intros off. induction l; cbn [fold_right]; lia. Qed.

(* ================= the only error is ValueError (markup the formatter refuses, or no room to wrap) ================= *)
Definition only_ve {X} (r : res X) : Prop := match r with Err k => k = ValueError | Ok _ => True end.
Lemma bind_ve {X Y} (r : res X) (g : X -> res Y) : only_ve r -> (forall x, only_ve (g x)) -> only_ve (bind r g).
Proof. destruct r; cbn; auto. Qed.
Lemma set_fg_ve st n : only_ve (set_fg st n).
Proof. unfold set_fg. destruct (fg_code n); cbn; auto. Qed.
Lemma set_bg_ve st n : only_ve (set_bg st n).
Proof. unfold set_bg. destruct (bg_code n); cbn; auto. Qed.
Lemma inline_style_ve ms : forall st, only_ve (inline_style ms st).
Proof.
  induction ms as [|[k v] r IH]; intros st; cbn [inline_style]; [exact I|].
  destruct (str_eqb k s_fg); [apply bind_ve; [apply set_fg_ve|intros; apply IH]|].
  destruct (str_eqb k s_bg); [apply bind_ve; [apply set_bg_ve|intros; apply IH]|].
  destruct (set_opts st (split_on COMMA v)); [apply IH|exact I].
Qed.
Lemma resolve_ve sty name : only_ve (resolve sty name).
Proof. unfold resolve. destruct (aget str_eqb name sty); [exact I|]. destruct (kv_matches name); [exact I|apply inline_style_ve]. Qed.
Lemma pop_style_ve st sk : only_ve (pop_style st sk).
Proof. unfold pop_style. destruct sk; [exact I|]. destruct (cut_rev st _); cbn; auto. Qed.
Lemma do_tag_ve sty colored esc t sk : only_ve (do_tag sty colored esc t sk).
Proof.
  destruct t as [raw cl nm]. cbn [do_tag]. destruct esc; [exact I|].
  destruct (cl && _); [exact I|]. apply bind_ve; [apply resolve_ve|]. intros [st|]; [|exact I].
  destruct cl; [|exact I]. apply bind_ve; [apply pop_style_ve|]. intros; exact I.
Qed.
Lemma run_segs_ve sty colored a0 : forall segs first sk out le, only_ve (run_segs sty colored a0 first segs sk out le).
Proof.
  induction segs as [|[pre t] r IH]; intros first sk out le; cbn [run_segs]; [exact I|].
  apply bind_ve; [apply do_tag_ve|]. intros x. apply IH.
Qed.
Lemma colorize_ve sty colored sk m : only_ve (colorize sty colored sk m).
Proof.
  unfold colorize. destruct (lex m) as [segs tail]. destruct segs as [|sg segs]; [exact I|].
  apply bind_ve; [apply run_segs_ve|]. intros [[sk' out] le]. exact I.
Qed.
Lemma remove_format_ve f m : only_ve (remove_format f m).
Proof. unfold remove_format. destruct (f_kind f); try exact I; (apply bind_ve; [apply colorize_ve|intros; exact I]). Qed.
Lemma emit_ve f m : only_ve (emit f m).
Proof.
  unfold emit. destruct (f_kind f) eqn:E; try apply remove_format_ve.
  unfold format. rewrite E. apply bind_ve; [apply colorize_ve|intros; exact I].
Qed.
Lemma wrap_ve text w : only_ve (wrap text w).
Proof.
  destruct (Z_le_gt_dec w 0) as [H|H].
  - apply wrap_value_error_lemma with (text := text) in H. now rewrite H.
  - destruct (wrap_total_lemma text w ltac:(lia)) as [ls ->]. exact I.
Qed.
Lemma elem_raw_ve W off ind vis e : only_ve (elem_raw W off ind vis e).
Proof. destruct e; cbn [elem_raw]; [| |exact I]; (apply bind_ve; [apply wrap_ve|intros; exact I]). Qed.
Lemma render_elem_ve W off f ind e : only_ve (render_elem W off f ind e).
Proof.
  destruct e; unfold render_elem.
  - apply bind_ve; [apply elem_raw_ve|intros; apply emit_ve].
  - apply bind_ve; [apply remove_format_ve|]. intros x. apply bind_ve; [apply elem_raw_ve|intros; apply emit_ve].
  - apply bind_ve; [apply elem_raw_ve|intros; apply emit_ve].
Qed.
Lemma render_all_ve W off : forall l f out, only_ve (render_all W off f l out).
Proof. induction l as [|[ind e] r IH]; intros f out; cbn [render_all]; [exact I|]. apply bind_ve; [apply render_elem_ve|intros; apply IH]. Qed.
Lemma align_ve : forall l f acc, only_ve (align f l acc).
Proof.
  induction l as [|[ind e] r IH]; intros f acc; cbn [align]; [exact I|].
  destruct e as [t|label text padding aligned|]; [apply IH| |apply IH]. destruct aligned; [|apply IH].
  apply bind_ve; [apply remove_format_ve|intros; apply IH].
Qed.
Lemma render_error_kind_lemma W f l k : render_page W f l = Err k -> k = ValueError.
Proof.
  intros H. assert (Hv : only_ve (render_page W f l)).
  { unfold render_page. apply bind_ve; [apply align_ve|]. intros a. apply bind_ve; [apply render_all_ve|intros; exact I]. }
  rewrite H in Hv. exact Hv.
Qed.

(* ================= the labels of a page hold no newline when the configured names hold none ================= *)
Definition opt_one_line (h : hopt) : Prop :=
  no_nl (o_long (h_o h)) /\ match o_short (h_o h) with Some s => no_nl s | None => True end.
Definition arg_one_line (a : harg) : Prop := no_nl (a_name (h_a a)).
Definition sub_one_line (s : sub) : Prop := no_nl (sb_name s) /\ Forall arg_one_line (sb_args s) /\ Forall opt_one_line (sb_opts s).
Definition lab_ok (x : nat * elem) : Prop := no_nl (elem_label (snd x)).

Ltac nl_char := let E := fresh in intros E; vm_compute in E; discriminate E.
Ltac nl_solve :=
  unfold no_nl in *;
  repeat first [ assumption | apply Forall_nil | apply Forall_app; split | apply Forall_cons; [nl_char|] ].

Lemma render_option_one_line h : opt_one_line h -> no_nl (elem_label (render_option h)).
Proof.
  intros [H1 H2]. rewrite render_option_names_lemma. unfold C1, C1E.
  destruct (bit (o_flags (h_o h)) 0); destruct (o_short (h_o h)); nl_solve.
Qed.
Lemma render_argument_one_line a : arg_one_line a -> no_nl (elem_label (render_argument a)).
Proof. intros H. unfold arg_one_line in H. rewrite render_argument_name_lemma. unfold C1, C1E. nl_solve. Qed.

Lemma oll_block l : one_line_labels l -> one_line_labels (block l).
Proof. unfold one_line_labels, block. induction 1; cbn [map]; constructor; auto. Qed.
Lemma oll_at0 es : Forall (fun e => no_nl (elem_label e)) es -> one_line_labels (at0 es).
Proof. unfold one_line_labels, at0. induction 1; cbn [map]; constructor; auto. Qed.
Lemma oll_args l : Forall arg_one_line l -> one_line_labels (at0 (map render_argument l)).
Proof. intros H. apply oll_at0. induction H; cbn [map]; constructor; auto using render_argument_one_line. Qed.
Lemma oll_opts l : Forall opt_one_line l -> one_line_labels (at0 (map render_option l)).
Proof. intros H. apply oll_at0. induction H; cbn [map]; constructor; auto using render_option_one_line. Qed.
Lemma oll_app a b : one_line_labels a -> one_line_labels b -> one_line_labels (a ++ b).
Proof. intros. apply Forall_app. auto. Qed.
Lemma oll_para i t l : one_line_labels l -> one_line_labels ((i, EPara t) :: l).
Proof. intros. constructor; [constructor|assumption]. Qed.
Lemma oll_empty i l : one_line_labels l -> one_line_labels ((i, EEmpty) :: l).
Proof. intros. constructor; [constructor|assumption]. Qed.
Lemma oll_nil : one_line_labels [].
Proof. constructor. Qed.

Lemma join_with_one_line sep l : sep <> 10%N -> Forall no_nl l -> no_nl (join_with sep l).
Proof.
  intros Hs. induction 1 as [|x r Hx Hr IH]; [constructor|]. destruct r as [|y r]; [exact Hx|].
  change (join_with sep (x :: y :: r)) with (x ++ sep :: join_with sep (y :: r)). apply no_nl_app; [exact Hx|]. constructor; assumption.
Qed.
Lemma removelast_last_P {X} (P : X -> Prop) (l : list X) d : Forall P l -> P d -> Forall P (removelast l) /\ P (last l d).
Proof.
  intros H Hd. destruct l as [|x l]; [cbn; auto|].
  rewrite (app_removelast_last d (l := x :: l)) in H by discriminate. apply Forall_app in H. destruct H as [H1 H2].
  inversion H2; subst. auto.
Qed.
Lemma synopsis_one_line sty app_name names opts args prefix lo :
  (match app_name with Some n => no_nl n | None => True end) -> Forall no_nl names -> no_nl prefix ->
  no_nl (elem_label (synopsis sty app_name names opts args prefix lo)).
Proof.
  intros Ha Hn Hp. unfold synopsis. cbv zeta. cbn [elem_label].
  set (parts := u_tag _ :: map u_tag names).
  assert (Hparts : Forall no_nl parts).
  { subst parts. constructor.
    - unfold u_tag. destruct app_name as [[|c r]|]; nl_solve.
    - clear - Hn. induction Hn; cbn [map]; constructor; auto. unfold u_tag. nl_solve. }
  apply no_nl_app; [exact Hp|]. apply join_with_one_line; [discriminate|].
  destruct lo; [|exact Hparts]. destruct (removelast_last_P no_nl parts [] Hparts) as [H1 H2]; [constructor|].
  apply Forall_app. split; [exact H1|]. constructor; [|constructor]. nl_solve.
Qed.

Lemma usage_prefixes_one_line n : Forall no_nl (usage_prefixes n).
Proof.
  unfold usage_prefixes. constructor; [destruct n as [|[|n]]; nl_solve|].
  apply Forall_forall. intros p Hp. apply repeat_spec in Hp. subst. nl_solve.
Qed.
Lemma usage_section_one_line sty app_name ch subs :
  (match app_name with Some n => no_nl n | None => True end) -> Forall no_nl (chain_names ch) ->
  Forall (fun s => no_nl (sb_name s)) subs -> one_line_labels (usage_section sty app_name ch subs).
Proof.
  intros Ha Hc Hs. unfold usage_section, one_line_labels. apply Forall_forall. intros x Hx.
  apply in_map_iff in Hx. destruct Hx as ([e p] & <- & Hin).
  pose proof (in_combine_l _ _ _ _ Hin) as He. pose proof (in_combine_r _ _ _ _ Hin) as Hp.
  pose proof (usage_prefixes_one_line (length (usage_entries ch subs))) as Hpre. rewrite Forall_forall in Hpre. specialize (Hpre p Hp).
  unfold usage_line. cbn [fst snd]. destruct e as [[[names opts] args] lo]. cbn [snd].
  apply synopsis_one_line; [exact Ha| |exact Hpre].
  apply usage_entry_origin in He. destruct He as [[E _]|(s & Hsin & _ & _ & E)].
  - injection E as -> _ _ _. exact Hc.
  - cbn [fst] in E. unfold sub_fmt in E. injection E as -> _ _. apply Forall_app. split; [exact Hc|].
    destruct (sb_anonymous s); [constructor|]. constructor; [|constructor]. rewrite Forall_forall in Hs. now apply Hs.
Qed.

Lemma sub_block_one_line s : sub_one_line s -> one_line_labels (sub_block s).
Proof.
  intros (_ & Ha & Ho). unfold sub_block. apply oll_para. do 2 apply oll_block.
  repeat apply oll_app.
  - destruct (nonempty_opt (sb_desc s)); [apply oll_para, oll_empty|]; apply oll_nil.
  - destruct (nonempty_opt (sb_help s)); [apply oll_para, oll_empty|]; apply oll_nil.
  - destruct (sb_args s) as [|x l] eqn:E; [apply oll_nil|]. apply oll_app; [now apply oll_args|apply oll_empty, oll_nil].
  - destruct (sb_opts s) as [|x l] eqn:E; [apply oll_nil|]. apply oll_app; [now apply oll_opts|apply oll_empty, oll_nil].
  - destruct (nonempty_opt (sb_desc s)), (nonempty_opt (sb_help s)), (sb_args s), (sb_opts s); try apply oll_nil; apply oll_empty, oll_nil.
Qed.
Lemma description_block_one_line help : one_line_labels (description_block help).
Proof.
  unfold description_block. destruct (nonempty_opt help) as [h|]; [|apply oll_nil]. apply oll_para, oll_app; [|apply oll_empty, oll_nil].
  unfold paragraphs. induction (split_on 10%N h); cbn [map]; [apply oll_nil|now apply oll_para].
Qed.
Lemma global_options_one_line l : Forall opt_one_line l -> one_line_labels (global_options_section l).
Proof.
  intros H. unfold global_options_section. destruct l as [|x r]; [apply oll_nil|].
  apply oll_para, oll_app; [apply oll_block; now apply oll_opts|apply oll_empty, oll_nil].
Qed.

Lemma command_page_one_line sty app_name ch aliases help subs :
  (match app_name with Some n => no_nl n | None => True end) -> Forall no_nl (chain_names ch) ->
  Forall arg_one_line (chain_args ch) -> Forall opt_one_line (own_opts ch) -> Forall opt_one_line (base_opts ch) ->
  Forall sub_one_line subs ->
  one_line_labels (command_page sty app_name ch aliases help subs).
Proof.
  intros Ha Hc Hargs Hown Hbase Hsubs. rewrite command_page_sections.
  repeat apply oll_app.
  - apply oll_para, oll_nil.
  - apply usage_section_one_line; [exact Ha|exact Hc|]. eapply Forall_impl; [|exact Hsubs]. intros s Hs. apply Hs.
  - unfold aliases_section. destruct aliases; [apply oll_nil|apply oll_empty, oll_para, oll_nil].
  - apply oll_empty, oll_nil.
  - unfold arguments_section. destruct (chain_args ch) as [|x l]; [apply oll_nil|].
    apply oll_para, oll_app; [apply oll_block; now apply oll_args|apply oll_empty, oll_nil].
  - unfold commands_section. destruct (named_subs subs); [apply oll_nil|]. apply oll_para.
    unfold one_line_labels. apply Forall_forall. intros x Hx. apply in_flat_map in Hx. destruct Hx as (s0 & Hs & Hx).
    apply listed_subs_in in Hs. destruct Hs as [Hs _]. rewrite Forall_forall in Hsubs.
    pose proof (sub_block_one_line s0 (Hsubs s0 Hs)) as Hb. unfold one_line_labels in Hb. rewrite Forall_forall in Hb. now apply Hb.
  - unfold options_section. destruct (own_opts ch) as [|x l]; [apply oll_nil|].
    apply oll_para, oll_app; [apply oll_block; now apply oll_opts|apply oll_empty, oll_nil].
  - now apply global_options_one_line.
  - apply description_block_one_line.
Qed.

Lemma application_page_one_line sty app_name display version gopts cmds help :
  (match app_name with Some n => no_nl n | None => True end) -> Forall opt_one_line gopts ->
  Forall (fun c => no_nl (ac_name c)) cmds ->
  one_line_labels (application_page sty app_name display version gopts cmds help).
Proof.
  intros Ha Hg Hc. rewrite application_page_decomposes. unfold application_page_before.
  repeat apply oll_app.
  - constructor; [unfold name_version; destruct (nonempty_opt display), (nonempty_opt version); constructor|].
    apply oll_empty, oll_para. constructor; [|apply oll_empty, oll_nil].
    apply synopsis_one_line; [exact Ha|constructor|constructor].
  - apply oll_para, oll_app; [|apply oll_empty, oll_nil]. apply oll_block, oll_args.
    repeat constructor; nl_char.
  - now apply global_options_one_line.
  - unfold available_section. destruct (named_cmds cmds); [apply oll_nil|]. apply oll_para, oll_app; [|apply oll_empty, oll_nil].
    unfold one_line_labels. apply Forall_forall. intros x Hx. apply in_map_iff in Hx. destruct Hx as (c0 & <- & Hin).
    apply listed_cmds_in in Hin. destruct Hin as [Hin _]. rewrite Forall_forall in Hc. specialize (Hc c0 Hin).
    unfold cmd_line, C1, C1E. cbn [snd elem_label]. nl_solve.
  - apply description_block_one_line.
Qed.
