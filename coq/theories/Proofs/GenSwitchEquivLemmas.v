(* The hand model of the global switches (Model/Switches.v: io_settings, decorated, wants_help, wants_version - C09)
   EQUALS, for all inputs, what harness/translate_switches.py regenerates from
   DefaultApplicationConfig.create_io / resolve_help_command / print_version on every bin/setup
   (Generated/GenSwitches.v).  This file is hand-written; the generated file is not.  The proofs do not mention the
   shape of the generated text: they decide every token test and compare. *)
From Clikit Require Import Base.Prelude Base.Res Model.Gate Model.Tokenizer Model.Switches.
From Clikit Require Generated.GenGate Generated.GenSwitches.

Module G := GenSwitches.

(* what an Output does with the formatter it is given (Output.__init__:
     self._format_output = stream.supports_ansi() and not formatter.disable_ansi() or formatter.force_ansi()
   with PlainFormatter.disable_ansi() = True, AnsiFormatter.disable_ansi() = False, force_ansi() = its `forced`) *)
Definition decorates (f : G.gformatter) (stream_ansi : bool) : bool :=
  match f with
  | G.GPlain => stream_ansi && negb true || false
  | G.GAnsi forced => stream_ansi && negb false || forced
  end.

Definition tok_of (ots : list str) : list N -> bool := fun t => has_token t ots.

Lemma gen_constants : GenGate.NORMAL = NORMAL /\ GenGate.VERBOSE = VERBOSE /\ GenGate.VERY_VERBOSE = VERY_VERBOSE /\ GenGate.DEBUG = DEBUG.
Proof. repeat split; reflexivity. Qed.

(* create_io = io_settings: verbosity, quiet, interactive, and which streams are decorated *)
Lemma gen_create_io debug ots out_ansi err_ansi :
  let g := G.create_io (tok_of ots) debug out_ansi err_ansi in
  let s := io_settings debug ots in
  G.g_verbosity g = s_verbosity s /\ G.g_quiet g = s_quiet s /\ G.g_interactive g = s_interactive s /\
  decorates (G.g_out g) out_ansi = decorated s out_ansi /\ decorates (G.g_err g) err_ansi = decorated s err_ansi.
Proof.
  unfold G.create_io, io_settings, decorated, decorates, tok_of.
  change [45;45;110;111;45;97;110;115;105]%N with T_no_ansi. change [45;45;97;110;115;105]%N with T_ansi.
  change [45;118;118;118]%N with T_vvv. change [45;118;118]%N with T_vv. change [45;118]%N with T_v.
  change [45;45;113;117;105;101;116]%N with T_quiet. change [45;113]%N with T_q.
  change [45;45;110;111;45;105;110;116;101;114;97;99;116;105;111;110]%N with T_no_interaction. change [45;110]%N with T_n.
  cbn [s_ansi s_verbosity s_quiet s_interactive].
  destruct (has_token T_no_ansi ots), (has_token T_ansi ots), (has_token T_vvv ots), (has_token T_vv ots),
    (has_token T_v ots), (has_token T_quiet ots), (has_token T_q ots), (has_token T_no_interaction ots),
    (has_token T_n ots), debug, out_ansi, err_ansi; cbn; repeat split; reflexivity.
Qed.

(* the guard of the help listener = wants_help *)
Lemma gen_help_listener ots : G.help_listener_fires (tok_of ots) = wants_help ots.
Proof. reflexivity. Qed.

(* the guard of the version listener = "the parsed option, or the switch among the option tokens" (every Args that
   command.parse builds carries its raw arguments: has_raw = true) *)
Lemma gen_version_listener ots version_set :
  G.version_listener_fires (tok_of ots) version_set true = version_set || wants_version ots.
Proof. reflexivity. Qed.

(* ArgvArgs / StringArgs: the option tokens are the tokens before the first "--", and has_option_token is membership *)
Lemma gen_option_tokens toks : G.option_tokens str_eqb toks = option_tokens toks.
Proof.
  unfold G.option_tokens. induction toks as [|t r IH]; [reflexivity|].
  cbn [G.takewhile option_tokens]. unfold is_ddash. change [DASH; DASH] with [45; 45]%N.
  destruct (str_eqb t [45; 45]%N); cbn [negb]; [reflexivity|]. f_equal. exact IH.
Qed.
Lemma gen_has_option_token toks t : G.has_option_token str_eqb toks t = has_token t (option_tokens toks).
Proof. unfold G.has_option_token, has_token. now rewrite gen_option_tokens. Qed.
