(* Proofs about Model/Progress.v (C16): the state (step, maximum, throttle, what draws), the bar segment, quiet and
   plain outputs.  The frames written are the subject of Proofs/ProgressFrameLemmas.v. *)
From Coq Require Import Lia ZArith Arith.
From Clikit Require Import Base.Prelude Base.Res Base.Term Model.Conv Model.Markup Model.Section Model.Progress
  Proofs.TermLemmas Proofs.MarkupLemmas Proofs.SectionLemmas.
Local Open Scope Z_scope.

Definition range (p : pbar) : Prop := 0 <= p_step p /\ 0 <= p_max p /\ (0 < p_max p -> p_step p <= p_max p).

Lemma bind_ok {X Y} (r : res X) (f : X -> res Y) y : bind r f = Ok y -> exists x, r = Ok x /\ f x = Ok y.
Proof. destruct r; cbn; [eauto|discriminate]. Qed.
Ltac bind_inv H x Hx := apply bind_ok in H; destruct H as (x & Hx & H).

(* ---------- what a call leaves of the bar: only the output (formatter, sections) moves under a write ---------- *)
Lemma set_out_id p : set_out p (p_f p) (p_secs p) = p.
Proof. destruct p; reflexivity. Qed.

Lemma out_write_shape p t nl p' es : out_write p t nl = Ok (p', es) -> exists f st, p' = set_out p f st.
Proof.
  unfold out_write. destruct (p_quiet p).
  { intros H. inversion H; subst. exists (p_f p'), (p_secs p'). now rewrite set_out_id. }
  destruct (p_section p).
  { intros H. bind_inv H x Hx. inversion H; subst. eauto. }
  destruct (p_ansi p); intros H; bind_inv H x Hx; inversion H; subst; eauto.
Qed.
Lemma out_clear_shape p n p' es : out_clear p n = Ok (p', es) -> exists f st, p' = set_out p f st.
Proof.
  unfold out_clear. destruct (p_quiet p).
  { intros H. inversion H; subst. exists (p_f p'), (p_secs p'). now rewrite set_out_id. }
  intros H. bind_inv H x Hx. inversion H; subst. eauto.
Qed.

Lemma overwrite_shape p now m p' es : overwrite p now m = Ok (p', es) ->
  exists f st ll, p' = set_written (set_out p f st) ll now.
Proof.
  unfold overwrite. intros H. bind_inv H pl Hpl. bind_inv H pre Hpre. bind_inv H wr Hwr. bind_inv H mv Hmv.
  inversion H; subst; clear H.
  assert (exists f st, fst pre = set_out p f st) as (f1 & st1 & E1).
  { cbn [p_ansi p_section set_out] in Hpre. destruct (p_ansi p).
    - destruct (p_section p).
      + destruct pre as [q e]. apply out_clear_shape in Hpre as (f & st & ->). eexists _, _. reflexivity.
      + inversion Hpre; subst. eexists _, _. reflexivity.
    - inversion Hpre; subst. eexists _, _. reflexivity. }
  destruct wr as [q e]. apply out_write_shape in Hwr as (f2 & st2 & E2). cbn [fst snd] in *. subst q. rewrite E1.
  eexists _, _, _. reflexivity.
Qed.

Lemma with_fmt_fields p :
  p_step (with_fmt p) = p_step p /\ p_max (with_fmt p) = p_max p /\ p_ansi (with_fmt p) = p_ansi p /\
  p_quiet (with_fmt p) = p_quiet p /\ p_last_write (with_fmt p) = p_last_write p /\ p_section (with_fmt p) = p_section p /\
  p_drawn (with_fmt p) = p_drawn p /\ p_secs (with_fmt p) = p_secs p /\ p_f (with_fmt p) = p_f p /\
  p_write_count (with_fmt p) = p_write_count p /\ p_last_len (with_fmt p) = p_last_len p /\ p_w (with_fmt p) = p_w p.
Proof. unfold with_fmt. destruct (p_fmt p); cbn; repeat split. Qed.

(* display: nothing on a quiet output; otherwise one _overwrite of the state with its format fixed *)
Lemma display_cases p now p' es : display p now = Ok (p', es) ->
  (p_quiet p = true /\ p' = p /\ es = []) \/
  (p_quiet p = false /\ exists f st ll,
     p' = set_drawn (set_written (set_out (with_fmt p) f st) ll now) (Some (p_step p, p_max p))).
Proof.
  unfold display. destruct (p_quiet p).
  { intros H. inversion H. auto. }
  intros H. right. split; [reflexivity|]. bind_inv H fr Hfr. bind_inv H x Hx. inversion H; subst; clear H.
  destruct x as [q e]. apply overwrite_shape in Hx as (f & st & ll & ->). cbn [fst]. eexists _, _, _. reflexivity.
Qed.
Lemma display_progress p now p' es : display p now = Ok (p', es) ->
  p_step p' = p_step p /\ p_max p' = p_max p /\ p_quiet p' = p_quiet p /\ p_ansi p' = p_ansi p /\ p_section p' = p_section p.
Proof.
  intros H. destruct (with_fmt_fields p) as (H1 & H2 & H3 & H4 & _ & H6 & _).
  apply display_cases in H as [(_ & -> & _)|(_ & f & st & ll & ->)]; cbn; auto.
Qed.

(* ---------- set_progress: the three cases ---------- *)
Lemma sp_state_fields p k :
  p_step (sp_state p k) = sp_step p k /\ p_max (sp_state p k) = sp_max p k /\ p_quiet (sp_state p k) = p_quiet p /\
  p_ansi (sp_state p k) = p_ansi p /\ p_section (sp_state p k) = p_section p /\ p_last_write (sp_state p k) = p_last_write p /\
  p_secs (sp_state p k) = p_secs p /\ p_f (sp_state p k) = p_f p.
Proof. unfold sp_state. destruct (0 <? sp_max p k); cbn; repeat split. Qed.

Lemma set_progress_cases p now k :
  (sp_step p k = sp_max p k /\ set_progress p now k = display (sp_state p k) now) \/
  (sp_step p k <> sp_max p k /\ (now - p_last_write p) * p_min_den p < p_min_num p * 1000 /\
   set_progress p now k = Ok (sp_state p k, [])) \/
  (sp_step p k <> sp_max p k /\ p_min_num p * 1000 <= (now - p_last_write p) * p_min_den p /\
   (set_progress p now k = display (sp_state p k) now \/ set_progress p now k = Ok (sp_state p k, []))).
Proof.
  unfold set_progress. fold (sp_max p k) (sp_step p k). fold (sp_state p k).
  destruct (Z.eqb_spec (sp_step p k) (sp_max p k)) as [E|E]; [left; auto|right].
  destruct (Z.ltb_spec ((now - p_last_write p) * p_min_den p) (p_min_num p * 1000)); [left; auto|right].
  split; [exact E|]. split; [lia|].
  destruct (negb (period p (sp_max p k) (p_step p) =? period p (sp_max p k) (sp_step p k))
            || (p_maxs_num p * 1000 <=? (now - p_last_write p) * p_maxs_den p)); auto.
Qed.
Lemma sp_state_range p k : range p -> range (sp_state p k).
Proof.
  intros (H0 & H1 & H2). unfold range. destruct (sp_state_fields p k) as (-> & -> & _). unfold sp_max, sp_step.
  destruct (Z.ltb_spec 0 (p_max p)), (Z.ltb_spec (p_max p) k), (Z.ltb_spec k 0); cbn [andb]; lia.
Qed.

Lemma display_range q now p' es : display q now = Ok (p', es) -> range q -> range p'.
Proof. intros H Hq. unfold range. destruct (display_progress q now p' es H) as (-> & -> & _). exact Hq. Qed.

Lemma set_progress_range p now k p' es : set_progress p now k = Ok (p', es) -> range p -> range p'.
Proof.
  intros H Hr. pose proof (sp_state_range p k Hr) as H1.
  destruct (set_progress_cases p now k) as [[_ E]|[(_ & _ & E)|(_ & _ & [E|E])]]; rewrite E in H.
  - eapply display_range; eauto.
  - inversion H; subst. exact H1.
  - eapply display_range; eauto.
  - inversion H; subst. exact H1.
Qed.

Lemma finish_state_range p : range p -> range (finish_state p).
Proof.
  intros Hr. unfold finish_state. destruct (Z.eqb_spec (p_max p) 0); [|exact Hr].
  destruct Hr as (H0 & _). unfold range; cbn. lia.
Qed.

Lemma pstep_range p now o p' es : pstep p now o = Ok (p', es) -> range p -> range p'.
Proof.
  intros H Hr. destruct o as [mx|k|k| | | |m|t]; cbn [pstep] in H.
  - eapply display_range; [exact H|]. destruct Hr as (H0 & H1 & H2).
    destruct mx as [m|]; unfold range, set_max_steps, with_progress; cbn; lia.
  - eapply set_progress_range; eauto.
  - eapply set_progress_range; eauto.
  - eapply display_range; eauto.
  - destruct (negb (p_ansi p)); [inversion H; subst; exact Hr|].
    apply overwrite_shape in H as (f & st & ll & ->). unfold range. cbn.
    destruct (with_fmt_fields p) as (-> & -> & _). exact Hr.
  - fold (finish_state p) in H. pose proof (finish_state_range p Hr) as H1.
    match type of H with (if ?c then _ else _) = _ => destruct c end.
    + inversion H; subst. exact H1.
    + eapply set_progress_range; eauto.
  - inversion H; subst. exact Hr.
  - destruct (p_section p); [|inversion H; subst; exact Hr]. bind_inv H x Hx. inversion H; subst. exact Hr.
Qed.

Lemma new_range ansi quiet sec w f st v mx bw mn md xn xd rf pc cu msg now :
  range (pb_new ansi quiet sec w f st v mx bw mn md xn xd rf pc cu msg now).
Proof. unfold range, pb_new, set_max_steps, set_steps; cbn. lia. Qed.

(* ---------- the bar segment is exactly as wide as configured ---------- *)
Lemma repeat_len {X} (c : X) n : length (repeat c n) = n.
Proof. apply repeat_length. Qed.
Lemma pow2_pos k : 0 <= k -> 0 < pow2 k.
Proof. intros H. unfold pow2. apply Z.pow_pos_nonneg; lia. Qed.

Lemma nomax_offset_bounds bw wc : 0 < bw -> 0 <= nomax_offset bw wc < bw.
Proof.
  intros Hw. unfold nomax_offset. destruct (75 <=? bw); [apply Z.mod_pos_bound; lia|].
  set (m := fst (dbl_round (fst (dbl_round bw 15) * wc) 1)).
  set (e := snd (dbl_round (fst (dbl_round bw 15) * wc) 1) + snd (dbl_round bw 15)).
  destruct (Z.ltb_spec e 0) as [He|He]; [|apply Z.mod_pos_bound; lia].
  pose proof (pow2_pos (- e) ltac:(lia)) as Hp.
  pose proof (Z.mod_pos_bound m (bw * pow2 (- e)) ltac:(nia)) as Hb.
  split; [apply Z.div_pos; lia|]. apply Z.div_lt_upper_bound; lia.
Qed.

Lemma bar_offset_bounds p : range p -> 0 < p_bar_width p -> 0 <= bar_offset p <= p_bar_width p.
Proof.
  intros (H0 & H1 & H2) Hw. unfold bar_offset.
  destruct (Z.ltb_spec 0 (p_max p)) as [Hm|Hm].
  - specialize (H2 Hm). split; [apply Z.div_pos; nia|].
    apply Z.div_le_upper_bound; nia.
  - destruct (p_redraw_freq p).
    + pose proof (Z.mod_pos_bound (p_step p) (p_bar_width p) Hw). lia.
    + pose proof (nomax_offset_bounds (p_bar_width p) (p_write_count p) Hw). lia.
Qed.

(* with a progress character of one visible cell (pc: its visible text) the bar segment has bar_width cells *)
Lemma render_bar_with_width p (pc : str) : range p -> 0 < p_bar_width p -> length pc = 1%nat ->
  length (render_bar_with p pc 1) = Z.to_nat (p_bar_width p).
Proof.
  intros Hr Hw Hpc. pose proof (bar_offset_bounds p Hr Hw) as Hb. unfold render_bar_with, bar_full, sp.
  rewrite app_length, repeat_len.
  destruct (Z.ltb_spec (bar_offset p) (p_bar_width p)); cbn [negb length]; [rewrite app_length, repeat_len, Hpc|]; lia.
Qed.
Lemma render_bar_width p : range p -> 0 < p_bar_width p -> length (render_bar p) = Z.to_nat (p_bar_width p).
Proof. intros Hr Hw. apply render_bar_with_width; auto. Qed.

(* the shown percentage: floor(100 * step / max), between 0 and 100, and 100 exactly at the maximum *)
Lemma percent_bounds p : range p -> 0 < p_max p -> 0 <= p_step p * 100 / p_max p <= 100.
Proof.
  intros (H0 & H1 & H2) Hm. specialize (H2 Hm). split; [apply Z.div_pos; lia|]. apply Z.div_le_upper_bound; lia.
Qed.
Lemma percent_at_max p : 0 < p_max p -> p_step p = p_max p -> p_step p * 100 / p_max p = 100.
Proof. intros Hm ->. rewrite Z.mul_comm. apply Z.div_mul. lia. Qed.
Lemma percent_100_only_at_max p : range p -> 0 < p_max p -> p_step p * 100 / p_max p = 100 -> p_step p = p_max p.
Proof.
  intros (H0 & H1 & H2) Hm E. specialize (H2 Hm).
  pose proof (Z.mul_div_le (p_step p * 100) (p_max p) Hm) as H. rewrite E in H. nia.
Qed.

(* ---------- quiet outputs receive nothing; plain outputs no control codes ---------- *)
Lemma out_write_quiet p t nl : p_quiet p = true -> out_write p t nl = Ok (p, []).
Proof. intros H. unfold out_write. now rewrite H. Qed.

Lemma overwrite_quiet p now m p' es : p_quiet p = true -> overwrite p now m = Ok (p', es) -> es = [].
Proof.
  intros Hq H. unfold overwrite in H. bind_inv H pl Hpl. bind_inv H pre Hpre. bind_inv H wr Hwr. bind_inv H mv Hmv.
  inversion H; subst; clear H.
  assert (snd pre = [] /\ p_quiet (fst pre) = true) as [E1 Q1].
  { cbn [p_ansi p_section p_quiet set_out] in Hpre. rewrite Hq in Hpre. destruct (p_ansi p).
    - destruct (p_section p).
      + unfold out_clear in Hpre. cbn [p_quiet set_out] in Hpre. rewrite Hq in Hpre. inversion Hpre; subst. cbn. auto.
      + inversion Hpre; subst. cbn. auto.
    - inversion Hpre; subst. cbn. auto. }
  rewrite (out_write_quiet _ _ _ Q1) in Hwr. inversion Hwr; subst. cbn. now rewrite E1.
Qed.

Lemma display_quiet p now : p_quiet p = true -> display p now = Ok (p, []).
Proof. intros H. unfold display. now rewrite H. Qed.
Lemma set_progress_quiet p now k p' es : p_quiet p = true -> set_progress p now k = Ok (p', es) -> es = [] /\ p_quiet p' = true.
Proof.
  intros Hq H. destruct (sp_state_fields p k) as (_ & _ & Q & _). rewrite Hq in Q.
  destruct (set_progress_cases p now k) as [[_ E]|[(_ & _ & E)|(_ & _ & [E|E])]]; rewrite E in H;
    try (rewrite (display_quiet _ _ Q) in H); inversion H; subst; auto.
Qed.
(* every call of the bar (the write to the section below is not one) *)
Definition bar_call (o : pop) : Prop := match o with OBelow _ => False | _ => True end.
Lemma pstep_quiet p now o p' es : p_quiet p = true -> bar_call o -> pstep p now o = Ok (p', es) -> es = [].
Proof.
  intros Hq Hb H. destruct o as [mx|k|k| | | |m|t]; cbn [pstep] in H.
  - rewrite display_quiet in H; [inversion H; reflexivity|]. destruct mx; exact Hq.
  - eapply set_progress_quiet; eauto.
  - eapply set_progress_quiet; eauto.
  - rewrite (display_quiet _ _ Hq) in H. now inversion H.
  - destruct (negb (p_ansi p)); [now inversion H|]. eapply overwrite_quiet; [|exact H].
    destruct (with_fmt_fields p) as (_ & _ & _ & -> & _). exact Hq.
  - fold (finish_state p) in H.
    assert (p_quiet (finish_state p) = true) as Q by (unfold finish_state; destruct (p_max p =? 0); exact Hq).
    match type of H with (if ?c then _ else _) = _ => destruct c end; [now inversion H|].
    eapply set_progress_quiet; eauto.
  - now inversion H.
  - contradiction.
Qed.

Lemma emits_plain s : forallb plain_emit (emits_of_text s) = true.
Proof. apply emits_of_text_plain. Qed.
Lemma sstep_plain_emits st f o r : sstep_plain st f o = Ok r -> forallb plain_emit (snd r) = true.
Proof.
  intros H. pose proof (plain_degrades_lemma 1 [o] st f (fst (fst r), snd (fst r), snd r ++ [])) as P.
  cbn [srun] in P. rewrite H in P. cbn [bind fst snd srun] in P. specialize (P eq_refl). cbn [snd] in P.
  now rewrite app_nil_r in P.
Qed.
Lemma out_write_plain p t nl p' es : p_ansi p = false -> out_write p t nl = Ok (p', es) -> forallb plain_emit es = true.
Proof.
  intros Ha H. unfold out_write in H. destruct (p_quiet p); [now inversion H|]. rewrite Ha in H. destruct (p_section p).
  - bind_inv H x Hx. inversion H; subst. apply sstep_plain_emits in Hx. exact Hx.
  - bind_inv H x Hx. inversion H; subst. rewrite forallb_app, emits_plain. destruct nl; reflexivity.
Qed.
Lemma overwrite_plain p now m p' es : p_ansi p = false -> overwrite p now m = Ok (p', es) -> forallb plain_emit es = true.
Proof.
  intros Ha H. unfold overwrite in H. bind_inv H pl Hpl. bind_inv H pre Hpre. bind_inv H wr Hwr. bind_inv H mv Hmv.
  inversion H; subst; clear H. cbn [p_ansi set_out] in Hpre. rewrite Ha in Hpre. inversion Hpre; subst; clear Hpre.
  cbn [fst snd] in *. rewrite forallb_app. apply Bool.andb_true_iff. split.
  - cbn [p_quiet p_write_count set_out]. destruct (p_quiet p); [reflexivity|]. destruct (0 <? p_write_count p); reflexivity.
  - destruct wr as [q e]. eapply out_write_plain; [|exact Hwr]. exact Ha.
Qed.
Lemma display_plain p now p' es : p_ansi p = false -> display p now = Ok (p', es) -> forallb plain_emit es = true.
Proof.
  intros Ha H. unfold display in H. destruct (p_quiet p); [now inversion H|].
  bind_inv H fr Hfr. bind_inv H x Hx. inversion H; subst. destruct x as [q e]. eapply overwrite_plain; [|exact Hx].
  cbn. destruct (with_fmt_fields p) as (_ & _ & -> & _). exact Ha.
Qed.
Lemma set_progress_plain p now k p' es : p_ansi p = false -> set_progress p now k = Ok (p', es) -> forallb plain_emit es = true.
Proof.
  intros Ha H. destruct (sp_state_fields p k) as (_ & _ & _ & A & _). rewrite Ha in A.
  destruct (set_progress_cases p now k) as [[_ E]|[(_ & _ & E)|(_ & _ & [E|E])]]; rewrite E in H;
    try (eapply display_plain; eassumption); now inversion H.
Qed.
Lemma pstep_plain p now o p' es : p_ansi p = false -> pstep p now o = Ok (p', es) -> forallb plain_emit es = true.
Proof.
  intros Ha H. destruct o as [mx|k|k| | | |m|t]; cbn [pstep] in H.
  - eapply display_plain; [|exact H]. destruct mx; exact Ha.
  - eapply set_progress_plain; eauto.
  - eapply set_progress_plain; eauto.
  - eapply display_plain; eauto.
  - rewrite Ha in H. now inversion H.
  - fold (finish_state p) in H.
    assert (p_ansi (finish_state p) = false) as A by (unfold finish_state; destruct (p_max p =? 0); exact Ha).
    match type of H with (if ?c then _ else _) = _ => destruct c end; [now inversion H|].
    eapply set_progress_plain; eauto.
  - now inversion H.
  - destruct (p_section p); [|now inversion H]. rewrite Ha in H. bind_inv H x Hx. inversion H; subst.
    apply sstep_plain_emits in Hx. exact Hx.
Qed.

(* ---------- throttling; reaching the maximum and finishing always draw ---------- *)
(* an output the bar can draw on: not quiet, and (on a section output) the bar's section exists *)
Definition drawable (p : pbar) : Prop := p_quiet p = false /\ (p_section p = true -> p_secs p <> []).

Lemma out_write_draws p t nl p' es : drawable p -> p_ansi p = true -> p_section p = true ->
  out_write p t nl = Ok (p', es) -> es <> [].
Proof.
  intros (Hq & Hs) Ha Hsec H. unfold out_write in H. rewrite Hq, Hsec, Ha in H. bind_inv H x Hx. inversion H; subst.
  cbn [sstep_ansi] in Hx. destruct (p_secs p) as [|s r] eqn:Est; [now specialize (Hs Hsec)|]. cbn [nth_error] in Hx.
  bind_inv Hx m Hm. bind_inv Hx a Ha'. bind_inv Hx b Hb. inversion Hx; subst. cbn [snd].
  intros E. apply app_eq_nil in E as [_ E]. apply app_eq_nil in E as [_ E]. discriminate.
Qed.

Lemma clear0_secs w st f n x : sstep_ansi w st f (SClear 0 n) = Ok x -> st <> [] -> fst (fst x) <> [].
Proof.
  intros H Hne. cbn [sstep_ansi] in H. destruct st as [|s r]; [contradiction|]. cbn [nth_error] in H.
  destruct (sc_content s).
  - inversion H; subst. cbn. discriminate.
  - bind_inv H kr Hkr. destruct kr as [[keep rc] f1]. bind_inv H y Hy. inversion H; subst. cbn. discriminate.
Qed.
Lemma out_clear_secs p n p' es : out_clear p n = Ok (p', es) -> p_secs p <> [] -> p_secs p' <> [].
Proof.
  unfold out_clear. destruct (p_quiet p); intros H Hne; [inversion H; subst; exact Hne|].
  bind_inv H x Hx. inversion H; subst. cbn. eapply clear0_secs; eauto.
Qed.

Lemma overwrite_draws p now m p' es : drawable p -> p_ansi p = true -> overwrite p now m = Ok (p', es) -> es <> [].
Proof.
  intros (Hq & Hs) Ha H. unfold overwrite in H. bind_inv H pl Hpl. bind_inv H pre Hpre. bind_inv H wr Hwr. bind_inv H mv Hmv.
  inversion H; subst; clear H. cbn [p_ansi p_section p_quiet set_out] in Hpre. rewrite Ha, Hq in Hpre.
  destruct (p_section p) eqn:Hsec.
  - destruct pre as [q e]. pose proof (out_clear_secs _ _ _ _ Hpre (Hs eq_refl)) as Hst.
    destruct (out_clear_shape _ _ _ _ Hpre) as (f & st & ->). cbn [p_secs set_out] in Hst.
    destruct wr as [q2 e2]. cbn [fst snd] in *.
    assert (e2 <> []) as He2.
    { eapply out_write_draws; [| | |exact Hwr]; cbn; auto. split; cbn; auto. }
    intros E. apply app_eq_nil in E as [_ E]. contradiction.
  - inversion Hpre; subst. cbn [snd]. discriminate.
Qed.

Lemma display_draws p now p' es : drawable p -> p_ansi p = true -> display p now = Ok (p', es) -> es <> [].
Proof.
  intros (Hq & Hs) Ha H. unfold display in H. rewrite Hq in H. bind_inv H fr Hfr. bind_inv H x Hx. inversion H; subst.
  destruct x as [q e]. destruct (with_fmt_fields p) as (_ & _ & A & Q & _ & S & _ & T & _).
  eapply overwrite_draws; [| |exact Hx]; cbn; [|now rewrite A].
  split; cbn; [now rewrite Q|]. rewrite S, T. exact Hs.
Qed.

(* a redraw caused by advancing that does not reach the maximum is at least the minimum interval after the previous write *)
Lemma throttle_lemma p now k p' es : set_progress p now k = Ok (p', es) ->
  es <> [] -> p_step p' <> p_max p' -> p_min_num p * 1000 <= (now - p_last_write p) * p_min_den p.
Proof.
  intros H Hne Hsm. destruct (sp_state_fields p k) as (S1 & S2 & _).
  destruct (set_progress_cases p now k) as [[E0 E]|[(_ & _ & E)|(_ & Hi & _)]]; [rewrite E in H..|exact Hi].
  - exfalso. apply Hsm. destruct (display_progress _ _ _ _ H) as (-> & -> & _). now rewrite S1, S2.
  - inversion H; subst. contradiction.
Qed.

Lemma reaching_max_draws p now k p' es : drawable p -> p_ansi p = true -> set_progress p now k = Ok (p', es) ->
  p_step p' = p_max p' -> es <> [].
Proof.
  intros (Hq & Hs) Ha H Hsm. destruct (sp_state_fields p k) as (S1 & S2 & Q & A & Sec & _ & St & _).
  assert (drawable (sp_state p k)) as Hd by (split; [now rewrite Q|now rewrite Sec, St]).
  rewrite <- A in Ha.
  destruct (set_progress_cases p now k) as [[E0 E]|[(E0 & _ & E)|(E0 & _ & [E|E])]]; rewrite E in H.
  - eapply display_draws; eauto.
  - inversion H; subst. rewrite S1, S2 in Hsm. contradiction.
  - eapply display_draws; eauto.
  - inversion H; subst. rewrite S1, S2 in Hsm. contradiction.
Qed.

Lemma finish_lemma p now p' es : drawable p -> p_ansi p = true -> range p -> pstep p now OFinish = Ok (p', es) ->
  es <> [] /\ p_step p' = p_max p'.
Proof.
  intros (Hq & Hs) Ha Hr H. cbn [pstep] in H. fold (finish_state p) in H.
  pose proof (finish_state_range p Hr) as (_ & Hm1 & _).
  assert (p_ansi (finish_state p) = true /\ drawable (finish_state p)) as (Ha1 & Hd1).
  { unfold finish_state, drawable. destruct (p_max p =? 0); cbn; auto. }
  rewrite Ha1 in H. cbn [negb] in H. rewrite Bool.andb_false_r in H. cbn [andb] in H.
  set (p1 := finish_state p) in *.
  assert (sp_step p1 (p_max p1) = sp_max p1 (p_max p1)) as E.
  { unfold sp_step, sp_max. rewrite Z.ltb_irrefl, Bool.andb_false_r. destruct (Z.ltb_spec (p_max p1) 0); [lia|reflexivity]. }
  destruct (sp_state_fields p1 (p_max p1)) as (S1 & S2 & Q & A & Sec & _ & St & _).
  destruct (set_progress_cases p1 now (p_max p1)) as [[_ E1]|[(Hn & _)|(Hn & _)]]; try contradiction.
  rewrite E1 in H. split.
  - eapply display_draws; [| |exact H]; [|now rewrite A]. destruct Hd1 as (Q1 & T1). split; [now rewrite Q|now rewrite Sec, St].
  - destruct (display_progress _ _ _ _ H) as (-> & -> & _). now rewrite S1, S2.
Qed.

(* finishing on ANY output that is not quiet: the last frame display() wrote is the frame of the maximum (on an output
   that is not overwritten it may be the one written when the maximum was reached: it is not written twice) *)
Lemma finish_last_frame p now p' es : p_quiet p = false -> range p -> pstep p now OFinish = Ok (p', es) ->
  p_step p' = p_max p' /\ p_drawn p' = Some (p_max p', p_max p').
Proof.
  intros Hq Hr H. cbn [pstep] in H. fold (finish_state p) in H.
  pose proof (finish_state_range p Hr) as (_ & Hm1 & _).
  assert (p_quiet (finish_state p) = false) as Hq1 by (unfold finish_state; destruct (p_max p =? 0); exact Hq).
  set (p1 := finish_state p) in *.
  match type of H with (if ?c then _ else _) = _ => destruct c eqn:Ec end.
  - injection H as Ep Ee. rewrite <- Ep. apply Bool.andb_true_iff in Ec as [Ec Ed]. apply Bool.andb_true_iff in Ec as [Ec _].
    apply Z.eqb_eq in Ec. split; [exact Ec|]. destruct (p_drawn p1) as [[s m]|]; [|discriminate].
    apply Bool.andb_true_iff in Ed as [E1 E2]. apply Z.eqb_eq in E1, E2. now rewrite E1, E2, Ec.
  - assert (sp_step p1 (p_max p1) = sp_max p1 (p_max p1)) as E.
    { unfold sp_step, sp_max. rewrite Z.ltb_irrefl, Bool.andb_false_r. destruct (Z.ltb_spec (p_max p1) 0); [lia|reflexivity]. }
    assert (sp_max p1 (p_max p1) = p_max p1) as Em by (unfold sp_max; now rewrite Z.ltb_irrefl, Bool.andb_false_r).
    destruct (sp_state_fields p1 (p_max p1)) as (S1 & S2 & Q & _).
    destruct (set_progress_cases p1 now (p_max p1)) as [[_ E1]|[(Hn & _)|(Hn & _)]]; try contradiction.
    rewrite E1 in H. apply display_cases in H as [(Hqq & _)|(_ & f & st & ll & ->)]; [congruence|].
    cbn. destruct (with_fmt_fields (sp_state p1 (p_max p1))) as (-> & -> & _). rewrite S1, S2, E, Em. auto.
Qed.
