(* Proofs about Model/Progress.v (C16).  WORK IN PROGRESS: being ported to the model with markup and sections. *)
From Coq Require Import Lia ZArith.
From Clikit Require Import Base.Prelude Base.Res Base.Term Model.Conv Model.Markup Model.Section Model.Progress Proofs.TermLemmas.
Local Open Scope Z_scope.

Definition range (p : pbar) : Prop := 0 <= p_step p /\ 0 <= p_max p /\ (0 < p_max p -> p_step p <= p_max p).
Lemma new_range ansi quiet sec w f st v mx bw mn md xn xd rf pc cu msg now :
  range (pb_new ansi quiet sec w f st v mx bw mn md xn xd rf pc cu msg now).
Proof. unfold range, pb_new, set_max_steps, set_steps; cbn. lia. Qed.
