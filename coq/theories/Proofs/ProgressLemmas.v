(* Proofs about Model/Progress.v (C16). *)
From Coq Require Import Lia ZArith.
From Clikit Require Import Base.Prelude Base.Res Base.Term Model.Conv Model.Progress Proofs.TermLemmas.
Local Open Scope Z_scope.

Definition range (p : pbar) : Prop := 0 <= p_step p /\ 0 <= p_max p /\ (0 < p_max p -> p_step p <= p_max p).

(* ---------- display / overwrite / with_fmt do not touch the progress ---------- *)
Lemma with_fmt_progress p : p_step (with_fmt p) = p_step p /\ p_max (with_fmt p) = p_max p /\ p_ansi (with_fmt p) = p_ansi p
  /\ p_quiet (with_fmt p) = p_quiet p /\ p_last_write (with_fmt p) = p_last_write p.
Proof. unfold with_fmt. destruct (p_fmt p); cbn; auto. Qed.
Lemma overwrite_progress p now m : p_step (fst (overwrite p now m)) = p_step p /\ p_max (fst (overwrite p now m)) = p_max p.
Proof. cbn. auto. Qed.
Lemma display_progress p now : p_step (fst (display p now)) = p_step p /\ p_max (fst (display p now)) = p_max p.
Proof.
  unfold display. destruct (p_quiet p); [cbn; auto|]. cbn [fst overwrite p_step p_max].
  destruct (with_fmt_progress p) as (H1 & H2 & _). auto.
Qed.

Definition sp_max (p : pbar) (k : Z) : Z := if (0 <? p_max p) && (p_max p <? k) then k else p_max p.
Definition sp_step (p : pbar) (k : Z) : Z := if (0 <? p_max p) && (p_max p <? k) then k else if k <? 0 then 0 else k.
Definition sp_state (p : pbar) (k : Z) : pbar := with_progress p (sp_max p k) (sp_step p k).
Lemma set_progress_cases p now k :
  (sp_step p k = sp_max p k /\ set_progress p now k = display (sp_state p k) now) \/
  (sp_step p k <> sp_max p k /\ (now - p_last_write p) * p_min_den p < p_min_num p * 1000 /\ set_progress p now k = (sp_state p k, [])) \/
  (sp_step p k <> sp_max p k /\ p_min_num p * 1000 <= (now - p_last_write p) * p_min_den p /\
   (set_progress p now k = display (sp_state p k) now \/ set_progress p now k = (sp_state p k, []))).
Proof.
  unfold set_progress. fold (sp_max p k) (sp_step p k) (sp_state p k).
  destruct (Z.eqb_spec (sp_step p k) (sp_max p k)) as [E|E]; [left; auto|right].
  destruct (Z.ltb_spec ((now - p_last_write p) * p_min_den p) (p_min_num p * 1000)); [left; auto|right].
  split; [exact E|]. split; [lia|].
  destruct (negb (period p (sp_max p k) (p_step p) =? period p (sp_max p k) (sp_step p k)) || (p_max_ms p <=? now - p_last_write p)); auto.
Qed.
Lemma sp_state_range p k : range p -> range (sp_state p k).
Proof.
  intros (H0 & H1 & H2). unfold range, sp_state, with_progress, sp_max, sp_step; cbn [p_step p_max].
  destruct (Z.ltb_spec 0 (p_max p)), (Z.ltb_spec (p_max p) k), (Z.ltb_spec k 0); cbn [andb]; lia.
Qed.

Lemma set_progress_range p now k : range p -> range (fst (set_progress p now k)).
Proof.
  intros Hr. pose proof (sp_state_range p k Hr) as H1.
  assert (forall q, range q -> range (fst (display q now))) as Hd.
  { intros q Hq. unfold range. destruct (display_progress q now) as [-> ->]. exact Hq. }
  destruct (set_progress_cases p now k) as [[_ ->]|[(_ & _ & ->)|(_ & _ & [->| ->])]]; auto.
Qed.

Lemma pstep_range p now o : range p -> range (fst (pstep p now o)).
Proof.
  intros Hr. destruct o as [mx|k|k| | |]; cbn [pstep].
  - unfold range. match goal with |- context [display ?q now] => destruct (display_progress q now) as [-> ->] end.
    destruct Hr as (H0 & H1 & H2). destruct mx as [m|]; unfold set_max_steps, with_progress; cbn [p_step p_max]; lia.
  - apply set_progress_range, Hr.
  - apply set_progress_range, Hr.
  - unfold range. destruct (display_progress p now) as [-> ->]. exact Hr.
  - destruct (negb (p_ansi p)); [exact Hr|]. unfold range. cbn [fst overwrite p_step p_max].
    destruct (with_fmt_progress p) as (-> & -> & _). exact Hr.
  - set (p1 := if p_max p =? 0 then with_progress p (p_step p) (p_step p) else p).
    assert (range p1) as H1.
    { unfold p1. destruct (Z.eqb_spec (p_max p) 0); [|exact Hr]. destruct Hr as (H0 & _). unfold range; cbn. lia. }
    match goal with |- context [if ?c then (p1, []) else _] => destruct c end; [exact H1|]. apply set_progress_range, H1.
Qed.

Lemma new_range ansi quiet v mx bw mn md cu msg now : range (pb_new ansi quiet v mx bw mn md cu msg now).
Proof. unfold range, pb_new, set_max_steps; cbn. lia. Qed.

(* ---------- the bar segment is exactly as wide as configured ---------- *)
Lemma repeat_len {X} (c : X) n : length (repeat c n) = n.
Proof. apply repeat_length. Qed.

Lemma bar_offset_bounds p : range p -> 0 < p_bar_width p -> 0 <= p_write_count p ->
  0 <= bar_offset p <= p_bar_width p.
Proof.
  intros (H0 & H1 & H2) Hw Hc. unfold bar_offset.
  destruct (Z.ltb_spec 0 (p_max p)) as [Hm|Hm].
  - specialize (H2 Hm). split; [apply Z.div_pos; nia|].
    apply Z.div_le_upper_bound; nia.
  - destruct (p_redraw_freq p).
    + pose proof (Z.mod_pos_bound (p_step p) (p_bar_width p) Hw). lia.
    + set (num := if 75 <=? p_bar_width p then 75 else p_bar_width p).
      pose proof (Z.mod_pos_bound (num * p_write_count p) (15 * p_bar_width p) ltac:(lia)) as Hb.
      split; [apply Z.div_pos; lia|]. apply Z.div_le_upper_bound; lia.
Qed.

Lemma render_bar_width p : range p -> 0 < p_bar_width p -> 0 <= p_write_count p ->
  length (render_bar p) = Z.to_nat (p_bar_width p).
Proof.
  intros Hr Hw Hc. pose proof (bar_offset_bounds p Hr Hw Hc) as Hb. unfold render_bar, sp.
  rewrite app_length, repeat_len.
  destruct (Z.ltb_spec (bar_offset p) (p_bar_width p)); cbn [length]; [rewrite repeat_len|]; lia.
Qed.

(* the shown percentage: floor(100 * step / max), between 0 and 100, and 100 exactly at the maximum *)
Lemma percent_bounds p : range p -> 0 < p_max p -> 0 <= p_step p * 100 / p_max p <= 100.
Proof.
  intros (H0 & H1 & H2) Hm. specialize (H2 Hm). split; [apply Z.div_pos; lia|]. apply Z.div_le_upper_bound; lia.
Qed.
Lemma percent_at_max p : 0 < p_max p -> p_step p = p_max p -> p_step p * 100 / p_max p = 100.
Proof. intros Hm ->. rewrite Z.mul_comm. apply Z.div_mul. lia. Qed.

(* ---------- quiet outputs receive nothing; plain outputs no control codes ---------- *)
Lemma display_quiet p now : p_quiet p = true -> snd (display p now) = [].
Proof. intros H. unfold display. now rewrite H. Qed.
Lemma set_progress_quiet p now k : p_quiet p = true -> snd (set_progress p now k) = [] /\ p_quiet (fst (set_progress p now k)) = true.
Proof.
  intros H. assert (p_quiet (sp_state p k) = true) as H1 by exact H.
  assert (snd (display (sp_state p k) now) = [] /\ p_quiet (fst (display (sp_state p k) now)) = true) as Hd.
  { unfold display. rewrite H1. auto. }
  destruct (set_progress_cases p now k) as [[_ ->]|[(_ & _ & ->)|(_ & _ & [->| ->])]]; auto.
Qed.
Lemma pstep_quiet p now o : p_quiet p = true -> snd (pstep p now o) = [].
Proof.
  intros H. destruct o as [mx|k|k| | |]; cbn [pstep].
  - unfold display. destruct mx; cbn; rewrite H; reflexivity.
  - apply set_progress_quiet, H.
  - apply set_progress_quiet, H.
  - apply display_quiet, H.
  - destruct (negb (p_ansi p)); [reflexivity|]. cbn [snd overwrite].
    destruct (with_fmt_progress p) as (_ & _ & _ & -> & _). now rewrite H.
  - match goal with |- context [if ?c then with_progress p ?a ?b else p] => set (p1 := if c then with_progress p a b else p) end.
    assert (p_quiet p1 = true) as H1 by (unfold p1; destruct (p_max p =? 0); exact H).
    match goal with |- context [if ?c then (p1, []) else _] => destruct c end; [reflexivity|]. apply set_progress_quiet, H1.
Qed.

Definition plain_emit (e : emit) : bool := match e with Ch _ | Nl => true | _ => false end.
Lemma emits_plain s : forallb plain_emit (emits_of_text s) = true.
Proof. unfold emits_of_text. induction s as [|c r IH]; cbn; [reflexivity|]. destruct (N.eqb c LF); cbn; exact IH. Qed.
Lemma overwrite_plain p now m : p_ansi p = false -> forallb plain_emit (snd (overwrite p now m)) = true.
Proof.
  intros H. cbn [snd overwrite]. rewrite H. destruct (p_quiet p); [reflexivity|].
  rewrite forallb_app, emits_plain, andb_true_r. destruct (_ <? _)%Z; reflexivity.
Qed.
Lemma display_plain p now : p_ansi p = false -> forallb plain_emit (snd (display p now)) = true.
Proof.
  intros H. unfold display. destruct (p_quiet p); [reflexivity|]. apply overwrite_plain.
  destruct (with_fmt_progress p) as (_ & _ & -> & _). exact H.
Qed.
Lemma set_progress_plain p now k : p_ansi p = false -> forallb plain_emit (snd (set_progress p now k)) = true.
Proof.
  intros H. assert (p_ansi (sp_state p k) = false) as H1 by exact H.
  destruct (set_progress_cases p now k) as [[_ ->]|[(_ & _ & ->)|(_ & _ & [->| ->])]]; try reflexivity; apply display_plain, H1.
Qed.
Lemma pstep_plain p now o : p_ansi p = false -> forallb plain_emit (snd (pstep p now o)) = true.
Proof.
  intros H. destruct o as [mx|k|k| | |]; cbn [pstep].
  - apply display_plain. destruct mx; exact H.
  - apply set_progress_plain, H.
  - apply set_progress_plain, H.
  - apply display_plain, H.
  - rewrite H. reflexivity.
  - match goal with |- context [if ?c then with_progress p ?a ?b else p] => set (p1 := if c then with_progress p a b else p) end.
    assert (p_ansi p1 = false) as H1 by (unfold p1; destruct (p_max p =? 0); exact H).
    match goal with |- context [if ?c then (p1, []) else _] => destruct c end; [reflexivity|]. apply set_progress_plain, H1.
Qed.

(* ---------- throttling; reaching the maximum and finishing always draw ---------- *)
Lemma display_draws p now : p_quiet p = false -> p_ansi p = true -> snd (display p now) <> [].
Proof.
  intros Hq Ha. unfold display. rewrite Hq. cbn [snd overwrite].
  destruct (with_fmt_progress p) as (_ & _ & -> & -> & _). rewrite Hq, Ha. discriminate.
Qed.

(* a redraw caused by advancing that does not reach the maximum is at least the minimum interval after the previous write *)
Lemma throttle_lemma p now k :
  snd (set_progress p now k) <> [] -> p_step (fst (set_progress p now k)) <> p_max (fst (set_progress p now k)) ->
  p_min_num p * 1000 <= (now - p_last_write p) * p_min_den p.
Proof.
  destruct (set_progress_cases p now k) as [[E ->]|[(_ & _ & ->)|(_ & Hi & _)]].
  - intros _ Hne. exfalso. apply Hne. destruct (display_progress (sp_state p k) now) as [-> ->]. exact E.
  - intros H. contradiction H. reflexivity.
  - intros _ _. exact Hi.
Qed.

Lemma reaching_max_draws p now k :
  p_quiet p = false -> p_ansi p = true ->
  p_step (fst (set_progress p now k)) = p_max (fst (set_progress p now k)) -> snd (set_progress p now k) <> [].
Proof.
  intros Hq Ha.
  assert (p_step (sp_state p k) = sp_step p k /\ p_max (sp_state p k) = sp_max p k) as [Hs Hm] by (split; reflexivity).
  destruct (set_progress_cases p now k) as [[E ->]|[(E & _ & ->)|(E & _ & [->| ->])]].
  - intros _. apply display_draws; assumption.
  - cbn [fst]. rewrite Hs, Hm. intros H. contradiction.
  - intros _. apply display_draws; assumption.
  - cbn [fst]. rewrite Hs, Hm. intros H. contradiction.
Qed.

Lemma finish_lemma p now : p_quiet p = false -> p_ansi p = true -> range p ->
  let r := pstep p now OFinish in
  snd r <> [] /\ p_step (fst r) = p_max (fst r).
Proof.
  intros Hq Ha (H0 & H1 & H2). cbn [pstep].
  set (p1 := if p_max p =? 0 then with_progress p (p_step p) (p_step p) else p).
  assert (p_ansi p1 = true /\ p_quiet p1 = false /\ 0 <= p_max p1) as (Ha1 & Hq1 & Hm1).
  { unfold p1. destruct (Z.eqb_spec (p_max p) 0); cbn; auto. }
  rewrite Ha1. cbn [negb]. rewrite andb_false_r.
  assert (sp_step p1 (p_max p1) = sp_max p1 (p_max p1)) as E.
  { unfold sp_step, sp_max. rewrite Z.ltb_irrefl, andb_false_r. destruct (Z.ltb_spec (p_max p1) 0); [lia|reflexivity]. }
  destruct (set_progress_cases p1 now (p_max p1)) as [[_ ->]|[(Hn & _)|(Hn & _)]]; try contradiction.
  split; [apply display_draws; assumption|].
  destruct (display_progress (sp_state p1 (p_max p1)) now) as [-> ->]. exact E.
Qed.

(* ---------- on an ANSI terminal a single-line frame replaces the previous one without residue ---------- *)
Close Scope Z_scope.
Section Line.
Variable w : nat.
Hypothesis w_pos : 1 <= w.

Lemma put_cell_over pre c rest : put_cell (pre ++ rest) (length pre) c = pre ++ c :: tl rest.
Proof. induction pre as [|x pre IH]; cbn; [destruct rest; reflexivity|]. now rewrite IH. Qed.

(* writing s from column |pre| over a row pre ++ rest with |rest| <= |s| leaves pre ++ s *)
Lemma feed_over : forall s R pre rest, length rest <= length s -> length pre + length s <= w ->
  feed w {| rows := R ++ [pre ++ rest]; cr := length R; cc := length pre |} (map Ch s)
  = {| rows := R ++ [pre ++ s ++ skipn (length s) rest]; cr := length R; cc := length pre + length s |}.
Proof.
  induction s as [|c s IH]; intros R pre rest Hr Hw.
  - destruct rest; [|cbn in Hr; lia]. cbn [map length skipn app]. unfold feed. cbn [fold_left].
    rewrite !app_nil_r, Nat.add_0_r. reflexivity.
  - cbn [map]. unfold feed. cbn [fold_left]. unfold feed1 at 2. cbn [cc cr rows].
    assert (Nat.eqb (length pre) w = false) as -> by (apply Nat.eqb_neq; cbn in Hw; lia).
    rewrite upd_row_last, put_cell_over.
    replace (pre ++ c :: tl rest) with ((pre ++ [c]) ++ tl rest) by (now rewrite <- app_assoc).
    replace (S (length pre)) with (length (pre ++ [c])) by (rewrite app_length; cbn; lia).
    fold (feed w {| rows := R ++ [(pre ++ [c]) ++ tl rest]; cr := length R; cc := length (pre ++ [c]) |} (map Ch s)).
    rewrite IH.
    + assert (length (pre ++ [c]) + length s = length pre + length (c :: s)) as -> by (rewrite app_length; cbn; lia).
      assert ((pre ++ [c]) ++ s ++ skipn (length s) (tl rest) = pre ++ (c :: s) ++ skipn (length (c :: s)) rest) as ->.
      { rewrite <- app_assoc. cbn [app length]. destruct rest; [now rewrite !skipn_nil|reflexivity]. }
      reflexivity.
    + destruct rest; cbn in *; lia.
    + rewrite app_length. cbn in *. lia.
Qed.

Lemma line_replaced R r s c : length r <= length s -> length s <= w ->
  feed w {| rows := R ++ [r]; cr := length R; cc := c |} (Cr :: map Ch s) = {| rows := R ++ [s]; cr := length R; cc := length s |}.
Proof.
  intros Hr Hs. unfold feed. cbn [fold_left feed1 rows cr].
  pose proof (feed_over s R [] r Hr ltac:(cbn; lia)) as H. cbn [app length] in H. unfold feed in H. rewrite H.
  rewrite skipn_all2 by lia. now rewrite app_nil_r.
Qed.
End Line.

Definition nolf (l : str) : Prop := Forall (fun c => N.eqb c LF = false) l.
Lemma emits_nolf l : nolf l -> emits_of_text l = map Ch l.
Proof. unfold emits_of_text. induction 1 as [|c r Hc Hr IH]; cbn; [reflexivity|]. now rewrite Hc, IH. Qed.
Lemma split_nl_nolf l : nolf l -> split_nl l = [l].
Proof. induction 1 as [|c r Hc Hr IH]; cbn; [reflexivity|]. now rewrite Hc, IH. Qed.

Definition padded (p : pbar) (msg : str) : str :=
  if Nat.ltb (length msg) (p_last_len p) then msg ++ sp SPACE (p_last_len p - length msg) else msg.
Lemma padded_len p msg : p_last_len p <= length (padded p msg).
Proof.
  unfold padded. destruct (Nat.ltb_spec (length msg) (p_last_len p)); [|lia].
  rewrite app_length. unfold sp. rewrite repeat_length. lia.
Qed.
Lemma padded_nolf p msg : nolf msg -> nolf (padded p msg).
Proof.
  intros H. unfold padded. destruct (Nat.ltb (length msg) (p_last_len p)); [|exact H].
  apply Forall_app. split; [exact H|]. unfold sp. apply Forall_forall. intros x Hx. apply repeat_spec in Hx. now subst.
Qed.

(* one redraw of a single-line frame on an ANSI output: whatever shorter-or-equal text the line held, it now
   holds exactly the (padded) frame, and the recorded length is the length on screen *)
Lemma ansi_redraw_lemma w p now msg R r c :
  1 <= w -> p_ansi p = true -> p_quiet p = false -> p_flc p = 0 -> nolf msg ->
  length r <= p_last_len p -> length (padded p msg) <= w ->
  feed w {| rows := R ++ [r]; cr := length R; cc := c |} (snd (overwrite p now msg))
    = {| rows := R ++ [padded p msg]; cr := length R; cc := length (padded p msg) |} /\
  p_last_len (fst (overwrite p now msg)) = length (padded p msg).
Proof.
  intros Hw Ha Hq Hf Hn Hr Hl. cbn [snd fst overwrite p_last_len]. rewrite Ha, Hq, Hf, (split_nl_nolf msg Hn).
  cbn [map join_nl fold_left app Nat.max].
  change (if length msg <? p_last_len p then msg ++ sp SPACE (p_last_len p - length msg) else msg) with (padded p msg).
  rewrite (emits_nolf _ (padded_nolf p msg Hn)). split; [|reflexivity].
  apply line_replaced; try assumption; pose proof (padded_len p msg); lia.
Qed.
