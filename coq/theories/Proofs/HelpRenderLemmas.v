(* C13: the plain and the ANSI formatter RENDER a page (success, not only "if it renders it fits").

   render_page fails only where the formatter refuses a text (ValueError) or there is no room to wrap (render_error_kind).
   The formatter (pastel's colorize) refuses a text in two cases only: an inline style with an unknown colour, and a closing tag
   of a known style that is not on a non-empty style stack ("Incorrectly nested style tag found").  Whether it does depends on
   the tags the scanner finds and on the stack - not on the decoration: the ANSI formatter succeeds exactly when the plain
   one does, with the same stack (effect below).

   What the formatter sees is NOT the configured text: BlockLayout hands it one message per element - indentation, label,
   padding and the text wrapped by textwrap, the lines joined by line breaks and the alignment prefix.  A tag pair split
   over two lines is still in one message: harmless.  But textwrap breaks a word longer than the line (break_long_words),
   and a word that holds a tag can be cut inside the tag: the tag is then ordinary text, its partner stays - the stack
   leaks or a closing tag finds nothing to close.  Rendering well-nested markup can therefore FAIL at some widths
   (page_renders_refuted in Props/C13.v; confirmed on the Python code).  The theorems below are for layouts whose tagged
   texts need no word broken at the width at hand; texts without any "<" are never a problem. *)
From Coq Require Import Lia.
From Clikit Require Import Base.Prelude Base.Res Model.Conv Model.Flags Model.Format Model.Markup Model.Wrap Model.Help.
From Clikit Require Import Proofs.WrapLemmas Proofs.HelpLemmas Proofs.MarkupLemmas Proofs.LiteralLemmas Proofs.MarkupShrinkLemmas Proofs.HelpPlainLemmas Proofs.HelpCleanLemmas.

(* ================= A. the effect of a message on the style stack ================= *)
(* do_tag, the stack only *)
Definition tag_stack (sty : styles) (escaped : bool) (t : tag) (sk : stack) : res stack :=
  let 'Tag raw cl nm := t in
  if escaped then Ok sk
  else if cl && (match nm with [] => true | _ => false end) then Ok (pop_any sk)
  else do r <- resolve sty (py_lower nm);
       match r with
       | None => Ok sk
       | Some st => if cl then pop_style st sk else Ok (sk ++ [st])
       end.
Lemma do_tag_stack sty colored esc t sk :
  match do_tag sty colored esc t sk with
  | Ok x => tag_stack sty esc t sk = Ok (fst x)
  | Err k => tag_stack sty esc t sk = Err k
  end.
Proof.
  destruct t as [raw cl nm]. unfold do_tag, tag_stack. destruct esc; [reflexivity|].
  destruct (cl && match nm with [] => true | _ => false end); [reflexivity|].
  destruct (resolve sty (py_lower nm)) as [[st|]|k]; cbn [bind]; [|reflexivity|reflexivity].
  destruct cl; [|reflexivity]. destruct (pop_style st sk); reflexivity.
Qed.

Fixpoint segs_stack (sty : styles) (a0 first : bool) (segs : list (str * tag)) (sk : stack) : res stack :=
  match segs with
  | [] => Ok sk
  | (pre, t) :: r => do sk1 <- tag_stack sty (esc_of a0 first pre) t sk; segs_stack sty a0 false r sk1
  end.
Lemma run_segs_stack sty colored a0 : forall segs sk out first le,
  match run_segs sty colored a0 first segs sk out le with
  | Ok x => segs_stack sty a0 first segs sk = Ok (fst (fst x))
  | Err k => segs_stack sty a0 first segs sk = Err k
  end.
Proof.
  induction segs as [|[pre t] r IH]; intros sk out first le; cbn [run_segs segs_stack]; [reflexivity|].
  fold (esc_of a0 first pre). pose proof (do_tag_stack sty colored (esc_of a0 first pre) t sk) as Hd.
  destruct (do_tag sty colored (esc_of a0 first pre) t sk) as [x|k]; rewrite Hd; cbn [bind]; [apply IH|reflexivity].
Qed.

(* the stack after the message m, started on sk; a0: what a tag at position 0 takes for "escaped" *)
Definition effect (sty : styles) (a0 : bool) (m : str) (sk : stack) : res stack :=
  segs_stack sty a0 true (l_done (fold_left lex_step m lex_init)) sk.

(* colorize, decorated or not, succeeds exactly when the effect does, and leaves that stack *)
Theorem colorize_effect sty colored sk m :
  match colorize sty colored sk m with
  | Ok x => effect sty (ends_with_bsl m) m sk = Ok (fst x)
  | Err k => effect sty (ends_with_bsl m) m sk = Err k
  end.
Proof.
  unfold colorize, effect, lex, lex_end. set (st := fold_left lex_step m lex_init).
  destruct (l_done st) as [|sg segs] eqn:Ed; [reflexivity|]. rewrite <- Ed.
  pose proof (run_segs_stack sty colored (ends_with_bsl m) (l_done st) sk [] true false) as H.
  destruct (run_segs sty colored (ends_with_bsl m) true (l_done st) sk [] false) as [[[sk1 o] le]|k]; cbn [bind fst] in *; exact H.
Qed.
Corollary colorize_ok_iff sty sk m sk' :
  (exists o, colorize sty true sk m = Ok (sk', o)) <-> (exists o, colorize sty false sk m = Ok (sk', o)).
Proof.
  pose proof (colorize_effect sty true sk m) as H1. pose proof (colorize_effect sty false sk m) as H2.
  destruct (colorize sty true sk m) as [[s1 o1]|k1], (colorize sty false sk m) as [[s2 o2]|k2]; cbn [fst] in *;
    split; intros [o E]; try discriminate; inversion E; subst; try congruence.
  - exists o2. congruence.
  - exists o1. congruence.
Qed.
Lemma colorize_of_effect sty colored sk m sk' : effect sty (ends_with_bsl m) m sk = Ok sk' ->
  exists o, colorize sty colored sk m = Ok (sk', o).
Proof.
  intros H. pose proof (colorize_effect sty colored sk m) as Hc. destruct (colorize sty colored sk m) as [[s1 o1]|k]; cbn [fst] in Hc.
  - exists o1. congruence.
  - congruence.
Qed.

(* a message the formatter takes whatever the stack, and leaves the stack as it was *)
Definition neutral (sty : styles) (a0 : bool) (m : str) : Prop := forall sk, effect sty a0 m sk = Ok sk.

(* the formatter's calls *)
Lemma same_formatter f : {| f_kind := f_kind f; f_styles := f_styles f; f_stack := f_stack f |} = f.
Proof. destruct f. reflexivity. Qed.
Lemma remove_format_neutral f m : f_kind f <> FNull -> neutral (f_styles f) (ends_with_bsl m) m ->
  exists o, remove_format f m = Ok (f, o).
Proof.
  intros Hk Hn. unfold remove_format.
  destruct (colorize_of_effect (f_styles f) false (f_stack f) m _ (Hn (f_stack f))) as [o Ho].
  destruct (f_kind f) eqn:E; [| |congruence]; rewrite Ho; cbn [bind fst snd]; rewrite <- E, same_formatter; eauto.
Qed.
Lemma emit_neutral f m : f_kind f <> FNull -> neutral (f_styles f) (ends_with_bsl m) m -> exists o, emit f m = Ok (f, o).
Proof.
  intros Hk Hn. unfold emit. destruct (f_kind f) eqn:E; [|rewrite <- E in Hk; now apply remove_format_neutral|congruence].
  unfold format. rewrite E.
  destruct (colorize_of_effect (f_styles f) true (f_stack f) m _ (Hn (f_stack f))) as [o ->]. cbn [bind fst snd].
  rewrite <- E, same_formatter. eauto.
Qed.

(* ================= B. a page renders when its labels and the texts handed to the formatter are neutral ================= *)
Local Open Scope Z_scope.
(* the visible width of a label: what remove_format leaves of it *)
Definition vis_of (sty : styles) (label : str) : Z := zlen (plain_of sty (ends_with_bsl label) label).
Lemma vis_of_le sty label : 0 <= vis_of sty label <= zlen label.
Proof. unfold vis_of, zlen. pose proof (plain_of_le sty (ends_with_bsl label) label). lia. Qed.
(* LabelAlignment.align, on the visible widths *)
Fixpoint align_vis (sty : styles) (l : layout) (acc : Z) : Z :=
  match l with
  | [] => acc
  | (ind, ELab label _ padding true) :: r => align_vis sty r (Z.max acc (Z.of_nat ind + vis_of sty label + Z.of_nat padding))
  | _ :: r => align_vis sty r acc
  end.
Definition label_neutral (sty : styles) (e : elem) : Prop := neutral sty (ends_with_bsl (elem_label e)) (elem_label e).
Definition labels_neutral (sty : styles) (l : layout) : Prop := Forall (fun x => label_neutral sty (snd x)) l.

Lemma remove_format_label f label : f_kind f <> FNull -> neutral (f_styles f) (ends_with_bsl label) label ->
  remove_format f label = Ok (f, plain_of (f_styles f) (ends_with_bsl label) label).
Proof.
  intros Hk Hn. destruct (remove_format_neutral f label Hk Hn) as [o Ho]. rewrite Ho.
  apply remove_format_plain_of in Ho; [|exact Hk]. cbn [fst snd] in Ho. destruct Ho as (-> & _). reflexivity.
Qed.
Lemma align_neutral f : f_kind f <> FNull -> forall l acc, labels_neutral (f_styles f) l ->
  align f l acc = Ok (f, align_vis (f_styles f) l acc).
Proof.
  intros Hk. induction l as [|[ind e] r IH]; intros acc Hl; [reflexivity|]. inversion Hl as [|? ? H1 H2]; subst.
  cbn [align align_vis]. destruct e as [t|label text padding aligned|]; [now apply IH| |now apply IH].
  destruct aligned; [|now apply IH]. cbn [snd] in H1. unfold label_neutral in H1. cbn [elem_label] in H1.
  rewrite (remove_format_label f label Hk H1). cbn [bind fst snd]. now apply IH.
Qed.

(* the text of an element always ends with a line break *)
Lemma elem_raw_ends W off ind vis e raw : elem_raw W off ind vis e = Ok raw -> ends_with_bsl raw = false.
Proof.
  destruct e as [t|label text padding aligned|]; cbn [elem_raw]; cbv zeta.
  - destruct (wrap t _); cbn [bind]; [|discriminate]. intros H. inversion H. now rewrite app_assoc, ends_snoc.
  - destruct (wrap text _); cbn [bind]; [|discriminate]. intros H. inversion H. now rewrite ends_snoc.
  - intros H. inversion H. reflexivity.
Qed.

(* what is asked of one element: the text it hands to the formatter is neutral *)
Definition raw_neutral (sty : styles) (W off : Z) (ind : nat) (e : elem) : Prop :=
  forall raw, elem_raw W off ind (vis_of sty (elem_label e)) e = Ok raw -> neutral sty false raw.
Definition elem_width_vis (sty : styles) (off : Z) (ind : nat) (e : elem) : Z :=
  match e with
  | ELab label _ padding aligned =>
    Z.of_nat ind + Z.max (if aligned then off - Z.of_nat ind else 0) (vis_of sty label + Z.of_nat padding) + 2
  | EPara _ => Z.of_nat ind + 2
  | EEmpty => 1
  end.

Lemma render_elem_neutral W off f ind e : f_kind f <> FNull -> label_neutral (f_styles f) e ->
  elem_width_vis (f_styles f) off ind e <= W -> raw_neutral (f_styles f) W off ind e ->
  exists o, render_elem W off f ind e = Ok (f, o).
Proof.
  intros Hk Hl HW Hr. pose proof (render_elem_ok_lemma W off f ind e) as H. unfold raw_neutral in Hr.
  destruct e as [t|label text padding aligned|]; cbn [elem_label elem_width_vis] in *.
  - destruct H as (raw & Er & ->); [cbn [wrap_width]; lia|].
    assert (vis_of (f_styles f) [] = 0) as Ev by reflexivity. rewrite Ev in Hr.
    pose proof (elem_raw_ends _ _ _ _ _ _ Er) as Ee. apply emit_neutral; [exact Hk|]. rewrite Ee. now apply Hr.
  - unfold label_neutral in Hl. cbn [elem_label] in Hl. pose proof (remove_format_label f label Hk Hl) as Erf.
    destruct (H _ Erf) as (raw & Er & ->); [cbn [wrap_width fst snd]; fold (vis_of (f_styles f) label); lia|].
    cbn [fst snd] in *. fold (vis_of (f_styles f) label) in Er.
    pose proof (elem_raw_ends _ _ _ _ _ _ Er) as Ee. apply emit_neutral; [exact Hk|]. rewrite Ee. now apply Hr.
  - destruct H as (raw & Er & ->); [exact I|]. inversion Er; subst. apply emit_neutral; [exact Hk|]. intros sk. reflexivity.
Qed.

Lemma render_all_neutral W off f : f_kind f <> FNull -> forall l out,
  Forall (fun x => label_neutral (f_styles f) (snd x) /\ elem_width_vis (f_styles f) off (fst x) (snd x) <= W /\
                   raw_neutral (f_styles f) W off (fst x) (snd x)) l ->
  exists y, render_all W off f l out = Ok y.
Proof.
  intros Hk. induction l as [|[ind e] r IH]; intros out Hl; cbn [render_all]; [eauto|].
  inversion Hl as [|? ? (H1 & H2 & H3) Hr]; subst. cbn [fst snd] in *.
  destruct (render_elem_neutral W off f ind e Hk H1 H2 H3) as [o ->]. cbn [bind fst snd]. now apply IH.
Qed.

(* the width a layout needs on this formatter: room for one character of text behind every indentation and (visible) label *)
Definition needed_width_for (sty : styles) (l : layout) : Z :=
  fold_right (fun x m => Z.max (elem_width_vis sty (align_vis sty l 0) (fst x) (snd x)) m) 1 l.

Theorem page_renders_neutral W f l : f_kind f <> FNull -> labels_neutral (f_styles f) l ->
  needed_width_for (f_styles f) l <= W ->
  Forall (fun x => raw_neutral (f_styles f) W (align_vis (f_styles f) l 0) (fst x) (snd x)) l ->
  exists s, render_page W f l = Ok s.
Proof.
  intros Hk Hl HW Hr. unfold render_page. rewrite (align_neutral f Hk l 0 Hl). cbn [bind fst snd].
  destruct (render_all_neutral W (align_vis (f_styles f) l 0) f Hk l []) as [y ->]; [|cbn [bind]; eauto].
  apply fold_max_bound in HW. unfold labels_neutral in Hl. rewrite Forall_forall in *. intros x Hx. repeat split; auto.
Qed.

(* it is at most the width the identity formatter needs (needed_width: the labels with their markup) *)
Lemma align_vis_le sty : forall l a b, a <= b -> align_vis sty l a <= align_off l b.
Proof.
  induction l as [|[ind e] r IH]; intros a b Hab; cbn [align_vis align_off]; [exact Hab|].
  destruct e as [t|label text padding aligned|]; [now apply IH| |now apply IH]. destruct aligned; [|now apply IH].
  apply IH. pose proof (vis_of_le sty label). lia.
Qed.
Lemma needed_width_for_le sty l : needed_width_for sty l <= needed_width l.
Proof.
  unfold needed_width_for, needed_width. pose proof (align_vis_le sty l 0 0 ltac:(lia)) as Ho.
  generalize dependent (align_off l 0). generalize (align_vis sty l 0). intros o1 o2 Ho.
  induction l as [|[ind e] r IH]; cbn [fold_right fst snd]; [lia|].
  assert (elem_width_vis sty o1 ind e <= elem_width o2 ind e); [|lia].
  destruct e as [t|label text padding aligned|]; cbn [elem_width_vis elem_width]; [lia| |lia].
  pose proof (vis_of_le sty label). destruct aligned; lia.
Qed.

(* ================= C. the effect acts piecewise across an inert character (a blank, a line break) ================= *)
Definition seq_eff (e1 e2 : stack -> res stack) (sk : stack) : res stack := do s1 <- e1 sk; e2 s1.
Lemma segs_stack_app sty a0 : forall a b first sk,
  segs_stack sty a0 first (a ++ b) sk =
  (do s1 <- segs_stack sty a0 first a sk; segs_stack sty a0 (match a with [] => first | _ => false end) b s1).
Proof.
  induction a as [|[pre t] a IH]; intros b first sk; cbn [app segs_stack]; [reflexivity|].
  destruct (tag_stack sty (esc_of a0 first pre) t sk) as [s1|k]; cbn [bind]; [|reflexivity].
  rewrite IH. destruct a; reflexivity.
Qed.
Lemma segs_stack_later sty a0 a0' : forall r sk, segs_stack sty a0 false r sk = segs_stack sty a0' false r sk.
Proof.
  induction r as [|[pre t] r IH]; intros sk; cbn [segs_stack]; [reflexivity|].
  assert (esc_of a0 false pre = esc_of a0' false pre) as -> by (destruct pre; reflexivity).
  destruct (tag_stack sty (esc_of a0' false pre) t sk); cbn [bind]; [apply IH|reflexivity].
Qed.

(* the scanner started behind finished tags d and pending text c that is not empty and does not end with a backslash *)
Lemma effect_glue sty a0 d c st sk : c <> [] -> ends_with_bsl c = false ->
  segs_stack sty a0 true (l_done (glue d c st)) sk =
  (do s1 <- segs_stack sty a0 true d sk; segs_stack sty false true (l_done st) s1).
Proof.
  intros Hc Ec. unfold glue, mk. destruct (l_done st) as [|[p t] r]; cbn [l_done].
  - cbn [segs_stack]. destruct (segs_stack sty a0 true d sk); reflexivity.
  - rewrite segs_stack_app. destruct (segs_stack sty a0 true d sk) as [s1|k]; cbn [bind]; [|reflexivity].
    cbn [segs_stack].
    assert (E : forall first, esc_of a0 first (c ++ p) = esc_of false true p).
    { intros first. unfold esc_of. destruct (c ++ p) as [|x y] eqn:Ecp; [destruct c; [contradiction|discriminate]|].
      rewrite <- Ecp, ends_app. destruct p; [exact Ec|reflexivity]. }
    rewrite E. destruct (tag_stack sty (esc_of false true p) t s1); cbn [bind]; [apply segs_stack_later|reflexivity].
Qed.

Theorem effect_sep sty a0 a sep b sk : inert sep ->
  effect sty a0 (a ++ sep :: b) sk = (do s1 <- effect sty a0 a sk; effect sty false b s1).
Proof.
  intros Hs. unfold effect. rewrite fold_left_app. cbn [fold_left]. set (sa := fold_left lex_step a lex_init).
  rewrite (inert_step sa sep Hs), <- glue_init, glue_fold. apply effect_glue.
  - destruct (l_cur sa); [destruct (raw_of (l_cand sa))|]; discriminate.
  - rewrite app_assoc, ends_snoc. destruct Hs as (_ & _ & _ & Hb & _). now apply N.eqb_neq.
Qed.
Lemma effect_nil sty a0 sk : effect sty a0 [] sk = Ok sk.
Proof. reflexivity. Qed.
Lemma effect_snoc sty a0 a sep sk : inert sep -> effect sty a0 (a ++ [sep]) sk = effect sty a0 a sk.
Proof. intros Hs. rewrite effect_sep by exact Hs. destruct (effect sty a0 a sk); reflexivity. Qed.
Lemma effect_cons sty sep b sk : inert sep -> effect sty false (sep :: b) sk = effect sty false b sk.
Proof. intros Hs. change (sep :: b) with ([] ++ sep :: b). now rewrite effect_sep. Qed.
Lemma effect_inert_suffix sty a0 a : forall t sk, Forall inert t -> effect sty a0 (a ++ t) sk = effect sty a0 a sk.
Proof.
  induction t as [|c t IH] using rev_ind; intros sk Ht; [now rewrite app_nil_r|].
  apply Forall_app in Ht as [Ht Hc]. inversion Hc; subst. rewrite app_assoc, effect_snoc by assumption. now apply IH.
Qed.
Lemma effect_inert_prefix sty : forall t b sk, Forall inert t -> effect sty false (t ++ b) sk = effect sty false b sk.
Proof.
  induction t as [|c t IH]; intros b sk Ht; [reflexivity|]. inversion Ht; subst. cbn [app].
  rewrite effect_cons by assumption. now apply IH.
Qed.
(* blanks stripped from the end *)
Lemma effect_rstrip sty a0 s sk : effect sty a0 (rstrip s) sk = effect sty a0 s sk.
Proof.
  destruct (rstrip_prefix_space s) as (t & Ht & Hs). rewrite Ht at 2. symmetry. apply effect_inert_suffix, inert_blank, Hs.
Qed.
(* a text without "<" *)
Lemma effect_no_lt sty a0 m sk : no_lt m -> effect sty a0 m sk = Ok sk.
Proof. intros H. unfold effect. pose proof (lex_no_tag m H) as E. unfold lex, lex_end in E. apply (f_equal fst) in E. cbn [fst] in E. now rewrite E. Qed.

(* the lines of a wrapped text behind their prefix: the effects of the lines, one after the other *)
Fixpoint effects (sty : styles) (ls : list str) (sk : stack) : res stack :=
  match ls with [] => Ok sk | l :: r => do s1 <- effect sty false l sk; effects sty r s1 end.
Lemma effect_join sty prefix : Forall inert prefix -> forall ls sk,
  effect sty false (join_lines prefix ls) sk = effects sty ls sk.
Proof.
  intros Hp. induction ls as [|l r IH]; intros sk; [reflexivity|]. destruct r as [|l2 r'].
  - cbn [join_lines effects]. destruct (effect sty false l sk); reflexivity.
  - change (join_lines prefix (l :: l2 :: r')) with (l ++ 10%N :: prefix ++ join_lines prefix (l2 :: r')).
    rewrite effect_sep by exact inert_nl. cbn [effects]. destruct (effect sty false l sk) as [s1|k]; cbn [bind]; [|reflexivity].
    rewrite effect_inert_prefix by exact Hp. apply IH.
Qed.

(* ---- the text of an element ---- *)
Lemma para_raw_effect sty W off ind vis t raw sk : elem_raw W off ind vis (EPara t) = Ok raw ->
  exists ls, wrap t (W - 1 - Z.of_nat ind) = Ok ls /\ effect sty false raw sk = effects sty ls sk.
Proof.
  cbn [elem_raw]. destruct (wrap t (W - 1 - Z.of_nat ind)) as [ls|k]; cbn [bind]; [|discriminate].
  intros H. inversion H; subst raw. exists ls. split; [reflexivity|].
  rewrite app_assoc, effect_snoc by exact inert_nl. rewrite effect_inert_prefix by apply inert_spaces.
  rewrite effect_rstrip. apply effect_join, inert_spaces.
Qed.
Lemma lab_raw_effect sty W off ind vis label text padding aligned raw sk :
  elem_raw W off ind vis (ELab label text padding aligned) = Ok raw -> (1 <= padding)%nat -> 0 <= vis <= zlen label ->
  let to := Z.max (if aligned then off - Z.of_nat ind else 0) (vis + Z.of_nat padding) in
  exists ls, wrap text (W - 1 - to - Z.of_nat ind) = Ok ls /\
    effect sty false raw sk = (do s1 <- effect sty false label sk; effects sty ls s1).
Proof.
  intros H Hp Hv. cbn [elem_raw] in H. cbv zeta in *.
  set (to := Z.max (if aligned then off - Z.of_nat ind else 0) (vis + Z.of_nat padding)) in *.
  destruct (wrap text (W - 1 - to - Z.of_nat ind)) as [ls|k]; cbn [bind] in H; [|discriminate].
  inversion H; subst raw. clear H. exists ls. split; [reflexivity|].
  rewrite effect_snoc by exact inert_nl. rewrite effect_rstrip. rewrite effect_inert_prefix by apply inert_spaces.
  unfold ljust.
  assert (exists k, Z.to_nat (to + (zlen label - vis) - zlen label) = S k) as [k ->].
  { exists (Z.to_nat (to - vis) - 1)%nat. lia. }
  cbn [spaces repeat]. rewrite <- app_assoc. cbn [app]. rewrite effect_sep by (apply inert_space; reflexivity).
  destruct (effect sty false label sk) as [s1|k0]; cbn [bind]; [|reflexivity].
  change (repeat 32%N k) with (spaces k). rewrite effect_inert_prefix by apply inert_spaces.
  rewrite effect_rstrip. apply effect_join. apply Forall_app. split; apply inert_spaces.
Qed.

(* ================= D. scanner states that have the same effect ================= *)
(* the same tags, each behind a text that ends with a backslash or not alike; the same candidate; pending text alike *)
Definition seg_sim (x y : str * tag) : Prop := snd x = snd y /\ ends_with_bsl (fst x) = ends_with_bsl (fst y).
Definition sim (s1 s2 : lexst) : Prop :=
  Forall2 seg_sim (l_done s1) (l_done s2) /\ ends_with_bsl (l_cur s1) = ends_with_bsl (l_cur s2) /\ l_cand s1 = l_cand s2.
Lemma sim_refl s : sim s s.
Proof. split; [|auto]. induction (l_done s); constructor; [split; reflexivity|assumption]. Qed.
Lemma sim_sym s1 s2 : sim s1 s2 -> sim s2 s1.
Proof.
  intros (H1 & H2 & H3). split; [|auto]. clear H2 H3. induction H1; constructor; [|assumption]. destruct H; split; auto.
Qed.
Lemma sim_trans s1 s2 s3 : sim s1 s2 -> sim s2 s3 -> sim s1 s3.
Proof.
  intros (H1 & H2 & H3) (K1 & K2 & K3). split; [|split; congruence]. clear H2 H3 K2 K3.
  revert K1. generalize (l_done s3). induction H1; intros l3 K; inversion K; subst; constructor; [|auto].
  destruct H, H3. split; congruence.
Qed.
Lemma ends_app_cong a a' b : ends_with_bsl a = ends_with_bsl a' -> ends_with_bsl (a ++ b) = ends_with_bsl (a' ++ b).
Proof. intros H. rewrite !ends_app. destruct b; auto. Qed.
Lemma Forall2_snoc {X Y} (R : X -> Y -> Prop) l l' x y : Forall2 R l l' -> R x y -> Forall2 R (l ++ [x]) (l' ++ [y]).
Proof. intros H. induction H; intros Hr; cbn [app]; constructor; auto. Qed.
Lemma sim_step s1 s2 c : sim s1 s2 -> sim (lex_step s1 c) (lex_step s2 c).
Proof.
  intros (H1 & H2 & H3). unfold lex_step. rewrite <- H3.
  assert (Hfail : forall X k, sim {| l_done := l_done s1; l_cur := l_cur s1 ++ X; l_cand := k |}
                                  {| l_done := l_done s2; l_cur := l_cur s2 ++ X; l_cand := k |}).
  { intros X k. split; [exact H1|]. split; [now apply ends_app_cong|reflexivity]. }
  assert (Hgo : forall k, sim {| l_done := l_done s1; l_cur := l_cur s1; l_cand := k |}
                              {| l_done := l_done s2; l_cur := l_cur s2; l_cand := k |}).
  { intros k. split; [exact H1|]. split; [exact H2|reflexivity]. }
  assert (Hemit : forall T, sim {| l_done := l_done s1 ++ [(l_cur s1, T)]; l_cur := []; l_cand := CText |}
                                {| l_done := l_done s2 ++ [(l_cur s2, T)]; l_cur := []; l_cand := CText |}).
  { intros T. split; [|split; reflexivity]. cbn [l_done]. apply Forall2_snoc; [exact H1|]. split; [reflexivity|exact H2]. }
  destruct (N.eqb c LT); [apply Hfail|]. destruct (l_cand s1) as [| | |cl nm].
  - apply Hfail.
  - destruct (N.eqb c SLASH); [apply Hgo|]. destruct (tag_start c); [apply Hgo|apply Hfail].
  - destruct (N.eqb c GT); [apply Hemit|]. destruct (tag_start c); [apply Hgo|apply Hfail].
  - destruct (N.eqb c GT); [apply Hemit|]. destruct (tag_char c); [apply Hgo|apply Hfail].
Qed.
Lemma sim_fold m : forall s1 s2, sim s1 s2 -> sim (fold_left lex_step m s1) (fold_left lex_step m s2).
Proof. induction m as [|c r IH]; intros s1 s2 H; cbn [fold_left]; [exact H|]. apply IH, sim_step, H. Qed.
Lemma esc_of_false first pre : esc_of false first pre = ends_with_bsl pre.
Proof. unfold esc_of. destruct pre; [now rewrite andb_false_r|reflexivity]. Qed.
Lemma sim_segs sty : forall d1 d2, Forall2 seg_sim d1 d2 -> forall first first' sk,
  segs_stack sty false first d1 sk = segs_stack sty false first' d2 sk.
Proof.
  induction 1 as [|[p1 t1] [p2 t2] r1 r2 [Ht Hp] Hr IH]; intros first first' sk; cbn [segs_stack]; [reflexivity|].
  cbn [fst snd] in Ht, Hp. subst t2. rewrite !esc_of_false, Hp.
  destruct (tag_stack sty (ends_with_bsl p2) t1 sk); cbn [bind]; [apply IH|reflexivity].
Qed.
(* equivalent states at the end: the same effect *)
Lemma sim_effect sty a b sk : sim (fold_left lex_step a lex_init) (fold_left lex_step b lex_init) ->
  effect sty false a sk = effect sty false b sk.
Proof. intros (H & _). unfold effect. now apply sim_segs. Qed.

(* ---- blanks against blanks, and a line break put in where nothing is cut ---- *)
Lemma inert_fold st : forall r, Forall inert r -> r <> [] ->
  exists x, fold_left lex_step r st = mk (l_done st) (l_cur st ++ raw_of (l_cand st) ++ x) CText /\ ends_with_bsl x = false /\ x <> [].
Proof.
  induction r as [|c r IH] using rev_ind; intros Hr Hne; [congruence|].
  apply Forall_app in Hr as [Hr Hc]. inversion Hc as [|? ? Hci _]; subst. rewrite fold_left_app. cbn [fold_left].
  destruct r as [|c0 r0].
  - cbn [fold_left]. rewrite (inert_step st c Hci). exists [c]. split; [reflexivity|]. split; [|discriminate].
    change [c] with ([] ++ [c]). rewrite ends_snoc. destruct Hci as (_ & _ & _ & Hb & _). now apply N.eqb_neq.
  - destruct (IH Hr ltac:(discriminate)) as (x & -> & _ & _). rewrite inert_step by exact Hci.
    cbn [l_done l_cur l_cand raw_of mk]. exists (x ++ [c]). rewrite !app_nil_l, <- !app_assoc. split; [reflexivity|].
    split; [|destruct x; discriminate]. rewrite ends_snoc. destruct Hci as (_ & _ & _ & Hb & _). now apply N.eqb_neq.
Qed.
Lemma ends_false_app a x : ends_with_bsl x = false -> x <> [] -> ends_with_bsl (a ++ x) = false.
Proof. intros H Hx. rewrite ends_app. destruct x; [congruence|exact H]. Qed.
(* two runs of blanks, neither empty *)
Lemma sim_blanks s1 s2 r1 r2 : sim s1 s2 -> Forall inert r1 -> r1 <> [] -> Forall inert r2 -> r2 <> [] ->
  sim (fold_left lex_step r1 s1) (fold_left lex_step r2 s2).
Proof.
  intros (H1 & H2 & H3) I1 N1 I2 N2. destruct (inert_fold s1 r1 I1 N1) as (x1 & -> & E1 & X1).
  destruct (inert_fold s2 r2 I2 N2) as (x2 & -> & E2 & X2). split; [exact H1|]. split; [|reflexivity].
  cbn [l_cur mk]. rewrite !app_assoc, !ends_false_app; auto.
Qed.

(* the character y0 read on the state st neither continues a pending tag, nor is it a "<" directly behind a backslash *)
Definition continues (k : cand) (c : N) : bool :=
  match k with
  | CText => false
  | COpen => N.eqb c SLASH || tag_start c
  | CSlash => N.eqb c GT || tag_start c
  | CName _ _ => N.eqb c GT || tag_char c
  end.
Definition safe_cut (st : lexst) (y0 : N) : bool :=
  negb (continues (l_cand st) y0) &&
  negb (N.eqb y0 LT && match l_cand st with CText => ends_with_bsl (l_cur st) | _ => false end).
Lemma tagish_not_bsl c : tagish c -> c <> BSL.
Proof. intros [->|[->|[->|H]]]; try discriminate. intros ->. vm_compute in H. discriminate. Qed.
Lemma raw_ends st : lex_tagish st -> ends_with_bsl (raw_of (l_cand st)) = false.
Proof.
  intros [_ H]. destruct (raw_of (l_cand st)) as [|c r] using rev_ind; [reflexivity|].
  rewrite ends_snoc. apply Forall_app in H as [_ H]. inversion H; subst. apply N.eqb_neq. now apply tagish_not_bsl.
Qed.
Lemma raw_nonempty k : k <> CText -> raw_of k <> [].
Proof. destruct k; [congruence|discriminate|discriminate|discriminate]. Qed.

(* reading y0 directly, or behind blanks put in front of it *)
Lemma sim_cut s1 s2 y0 r : sim s1 s2 -> lex_tagish s1 -> safe_cut s1 y0 = true -> Forall inert r ->
  sim (lex_step s1 y0) (lex_step (fold_left lex_step r s2) y0).
Proof.
  intros Hs Ht Hsafe Hr. destruct r as [|c0 r0]; [now apply sim_step|].
  destruct (inert_fold s2 (c0 :: r0) Hr ltac:(discriminate)) as (x & -> & Ex & Xne).
  destruct Hs as (H1 & H2 & H3). unfold safe_cut in Hsafe. apply andb_prop in Hsafe as [Hc Hl].
  apply negb_true_iff in Hc. apply negb_true_iff in Hl. pose proof (raw_ends s1 Ht) as Hraw.
  unfold mk. destruct (N.eqb_spec y0 LT) as [->|Hne].
  - assert (lex_step s1 LT = mk (l_done s1) (l_cur s1 ++ raw_of (l_cand s1)) COpen) as ->.
    { unfold lex_step, mk. change (N.eqb LT LT) with true. cbv iota. now rewrite app_nil_r. }
    assert (lex_step {| l_done := l_done s2; l_cur := l_cur s2 ++ raw_of (l_cand s2) ++ x; l_cand := CText |} LT
            = mk (l_done s2) (l_cur s2 ++ raw_of (l_cand s2) ++ x) COpen) as ->.
    { unfold lex_step, mk. change (N.eqb LT LT) with true. cbv iota. cbn [l_done l_cur l_cand raw_of]. now rewrite !app_nil_r. }
    split; [exact H1|]. split; [|reflexivity]. cbn [l_cur mk].
    rewrite (app_assoc (l_cur s2)), (ends_false_app _ x Ex Xne).
    destruct (l_cand s1) eqn:Ek; [cbn [raw_of]; rewrite app_nil_r; exact Hl| | |];
      (apply ends_false_app; [exact Hraw|discriminate]).
  - assert (lex_step s1 y0 = mk (l_done s1) (l_cur s1 ++ raw_of (l_cand s1) ++ [y0]) CText) as ->.
    { unfold lex_step, mk. apply N.eqb_neq in Hne. rewrite Hne. destruct (l_cand s1) as [| | |cl nm]; cbn [continues] in Hc.
      - reflexivity.
      - apply orb_false_elim in Hc as [-> ->]. reflexivity.
      - apply orb_false_elim in Hc as [-> ->]. reflexivity.
      - apply orb_false_elim in Hc as [-> ->]. reflexivity. }
    assert (lex_step {| l_done := l_done s2; l_cur := l_cur s2 ++ raw_of (l_cand s2) ++ x; l_cand := CText |} y0
            = mk (l_done s2) ((l_cur s2 ++ raw_of (l_cand s2) ++ x) ++ [y0]) CText) as ->.
    { unfold lex_step, mk. apply N.eqb_neq in Hne. rewrite Hne. cbn [l_done l_cur l_cand raw_of]. reflexivity. }
    split; [exact H1|]. split; [|reflexivity]. cbn [l_cur mk]. now rewrite !app_assoc, !ends_snoc.
Qed.

(* ================= E. where textwrap may break a line: next to a blank or a hyphen ================= *)
Local Close Scope Z_scope.
Definition sphy (c : N) : bool := N.eqb c SP || N.eqb c HY.
(* the chunk c, followed by the chunks r: the boundary behind c has a blank or a hyphen on one side *)
Definition bnd (c : str) (r : list str) : Prop :=
  c = [] \/ concat r = [] \/ sphy (last c 0%N) = true \/ sphy (hd 0%N (concat r)) = true.
Fixpoint all_bnd (cs : list str) : Prop := match cs with [] => True | c :: r => bnd c r /\ all_bnd r end.

Lemma take_while_all p : forall s a b, take_while p s = (a, b) -> Forall (fun c => p c = true) a.
Proof.
  induction s as [|c r IH]; intros a b H; cbn [take_while] in H; [injection H as <- <-; constructor|].
  destruct (p c) eqn:E; [|injection H as <- <-; constructor].
  destruct (take_while p r) as [a' b'] eqn:E'. injection H as <- <-. constructor; [exact E|]. eapply IH; eauto.
Qed.
Lemma last_all (P : N -> Prop) (a : str) d : Forall P a -> a <> [] -> P (last a d).
Proof.
  intros H Hne. destruct a as [|c r] using rev_ind; [congruence|]. rewrite last_last. apply Forall_app in H as [_ H]. now inversion H.
Qed.
Lemma take_while_first p c s a b : p c = true -> take_while p (c :: s) = (a, b) -> a <> [].
Proof. intros Hp. cbn [take_while]. rewrite Hp. destruct (take_while p s). intros H. injection H as <- _. discriminate. Qed.

Lemma ahead_emdash_hd s : ahead_emdash s = true -> sphy (hd 0%N s) = true.
Proof.
  unfold ahead_emdash. destruct s as [|c r]; [cbn; discriminate|]. cbn [take_while hd].
  destruct (N.eqb HY c) eqn:E; [|cbn; discriminate]. intros _. apply N.eqb_eq in E. subst c. reflexivity.
Qed.
(* a word chunk ends at the end of the text, behind a hyphen, or before a blank or a dash *)
Lemma word_chunk_end : forall fuel before acc s w r, word_chunk fuel before acc s = (w, r) ->
  r = [] \/ (w <> [] /\ sphy (last w 0%N) = true) \/ sphy (hd 0%N r) = true.
Proof.
  induction fuel as [|f IH]; intros before acc s w r H; cbn [word_chunk] in H; [injection H as <- <-; now left|].
  destruct s as [|c s']; [injection H as <- <-; now left|].
  destruct acc as [|a0 acc']; [eapply IH; eauto|].
  remember (a0 :: acc') as acc eqn:Ea.
  destruct (N.eqb c HY && behind_hyphen_ok before && ahead_hyphen_ok s') eqn:E1.
  { injection H as <- <-. right. left. split; [destruct acc; discriminate|]. rewrite last_last.
    apply andb_prop in E1 as [E1 _]. apply andb_prop in E1 as [E1 _]. unfold sphy. now rewrite E1, orb_true_r. }
  destruct (is_sp c) eqn:E2. { injection H as <- <-. right. right. cbn [hd]. unfold sphy. unfold is_sp in E2. now rewrite E2. }
  destruct ((match before with p :: _ => tw_punct p | [] => false end) && ahead_emdash (c :: s')) eqn:E3.
  { injection H as <- <-. right. right. apply andb_prop in E3 as [_ E3]. now apply ahead_emdash_hd. }
  eapply IH; eauto.
Qed.

Lemma chunks_aux_bnd : forall fuel before s, all_bnd (chunks_aux fuel before s).
Proof.
  induction fuel as [|f IH]; intros before s; cbn [chunks_aux]; [cbn; split; [right; left; reflexivity|exact I]|].
  destruct s as [|c s']; [exact I|].
  destruct (is_sp c) eqn:Esp.
  { destruct (take_while is_sp (c :: s')) as [w r] eqn:E. cbn [all_bnd]. split; [|apply IH].
    right. right. left. pose proof (take_while_all _ _ _ _ E) as Ha. pose proof (take_while_first _ _ _ _ _ Esp E) as Hn.
    apply (last_all (fun x => sphy x = true) w 0%N); [|exact Hn].
    eapply Forall_impl; [|exact Ha]. intros x Hx. unfold sphy. unfold is_sp in Hx. now rewrite Hx. }
  destruct (N.eqb c HY && (match before with p :: _ => tw_punct p | [] => false end) && ahead_emdash (c :: s')) eqn:Eem.
  { destruct (take_while (N.eqb HY) (c :: s')) as [w r] eqn:E. cbn [all_bnd]. split; [|apply IH].
    right. right. left. pose proof (take_while_all _ _ _ _ E) as Ha.
    apply andb_prop in Eem as [Eem _]. apply andb_prop in Eem as [Eem _]. rewrite N.eqb_sym in Eem.
    pose proof (take_while_first _ _ _ _ _ Eem E) as Hn.
    apply (last_all (fun x => sphy x = true) w 0%N); [|exact Hn].
    eapply Forall_impl; [|exact Ha]. intros x Hx. cbv beta in Hx. unfold sphy. rewrite N.eqb_sym in Hx. now rewrite Hx, orb_true_r. }
  destruct (word_chunk (S (length (c :: s'))) before [] (c :: s')) as [w r] eqn:E. cbn [all_bnd]. split; [|apply IH].
  unfold bnd. rewrite chunks_aux_concat. apply word_chunk_end in E as [->|[[Hw Hl]|Hr]]; auto.
Qed.
Lemma all_bnd_filter : forall cs, all_bnd cs -> all_bnd (filter nonempty_b cs).
Proof.
  induction cs as [|c r IH]; intros H; [exact I|]. destruct H as [Hb Hr]. cbn [filter].
  destruct c as [|x c']; cbn [nonempty_b]; [now apply IH|]. cbn [all_bnd]. split; [|now apply IH].
  unfold bnd in *. now rewrite concat_filter_ne.
Qed.
Lemma chunks_bnd s : all_bnd (chunks s).
Proof. unfold chunks. change (fun c : str => match c with [] => false | _ => true end) with nonempty_b. apply all_bnd_filter, chunks_aux_bnd. Qed.

(* between the chunks consumed (A) and the next one (b): a blank or a hyphen on one side *)
Lemma last_app_ne (a b : str) d : b <> [] -> last (a ++ b) d = last b d.
Proof.
  intros Hb. destruct b as [|c r] using rev_ind; [congruence|]. now rewrite app_assoc, !last_last.
Qed.
Lemma all_bnd_split : forall A b B, all_bnd (A ++ b :: B) -> Forall ne (A ++ b :: B) -> A <> [] ->
  sphy (last (concat A) 0%N) = true \/ sphy (hd 0%N b) = true.
Proof.
  induction A as [|a A' IH]; intros b B H Hne HA; [congruence|]. cbn [app all_bnd] in H. destruct H as [Hb Hr].
  inversion Hne as [|? ? Ha Hne']; subst. destruct A' as [|a2 A''].
  - cbn [app concat] in *. rewrite app_nil_r. inversion Hne' as [|? ? Hbne _]; subst.
    destruct Hb as [Hb|[Hb|[Hb|Hb]]]; [contradiction| |now left|].
    + destruct b; [now elim Hbne|discriminate].
    + right. destruct b; [now elim Hbne|exact Hb].
  - destruct (IH b B Hr Hne' ltac:(discriminate)) as [H|H]; [left|now right].
    cbn [concat]. rewrite last_app_ne; [exact H|]. inversion Hne' as [|? ? Ha2 _]; subst. cbn [concat].
    destruct a2; [now elim Ha2|discriminate].
Qed.

(* the text condition: wherever a line may be broken without a blank being there (next to a hyphen), the scanner is not inside
   a tag that the next character continues, and the next character is not a "<" behind a backslash *)
Definition cuts_ok (u : str) : Prop :=
  forall X y0 Y, u = X ++ y0 :: Y -> X <> [] -> sphy (last X 0%N) || sphy y0 = true ->
  safe_cut (fold_left lex_step X lex_init) y0 = true.
Fixpoint cuts_okb_from (st : lexst) (prev : option N) (u : str) : bool :=
  match u with
  | [] => true
  | y0 :: Y =>
    (match prev with
     | None => true
     | Some p => if sphy p || sphy y0 then safe_cut st y0 else true
     end) && cuts_okb_from (lex_step st y0) (Some y0) Y
  end.
Definition cuts_okb (u : str) : bool := cuts_okb_from lex_init None u.
Lemma cuts_okb_from_ok : forall u X, cuts_okb_from (fold_left lex_step X lex_init) (match X with [] => None | _ => Some (last X 0%N) end) u = true ->
  forall X' y0 Y, u = X' ++ y0 :: Y -> X ++ X' <> [] -> sphy (last (X ++ X') 0%N) || sphy y0 = true ->
  safe_cut (fold_left lex_step (X ++ X') lex_init) y0 = true.
Proof.
  induction u as [|c u IH]; intros X H X' y0 Y E Hne Hs; [destruct X'; discriminate|].
  cbn [cuts_okb_from] in H. apply andb_prop in H as [H1 H2].
  destruct X' as [|x X''].
  - cbn [app] in E. injection E as -> ->. rewrite app_nil_r in *. destruct X as [|x0 X0]; [congruence|].
    rewrite Hs in H1. exact H1.
  - cbn [app] in E. injection E as -> ->.
    replace (X ++ x :: X'') with ((X ++ [x]) ++ X'') in * by now rewrite <- app_assoc.
    apply (IH (X ++ [x])) with (Y := Y); auto.
    rewrite fold_left_app. cbn [fold_left]. rewrite last_last. destruct (X ++ [x]) eqn:Ex; [destruct X; discriminate|]. exact H2.
Qed.
Lemma cuts_okb_ok u : cuts_okb u = true -> cuts_ok u.
Proof. intros H X y0 Y E Hne Hs. apply (cuts_okb_from_ok u [] H X y0 Y E Hne Hs). Qed.

(* ================= F. wrapping without breaking a word keeps the effect ================= *)
Lemma dropblank_blank cur2 : exists B, cur2 = dropblank cur2 ++ B /\ Forall (fun c => is_space c = true) (concat B).
Proof.
  unfold dropblank. destruct cur2 as [|x l _] using rev_ind; [exists []; split; [reflexivity|constructor]|].
  rewrite rev_app_distr. cbn [rev app]. destruct (blank x) eqn:E.
  - rewrite removelast_last. exists [x]. split; [reflexivity|]. cbn [concat]. rewrite app_nil_r.
    unfold blank in E. apply Forall_forall. intros c Hc. rewrite forallb_forall in E. auto.
  - exists []. split; [now rewrite app_nil_r|constructor].
Qed.
(* one line, when every chunk fits the width: a blank chunk dropped in front (not on the first line), chunks taken, a blank
   chunk dropped behind *)
Lemma wstep_nobreak width (c0 : str) (r0 lines : list str) : Forall (fun c : str => length c <= width) (c0 :: r0) ->
  exists D taken rest : list str, c0 :: r0 = D ++ taken ++ rest /\ wstep width c0 r0 lines = (dropblank taken, rest) /\
    Forall (fun c => is_space c = true) (concat D) /\ (D <> [] -> lines <> []) /\ (D = [] -> taken <> []).
Proof.
  intros Hfit.
  set (cs1 := if blank c0 && (match lines with [] => false | _ => true end) then r0 else c0 :: r0).
  assert (exists D, c0 :: r0 = D ++ cs1 /\ Forall (fun c => is_space c = true) (concat D) /\ (D <> [] -> lines <> []) /\
                    (D = [] -> cs1 = c0 :: r0)) as (D & HD & HDb & HDl & HD0).
  { subst cs1. destruct (blank c0) eqn:Eb; cbn [andb].
    - destruct lines as [|l0 ls0]; [exists []; repeat split; auto; constructor|].
      exists [c0]. repeat split; auto; try discriminate. cbn [concat]. rewrite app_nil_r.
      unfold blank in Eb. apply Forall_forall. intros c Hc. rewrite forallb_forall in Eb. auto.
    - exists []. repeat split; auto; constructor. }
  destruct (fill_line_spec width cs1 [] 0) as (taken & rest & H1 & H2 & H3 & H4).
  cbn [app Nat.add] in H1, H4. exists D, taken, rest. split; [now rewrite HD, H2|]. split.
  - unfold wstep. cbv zeta.
    match goal with |- context [fill_line width ?n 0 ?c] => change (fill_line width n 0 c) with (fill_line width [] 0 cs1) end.
    rewrite H1. destruct rest as [|c r]; [reflexivity|].
    assert (length c <= width) as Hc.
    { rewrite Forall_forall in Hfit. apply Hfit. rewrite HD, H2. apply in_or_app. right. apply in_or_app. right. now left. }
    apply Nat.ltb_ge in Hc. now rewrite Hc.
  - split; [exact HDb|]. split; [exact HDl|]. intros HDe Ht. subst taken. cbn [app concat length] in *.
    rewrite (HD0 HDe) in H2. subst rest. inversion Hfit; subst. lia.
Qed.

Lemma join_lines_snoc p : forall ls l, ls <> [] -> join_lines p (ls ++ [l]) = join_lines p ls ++ 10%N :: p ++ l.
Proof.
  induction ls as [|x r IH]; intros l Hne; [congruence|]. destruct r as [|y r'].
  - reflexivity.
  - change ((x :: y :: r') ++ [l]) with (x :: (y :: r') ++ [l]).
    change (join_lines p (x :: (y :: r') ++ [l])) with (x ++ 10%N :: p ++ join_lines p ((y :: r') ++ [l])).
    rewrite IH by discriminate. change (join_lines p (x :: y :: r')) with (x ++ 10%N :: p ++ join_lines p (y :: r')).
    symmetry. rewrite <- app_assoc. cbn [app]. now rewrite <- app_assoc.
Qed.

Section WrapLoop.
  Variables (width : nat) (CS : list str).
  Hypothesis Hfit : Forall (fun c : str => length c <= width) CS.
  Hypothesis Hne : Forall ne CS.
  Hypothesis Hbnd : all_bnd CS.
  Hypothesis Hcuts : cuts_ok (concat CS).

  (* the chunks A are consumed, the lines written: the text consumed is O followed by blanks T, and scanning O and scanning the
     lines joined by line breaks leave equivalent states *)
  Definition loop_inv (A : list str) (lines : list str) : Prop :=
    exists O T, concat A = O ++ T /\ Forall inert T /\ (lines <> [] -> O <> []) /\
      sim (fold_left lex_step O lex_init) (fold_left lex_step (join_lines [] lines) lex_init).

  Lemma loop_step (A : list str) (c0 : str) (r0 lines : list str) : CS = A ++ c0 :: r0 -> loop_inv A lines ->
    exists A', CS = A' ++ snd (wstep width c0 r0 lines) /\
      loop_inv A' (match fst (wstep width c0 r0 lines) with [] => lines | _ => lines ++ [concat (fst (wstep width c0 r0 lines))] end).
  Proof.
    intros HCS (O & T & HO & HT & HOne & Hsim).
    assert (Forall (fun c : str => length c <= width) (c0 :: r0)) as Hfit'.
    { rewrite HCS in Hfit. apply Forall_app in Hfit. tauto. }
    destruct (wstep_nobreak width c0 r0 lines Hfit') as (D & taken & rest & Hsplit & -> & HDb & HDl & HD0).
    cbn [fst snd]. destruct (dropblank_blank taken) as (B & HB & HBb). set (line := dropblank taken) in *.
    exists (A ++ D ++ taken). split; [rewrite HCS, Hsplit; now rewrite <- !app_assoc|].
    assert (Forall ne taken) as Hnet.
    { rewrite HCS, Hsplit in Hne. apply Forall_app in Hne as [_ Hne']. apply Forall_app in Hne' as [_ Hne'].
      apply Forall_app in Hne'. tauto. }
    assert (concat (A ++ D ++ taken) = O ++ (T ++ concat D) ++ concat line ++ concat B) as Econs.
    { rewrite !concat_app, HO, HB, concat_app. now rewrite <- !app_assoc. }
    pose proof (inert_blank _ HDb) as HDi. pose proof (inert_blank _ HBb) as HBi.
    destruct line as [|l0 line'] eqn:Eline.
    - (* nothing but blanks: no line *)
      exists O, ((T ++ concat D) ++ concat B). split; [rewrite Econs; cbn [concat app]; now rewrite <- !app_assoc|].
      split; [repeat (apply Forall_app; split); assumption|]. split; assumption.
    - set (L := concat (l0 :: line')).
      assert (L <> []) as HL.
      { subst L. rewrite HB in Hnet. apply Forall_app in Hnet as [Hnet _]. inversion Hnet as [|? ? Hl0 _]; subst.
        cbn [concat]. destruct l0; [now elim Hl0|discriminate]. }
      exists (O ++ (T ++ concat D) ++ L), (concat B). split; [rewrite Econs; now rewrite <- !app_assoc|].
      split; [exact HBi|]. split; [intros _; destruct O; [destruct (T ++ concat D); [cbn; exact HL|discriminate]|discriminate]|].
      set (R := T ++ concat D) in *.
      assert (Forall inert R) as HR by (apply Forall_app; split; assumption).
      destruct lines as [|x0 lines0].
      + (* the first line *)
        cbn [app join_lines]. rewrite !fold_left_app. apply sim_fold.
        destruct R as [|r1 R']; [exact Hsim|].
        set (stO := fold_left lex_step O lex_init) in *.
        destruct (inert_fold stO (r1 :: R') HR ltac:(discriminate)) as (x & -> & Ex & Xne).
        destruct Hsim as (S1 & S2 & S3). cbn [join_lines fold_left lex_init l_done l_cur l_cand] in S1, S2, S3.
        assert (l_done stO = []) as E0 by (inversion S1; reflexivity).
        split; [cbn [mk l_done lex_init]; rewrite E0; constructor|].
        split; [|reflexivity]. cbn [mk l_cur lex_init]. rewrite !app_assoc. now rewrite ends_false_app.
      + rewrite join_lines_snoc by discriminate. cbn [app]. rewrite !fold_left_app.
        destruct R as [|r1 R'] eqn:ER.
        * (* no blank between the lines: a line break is put in at a chunk boundary *)
          cbn [fold_left]. destruct L as [|y0 L'] eqn:EL; [congruence|]. cbn [fold_left]. apply sim_fold.
          apply (sim_cut _ _ y0 [10%N]); [exact Hsim|apply lex_fold_tagish, lex_init_tagish| |constructor; [exact inert_nl|constructor]].
          assert (T = [] /\ concat D = []) as [ET ED] by (subst R; destruct T; [split; [reflexivity|exact ER]|discriminate]).
          assert (D = []) as ->.
          { destruct D as [|d D']; [reflexivity|]. exfalso. rewrite HCS, Hsplit in Hne. apply Forall_app in Hne as [_ Hne'].
            inversion Hne' as [|? ? Hd _]; subst. cbn [concat] in ED. destruct d; [now elim Hd|discriminate]. }
          cbn [app] in Hsplit. rewrite ET, app_nil_r in HO.
          assert (A <> []) as HA.
          { intros ->. cbn in HO. specialize (HOne ltac:(discriminate)). congruence. }
          assert (exists b0 rest0, taken ++ rest = b0 :: rest0 /\ hd 0%N b0 = y0) as (b0 & rest0 & Eb0 & Ey0).
          { rewrite HB. cbn [app]. exists l0, (line' ++ B ++ rest). split; [now rewrite <- app_assoc|].
            assert (ne l0) as Hl0 by (rewrite HB in Hnet; cbn [app] in Hnet; now inversion Hnet).
            subst L. cbn [concat] in EL. destruct l0 as [|z l0']; [now elim Hl0|]. cbn [app] in EL. now injection EL as -> _. }
          rewrite <- HO. apply (Hcuts (concat A) y0 (L' ++ concat B ++ concat rest)).
          -- rewrite HCS, Hsplit, HB, !concat_app. fold L. rewrite EL. cbn [app]. now rewrite <- !app_assoc.
          -- rewrite HO. apply HOne. discriminate.
          -- rewrite HCS, Hsplit, Eb0 in Hbnd, Hne. destruct (all_bnd_split A b0 rest0 Hbnd Hne HA) as [H|H].
             ++ now rewrite H.
             ++ rewrite Ey0 in H. now rewrite H, orb_true_r.
        * (* blanks between the lines: replaced by the line break *)
          rewrite <- ER in *. cbn [fold_left]. apply sim_fold.
          change (lex_step (fold_left lex_step (join_lines [] (x0 :: lines0)) lex_init) 10%N)
            with (fold_left lex_step [10%N] (fold_left lex_step (join_lines [] (x0 :: lines0)) lex_init)).
          apply sim_blanks; [exact Hsim|exact HR|rewrite ER; discriminate|constructor; [exact inert_nl|constructor]|discriminate].
  Qed.

  Lemma loop_all : forall f A cs lines ls, CS = A ++ cs -> loop_inv A lines ->
    wrap_chunks f width cs lines = Some ls -> loop_inv CS ls.
  Proof.
    induction f as [|f IH]; intros A cs lines ls HCS Hinv H; [discriminate|].
    destruct cs as [|c0 r0]; [cbn in H; injection H as <-; now rewrite HCS, app_nil_r|].
    rewrite wrap_chunks_S in H. destruct (loop_step A c0 r0 lines HCS Hinv) as (A' & HCS' & Hinv').
    eapply IH; eauto.
  Qed.
End WrapLoop.

(* every chunk of the text fits the width: no word has to be broken *)
Definition words_fit (w : Z) (t : str) : Prop := Forall (fun c => (Z.of_nat (length c) <= w)%Z) (chunks (munge t)).

Theorem wrap_effect sty t w ls sk : wrap t w = Ok ls -> words_fit w t -> cuts_ok (munge t) ->
  effects sty ls sk = effect sty false (munge t) sk.
Proof.
  unfold wrap. destruct (w <=? 0)%Z eqn:Ew; [discriminate|]. apply Z.leb_gt in Ew.
  destruct (wrap_chunks _ _ (chunks (munge t)) []) as [l|] eqn:E; [|discriminate]. intros H Hfit Hcuts. injection H as ->.
  assert (loop_inv (chunks (munge t)) ls) as (O & T & HO & HT & _ & Hsim).
  { apply (loop_all (Z.to_nat w) (chunks (munge t))) with (f := 2 * length t + 2) (A := []) (cs := chunks (munge t)) (lines := []).
    - eapply Forall_impl; [|exact Hfit]. intros c Hc. cbv beta in Hc. lia.
    - apply chunks_ne.
    - apply chunks_bnd.
    - now rewrite chunks_concat.
    - reflexivity.
    - exists [], []. split; [reflexivity|]. split; [constructor|]. split; [congruence|apply sim_refl].
    - exact E. }
  rewrite chunks_concat in HO. rewrite HO, effect_inert_suffix by exact HT.
  rewrite (sim_effect sty _ _ sk Hsim). symmetry. apply effect_join. constructor.
Qed.

(* ================= G. texts and elements the formatter takes; the page theorem ================= *)
Local Open Scope Z_scope.
(* (NH) no hyphen is read inside a tag name: then no line can be broken inside a tag *)
Definition no_hyphen_in_tags (u : str) : Prop :=
  forall X Y, u = X ++ HY :: Y -> match l_cand (fold_left lex_step X lex_init) with CName _ _ => False | _ => True end.
(* behind text that is pending, the last character read is its last character *)
Lemma cur_last : forall X, l_cand (fold_left lex_step X lex_init) = CText -> l_cur (fold_left lex_step X lex_init) <> [] ->
  last (l_cur (fold_left lex_step X lex_init)) 0%N = last X 0%N.
Proof.
  intros X. destruct X as [|c X'] using rev_ind; [cbn; congruence|]. clear IHX'.
  rewrite fold_left_app. cbn [fold_left]. set (st := fold_left lex_step X' lex_init). intros Hk Hc. rewrite last_last.
  destruct (lex_step_shape st c) as [[_ E]|[[_ E]|[(k & _ & Ht & Er & E)|(cl & nm & _ & E)]]]; rewrite E in Hk, Hc |- *; cbn [mk l_cand l_cur] in *.
  - discriminate.
  - now rewrite !app_assoc, last_last.
  - subst k. cbn [raw_of] in Er. destruct (raw_of (l_cand st)); discriminate.
  - congruence.
Qed.
Lemma nh_cuts u : no_hyphen_in_tags u -> cuts_ok u.
Proof.
  intros Hnh X y0 Y E HX Hs. unfold safe_cut. set (st := fold_left lex_step X lex_init).
  assert (continues (l_cand st) y0 = false) as Hc.
  { apply orb_prop in Hs as [Hs|Hs].
    - (* behind a blank or a hyphen: no tag is pending *)
      destruct X as [|p X'] using rev_ind; [congruence|]. clear IHX'. rewrite last_last in Hs.
      subst st. rewrite fold_left_app. cbn [fold_left]. set (s0 := fold_left lex_step X' lex_init).
      assert (l_cand (lex_step s0 p) = CText) as ->; [|reflexivity].
      unfold sphy in Hs. apply orb_prop in Hs as [Hp|Hp]; apply N.eqb_eq in Hp; subst p.
      + now rewrite (inert_step s0 SP (inert_space SP eq_refl)).
      + specialize (Hnh X' (y0 :: Y)). rewrite <- app_assoc in E. specialize (Hnh E). fold s0 in Hnh.
        unfold lex_step. change (N.eqb HY LT) with false. cbv iota. destruct (l_cand s0); [reflexivity| | |contradiction].
        * change (N.eqb HY SLASH) with false. change (tag_start HY) with false. reflexivity.
        * change (N.eqb HY GT) with false. change (tag_start HY) with false. reflexivity.
    - unfold sphy in Hs. apply orb_prop in Hs as [Hp|Hp]; apply N.eqb_eq in Hp; subst y0.
      + destruct (l_cand st); reflexivity.
      + specialize (Hnh X Y E). fold st in Hnh. destruct (l_cand st); [reflexivity|reflexivity|reflexivity|contradiction]. }
  rewrite Hc. cbn [negb andb]. apply negb_true_iff.
  destruct (N.eqb_spec y0 LT) as [->|]; [|reflexivity]. cbn [andb].
  destruct (l_cand st) eqn:Ek; try reflexivity.
  destruct (l_cur st) as [|c0 r0] eqn:Ecur; [reflexivity|].
  (* the pending text ends with the blank or hyphen just read *)
  assert (last (l_cur st) 0%N = last X 0%N) as El by (apply cur_last; [exact Ek|change (l_cur st <> []); rewrite Ecur; discriminate]).
  change (sphy LT) with false in Hs. rewrite orb_false_r in Hs. rewrite <- El, Ecur in Hs.
  destruct (c0 :: r0) as [|z r] using rev_ind; [discriminate|]. rewrite last_last in Hs. rewrite ends_snoc.
  unfold sphy in Hs. apply orb_prop in Hs as [Hp|Hp]; apply N.eqb_eq in Hp; subst z; reflexivity.
Qed.

(* a text the formatter takes at the wrap width w: no "<" in it at all; or its words fit, no tag name holds a hyphen, and the
   text is neutral (munge: textwrap's view of the text, every white-space character a blank) *)
Definition text_ok (sty : styles) (w : Z) (t : str) : Prop :=
  no_lt t \/ (words_fit w t /\ no_hyphen_in_tags (munge t) /\ neutral sty false (munge t)).
Lemma effects_no_lt sty : forall ls sk, Forall no_lt ls -> effects sty ls sk = Ok sk.
Proof. induction ls as [|l r IH]; intros sk H; [reflexivity|]. inversion H; subst. cbn [effects]. rewrite effect_no_lt by assumption. now apply IH. Qed.
Lemma munge_no_lt t : no_lt t -> no_lt (munge t).
Proof. intros H. unfold munge, no_lt in *. apply Forall_forall. intros c Hc. apply in_map_iff in Hc as [x [<- Hx]]. rewrite Forall_forall in H. destruct (tw_space x); [discriminate|now apply H]. Qed.
Lemma text_ok_lines sty w t ls sk : wrap t w = Ok ls -> text_ok sty w t -> effects sty ls sk = Ok sk.
Proof.
  intros Hw [Hn|(Hf & Hnh & Hneu)].
  - apply effects_no_lt. apply (wrap_lines_chars_lemma (fun c => c <> LT) t w ls Hw). now apply munge_no_lt.
  - rewrite (wrap_effect sty t w ls sk Hw Hf (nh_cuts _ Hnh)). apply Hneu.
Qed.

(* an element the formatter takes: the label neutral, not ending with a backslash, at least one blank between label and text *)
Definition elem_ok (sty : styles) (W off : Z) (ind : nat) (e : elem) : Prop :=
  match e with
  | EEmpty => True
  | EPara t => text_ok sty (wrap_width W off ind 0 e) t
  | ELab label text padding aligned =>
    neutral sty false label /\ ends_with_bsl label = false /\ (1 <= padding)%nat /\
    text_ok sty (wrap_width W off ind (vis_of sty label) e) text
  end.
Lemma elem_ok_label sty W off ind e : elem_ok sty W off ind e -> label_neutral sty e.
Proof.
  destruct e as [t|label text padding aligned|]; unfold label_neutral; cbn [elem_label elem_ok]; try (intros _ sk; reflexivity).
  intros (H1 & H2 & _). now rewrite H2.
Qed.
Lemma elem_ok_raw sty W off ind e : elem_ok sty W off ind e -> raw_neutral sty W off ind e.
Proof.
  intros H raw Hr sk. destruct e as [t|label text padding aligned|]; cbn [elem_label elem_ok] in *.
  - destruct (para_raw_effect sty W off ind _ t raw sk Hr) as (ls & Hw & ->). cbn [wrap_width] in H. eapply text_ok_lines; eauto.
  - destruct H as (H1 & H2 & H3 & H4).
    destruct (lab_raw_effect sty W off ind _ label text padding aligned raw sk Hr H3 (vis_of_le sty label)) as (ls & Hw & ->).
    rewrite H1. cbn [bind]. cbn [wrap_width] in H4. eapply text_ok_lines; eauto.
  - inversion Hr. reflexivity.
Qed.
Definition layout_ok (sty : styles) (W : Z) (l : layout) : Prop :=
  Forall (fun x => elem_ok sty W (align_vis sty l 0) (fst x) (snd x)) l.

Theorem page_renders W f l : f_kind f <> FNull -> needed_width_for (f_styles f) l <= W -> layout_ok (f_styles f) W l ->
  exists s, render_page W f l = Ok s.
Proof.
  intros Hk HW Hl. unfold layout_ok in Hl. apply page_renders_neutral; [exact Hk| |exact HW|].
  - eapply Forall_impl; [|exact Hl]. intros x Hx. eapply elem_ok_label, Hx.
  - eapply Forall_impl; [|exact Hl]. intros x Hx. now apply elem_ok_raw.
Qed.

(* ================= H. the conditions, decided (for concrete layouts: vm_compute) ================= *)
Definition no_ltb (t : str) : bool := forallb (fun c => negb (N.eqb c LT)) t.
Lemma no_ltb_ok t : no_ltb t = true -> no_lt t.
Proof. unfold no_ltb, no_lt. rewrite forallb_forall, Forall_forall. intros H c Hc E. specialize (H c Hc). subst c. discriminate. Qed.
Definition words_fitb (w : Z) (t : str) : bool := forallb (fun c => Z.of_nat (length c) <=? w) (chunks (munge t)).
Lemma words_fitb_ok w t : words_fitb w t = true -> words_fit w t.
Proof. unfold words_fitb, words_fit. rewrite forallb_forall, Forall_forall. intros H c Hc. apply Z.leb_le. now apply H. Qed.

Fixpoint nhb_from (st : lexst) (u : str) : bool :=
  match u with
  | [] => true
  | c :: r => (if N.eqb c HY then match l_cand st with CName _ _ => false | _ => true end else true) && nhb_from (lex_step st c) r
  end.
Definition nhb (u : str) : bool := nhb_from lex_init u.
Lemma nhb_from_ok : forall u X0, nhb_from (fold_left lex_step X0 lex_init) u = true ->
  forall X Y, u = X ++ HY :: Y -> match l_cand (fold_left lex_step (X0 ++ X) lex_init) with CName _ _ => False | _ => True end.
Proof.
  induction u as [|c u IH]; intros X0 H X Y E; [destruct X; discriminate|]. cbn [nhb_from] in H. apply andb_prop in H as [H1 H2].
  destruct X as [|x X'].
  - cbn [app] in E. injection E as -> ->. rewrite app_nil_r. change (N.eqb HY HY) with true in H1. cbv iota in H1.
    destruct (l_cand _); [exact I|exact I|exact I|discriminate].
  - cbn [app] in E. injection E as -> ->. replace (X0 ++ x :: X') with ((X0 ++ [x]) ++ X') by now rewrite <- app_assoc.
    apply (IH (X0 ++ [x])) with (Y := Y); [|reflexivity]. now rewrite fold_left_app.
Qed.
Lemma nhb_ok u : nhb u = true -> no_hyphen_in_tags u.
Proof. intros H X Y E. exact (nhb_from_ok u [] H X Y E). Qed.

(* balanced: every closing tag closes a style opened in the same text, nothing stays open; no unknown colour *)
Fixpoint bal (sty : styles) (segs : list (str * tag)) (pushed : list pstyle) : bool :=
  match segs with
  | [] => match pushed with [] => true | _ => false end
  | (pre, Tag raw cl nm) :: r =>
    if ends_with_bsl pre then bal sty r pushed
    else if cl && (match nm with [] => true | _ => false end)
         then match pushed with [] => false | _ => bal sty r (removelast pushed) end
    else match resolve sty (py_lower nm) with
         | Err _ => false
         | Ok None => bal sty r pushed
         | Ok (Some st) =>
           if cl then match cut_rev st (rev pushed) with Some r' => bal sty r (rev r') | None => false end
           else bal sty r (pushed ++ [st])
         end
  end.
Definition neutralb (sty : styles) (u : str) : bool := bal sty (l_done (fold_left lex_step u lex_init)) [].
Lemma cut_rev_app st : forall a b r, cut_rev st a = Some r -> cut_rev st (a ++ b) = Some (r ++ b).
Proof.
  induction a as [|x a IH]; intros b r H; [discriminate|]. cbn [cut_rev app] in *.
  destruct (pstyle_eqb st x); [now injection H as <-|now apply IH].
Qed.
Lemma bal_ok sty : forall segs pushed first, bal sty segs pushed = true ->
  forall sk, segs_stack sty false first segs (sk ++ pushed) = Ok sk.
Proof.
  induction segs as [|[pre [raw cl nm]] r IH]; intros pushed first H sk; cbn [bal segs_stack] in *.
  - destruct pushed; [now rewrite app_nil_r|discriminate].
  - rewrite esc_of_false. unfold tag_stack. destruct (ends_with_bsl pre); cbn [bind]; [now apply IH|].
    destruct (cl && match nm with [] => true | _ => false end).
    { destruct pushed as [|p0 pushed']; [discriminate|]. cbn [bind]. unfold pop_any.
      rewrite removelast_app by discriminate. now apply IH. }
    destruct (resolve sty (py_lower nm)) as [[st|]|k]; cbn [bind]; [| |discriminate].
    + destruct cl.
      * destruct (cut_rev st (rev pushed)) as [r'|] eqn:Ec; [|discriminate]. unfold pop_style.
        destruct (sk ++ pushed) as [|z zs] eqn:Ez.
        { destruct pushed; [cbn in Ec; discriminate|destruct sk; discriminate]. }
        rewrite <- Ez, rev_app_distr, (cut_rev_app st _ (rev sk) _ Ec), rev_app_distr, rev_involutive. cbn [bind]. now apply IH.
      * rewrite <- app_assoc. now apply IH.
    + now apply IH.
Qed.
Lemma neutralb_ok sty u : neutralb sty u = true -> neutral sty false u.
Proof. intros H sk. unfold effect. rewrite <- (app_nil_r sk) at 1. now apply bal_ok. Qed.

Definition text_okb (sty : styles) (w : Z) (t : str) : bool :=
  no_ltb t || (words_fitb w t && nhb (munge t) && neutralb sty (munge t)).
Lemma text_okb_ok sty w t : text_okb sty w t = true -> text_ok sty w t.
Proof.
  unfold text_okb. intros H. apply orb_prop in H as [H|H]; [left; now apply no_ltb_ok|right].
  apply andb_prop in H as [H H3]. apply andb_prop in H as [H1 H2].
  split; [now apply words_fitb_ok|]. split; [now apply nhb_ok|now apply neutralb_ok].
Qed.
Definition elem_okb (sty : styles) (W off : Z) (ind : nat) (e : elem) : bool :=
  match e with
  | EEmpty => true
  | EPara t => text_okb sty (wrap_width W off ind 0 e) t
  | ELab label text padding aligned =>
    neutralb sty label && negb (ends_with_bsl label) && Nat.leb 1 padding &&
    text_okb sty (wrap_width W off ind (vis_of sty label) e) text
  end.
Definition layout_okb (sty : styles) (W : Z) (l : layout) : bool :=
  forallb (fun x => elem_okb sty W (align_vis sty l 0) (fst x) (snd x)) l.
Lemma layout_okb_ok sty W l : layout_okb sty W l = true -> layout_ok sty W l.
Proof.
  unfold layout_okb, layout_ok. rewrite forallb_forall, Forall_forall. intros H x Hx. specialize (H x Hx).
  destruct (snd x) as [t|label text padding aligned|]; cbn [elem_okb elem_ok] in *; [now apply text_okb_ok| |exact I].
  apply andb_prop in H as [H H4]. apply andb_prop in H as [H H3]. apply andb_prop in H as [H1 H2].
  split; [now apply neutralb_ok|]. split; [now apply negb_true_iff in H2|]. split; [now apply Nat.leb_le|now apply text_okb_ok].
Qed.

(* ================= I. renders AND fits ================= *)
Lemma needed_width_for_pos sty l : 1 <= needed_width_for sty l.
Proof. unfold needed_width_for. generalize (align_vis sty l 0). intros off. induction l; cbn [fold_right]; lia. Qed.

Theorem page_renders_plain_lemma W f l : f_kind f = FPlain -> needed_width_for (f_styles f) l <= W -> layout_ok (f_styles f) W l ->
  exists s, render_page W f l = Ok s.
Proof. intros Hk. apply page_renders. congruence. Qed.
Theorem page_renders_ansi_lemma W f l : is_ansi f -> needed_width_for (f_styles f) l <= W -> layout_ok (f_styles f) W l ->
  exists s, render_page W f l = Ok s.
Proof. intros Hk. apply page_renders. unfold is_ansi in Hk. destruct (f_kind f); [discriminate|contradiction|contradiction]. Qed.

Theorem page_renders_and_fits_plain_lemma W f l : f_kind f = FPlain -> one_line_labels l ->
  needed_width_for (f_styles f) l <= W -> layout_ok (f_styles f) W l ->
  exists s, render_page W f l = Ok s /\ Forall (fun ln => zlen ln <= W - 1) (split_on 10%N s).
Proof.
  intros Hk Hl HW Hok. destruct (page_renders_plain_lemma W f l Hk HW Hok) as [s Hs]. exists s. split; [exact Hs|].
  eapply page_fits_plain_lemma; eauto. pose proof (needed_width_for_pos (f_styles f) l). lia.
Qed.
Theorem page_renders_and_fits_ansi_lemma W f l : is_ansi f -> one_line_labels l -> clean_layout l ->
  needed_width_for (f_styles f) l <= W -> layout_ok (f_styles f) W l ->
  exists s, render_page W f l = Ok s /\ Forall (fun ln => zlen (strip_sgr ln) <= W - 1) (split_on 10%N s).
Proof.
  intros Hk Hl Hc HW Hok. destruct (page_renders_ansi_lemma W f l Hk HW Hok) as [s Hs]. exists s. split; [exact Hs|].
  eapply page_fits_ansi_clean_lemma; eauto. pose proof (needed_width_for_pos (f_styles f) l). lia.
Qed.
(* the ANSI formatter renders a page exactly when the plain formatter with the same styles and stack does *)
Lemma emit_ok_iff f m : is_ansi f ->
  (exists x, emit f m = Ok x) <-> (exists x, emit (as_plain f) m = Ok x).
Proof.
  intros Hk. unfold is_ansi in Hk. unfold emit, as_plain. cbn [f_kind]. destruct (f_kind f) eqn:E; [|contradiction|contradiction].
  unfold format, remove_format. rewrite E. cbn [f_kind f_styles f_stack].
  pose proof (colorize_effect (f_styles f) true (f_stack f) m) as H1. pose proof (colorize_effect (f_styles f) false (f_stack f) m) as H2.
  destruct (colorize (f_styles f) true (f_stack f) m) as [x1|k1], (colorize (f_styles f) false (f_stack f) m) as [x2|k2]; cbn [bind];
    split; intros [x Hx]; try discriminate; eauto; congruence.
Qed.

(* ================= J. building good texts: calm pieces, one behind the other ================= *)
Local Close Scope Z_scope.
Definition scan (a : str) : lexst := fold_left lex_step a lex_init.
(* behind the text a no tag is pending, and the pending text does not end with a backslash: what follows is read as at the start *)
Definition quiet (a : str) : Prop := l_cand (scan a) = CText /\ ends_with_bsl (l_cur (scan a)) = false.
Lemma scan_app a b : l_cand (scan a) = CText -> scan (a ++ b) = glue (l_done (scan a)) (l_cur (scan a)) (scan b).
Proof.
  intros H. unfold scan. rewrite fold_left_app. fold (scan a). destruct (scan a) as [d c k]. cbn [l_cand l_done l_cur] in *. subst k.
  change {| l_done := d; l_cur := c; l_cand := CText |} with (mk d c CText). now rewrite <- glue_init, glue_fold.
Qed.
Lemma glue_cur d c st : l_cur (glue d c st) = match l_done st with [] => c ++ l_cur st | _ => l_cur st end.
Proof. unfold glue. destruct (l_done st) as [|[p t] r]; reflexivity. Qed.
Lemma glue_done d c st : l_done (glue d c st) = match l_done st with [] => d | (p, t) :: r => d ++ (c ++ p, t) :: r end.
Proof. unfold glue. destruct (l_done st) as [|[p t] r]; reflexivity. Qed.
Lemma quiet_app a b : quiet a -> quiet b -> quiet (a ++ b).
Proof.
  intros [A1 A2] [B1 B2]. unfold quiet. rewrite (scan_app a b A1), glue_cand, glue_cur. split; [exact B1|].
  destruct (l_done (scan b)); [|exact B2]. rewrite ends_app. destruct (l_cur (scan b)); [exact A2|exact B2].
Qed.
Lemma effect_app sty a b sk : quiet a -> effect sty false (a ++ b) sk = (do s1 <- effect sty false a sk; effect sty false b s1).
Proof.
  intros [A1 A2]. unfold effect. fold (scan (a ++ b)) (scan a) (scan b). rewrite (scan_app a b A1), glue_done.
  destruct (l_done (scan b)) as [|[p t] r].
  - destruct (segs_stack sty false true (l_done (scan a)) sk); reflexivity.
  - rewrite segs_stack_app. destruct (segs_stack sty false true (l_done (scan a)) sk) as [s1|k]; cbn [bind]; [|reflexivity].
    cbn [segs_stack]. rewrite !esc_of_false, ends_app.
    assert ((match p with [] => ends_with_bsl (l_cur (scan a)) | _ :: _ => ends_with_bsl p end) = ends_with_bsl p) as ->
      by (destruct p; [exact A2|reflexivity]).
    destruct (tag_stack sty (ends_with_bsl p) t s1); reflexivity.
Qed.
Lemma app_split {X} (h : X) : forall a b x y, a ++ b = x ++ h :: y ->
  (exists y', a = x ++ h :: y' /\ y = y' ++ b) \/ (exists x', x = a ++ x' /\ b = x' ++ h :: y).
Proof.
  induction a as [|c a IH]; intros b x y E; [right; exists x; auto|].
  destruct x as [|z x]; cbn [app] in E.
  - injection E as -> <-. left. exists a. auto.
  - injection E as -> E. destruct (IH b x y E) as [(y' & -> & ->)|(x' & -> & ->)]; [left; exists y'; auto|right; exists x'; auto].
Qed.
Lemma nh_app a b : l_cand (scan a) = CText -> no_hyphen_in_tags a -> no_hyphen_in_tags b -> no_hyphen_in_tags (a ++ b).
Proof.
  intros Ha Na Nb X Y E. apply app_split in E as [(y' & -> & ->)|(x' & -> & ->)]; [now apply (Na X y')|].
  fold (scan (a ++ x')). rewrite (scan_app a x' Ha), glue_cand. now apply (Nb x' Y).
Qed.

(* calm: quiet, no hyphen in a tag name, and neutral *)
Definition calm (sty : styles) (a : str) : Prop := quiet a /\ no_hyphen_in_tags a /\ neutral sty false a.
Lemma calm_nil sty : calm sty [].
Proof. split; [split; reflexivity|]. split; [intros X Y E; destruct X; discriminate|intros sk; reflexivity]. Qed.
Lemma calm_app sty a b : calm sty a -> calm sty b -> calm sty (a ++ b).
Proof.
  intros (A1 & A2 & A3) (B1 & B2 & B3). split; [now apply quiet_app|]. split; [apply nh_app; [apply A1|exact A2|exact B2]|].
  intros sk. rewrite effect_app by exact A1. rewrite A3. cbn [bind]. apply B3.
Qed.
(* text without "<" *)
Lemma scan_text t : no_lt t -> scan t = mk [] t CText.
Proof. intros H. unfold scan, lex_init. now rewrite (lex_text t H [] []). Qed.
Lemma nh_text t : no_lt t -> no_hyphen_in_tags t.
Proof.
  intros H X Y E. assert (no_lt X) as HX by (rewrite E in H; apply Forall_app in H; tauto).
  fold (scan X). now rewrite (scan_text X HX).
Qed.
Lemma calm_text sty t : no_lt t -> ends_with_bsl t = false -> calm sty t.
Proof.
  intros H E. split; [unfold quiet; rewrite (scan_text t H); split; [reflexivity|exact E]|]. split; [now apply nh_text|].
  intros sk. now apply effect_no_lt.
Qed.
(* a tag *)
Definition tag_str (cl : bool) (nm : str) : str := LT :: (if cl then [SLASH] else []) ++ nm ++ [GT].
Lemma scan_tag_from cl nm cur : tag_name nm -> no_lt cur ->
  scan (cur ++ tag_str cl nm) = mk [(cur, Tag (tag_str cl nm) cl nm)] [] CText.
Proof.
  intros Hn Hc. unfold scan. rewrite fold_left_app. fold (scan cur). rewrite (scan_text cur Hc). unfold tag_str, mk.
  now rewrite (lex_tag cl nm Hn [] cur).
Qed.
Lemma nh_tag_from cl nm cur : tag_name nm -> no_lt cur -> ~ In HY nm -> no_hyphen_in_tags (cur ++ tag_str cl nm).
Proof.
  intros Hn Hc Hh. apply nh_app; [now rewrite (scan_text cur Hc)|now apply nh_text|].
  intros X Y E. exfalso. assert (In HY (tag_str cl nm)) as Hin by (rewrite E; apply in_or_app; right; now left).
  unfold tag_str in Hin. destruct Hin as [Hin|Hin]; [discriminate|]. apply in_app_or in Hin as [Hin|Hin].
  - destruct cl; [destruct Hin as [Hin|[]]; discriminate|destruct Hin].
  - apply in_app_or in Hin as [Hin|[Hin|[]]]; [contradiction|discriminate].
Qed.
Lemma quiet_tag_from cl nm cur : tag_name nm -> no_lt cur -> quiet (cur ++ tag_str cl nm).
Proof. intros Hn Hc. unfold quiet. rewrite (scan_tag_from cl nm cur Hn Hc). split; reflexivity. Qed.
Lemma effect_tag_from sty cl nm cur sk : tag_name nm -> no_lt cur ->
  effect sty false (cur ++ tag_str cl nm) sk = tag_stack sty (ends_with_bsl cur) (Tag (tag_str cl nm) cl nm) sk.
Proof.
  intros Hn Hc. unfold effect. fold (scan (cur ++ tag_str cl nm)). rewrite (scan_tag_from cl nm cur Hn Hc). cbn [mk l_done segs_stack].
  rewrite esc_of_false. destruct (tag_stack sty (ends_with_bsl cur) _ sk); reflexivity.
Qed.
(* a tag behind a backslash: text *)
Lemma calm_escaped sty cl nm t : tag_name nm -> ~ In HY nm -> no_lt t -> ends_with_bsl t = true -> calm sty (t ++ tag_str cl nm).
Proof.
  intros Hn Hh Ht He. split; [now apply quiet_tag_from|]. split; [now apply nh_tag_from|].
  intros sk. rewrite (effect_tag_from sty cl nm t sk Hn Ht), He. reflexivity.
Qed.
(* a name that is no style: resolve answers None for it, and never raises, when it holds no "=" *)
Lemma kv_no_eq s : ~ In EQS s -> kv_matches s = [].
Proof.
  intros H. unfold kv_matches.
  assert (forall s k, ~ In EQS s -> fold_left kv_step s ([], KKey k) = ([], KKey (k ++ s))) as Hk.
  { clear. induction s as [|c r IH]; intros k H; cbn [fold_left]; [now rewrite app_nil_r|]. unfold kv_step at 2.
    destruct (N.eqb_spec c EQS) as [->|]; [exfalso; apply H; now left|]. rewrite IH by (intros Hin; apply H; now right).
    now rewrite <- app_assoc. }
  now rewrite (Hk s [] H).
Qed.
Definition style_of (sty : styles) (nm : str) : option pstyle := aget str_eqb (py_lower nm) sty.
Lemma resolve_no_eq sty nm : ~ In EQS (py_lower nm) -> resolve sty (py_lower nm) = Ok (style_of sty nm).
Proof. intros H. unfold resolve, style_of. destruct (aget str_eqb (py_lower nm) sty); [reflexivity|]. now rewrite (kv_no_eq _ H). Qed.
Lemma pop_pushed st sk : pop_style st (sk ++ [st]) = Ok sk.
Proof.
  unfold pop_style. destruct (sk ++ [st]) eqn:E; [destruct sk; discriminate|]. rewrite <- E, rev_app_distr. cbn [rev app cut_rev].
  now rewrite pstyle_eqb_refl, rev_involutive.
Qed.
(* a pair of tags around calm text *)
Lemma calm_pair sty nm x : tag_name nm -> ~ In HY nm -> ~ In EQS (py_lower nm) -> calm sty x ->
  calm sty (tag_str false nm ++ x ++ tag_str true nm).
Proof.
  intros Hn Hh He (X1 & X2 & X3).
  pose proof (quiet_tag_from false nm [] Hn ltac:(constructor)) as Q1. pose proof (quiet_tag_from true nm [] Hn ltac:(constructor)) as Q2.
  pose proof (nh_tag_from false nm [] Hn ltac:(constructor) Hh) as N1. pose proof (nh_tag_from true nm [] Hn ltac:(constructor) Hh) as N2.
  cbn [app] in Q1, Q2, N1, N2.
  split; [apply quiet_app; [exact Q1|now apply quiet_app]|].
  split; [apply nh_app; [apply Q1|exact N1|apply nh_app; [apply X1|exact X2|exact N2]]|].
  intros sk. rewrite effect_app by exact Q1. pose proof (effect_tag_from sty false nm [] sk Hn ltac:(constructor)) as E1. cbn [app] in E1.
  rewrite E1. unfold tag_stack. cbn [ends_with_bsl rev andb]. rewrite (resolve_no_eq sty nm He). cbn [bind].
  assert ((match nm with [] => true | _ => false end) = false) as Hnm by (destruct nm; [contradiction|reflexivity]).
  destruct (style_of sty nm) as [st|] eqn:Es; cbn [bind].
  - rewrite effect_app by exact X1. rewrite X3. cbn [bind].
    pose proof (effect_tag_from sty true nm [] (sk ++ [st]) Hn ltac:(constructor)) as E2. cbn [app] in E2. rewrite E2.
    unfold tag_stack. cbn [ends_with_bsl rev andb]. rewrite Hnm, (resolve_no_eq sty _ He), Es. cbn [bind]. apply pop_pushed.
  - rewrite effect_app by exact X1. rewrite X3. cbn [bind].
    pose proof (effect_tag_from sty true nm [] sk Hn ltac:(constructor)) as E2. cbn [app] in E2. rewrite E2.
    unfold tag_stack. cbn [ends_with_bsl rev andb]. rewrite Hnm, (resolve_no_eq sty _ He), Es. reflexivity.
Qed.
(* a tag that is no style *)
Lemma calm_inert sty nm : tag_name nm -> ~ In HY nm -> ~ In EQS (py_lower nm) -> style_of sty nm = None -> calm sty (tag_str false nm).
Proof.
  intros Hn Hh He Hs. pose proof (quiet_tag_from false nm [] Hn ltac:(constructor)) as Q1.
  pose proof (nh_tag_from false nm [] Hn ltac:(constructor) Hh) as N1. cbn [app] in Q1, N1. split; [exact Q1|]. split; [exact N1|].
  intros sk. pose proof (effect_tag_from sty false nm [] sk Hn ltac:(constructor)) as E1. cbn [app] in E1. rewrite E1.
  unfold tag_stack. cbn [ends_with_bsl rev andb]. now rewrite (resolve_no_eq sty nm He), Hs.
Qed.
(* "<" followed by something that starts no tag: text *)
Lemma scan_raw t c r : no_lt t -> tag_start c = false -> c <> SLASH -> no_lt (c :: r) -> scan (t ++ LT :: c :: r) = mk [] (t ++ LT :: c :: r) CText.
Proof.
  intros Ht Hc Hs Hr. unfold scan. rewrite fold_left_app. fold (scan t). rewrite (scan_text t Ht). cbn [fold_left]. unfold mk.
  rewrite step_text_lt. inversion Hr as [|? ? Hc1 Hr']; subst.
  assert (lex_step {| l_done := []; l_cur := t; l_cand := COpen |} c = {| l_done := []; l_cur := t ++ [LT; c]; l_cand := CText |}) as ->.
  { unfold lex_step. cbn [l_done l_cur l_cand raw_of]. apply N.eqb_neq in Hc1, Hs. now rewrite Hc1, Hs, Hc. }
  rewrite (lex_text r Hr'). now rewrite <- app_assoc.
Qed.
Lemma calm_raw sty t c r : no_lt t -> tag_start c = false -> c <> SLASH -> no_lt (c :: r) -> ends_with_bsl (c :: r) = false ->
  calm sty (t ++ LT :: c :: r).
Proof.
  intros Ht Hc Hs Hr He.
  split; [unfold quiet; rewrite (scan_raw t c r Ht Hc Hs Hr); split; [reflexivity|]|].
  { cbn [mk l_cur]. change (t ++ LT :: c :: r) with (t ++ [LT] ++ c :: r). now rewrite app_assoc, ends_app. }
  split.
  - intros X Y E. change (t ++ LT :: c :: r) with (t ++ [LT] ++ (c :: r)) in E.
    apply app_split in E as [(y' & -> & _)|(x' & -> & E)].
    { apply Forall_app in Ht as [Ht _]. fold (scan X). now rewrite (scan_text X Ht). }
    apply app_split in E as [(y' & E & _)|(x'' & -> & E)].
    { destruct x' as [|z x']; [discriminate|]. destruct x'; discriminate. }
    cbn [app]. destruct x'' as [|z x''].
    + rewrite fold_left_app. fold (scan t). rewrite (scan_text t Ht).
      cbn [fold_left]. unfold mk. now rewrite step_text_lt.
    + cbn [app] in E. injection E as Ez E. subst z. assert (no_lt (c :: x'')) as Hzx.
      { rewrite E in Hr. inversion Hr as [|? ? Hc0 Hr0]; subst. constructor; [assumption|]. apply Forall_app in Hr0. tauto. }
      fold (scan (t ++ LT :: c :: x'')). now rewrite (scan_raw t c x'' Ht Hc Hs Hzx).
  - intros sk. unfold effect. fold (scan (t ++ LT :: c :: r)). now rewrite (scan_raw t c r Ht Hc Hs Hr).
Qed.

(* ---- behind quiet text the text itself does not end with a backslash ---- *)
Lemma scan_ends a : l_cand (scan a) = CText -> ends_with_bsl a = ends_with_bsl (l_cur (scan a)).
Proof.
  destruct a as [|c a'] using rev_ind; [reflexivity|]. clear IHa'. unfold scan. rewrite fold_left_app. cbn [fold_left]. fold (scan a').
  destruct (lex_step_shape (scan a') c) as [[_ E]|[[_ E]|[(k & _ & Ht & Er & E)|(cl & nm & Ec & E)]]]; rewrite E; cbn [mk l_cand l_cur]; intros Hk.
  - discriminate.
  - now rewrite !app_assoc, !ends_snoc.
  - subst k. cbn [raw_of] in Er. destruct (raw_of (l_cand (scan a'))); discriminate.
  - subst c. now rewrite ends_snoc.
Qed.
Lemma quiet_ends a : quiet a -> ends_with_bsl a = false.
Proof. intros [H1 H2]. now rewrite (scan_ends a H1). Qed.
Lemma calm_join sty : forall l, Forall (calm sty) l -> calm sty (join_with 32%N l).
Proof.
  induction 1 as [|x r Hx Hr IH]; [apply calm_nil|]. destruct r as [|y r]; [exact Hx|].
  change (join_with 32%N (x :: y :: r)) with (x ++ [32%N] ++ join_with 32%N (y :: r)).
  apply calm_app; [exact Hx|]. apply calm_app; [|exact IH]. apply calm_text; [repeat constructor; discriminate|reflexivity].
Qed.

(* ---- munge: textwrap's view of a text ---- *)
Lemma munge_app a b : munge (a ++ b) = munge a ++ munge b.
Proof. apply map_app. Qed.
Lemma tw_space_not_bsl c : tw_space c = true -> c <> BSL.
Proof.
  unfold tw_space. intros H. apply existsb_exists in H as (x & Hin & E). apply N.eqb_eq in E. subst x.
  cbn [In] in Hin. repeat (destruct Hin as [<-|Hin]; [discriminate|]). contradiction.
Qed.
Lemma munge_ends t : ends_with_bsl (munge t) = ends_with_bsl t.
Proof.
  unfold ends_with_bsl, munge. rewrite <- map_rev. destruct (rev t) as [|c r]; [reflexivity|]. cbn [map].
  destruct (tw_space c) eqn:E; [|reflexivity]. apply tw_space_not_bsl, N.eqb_neq in E. now rewrite E.
Qed.
Definition spaceless (t : str) : Prop := Forall (fun c => tw_space c = false) t.
Lemma munge_id t : spaceless t -> munge t = t.
Proof. induction 1 as [|c r Hc Hr IH]; [reflexivity|]. cbn [munge map]. rewrite Hc. f_equal. exact IH. Qed.
Lemma munge_join : forall l, munge (join_with 32%N l) = join_with 32%N (map munge l).
Proof.
  induction l as [|x r IH]; [reflexivity|]. destruct r as [|y r]; [reflexivity|].
  change (join_with 32%N (x :: y :: r)) with (x ++ 32%N :: join_with 32%N (y :: r)). rewrite munge_app. cbn [munge map].
  fold (munge (join_with 32%N (y :: r))). rewrite IH. reflexivity.
Qed.
Lemma munge_no_bsl t : no_bsl t -> no_bsl (munge t).
Proof.
  intros H. unfold munge, no_bsl in *. apply Forall_forall. intros c Hc. apply in_map_iff in Hc as [x [<- Hx]]. rewrite Forall_forall in H.
  destruct (tw_space x); [discriminate|now apply H].
Qed.

(* ---- names ---- *)
(* a name the help model wraps in tags: no "<", no backslash *)
Definition plain (n : str) : Prop := no_lt n /\ no_bsl n.
Lemma plain_munge n : plain n -> plain (munge n).
Proof. intros [H1 H2]. split; [now apply munge_no_lt|now apply munge_no_bsl]. Qed.
Lemma plain_calm sty n : plain n -> calm sty n.
Proof. intros [H1 H2]. apply calm_text; [exact H1|now apply no_bsl_ends]. Qed.
Lemma plain_app a b : plain a -> plain b -> plain (a ++ b).
Proof. intros [A1 A2] [B1 B2]. split; apply Forall_app; auto. Qed.
Ltac plain_const := split; repeat constructor; discriminate.
Definition NM_C1 : str := [99; 49]%N. Definition NM_B : str := [98]%N. Definition NM_U : str := [117]%N.
Definition simple_nm (nm : str) : Prop := tag_name nm /\ ~ In HY nm /\ ~ In EQS (py_lower nm).
Lemma simple_c1 : simple_nm NM_C1.
Proof. split; [split; [reflexivity|repeat constructor]|]. split; cbn; intros H; repeat (destruct H as [H|H]; [discriminate|]); exact H. Qed.
Lemma simple_b : simple_nm NM_B.
Proof. split; [split; [reflexivity|repeat constructor]|]. split; cbn; intros H; repeat (destruct H as [H|H]; [discriminate|]); exact H. Qed.
Lemma simple_u : simple_nm NM_U.
Proof. split; [split; [reflexivity|repeat constructor]|]. split; cbn; intros H; repeat (destruct H as [H|H]; [discriminate|]); exact H. Qed.
Lemma calm_wrap sty nm x : simple_nm nm -> calm sty x -> calm sty (tag_str false nm ++ x ++ tag_str true nm).
Proof. intros (H1 & H2 & H3). now apply calm_pair. Qed.
Definition B_OPEN : str := tag_str false NM_B. Definition B_CLOSE : str := tag_str true NM_B.
Definition U_OPEN : str := tag_str false NM_U. Definition U_CLOSE : str := tag_str true NM_U.

(* ---- the labels of the help model: calm, once and for all ---- *)
Lemma dashes_plain n : plain n -> plain (DASH :: DASH :: n) /\ plain (DASH :: n).
Proof. intros [H1 H2]. split; split; repeat (constructor; [discriminate|]); assumption. Qed.
Lemma option_label_calm sty h : plain (o_long (h_o h)) -> (match o_short (h_o h) with Some s => plain s | None => True end) ->
  calm sty (elem_label (render_option h)).
Proof.
  intros Hl Hs. rewrite render_option_names_lemma. change C1 with (tag_str false NM_C1). change C1E with (tag_str true NM_C1).
  destruct (dashes_plain _ Hl) as [Hll _].
  destruct (bit (o_flags (h_o h)) 0).
  - rewrite app_assoc, app_assoc, <- (app_assoc (tag_str false NM_C1)). apply calm_app; [apply calm_wrap; [exact simple_c1|now apply plain_calm]|].
    destruct (o_short (h_o h)) as [s|]; [|apply calm_nil]. destruct (dashes_plain _ Hs) as [_ Hss]. apply plain_calm.
    apply plain_app; [plain_const|]. apply plain_app; [exact Hss|plain_const].
  - rewrite app_assoc, app_assoc, <- (app_assoc (tag_str false NM_C1)). apply calm_app.
    + apply calm_wrap; [exact simple_c1|]. destruct (o_short (h_o h)) as [s|]; [destruct (dashes_plain _ Hs) as [_ Hss]; now apply plain_calm|].
      apply plain_calm. plain_const.
    + apply plain_calm. apply plain_app; [plain_const|]. apply plain_app; [exact Hll|plain_const].
Qed.
(* <c1><</c1>: the "<" that opens the placeholder, kept apart from the name *)
Lemma lt_wrapped_calm sty : calm sty (C1 ++ [LT] ++ C1E).
Proof.
  assert (scan (C1 ++ [LT] ++ C1E) = mk [([], Tag C1 false NM_C1); ([LT], Tag C1E true NM_C1)] [] CText) as Es by (vm_compute; reflexivity).
  split; [unfold quiet; rewrite Es; split; reflexivity|]. split; [apply nhb_ok; vm_compute; reflexivity|].
  intros sk. unfold effect. fold (scan (C1 ++ [LT] ++ C1E)). rewrite Es. cbn [mk l_done segs_stack]. rewrite !esc_of_false.
  change (ends_with_bsl []) with false. change (ends_with_bsl [LT]) with false.
  destruct simple_c1 as (_ & _ & He). pose proof (resolve_no_eq sty NM_C1 He) as Hr. unfold tag_stack.
  change (match NM_C1 with [] => true | _ => false end) with false. cbn [andb]. rewrite Hr. cbn [bind].
  destruct (style_of sty NM_C1) as [st|]; cbn [bind]; [now rewrite pop_pushed|reflexivity].
Qed.
Lemma argument_label_calm sty a : plain (a_name (h_a a)) -> calm sty (elem_label (render_argument a)).
Proof.
  intros Hn. rewrite render_argument_name_lemma. rewrite app_assoc, app_assoc. apply calm_app.
  - rewrite <- app_assoc. apply lt_wrapped_calm.
  - rewrite (app_assoc (a_name (h_a a))). change C1 with (tag_str false NM_C1). change C1E with (tag_str true NM_C1).
    apply calm_wrap; [exact simple_c1|]. apply plain_calm. apply plain_app; [exact Hn|plain_const].
Qed.
Lemma command_label_calm sty n : plain n -> calm sty (C1 ++ n ++ C1E).
Proof. intros Hn. change C1 with (tag_str false NM_C1). change C1E with (tag_str true NM_C1). apply calm_wrap; [exact simple_c1|now apply plain_calm]. Qed.
Lemma u_tag_calm sty n : plain n -> calm sty (u_tag n).
Proof. intros Hn. unfold u_tag. change [60;117;62]%N with (tag_str false NM_U). change [60;47;117;62]%N with (tag_str true NM_U). apply calm_wrap; [exact simple_u|now apply plain_calm]. Qed.

(* ---- the synopsis ---- *)
Lemma calm_bracketed sty x : calm sty x -> calm sty ([91%N] ++ x ++ [93%N]).
Proof. intros H. apply calm_app; [apply plain_calm; plain_const|]. apply calm_app; [exact H|apply plain_calm; plain_const]. Qed.
Lemma synopsis_label_calm sty app_name names opts args prefix lo :
  (match app_name with Some n => plain n | None => True end) -> Forall plain names -> plain prefix ->
  calm sty (elem_label (synopsis sty app_name names opts args prefix lo)).
Proof.
  intros Ha Hn Hp. unfold synopsis. cbv zeta. cbn [elem_label]. set (parts := u_tag _ :: map u_tag names).
  assert (Forall (calm sty) parts) as Hparts.
  { subst parts. constructor.
    - apply u_tag_calm. destruct app_name as [[|c r]|]; [plain_const|exact Ha|plain_const].
    - clear - Hn. induction Hn; cbn [map]; constructor; auto. now apply u_tag_calm. }
  apply calm_app; [now apply plain_calm|]. apply calm_join. destruct lo; [|exact Hparts].
  destruct (removelast_last_P (calm sty) parts [] Hparts (calm_nil sty)) as [H1 H2].
  apply Forall_app. split; [exact H1|]. constructor; [|constructor]. now apply calm_bracketed.
Qed.

(* "<name>" in the synopsis: escaped when the name is a style; else it must be no style - a tag the formatter does not know, or no
   tag at all ("<...>") *)
Definition ph_name (nm : str) : Prop :=
  spaceless nm /\ (simple_nm nm \/ exists c r, nm = c :: r /\ tag_start c = false /\ c <> SLASH /\ no_lt nm).
Lemma is_tag_style sty nm st : simple_nm nm -> style_of sty nm = Some st -> is_tag sty nm = true.
Proof.
  intros (Hn & Hh & He) Hs. unfold is_tag. cbv zeta.
  set (probe := [60%N] ++ nm ++ [62; 60; 47]%N ++ nm ++ [62%N]).
  assert (probe = tag_str false nm ++ [] ++ tag_str true nm) as Ep.
  { subst probe. unfold tag_str. cbn [app]. now rewrite <- !app_assoc. }
  assert (ends_with_bsl probe = false) as Eb.
  { subst probe. rewrite !app_assoc. now rewrite ends_snoc. }
  pose proof (calm_pair sty nm [] Hn Hh He (calm_nil sty)) as (_ & _ & Hneu). rewrite <- Ep in Hneu.
  destruct (colorize sty false [] probe) as [[sk' out]|k] eqn:E.
  - apply colorize_plain_of in E. rewrite Eb in E. cbn [snd].
    assert (out = []) as ->; [|subst probe; reflexivity].
    rewrite E. unfold plain_of, wout. fold (scan probe). rewrite Ep.
    assert (scan (tag_str false nm ++ [] ++ tag_str true nm) =
            mk [([], Tag (tag_str false nm) false nm); ([], Tag (tag_str true nm) true nm)] [] CText) as ->.
    { cbn [app]. pose proof (lex_wrapped nm [] Hn ltac:(constructor)) as Hl. unfold lex, lex_end in Hl. unfold scan.
      unfold open_tag, close_tag in Hl. cbn [app] in Hl. unfold tag_str. cbn [app].
      destruct (fold_left lex_step _ lex_init) as [d c k]. cbn [l_done l_cur l_cand fst snd] in Hl. injection Hl as -> Hc.
      destruct c; [|discriminate]. destruct k; try discriminate. reflexivity. }
    cbn [mk l_done l_cur l_cand plain_segs raw_of app]. unfold kept, recognised. cbn [esc_of andb orb].
    assert ((match nm with [] => true | _ => false end) = false) as -> by (destruct nm; [contradiction|reflexivity]).
    rewrite (resolve_no_eq sty nm He), Hs. cbn [andb orb negb]. reflexivity.
  - exfalso. destruct (colorize_of_effect sty false [] probe [] ) as [o Ho]; [rewrite Eb; apply Hneu|congruence].
Qed.
Lemma placeholder_shape sty nm : placeholder sty nm = (if is_tag sty nm then [BSL] else []) ++ LT :: nm ++ [GT].
Proof. reflexivity. Qed.
Lemma placeholder_calm sty nm t : ph_name nm -> no_lt t -> ends_with_bsl t = false -> calm sty (t ++ placeholder sty nm).
Proof.
  intros [_ [Hs|(c & r & -> & Hc & Hsl & Hl)]] Ht Hb; rewrite placeholder_shape.
  - pose proof Hs as (Hn & Hh & He). change (LT :: nm ++ [GT]) with (tag_str false nm).
    destruct (is_tag sty nm) eqn:Ei.
    + rewrite app_assoc. apply calm_escaped; [exact Hn|exact Hh| |now rewrite ends_snoc].
      apply Forall_app. split; [exact Ht|repeat constructor; discriminate].
    + cbn [app]. apply calm_app; [now apply calm_text|]. apply calm_inert; [exact Hn|exact Hh|exact He|].
      destruct (style_of sty nm) as [st|] eqn:Es; [|reflexivity]. rewrite (is_tag_style sty nm st Hs Es) in Ei. discriminate.
  - assert (no_lt (c :: r ++ [GT])) as Hl'.
    { change (c :: r ++ [GT]) with ((c :: r) ++ [GT]). apply Forall_app. split; [exact Hl|repeat constructor; discriminate]. }
    assert (ends_with_bsl (c :: r ++ [GT]) = false) as He' by (change (c :: r ++ [GT]) with ((c :: r) ++ [GT]); now rewrite ends_snoc).
    destruct (is_tag sty (c :: r)).
    + rewrite app_assoc. cbn [app]. apply calm_raw; auto. apply Forall_app. split; [exact Ht|repeat constructor; discriminate].
    + cbn [app]. now apply calm_raw.
Qed.
Lemma placeholder_munge sty nm : spaceless nm -> munge (placeholder sty nm) = placeholder sty nm.
Proof.
  intros H. apply munge_id. rewrite placeholder_shape. apply Forall_app. split; [destruct (is_tag sty nm); repeat constructor|].
  constructor; [reflexivity|]. apply Forall_app. split; [exact H|repeat constructor].
Qed.
Lemma ph_name_snoc nm c : ph_name nm -> tag_char c = true -> tw_space c = false -> c <> HY -> ~ In EQS (lower1 c) -> c <> LT -> ph_name (nm ++ [c]).
Proof.
  intros [Hsp Hk] Hc Hw Hh He Hlt. split; [apply Forall_app; split; [exact Hsp|repeat constructor; exact Hw]|].
  destruct Hk as [(Hn & Hhy & Heq)|(c0 & r & -> & H1 & H2 & H3)].
  - left. split; [|split].
    + destruct nm as [|c0 r]; [contradiction|]. destruct Hn as [Hn1 Hn2]. split; [exact Hn1|]. apply Forall_app. split; [exact Hn2|repeat constructor; exact Hc].
    + intros Hin. apply in_app_or in Hin as [Hin|[Hin|[]]]; [contradiction|congruence].
    + unfold py_lower. rewrite flat_map_app. intros Hin. apply in_app_or in Hin as [Hin|Hin]; [contradiction|]. cbn [flat_map] in Hin.
      rewrite app_nil_r in Hin. contradiction.
  - right. exists c0, (r ++ [c]). repeat split; auto. change (c0 :: r ++ [c]) with ((c0 :: r) ++ [c]). apply Forall_app. split; [exact H3|repeat constructor; exact Hlt].
Qed.

(* ---- the configuration ---- *)
Definition opt_fine (h : hopt) : Prop :=
  plain (o_long (h_o h)) /\ (match o_short (h_o h) with Some s => plain s | None => True end) /\
  no_lt (odesc (h_odesc h)) /\ ph_name (h_vname h) /\ no_lt (json (o_default (h_o h))).
Definition arg_fine (a : harg) : Prop :=
  plain (a_name (h_a a)) /\ ph_name (a_name (h_a a)) /\ no_lt (odesc (h_adesc a)) /\
  no_lt (json (a_default (h_a a))) /\ ends_with_bsl (json (a_default (h_a a))) = false.

Lemma preferred_plain h : opt_fine h -> plain (fst (opt_preferred (h_o h))).
Proof.
  intros (H1 & H2 & _). unfold opt_preferred. destruct (bit (o_flags (h_o h)) 0); cbn [fst]; [apply (dashes_plain _ H1)|].
  destruct (o_short (h_o h)) as [s|]; [apply (dashes_plain _ H2)|plain_const].
Qed.
Lemma plain_ends n : plain n -> ends_with_bsl n = false.
Proof. intros [_ H]. now apply no_bsl_ends. Qed.
Lemma syn_opt_part_calm sty h : opt_fine h -> calm sty (munge (syn_opt_part sty h)).
Proof.
  intros Hf. pose proof (plain_munge _ (preferred_plain h Hf)) as Hn. destruct Hf as (_ & _ & _ & Hv & _).
  pose proof (placeholder_munge sty (h_vname h) (proj1 Hv)) as Hm. unfold syn_opt_part. cbv zeta.
  set (nm := fst (opt_preferred (h_o h))) in *. set (ph := placeholder sty (h_vname h)) in *.
  destruct (o_required (h_o h)); [|destruct (o_optional (h_o h))].
  - rewrite !munge_app, Hm. change (munge [91%N]) with [91%N]. change (munge [93%N]) with [93%N]. change (munge [160%N]) with [160%N].
    replace ([91%N] ++ (munge nm ++ [160%N] ++ ph) ++ [93%N]) with ((([91%N] ++ munge nm ++ [160%N]) ++ ph) ++ [93%N]) by now rewrite <- !app_assoc.
    apply calm_app; [|apply plain_calm; plain_const]. apply placeholder_calm; [exact Hv| |].
    + apply Forall_app. split; [repeat constructor; discriminate|]. apply Forall_app. split; [apply Hn|repeat constructor; discriminate].
    + now rewrite !app_assoc, ends_snoc.
  - rewrite !munge_app, Hm. change (munge [91%N]) with [91%N]. change (munge [93%N]) with [93%N]. change (munge [160; 91]%N) with [160; 91]%N.
    replace ([91%N] ++ (munge nm ++ [160; 91]%N ++ ph ++ [93%N]) ++ [93%N]) with ((([91%N] ++ munge nm ++ [160; 91]%N) ++ ph) ++ [93; 93]%N)
      by now rewrite <- !app_assoc.
    apply calm_app; [|apply plain_calm; plain_const]. apply placeholder_calm; [exact Hv| |].
    + apply Forall_app. split; [repeat constructor; discriminate|]. apply Forall_app. split; [apply Hn|repeat constructor; discriminate].
    + change [160; 91]%N with ([160%N] ++ [91%N]). now rewrite !app_assoc, ends_snoc.
  - rewrite !munge_app. change (munge [91%N]) with [91%N]. change (munge [93%N]) with [93%N].
    apply plain_calm. apply plain_app; [plain_const|]. apply plain_app; [exact Hn|plain_const].
Qed.
Lemma ph_name_digit nm : ph_name nm -> ph_name (nm ++ [49%N]) /\ ph_name (nm ++ [78%N]).
Proof.
  intros H. split; apply ph_name_snoc; try exact H; try reflexivity; try discriminate; cbn; intros [E|[]]; discriminate.
Qed.
Lemma syn_arg_parts_calm sty a : arg_fine a -> Forall (calm sty) (map munge (syn_arg_parts sty a)).
Proof.
  intros (_ & Hp & _). destruct (ph_name_digit _ Hp) as [H1 HN]. unfold syn_arg_parts. cbv zeta.
  assert (ph_name (a_name (h_a a) ++ (if a_multi (h_a a) then [49%N] else []))) as Hn1.
  { destruct (a_multi (h_a a)); [exact H1|now rewrite app_nil_r]. }
  set (n1 := a_name (h_a a) ++ (if a_multi (h_a a) then [49%N] else [])) in *.
  cbn [map]. constructor.
  - destruct (a_required (h_a a)).
    + rewrite (placeholder_munge sty n1 (proj1 Hn1)). apply (placeholder_calm sty n1 [] Hn1); [constructor|reflexivity].
    + rewrite !munge_app, (placeholder_munge sty n1 (proj1 Hn1)). change (munge [91%N]) with [91%N]. change (munge [93%N]) with [93%N].
      rewrite app_assoc. apply calm_app; [|apply plain_calm; plain_const].
      apply placeholder_calm; [exact Hn1|repeat constructor; discriminate|reflexivity].
  - destruct (a_multi (h_a a)); cbn [map]; constructor; [|constructor].
    rewrite !munge_app, (placeholder_munge sty _ (proj1 HN)). change (munge [46; 46; 46; 32; 91]%N) with [46; 46; 46; 32; 91]%N.
    change (munge [93%N]) with [93%N]. rewrite app_assoc. apply calm_app; [|apply plain_calm; plain_const].
    apply placeholder_calm; [exact HN|repeat constructor; discriminate|reflexivity].
Qed.
Lemma synopsis_text_calm sty app_name names opts args prefix lo : Forall opt_fine opts -> Forall arg_fine args ->
  calm sty (munge (elem_text (synopsis sty app_name names opts args prefix lo))).
Proof.
  intros Ho Ha. rewrite synopsis_text, munge_join. apply calm_join. unfold syn_parts. rewrite map_app. apply Forall_app. split.
  - induction Ho; cbn [map]; constructor; [now apply syn_opt_part_calm|assumption].
  - induction Ha; cbn [flat_map map]; [constructor|]. rewrite map_app. apply Forall_app. split; [now apply syn_arg_parts_calm|assumption].
Qed.

(* ---- the text of an option and of an argument ---- *)
Definition markup_fine (sty : styles) (t : str) : Prop := no_lt t \/ (no_hyphen_in_tags (munge t) /\ neutral sty false (munge t)).
Lemma calm_fine sty t : calm sty (munge t) -> markup_fine sty t.
Proof. intros (_ & H2 & H3). right. auto. Qed.
(* a description, a blank, and calm text: the blank keeps a backslash at the end of the description away from the tag *)
Lemma calm_behind_desc sty d rest : no_lt d -> calm sty (munge rest) -> calm sty (munge (d ++ 32%N :: rest)).
Proof.
  intros Hd Hr. rewrite munge_app. change (munge (32%N :: rest)) with (32%N :: munge rest).
  change (munge d ++ 32%N :: munge rest) with (munge d ++ [32%N] ++ munge rest). rewrite app_assoc. apply calm_app; [|exact Hr].
  apply calm_text; [apply Forall_app; split; [now apply munge_no_lt|repeat constructor; discriminate]|now rewrite ends_snoc].
Qed.
Lemma bold_calm sty x : no_lt x -> ends_with_bsl x = false -> calm sty (munge (B_OPEN ++ x ++ B_CLOSE)).
Proof.
  intros Hx He. rewrite !munge_app. change (munge B_OPEN) with B_OPEN. change (munge B_CLOSE) with B_CLOSE.
  apply calm_wrap; [exact simple_b|]. apply calm_text; [now apply munge_no_lt|now rewrite munge_ends].
Qed.
Lemma option_text_fine sty h : opt_fine h -> markup_fine sty (elem_text (render_option h)).
Proof.
  intros (_ & _ & Hd & _ & Hj). unfold render_option. destruct (opt_preferred (h_o h)) as [pref alt]. cbn [elem_text].
  set (d := odesc (h_odesc h)) in *. set (J := json (o_default (h_o h))) in *.
  set (K1 := [32;60;98;62;40;100;101;102;97;117;108;116;58;32]%N). set (K2 := [41;60;47;98;62]%N).
  set (K3 := [32;60;98;62;40;109;117;108;116;105;112;108;101;32;118;97;108;117;101;115;32;97;108;108;111;119;101;100;41;60;47;98;62]%N).
  assert (calm sty (munge (B_OPEN ++ [40;100;101;102;97;117;108;116;58;32]%N ++ J ++ [41%N] ++ B_CLOSE))) as Cdef.
  { rewrite (app_assoc _ J), (app_assoc _ [41%N]). apply bold_calm; [|now rewrite ends_snoc].
    apply Forall_app. split; [apply Forall_app; split; [repeat constructor; discriminate|exact Hj]|repeat constructor; discriminate]. }
  assert (calm sty (munge (B_OPEN ++ [40;109;117;108;116;105;112;108;101;32;118;97;108;117;101;115;32;97;108;108;111;119;101;100;41]%N ++ B_CLOSE))) as Cmul.
  { apply bold_calm; [repeat constructor; discriminate|reflexivity]. }
  set (DEF := B_OPEN ++ [40;100;101;102;97;117;108;116;58;32]%N ++ J ++ [41%N] ++ B_CLOSE) in *.
  set (MUL := B_OPEN ++ [40;109;117;108;116;105;112;108;101;32;118;97;108;117;101;115;32;97;108;108;111;119;101;100;41]%N ++ B_CLOSE) in *.
  destruct (o_accepts (h_o h) && has_default (o_default (h_o h))), (o_multi (h_o h)).
  - apply calm_fine.
    match goal with |- calm _ (munge ?x) => assert (x = d ++ 32%N :: (DEF ++ 32%N :: MUL)) as -> end.
    { subst K1 K2 K3 DEF MUL; unfold B_OPEN, B_CLOSE, tag_str, NM_B; repeat (progress (cbn [app]; rewrite <- ?app_assoc)); reflexivity. }
    apply (calm_behind_desc sty d (DEF ++ 32%N :: MUL) Hd). rewrite munge_app. apply calm_app; [exact Cdef|].
    change (munge (32%N :: MUL)) with ([32%N] ++ munge MUL). apply calm_app; [apply plain_calm; plain_const|exact Cmul].
  - apply calm_fine.
    match goal with |- calm _ (munge ?x) => assert (x = d ++ 32%N :: DEF) as -> end.
    { subst K1 K2 DEF; unfold B_OPEN, B_CLOSE, tag_str, NM_B; repeat (progress (cbn [app]; rewrite <- ?app_assoc)); reflexivity. }
    exact (calm_behind_desc sty d DEF Hd Cdef).
  - apply calm_fine.
    match goal with |- calm _ (munge ?x) => assert (x = d ++ 32%N :: MUL) as -> end.
    { subst K3 MUL; unfold B_OPEN, B_CLOSE, tag_str, NM_B; cbn [app]; reflexivity. }
    exact (calm_behind_desc sty d MUL Hd Cmul).
  - now left.
Qed.
Lemma argument_text_fine sty a : arg_fine a -> markup_fine sty (elem_text (render_argument a)).
Proof.
  intros (_ & _ & Hd & Hj & He). unfold render_argument. cbn [elem_text].
  destruct (has_default (a_default (h_a a))); [|now left]. apply calm_fine.
  replace (odesc (h_adesc a) ++ [32;60;98;62]%N ++ json (a_default (h_a a)) ++ [60;47;98;62]%N)
    with (odesc (h_adesc a) ++ 32%N :: (B_OPEN ++ json (a_default (h_a a)) ++ B_CLOSE)) by reflexivity.
  apply (calm_behind_desc sty (odesc (h_adesc a)) (B_OPEN ++ json (a_default (h_a a)) ++ B_CLOSE) Hd). now apply bold_calm.
Qed.

(* ================= K. the help pages ================= *)
(* what does not depend on the width: labels calm, texts without "<" or calm *)
Definition elem_fine (sty : styles) (e : elem) : Prop :=
  match e with
  | EEmpty => True
  | EPara t => markup_fine sty t
  | ELab label text padding _ =>
    neutral sty false label /\ ends_with_bsl label = false /\ (1 <= padding)%nat /\ markup_fine sty text
  end.
Definition page_fine (sty : styles) (l : layout) : Prop := Forall (fun x => elem_fine sty (snd x)) l.
(* what does: the words of every text that holds a "<" fit the element's wrap width *)
Definition page_words_fit (sty : styles) (W : Z) (l : layout) : Prop :=
  Forall (fun x => no_lt (elem_text (snd x)) \/
                   words_fit (wrap_width W (align_vis sty l 0) (fst x) (vis_of sty (elem_label (snd x))) (snd x)) (elem_text (snd x))) l.
Lemma fine_ok sty W l : page_fine sty l -> page_words_fit sty W l -> layout_ok sty W l.
Proof.
  unfold page_fine, page_words_fit, layout_ok. rewrite !Forall_forall. intros Hf Hw x Hx. specialize (Hf x Hx). specialize (Hw x Hx).
  destruct x as [ind e]. cbn [fst snd] in *. destruct e as [t|label text padding aligned|]; cbn [elem_fine elem_ok elem_text elem_label] in *.
  - destruct Hw as [Hw|Hw]; [now left|]. destruct Hf as [Hf|[H1 H2]]; [now left|right]. repeat split; assumption.
  - destruct Hf as (H1 & H2 & H3 & Hf). repeat split; try assumption.
    destruct Hw as [Hw|Hw]; [now left|]. destruct Hf as [Hf|[H4 H5]]; [now left|right]. repeat split; assumption.
  - exact I.
Qed.

Lemma fl_app sty a b : page_fine sty a -> page_fine sty b -> page_fine sty (a ++ b).
Proof. intros. apply Forall_app. auto. Qed.
Lemma fl_cons sty x l : elem_fine sty (snd x) -> page_fine sty l -> page_fine sty (x :: l).
Proof. intros. constructor; assumption. Qed.
Lemma fl_nil sty : page_fine sty []. Proof. constructor. Qed.
Lemma fl_block sty l : page_fine sty l -> page_fine sty (block l).
Proof. unfold page_fine, block. induction 1 as [|[i e] l H Hl IH]; cbn [map]; constructor; auto. Qed.
Lemma fl_at0 sty es : Forall (elem_fine sty) es -> page_fine sty (at0 es).
Proof. unfold page_fine, at0. induction 1; cbn [map]; constructor; auto. Qed.
Lemma fl_empty sty i : page_fine sty [(i, EEmpty)].
Proof. constructor; [exact I|constructor]. Qed.
Lemma calm_label sty label : calm sty label -> neutral sty false label /\ ends_with_bsl label = false.
Proof. intros (H1 & _ & H3). split; [exact H3|now apply quiet_ends]. Qed.

Lemma heading_fine sty x : no_lt x -> ends_with_bsl x = false -> markup_fine sty (B_OPEN ++ x ++ B_CLOSE).
Proof. intros. apply calm_fine. now apply bold_calm. Qed.
Ltac heading := apply heading_fine; [repeat constructor; discriminate|reflexivity].
Lemma H_USAGE_fine sty : markup_fine sty H_USAGE.
Proof. change H_USAGE with (B_OPEN ++ [85;83;65;71;69]%N ++ B_CLOSE). heading. Qed.
Lemma H_ARGUMENTS_fine sty : markup_fine sty H_ARGUMENTS.
Proof. change H_ARGUMENTS with (B_OPEN ++ [65;82;71;85;77;69;78;84;83]%N ++ B_CLOSE). heading. Qed.
Lemma H_COMMANDS_fine sty : markup_fine sty H_COMMANDS.
Proof. change H_COMMANDS with (B_OPEN ++ [67;79;77;77;65;78;68;83]%N ++ B_CLOSE). heading. Qed.
Lemma H_OPTIONS_fine sty : markup_fine sty H_OPTIONS.
Proof. change H_OPTIONS with (B_OPEN ++ [79;80;84;73;79;78;83]%N ++ B_CLOSE). heading. Qed.
Lemma H_GLOBAL_fine sty : markup_fine sty H_GLOBAL.
Proof. change H_GLOBAL with (B_OPEN ++ [71;76;79;66;65;76;32;79;80;84;73;79;78;83]%N ++ B_CLOSE). heading. Qed.
Lemma H_AVAILABLE_fine sty : markup_fine sty H_AVAILABLE.
Proof. change H_AVAILABLE with (B_OPEN ++ [65;86;65;73;76;65;66;76;69;32;67;79;77;77;65;78;68;83]%N ++ B_CLOSE). heading. Qed.
Lemma H_DESCRIPTION_fine sty : markup_fine sty [60;98;62;68;69;83;67;82;73;80;84;73;79;78;60;47;98;62]%N.
Proof. change [60;98;62;68;69;83;67;82;73;80;84;73;79;78;60;47;98;62]%N with (B_OPEN ++ [68;69;83;67;82;73;80;84;73;79;78]%N ++ B_CLOSE). heading. Qed.

Lemma render_option_fine sty h : opt_fine h -> elem_fine sty (render_option h).
Proof.
  intros Hf. pose proof (option_text_fine sty h Hf) as Ht. pose proof Hf as (H1 & H2 & _).
  pose proof (calm_label sty _ (option_label_calm sty h H1 H2)) as [L1 L2]. revert Ht L1 L2.
  unfold render_option. destruct (opt_preferred (h_o h)) as [pref alt]. cbn [elem_text elem_label elem_fine]. intros Ht L1 L2.
  repeat split; auto.
Qed.
Lemma render_argument_fine sty a : arg_fine a -> elem_fine sty (render_argument a).
Proof.
  intros Hf. pose proof (argument_text_fine sty a Hf) as Ht. pose proof Hf as (H1 & _).
  pose proof (calm_label sty _ (argument_label_calm sty a H1)) as [L1 L2]. revert Ht L1 L2.
  unfold render_argument. cbn [elem_text elem_label elem_fine]. intros Ht L1 L2. repeat split; auto.
Qed.
Lemma fl_args sty l : Forall arg_fine l -> page_fine sty (at0 (map render_argument l)).
Proof. intros H. apply fl_at0. induction H; cbn [map]; constructor; auto using render_argument_fine. Qed.
Lemma fl_opts sty l : Forall opt_fine l -> page_fine sty (at0 (map render_option l)).
Proof. intros H. apply fl_at0. induction H; cbn [map]; constructor; auto using render_option_fine. Qed.
Lemma synopsis_fine sty app_name names opts args prefix lo :
  (match app_name with Some n => plain n | None => True end) -> Forall plain names -> plain prefix ->
  Forall opt_fine opts -> Forall arg_fine args -> elem_fine sty (synopsis sty app_name names opts args prefix lo).
Proof.
  intros Ha Hn Hp Ho Hg. pose proof (calm_label sty _ (synopsis_label_calm sty app_name names opts args prefix lo Ha Hn Hp)) as [L1 L2].
  pose proof (calm_fine sty _ (synopsis_text_calm sty app_name names opts args prefix lo Ho Hg)) as Ht. revert L1 L2 Ht.
  unfold synopsis. cbv zeta. cbn [elem_label elem_text elem_fine]. intros L1 L2 Ht. repeat split; auto.
Qed.

Definition sub_fine (s : sub) : Prop :=
  plain (sb_name s) /\ no_lt (odesc (sb_desc s)) /\ no_lt (odesc (sb_help s)) /\ Forall arg_fine (sb_args s) /\ Forall opt_fine (sb_opts s).
Lemma usage_prefixes_plain n : Forall plain (usage_prefixes n).
Proof.
  unfold usage_prefixes. constructor; [destruct n as [|[|n]]; plain_const|].
  apply Forall_forall. intros q Hq. apply repeat_spec in Hq. subst. plain_const.
Qed.
Lemma usage_section_fine sty app_name ch subs :
  (match app_name with Some n => plain n | None => True end) -> Forall plain (chain_names ch) ->
  Forall arg_fine (chain_args ch) -> Forall opt_fine (own_opts ch) -> Forall sub_fine subs ->
  page_fine sty (usage_section sty app_name ch subs).
Proof.
  intros Ha Hc Hargs Hown Hs. unfold usage_section, page_fine. apply Forall_forall. intros x Hx.
  apply in_map_iff in Hx. destruct Hx as ([e q] & <- & Hin).
  pose proof (in_combine_l _ _ _ _ Hin) as He. pose proof (in_combine_r _ _ _ _ Hin) as Hq.
  pose proof (usage_prefixes_plain (length (usage_entries ch subs))) as Hpre. rewrite Forall_forall in Hpre. specialize (Hpre q Hq).
  unfold usage_line. cbn [fst snd]. destruct e as [[[names opts] args] lo]. cbn [snd].
  apply usage_entry_origin in He. destruct He as [[E _]|(s & Hsin & _ & _ & E)].
  - injection E as -> -> -> _. apply synopsis_fine; assumption.
  - cbn [fst] in E. unfold sub_fmt in E. injection E as -> -> ->. rewrite Forall_forall in Hs.
    destruct (Hs s Hsin) as (S1 & _ & _ & S4 & S5). apply synopsis_fine; [exact Ha| |exact Hpre|exact S5|].
    + apply Forall_app. split; [exact Hc|]. destruct (sb_anonymous s); [constructor|]. constructor; [exact S1|constructor].
    + apply Forall_app. split; assumption.
Qed.
Lemma u_tag_fine sty n : plain n -> markup_fine sty (u_tag n).
Proof.
  intros Hn. apply calm_fine. unfold u_tag. rewrite !munge_app. change (munge [60;117;62]%N) with [60;117;62]%N.
  change (munge [60;47;117;62]%N) with [60;47;117;62]%N. apply (u_tag_calm sty (munge n)). now apply plain_munge.
Qed.
Lemma sub_block_fine sty s : sub_fine s -> page_fine sty (sub_block s).
Proof.
  intros (H1 & H2 & H3 & Ha & Ho). unfold sub_block. apply fl_cons; [now apply u_tag_fine|]. do 2 apply fl_block.
  repeat apply fl_app.
  - destruct (nonempty_opt (sb_desc s)) as [d|] eqn:E; [|apply fl_nil]. apply nonempty_odesc in E. subst d.
    apply fl_cons; [now left|apply fl_empty].
  - destruct (nonempty_opt (sb_help s)) as [d|] eqn:E; [|apply fl_nil]. apply nonempty_odesc in E. subst d.
    apply fl_cons; [now left|apply fl_empty].
  - destruct (sb_args s) as [|x l] eqn:E; [apply fl_nil|]. apply fl_app; [now apply fl_args|apply fl_empty].
  - destruct (sb_opts s) as [|x l] eqn:E; [apply fl_nil|]. apply fl_app; [now apply fl_opts|apply fl_empty].
  - destruct (nonempty_opt (sb_desc s)), (nonempty_opt (sb_help s)), (sb_args s), (sb_opts s); try apply fl_nil; apply fl_empty.
Qed.
Lemma description_block_fine sty help : no_lt (odesc help) -> page_fine sty (description_block help).
Proof.
  intros H. unfold description_block. destruct (nonempty_opt help) as [h|] eqn:E; [|apply fl_nil]. apply nonempty_odesc in E. subst h.
  apply fl_cons; [apply H_DESCRIPTION_fine|]. apply fl_app; [|apply fl_empty].
  unfold paragraphs. pose proof (split_on_P _ 10%N _ H) as Hs. induction Hs; cbn [map]; [apply fl_nil|]. apply fl_cons; [now left|assumption].
Qed.
Lemma global_options_fine sty l : Forall opt_fine l -> page_fine sty (global_options_section l).
Proof.
  intros H. unfold global_options_section. destruct l as [|x r]; [apply fl_nil|].
  apply fl_cons; [apply H_GLOBAL_fine|]. apply fl_app; [apply fl_block; now apply fl_opts|apply fl_empty].
Qed.

Theorem command_page_fine sty app_name ch aliases help subs :
  (match app_name with Some n => plain n | None => True end) -> Forall plain (chain_names ch) ->
  Forall arg_fine (chain_args ch) -> Forall opt_fine (own_opts ch) -> Forall opt_fine (base_opts ch) ->
  Forall sub_fine subs -> Forall no_lt aliases -> no_lt (odesc help) ->
  page_fine sty (command_page sty app_name ch aliases help subs).
Proof.
  intros Ha Hc Hargs Hown Hbase Hsubs Hal Hh. rewrite command_page_sections.
  repeat apply fl_app.
  - apply fl_cons; [apply H_USAGE_fine|apply fl_nil].
  - now apply usage_section_fine.
  - unfold aliases_section. destruct aliases as [|a0 al]; [apply fl_nil|]. apply fl_cons; [exact I|]. apply fl_cons; [|apply fl_nil].
    left. apply Forall_app. split; [repeat constructor; discriminate|]. apply join_comma_P; [discriminate|discriminate|exact Hal].
  - apply fl_empty.
  - unfold arguments_section. destruct (chain_args ch) as [|x l]; [apply fl_nil|].
    apply fl_cons; [apply H_ARGUMENTS_fine|]. apply fl_app; [apply fl_block; now apply fl_args|apply fl_empty].
  - unfold commands_section. destruct (named_subs subs); [apply fl_nil|]. apply fl_cons; [apply H_COMMANDS_fine|].
    unfold page_fine. apply Forall_forall. intros x Hx. apply in_flat_map in Hx. destruct Hx as (s0 & Hs & Hx).
    apply listed_subs_in in Hs. destruct Hs as [Hs _]. rewrite Forall_forall in Hsubs.
    pose proof (sub_block_fine sty s0 (Hsubs s0 Hs)) as Hb. unfold page_fine in Hb. rewrite Forall_forall in Hb. now apply Hb.
  - unfold options_section. destruct (own_opts ch) as [|x l]; [apply fl_nil|].
    apply fl_cons; [apply H_OPTIONS_fine|]. apply fl_app; [apply fl_block; now apply fl_opts|apply fl_empty].
  - now apply global_options_fine.
  - now apply description_block_fine.
Qed.

Lemma builtin_args_fine : Forall arg_fine builtin_args.
Proof.
  assert (forall n, Forall (fun c => is_ascii_alpha c = true) n -> n <> [] -> plain n /\ ph_name n) as Hw.
  { intros n Hn Hne. split; [split; eapply Forall_impl; try exact Hn; intros c Hc E; subst c; discriminate|].
    split; [eapply Forall_impl; [|exact Hn]; intros c Hc; destruct (tw_space c) eqn:E; [|reflexivity];
            unfold tw_space in E; apply existsb_exists in E as (x & Hin & Ex); apply N.eqb_eq in Ex; subst x;
            cbn [In] in Hin; repeat (destruct Hin as [<-|Hin]; [discriminate|]); contradiction|].
    left. split; [|split].
    - destruct n as [|c r]; [congruence|]. inversion Hn; subst. split; [unfold tag_start; now rewrite H1|].
      eapply Forall_impl; [|exact H2]. intros x Hx. unfold tag_char, tag_start. now rewrite Hx.
    - intros Hin. rewrite Forall_forall in Hn. specialize (Hn _ Hin). discriminate.
    - unfold py_lower. intros Hin. apply in_flat_map in Hin as (x & Hx & Hl). rewrite Forall_forall in Hn. specialize (Hn _ Hx).
      unfold lower1 in Hl. destruct (is_upper x) eqn:Eu.
      + destruct Hl as [Hl|[]]. unfold is_upper in Eu. apply andb_prop in Eu as [E1 E2]. apply N.leb_le in E1, E2. unfold EQS in Hl. lia.
      + destruct (N.eqb x 304) eqn:E3; [apply N.eqb_eq in E3; subst x; discriminate|].
        destruct (N.eqb x 8490) eqn:E4; [apply N.eqb_eq in E4; subst x; discriminate|].
        destruct Hl as [Hl|[]]. subst x. discriminate. }
  repeat constructor; cbn [the_command_arg the_arg_arg h_a h_adesc a_name a_default odesc];
    try (apply Hw; [repeat constructor|discriminate]); try (repeat constructor; discriminate); try reflexivity;
    cbn; intros H; repeat (destruct H as [H|H]; [discriminate|]); exact H.
Qed.
Lemma name_version_fine sty display version : no_lt (odesc display) -> plain (odesc version) -> elem_fine sty (name_version display version).
Proof.
  intros Hd Hv. unfold name_version. destruct (nonempty_opt display) as [d|] eqn:E1; [|left; repeat constructor; discriminate].
  apply nonempty_odesc in E1. subst d. destruct (nonempty_opt version) as [v|] eqn:E2; [|now left].
  apply nonempty_odesc in E2. subst v. cbn [elem_fine]. apply calm_fine.
  set (d := odesc display) in *. set (v := odesc version) in *.
  change (d ++ [32;118;101;114;115;105;111;110;32]%N ++ [60;99;49;62]%N ++ v ++ [60;47;99;49;62]%N)
    with (d ++ 32%N :: ([118;101;114;115;105;111;110;32]%N ++ C1 ++ v ++ C1E)).
  apply (calm_behind_desc sty d _ Hd). rewrite !munge_app. change (munge C1) with C1. change (munge C1E) with C1E.
  change (munge [118;101;114;115;105;111;110;32]%N) with [118;101;114;115;105;111;110;32]%N.
  apply calm_app; [apply plain_calm; plain_const|]. apply command_label_calm. now apply plain_munge.
Qed.
Theorem application_page_fine sty app_name display version gopts cmds help :
  (match app_name with Some n => plain n | None => True end) ->
  no_lt (odesc display) -> plain (odesc version) -> Forall opt_fine gopts ->
  Forall (fun c => plain (ac_name c) /\ no_lt (ac_desc c)) cmds -> no_lt (odesc help) ->
  page_fine sty (application_page sty app_name display version gopts cmds help).
Proof.
  intros Ha Hd Hv Hg Hc Hh. rewrite application_page_decomposes. unfold application_page_before.
  repeat apply fl_app.
  - apply fl_cons; [now apply name_version_fine|]. apply fl_cons; [exact I|]. apply fl_cons; [apply H_USAGE_fine|].
    apply fl_cons; [|apply fl_empty]. apply synopsis_fine; [exact Ha|constructor|plain_const|exact Hg|exact builtin_args_fine].
  - apply fl_cons; [apply H_ARGUMENTS_fine|]. apply fl_app; [|apply fl_empty]. apply fl_block, fl_args, builtin_args_fine.
  - now apply global_options_fine.
  - unfold available_section. destruct (named_cmds cmds); [apply fl_nil|]. apply fl_cons; [apply H_AVAILABLE_fine|].
    apply fl_app; [|apply fl_empty].
    unfold page_fine. apply Forall_forall. intros x Hx. apply in_map_iff in Hx. destruct Hx as (c0 & <- & Hin).
    apply listed_cmds_in in Hin. destruct Hin as [Hin _]. rewrite Forall_forall in Hc. destruct (Hc c0 Hin) as [C1' C2'].
    unfold cmd_line. cbn [snd elem_fine]. destruct (calm_label sty _ (command_label_calm sty _ C1')) as [L1 L2].
    repeat split; auto. now left.
  - now apply description_block_fine.
Qed.

Definition page_words_fitb (sty : styles) (W : Z) (l : layout) : bool :=
  forallb (fun x => no_ltb (elem_text (snd x)) ||
                    words_fitb (wrap_width W (align_vis sty l 0) (fst x) (vis_of sty (elem_label (snd x))) (snd x)) (elem_text (snd x))) l.
Lemma page_words_fitb_ok sty W l : page_words_fitb sty W l = true -> page_words_fit sty W l.
Proof.
  unfold page_words_fitb, page_words_fit. rewrite forallb_forall, Forall_forall. intros H x Hx. specialize (H x Hx).
  apply orb_prop in H as [H|H]; [left; now apply no_ltb_ok|right; now apply words_fitb_ok].
Qed.

(* The help pages of a configuration whose descriptions hold no "<": they render - and fit - on every terminal that has room
   for the labels and on which no word that holds a tag has to be broken. *)
Local Open Scope Z_scope.
Theorem command_help_renders_and_fits_plain_lemma W f app_name ch aliases help subs :
  f_kind f = FPlain ->
  (match app_name with Some n => no_nl n | None => True end) -> Forall no_nl (chain_names ch) ->
  Forall arg_one_line (chain_args ch) -> Forall opt_one_line (own_opts ch) -> Forall opt_one_line (base_opts ch) ->
  Forall sub_one_line subs ->
  (match app_name with Some n => plain n | None => True end) -> Forall plain (chain_names ch) ->
  Forall arg_fine (chain_args ch) -> Forall opt_fine (own_opts ch) -> Forall opt_fine (base_opts ch) ->
  Forall sub_fine subs -> Forall no_lt aliases -> no_lt (odesc help) ->
  needed_width_for (f_styles f) (command_page (f_styles f) app_name ch aliases help subs) <= W ->
  page_words_fit (f_styles f) W (command_page (f_styles f) app_name ch aliases help subs) ->
  exists s, render_page W f (command_page (f_styles f) app_name ch aliases help subs) = Ok s
            /\ Forall (fun ln => zlen ln <= W - 1) (split_on 10%N s).
Proof.
  intros Hk O1 O2 O3 O4 O5 O6 F1 F2 F3 F4 F5 F6 F7 F8 HW Hfit.
  apply page_renders_and_fits_plain_lemma; [exact Hk|now apply command_page_one_line|exact HW|].
  apply fine_ok; [now apply command_page_fine|exact Hfit].
Qed.
Theorem command_help_renders_and_fits_ansi_lemma W f app_name ch aliases help subs :
  is_ansi f ->
  (match app_name with Some n => no_nl n | None => True end) -> Forall no_nl (chain_names ch) ->
  Forall arg_one_line (chain_args ch) -> Forall opt_one_line (own_opts ch) -> Forall opt_one_line (base_opts ch) ->
  Forall sub_one_line subs ->
  (match app_name with Some n => plain n | None => True end) -> Forall plain (chain_names ch) ->
  Forall arg_fine (chain_args ch) -> Forall opt_fine (own_opts ch) -> Forall opt_fine (base_opts ch) ->
  Forall sub_fine subs -> Forall no_lt aliases -> no_lt (odesc help) ->
  clean_layout (command_page (f_styles f) app_name ch aliases help subs) ->
  needed_width_for (f_styles f) (command_page (f_styles f) app_name ch aliases help subs) <= W ->
  page_words_fit (f_styles f) W (command_page (f_styles f) app_name ch aliases help subs) ->
  exists s, render_page W f (command_page (f_styles f) app_name ch aliases help subs) = Ok s
            /\ Forall (fun ln => zlen (strip_sgr ln) <= W - 1) (split_on 10%N s).
Proof.
  intros Hk O1 O2 O3 O4 O5 O6 F1 F2 F3 F4 F5 F6 F7 F8 Hc HW Hfit.
  apply page_renders_and_fits_ansi_lemma; [exact Hk|now apply command_page_one_line|exact Hc|exact HW|].
  apply fine_ok; [now apply command_page_fine|exact Hfit].
Qed.
Theorem application_help_renders_and_fits_plain_lemma W f app_name display version gopts cmds help :
  f_kind f = FPlain ->
  (match app_name with Some n => no_nl n | None => True end) -> Forall opt_one_line gopts -> Forall (fun c => no_nl (ac_name c)) cmds ->
  (match app_name with Some n => plain n | None => True end) ->
  no_lt (odesc display) -> plain (odesc version) -> Forall opt_fine gopts ->
  Forall (fun c => plain (ac_name c) /\ no_lt (ac_desc c)) cmds -> no_lt (odesc help) ->
  needed_width_for (f_styles f) (application_page (f_styles f) app_name display version gopts cmds help) <= W ->
  page_words_fit (f_styles f) W (application_page (f_styles f) app_name display version gopts cmds help) ->
  exists s, render_page W f (application_page (f_styles f) app_name display version gopts cmds help) = Ok s
            /\ Forall (fun ln => zlen ln <= W - 1) (split_on 10%N s).
Proof.
  intros Hk O1 O2 O3 F1 F2 F3 F4 F5 F6 HW Hfit.
  apply page_renders_and_fits_plain_lemma; [exact Hk|now apply application_page_one_line|exact HW|].
  apply fine_ok; [now apply application_page_fine|exact Hfit].
Qed.
Theorem application_help_renders_and_fits_ansi_lemma W f app_name display version gopts cmds help :
  is_ansi f ->
  (match app_name with Some n => no_nl n | None => True end) -> Forall opt_one_line gopts -> Forall (fun c => no_nl (ac_name c)) cmds ->
  (match app_name with Some n => plain n | None => True end) ->
  no_lt (odesc display) -> plain (odesc version) -> Forall opt_fine gopts ->
  Forall (fun c => plain (ac_name c) /\ no_lt (ac_desc c)) cmds -> no_lt (odesc help) ->
  clean_layout (application_page (f_styles f) app_name display version gopts cmds help) ->
  needed_width_for (f_styles f) (application_page (f_styles f) app_name display version gopts cmds help) <= W ->
  page_words_fit (f_styles f) W (application_page (f_styles f) app_name display version gopts cmds help) ->
  exists s, render_page W f (application_page (f_styles f) app_name display version gopts cmds help) = Ok s
            /\ Forall (fun ln => zlen (strip_sgr ln) <= W - 1) (split_on 10%N s).
Proof.
  intros Hk O1 O2 O3 F1 F2 F3 F4 F5 F6 Hc HW Hfit.
  apply page_renders_and_fits_ansi_lemma; [exact Hk|now apply application_page_one_line|exact Hc|exact HW|].
  apply fine_ok; [now apply application_page_fine|exact Hfit].
Qed.
