(* C09 + C18: "the no-interaction switch makes questions return their defaults".
   Two models meet in one boolean: Model/Switches.v computes the IO settings of the run from the line
   (create_io: io.set_interactive(False) when "-n" / "--no-interaction" is among the option tokens), Model/Question.v and
   Model/QuestionText.v take `interactive` (what Question.ask reads from io.is_interactive()) as their first argument.
   The composition below feeds the one into the other.  Honest accounting: s_interactive (io_settings ..) is a
   definition (settings_table_interaction), and "a non-interactive question returns its default, reads and writes
   nothing" is the first branch of ask_choice / ask_confirm / ask_plain / choice_text / confirm_text by definition
   (non_interactive_default, non_interactive_writes_nothing); what the composed statement adds is the LINE: the switch
   anywhere among the tokens before the first "--" (whatever else stands there), the same token behind "--" not acting,
   and no other token having the effect.  That the IO the handler's questions see is the IO create_io made, and that
   IO.set_interactive / is_interactive store and return the flag, is the tie's (C09 oracle class
   no-interaction-question-default: the handler asks a question with a default on the run's own io). *)
From Clikit Require Import Base.Prelude Base.Res Model.Conv Model.Format Model.Parser Model.Resolver Model.Run
     Model.Tokenizer Model.Gate Model.Switches Model.Question Model.QuestionText
     Proofs.StrLemmas Proofs.SwitchesLemmas Proofs.SwitchesHelpLemmas.

Lemma in_has_token t l : In t l -> has_token t l = true.
Proof. intros H. unfold has_token. apply existsb_exists. exists t. split; [exact H|apply str_eqb_refl]. Qed.
Lemma has_token_in t l : has_token t l = true -> In t l.
Proof. unfold has_token. intros H. apply existsb_exists in H as [x [Hx E]]. destruct (str_eqb_spec t x); [now subst|discriminate]. Qed.

(* the interaction flag of the run's IO, as a function of the line *)
Definition line_interactive (debug : bool) (a : application) (toks : list str) : bool :=
  s_interactive (sm_settings (run_summary debug a toks)).

Lemma line_interactive_iff debug a toks :
  line_interactive debug a toks = false <-> In T_no_interaction (option_tokens toks) \/ In T_n (option_tokens toks).
Proof.
  unfold line_interactive, run_summary. cbn [sm_settings]. rewrite interactive_table. split.
  - intros H. apply negb_false_iff in H. apply orb_prop in H as [H|H]; [left|right]; now apply has_token_in.
  - intros [H|H]; apply in_has_token in H; rewrite H; [reflexivity|now rewrite orb_true_r].
Qed.

(* every kind of question on an input whose interaction flag is i = false: the default, nothing read, nothing written *)
Definition all_questions_return_defaults (i : bool) : Prop :=
  (forall q script, ask_choice i q script =
      {| o_end := Answered (default_answer q); o_lines_read := 0; o_errors_printed := 0; o_prompts := 0 |}) /\
  (forall q prompt script, choice_text i q prompt script = ([], None)) /\
  (forall dflt prefix script, ask_confirm i dflt prefix script = (CBool dflt, 0)) /\
  (forall ci dflt prefix script, ask_confirm_g ci i dflt prefix script = (CBool dflt, 0)) /\
  (forall question dflt, confirm_text i question dflt = []) /\
  (forall question p script,
      ask_plain i question p script = {| pt_end := Answered (plain_answer (p_default p)); pt_msg := None; pt_read := 0; pt_text := [] |}).

Lemma non_interactive_all : all_questions_return_defaults false.
Proof. unfold all_questions_return_defaults. repeat split. Qed.

Lemma no_interaction_switch_lemma debug a toks sw :
  sw = T_no_interaction \/ sw = T_n -> In sw (option_tokens toks) ->
  line_interactive debug a toks = false /\ all_questions_return_defaults (line_interactive debug a toks).
Proof.
  intros Hsw Hin. assert (line_interactive debug a toks = false) as H.
  { apply line_interactive_iff. destruct Hsw as [-> | ->]; auto. }
  split; [exact H|]. rewrite H. exact non_interactive_all.
Qed.

(* the switch inserted at ANY position of a line before its first "--" *)
Lemma no_interaction_switch_inserted debug a l1 sw l2 :
  sw = T_no_interaction \/ sw = T_n -> no_ddash l1 = true ->
  all_questions_return_defaults (line_interactive debug a (l1 ++ sw :: l2)).
Proof.
  intros Hsw Hl. apply (no_interaction_switch_lemma debug a _ sw Hsw).
  assert (is_ddash sw = false) as Hd by (destruct Hsw as [-> | ->]; reflexivity).
  rewrite (option_tokens_insert l1 sw l2 Hd Hl). apply in_or_app. right. now left.
Qed.

(* without the switch before "--" the input stays interactive - the same tokens behind "--" included - and a question
   then reads: the switch is what makes the difference *)
Lemma no_switch_stays_interactive debug a l (t : list str) :
  ~ In T_no_interaction (option_tokens l) -> ~ In T_n (option_tokens l) ->
  line_interactive debug a l = true /\ line_interactive debug a (l ++ [DASH; DASH] :: t) = true.
Proof.
  intros H1 H2. assert (line_interactive debug a l = true) as H.
  { destruct (line_interactive debug a l) eqn:E; [reflexivity|]. apply line_interactive_iff in E. tauto. }
  split; [exact H|]. unfold line_interactive in *. destruct (tail_inert debug a l t) as [E _]. etransitivity; [exact (f_equal s_interactive E)|exact H].
Qed.
