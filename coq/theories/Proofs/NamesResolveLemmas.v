(* C01, read side: in a format built through the API the long name and the short name of an option resolve
   to the same option, and a position and the name of the argument listed there to the same argument.

   fmt_inv (FmtOkLemmas.v) alone does NOT give this: opts_inv says that the short name of a listed option is
   indexed, not WHAT it is indexed to (Fbad below satisfies fmt_inv and resolves "-v" to --quiet).  The missing
   piece is short_inv: at every level of the base chain an entry (s, o) of the short-name index belongs to a
   listed option whose short name is s.  ArgsFormat.__init__ rebuilds that index from the listing
   (build_format), so short_inv holds for every built format whatever the builder's own index was; together
   with opts_sep (no two listed options share a name) the entry is THE option having that short name. *)
From Coq Require Import Lia.
From Clikit Require Import Base.Prelude Base.Res Model.Conv Model.Flags Model.Format Model.Parser Model.Spell
     Proofs.StrLemmas Proofs.FormatLemmas Proofs.FormatAgreeLemmas Proofs.SpellOpts Proofs.FmtOkLemmas
     Proofs.ParserLemmas.

(* ---------- the invariant on the short-name index ---------- *)
Fixpoint short_inv (f : fmt) : Prop :=
  match f with Fmt b _ _ _ _ os oss _ _ =>
    (forall s o, sget s oss = Some o -> In o (map snd os) /\ o_short o = Some s) /\
    match b with None => True | Some bf => short_inv bf end end.

(* the invariant of API-built formats used on the read side *)
Definition names_inv (f : fmt) : Prop := fmt_inv f /\ short_inv f.

Lemma build_format_short_inv g :
  match f_base g with Some bf => short_inv bf | None => True end -> short_inv (build_format g).
Proof.
  destruct g as [b cn co cs ar os oss hm ho]. cbn [f_base]. intros Hb. unfold build_format.
  destruct (index_copts (map snd co)). cbn [short_inv]. split; [|exact Hb].
  intros s o H. apply (short_index_sound os s o). exact H.
Qed.

(* builder operations do not change the base *)
Lemma add_all_base {X} (add : fmt -> X -> res fmt) :
  (forall f x f', add f x = Ok f' -> f_base f' = f_base f) ->
  forall xs f, f_base (fst (add_all add f xs)) = f_base f.
Proof.
  intros Hadd. induction xs as [|x r IH]; intros f; cbn [add_all]; [reflexivity|].
  destruct (add f x) as [f'|k] eqn:E; [|reflexivity]. rewrite IH. eapply Hadd; eauto.
Qed.
Lemma add_option_base f o f' : add_option f o = Ok f' -> f_base f' = f_base f.
Proof. intros H. apply add_option_same in H. tauto. Qed.
Lemma add_copt_base f c f' : add_command_option f c = Ok f' -> f_base f' = f_base f.
Proof.
  unfold add_command_option. intros H.
  repeat match type of H with (if ?c then _ else _) = _ => destruct c; [discriminate|] end.
  destruct f. inversion H; subst. reflexivity.
Qed.
Lemma add_argument_base f a f' : add_argument f a = Ok f' -> f_base f' = f_base f.
Proof.
  unfold add_argument. intros H.
  repeat match type of H with (if ?c then _ else _) = _ => destruct c; [discriminate|] end.
  destruct f. inversion H; subst. reflexivity.
Qed.
Lemma add_cname_base f c f' : add_command_name f c = Ok f' -> f_base f' = f_base f.
Proof. destruct f. cbn. intros H. inversion H; subst. reflexivity. Qed.
Lemma bstep_base f o : f_base (fst (bstep f o)) = f_base f.
Proof.
  destruct o as [o|c|a|c|l|l|l|l]; cbn [bstep].
  - destruct (add_option f o) eqn:E; cbn; [eapply add_option_base; eauto|reflexivity].
  - destruct (add_command_option f c) eqn:E; cbn; [eapply add_copt_base; eauto|reflexivity].
  - destruct (add_argument f a) eqn:E; cbn; [eapply add_argument_base; eauto|reflexivity].
  - destruct (add_command_name f c) eqn:E; cbn; [eapply add_cname_base; eauto|reflexivity].
  - destruct f. rewrite (add_all_base add_option add_option_base). reflexivity.
  - destruct f. rewrite (add_all_base add_command_option add_copt_base). reflexivity.
  - destruct f. rewrite (add_all_base add_argument add_argument_base). reflexivity.
  - destruct f. rewrite (add_all_base add_command_name add_cname_base). reflexivity.
Qed.
Lemma brun_base ops : forall f, f_base (brun f ops) = f_base f.
Proof. induction ops as [|o r IH]; intros f; cbn [brun]; [reflexivity|]. rewrite IH. apply bstep_base. Qed.

Lemma reachable_names_inv base ops :
  match base with Some bf => names_inv bf | None => True end -> forallb bop_valid ops = true ->
  names_inv (build_format (brun (empty_builder base) ops)).
Proof.
  intros Hb Hv. split.
  - apply reachable_fmt_ok_lemma; [|exact Hv]. destruct base; [apply Hb|exact I].
  - apply build_format_short_inv. rewrite brun_base. cbn [empty_builder f_base].
    destruct base; [apply Hb|exact I].
Qed.
Lemma api_format_names_inv f : api_format f -> names_inv f.
Proof.
  induction 1 as [ops Hv|bf ops _ IH Hv].
  - apply (reachable_names_inv None); [exact I|exact Hv].
  - apply (reachable_names_inv (Some bf)); [exact IH|exact Hv].
Qed.
Lemma format_of_elements_names_inv es base f :
  match base with Some bf => names_inv bf | None => True end -> forallb element_valid es = true ->
  format_of_elements es base = Ok f -> names_inv f.
Proof.
  intros Hb Hv H. rewrite (format_of_elements_built _ _ _ H).
  apply reachable_names_inv; [exact Hb|now apply elements_valid_ops].
Qed.

(* ---------- options ---------- *)
Lemma opts_sep_unique l : opts_sep l -> forall o1 o2 n,
  In o1 l -> In o2 l -> In n (onames o1) -> In n (onames o2) -> o1 = o2.
Proof.
  induction l as [|o r IH]; intros Hs o1 o2 n H1 H2 N1 N2; [contradiction|].
  destruct Hs as [Ho Hr]. destruct H1 as [<-|H1], H2 as [<-|H2].
  - reflexivity.
  - exfalso. exact (Ho o2 H2 n N1 N2).
  - exfalso. exact (Ho o1 H1 n N2 N1).
  - exact (IH Hr o1 o2 n H1 H2 N1 N2).
Qed.

Lemma opts_all_app f : opts_inv f ->
  get_options_all f = f_opts f ++ match f_base f with Some bf => get_options_all bf | None => [] end.
Proof.
  destruct f as [[bf|] cn co cs ar os oss hm ho]; cbn [get_options_all f_opts f_base]; [|now rewrite app_nil_r].
  intros (Hk & Hnd & Hsh & Hsep & Hb & Hfr). destruct (opts_all_spec bf Hb) as (Hndb & Hkb & _ & Hnb).
  apply supdate_fresh; [exact Hndb|].
  intros k Hkin. destruct (sget k os) as [o|] eqn:Eg; [exfalso|reflexivity].
  apply sget_in in Eg. rewrite Forall_forall in Hk. specialize (Hk _ Eg). unfold okeyed in Hk. cbn [fst snd] in Hk.
  assert (has_option_all bf k = false) as Hf by (apply (Hfr k o k Eg); apply in_onames; now left).
  apply in_map_iff in Hkin as [[k' o'] [Ek' Hin']]. cbn [fst] in Ek'. subst k'.
  rewrite Forall_forall in Hkb. pose proof (Hkb _ Hin') as Hko. unfold okeyed in Hko. cbn [fst snd] in Hko.
  rewrite (Hnb k o' k Hin') in Hf; [discriminate|]. apply in_onames. now left.
Qed.

(* whatever name of a listed option is asked for, the option itself is found *)
Lemma listed_option_resolves f : opts_inv f -> short_inv f -> forall k o n,
  In (k, o) (get_options_all f) -> In n (onames o) -> get_option_all f n = Ok o.
Proof.
  induction f as [cn co cs ar os oss hm ho|bf cn co cs ar os oss hm ho IH] using fmt_ind'; intros Hi Hs k o n Hin Hn.
  - (* no base *)
    destruct Hi as (Hk & Hnd & Hsh & Hsep & _). destruct Hs as [Hs _]. cbn [get_options_all] in Hin.
    cbn [get_option_all]. rewrite Forall_forall in Hk.
    assert (In o (map snd os)) as Ho by (apply in_map_iff; exists (k, o); split; [reflexivity|exact Hin]).
    destruct (sget n os) as [o'|] eqn:E1.
    + apply sget_in in E1. pose proof (Hk _ E1) as K1. unfold okeyed in K1. cbn [fst snd] in K1.
      f_equal. apply (opts_sep_unique _ Hsep o' o n); [apply in_map_iff; exists (n, o'); split; [reflexivity|exact E1]|exact Ho| |exact Hn].
      apply in_onames. now left.
    + destruct (sget n oss) as [o'|] eqn:E2.
      * destruct (Hs n o' E2) as [Hl Hsn]. f_equal.
        apply (opts_sep_unique _ Hsep o' o n); [exact Hl|exact Ho| |exact Hn]. apply in_onames. now right.
      * exfalso. apply in_onames in Hn as [->|Hsn].
        -- pose proof (Hk _ Hin) as K. unfold okeyed in K. cbn [fst snd] in K. subst k.
           apply sget_none_notin in E1. apply E1. apply in_map_iff. exists (o_long o, o). split; [reflexivity|exact Hin].
        -- pose proof (Hsh k o n Hin Hsn) as T. unfold shas, ahas in T. unfold sget in E2. rewrite E2 in T. discriminate.
  - (* over a base *)
    pose proof (opts_all_app _ Hi) as Eall. cbn [f_opts f_base] in Eall. rewrite Eall in Hin.
    destruct Hi as (Hk & Hnd & Hsh & Hsep & Hb & Hfr). destruct Hs as [Hs Hsb].
    destruct (opts_all_spec bf Hb) as (_ & _ & _ & Hnb).
    cbn [get_option_all]. rewrite Forall_forall in Hk.
    apply in_app_or in Hin as [Hin|Hin].
    + assert (In o (map snd os)) as Ho by (apply in_map_iff; exists (k, o); split; [reflexivity|exact Hin]).
      destruct (sget n os) as [o'|] eqn:E1.
      * apply sget_in in E1. pose proof (Hk _ E1) as K1. unfold okeyed in K1. cbn [fst snd] in K1.
        f_equal. apply (opts_sep_unique _ Hsep o' o n); [apply in_map_iff; exists (n, o'); split; [reflexivity|exact E1]|exact Ho| |exact Hn].
        apply in_onames. now left.
      * destruct (sget n oss) as [o'|] eqn:E2.
        -- destruct (Hs n o' E2) as [Hl Hsn]. f_equal.
           apply (opts_sep_unique _ Hsep o' o n); [exact Hl|exact Ho| |exact Hn]. apply in_onames. now right.
        -- exfalso. apply in_onames in Hn as [->|Hsn].
           ++ pose proof (Hk _ Hin) as K. unfold okeyed in K. cbn [fst snd] in K. subst k.
              apply sget_none_notin in E1. apply E1. apply in_map_iff. exists (o_long o, o). split; [reflexivity|exact Hin].
           ++ pose proof (Hsh k o n Hin Hsn) as T. unfold shas, ahas in T. unfold sget in E2. rewrite E2 in T. discriminate.
    + pose proof (Hnb k o n Hin Hn) as Hbase.
      destruct (sget n os) as [o'|] eqn:E1.
      * exfalso. apply sget_in in E1. pose proof (Hk _ E1) as K1. unfold okeyed in K1. cbn [fst snd] in K1.
        rewrite (Hfr n o' n E1) in Hbase; [discriminate|]. apply in_onames. now left.
      * destruct (sget n oss) as [o'|] eqn:E2.
        -- exfalso. destruct (Hs n o' E2) as [Hl Hsn]. apply in_map_iff in Hl as [[k' o''] [E Hl]]. cbn [snd] in E. subst o''.
           rewrite (Hfr k' o' n Hl) in Hbase; [discriminate|]. apply in_onames. now right.
        -- exact (IH Hb Hsb k o n Hin Hn).
Qed.

(* conversely: what a name resolves to is a listed option, and the name is its long or its short name *)
Lemma resolved_option_listed f : opts_inv f -> short_inv f -> forall n o,
  get_option_all f n = Ok o -> In (o_long o, o) (get_options_all f) /\ In n (onames o).
Proof.
  induction f as [cn co cs ar os oss hm ho|bf cn co cs ar os oss hm ho IH] using fmt_ind'; intros Hi Hs n o H.
  - destruct Hi as (Hk & _). destruct Hs as [Hs _]. cbn [get_options_all]. cbn [get_option_all] in H.
    rewrite Forall_forall in Hk.
    destruct (sget n os) as [o'|] eqn:E1.
    + inversion H; subst o'. apply sget_in in E1. pose proof (Hk _ E1) as K. unfold okeyed in K. cbn [fst snd] in K. subst n.
      split; [exact E1|apply in_onames; now left].
    + destruct (sget n oss) as [o'|] eqn:E2; [|discriminate]. inversion H; subst o'.
      destruct (Hs n o E2) as [Hl Hsn]. apply in_map_iff in Hl as [[k o'] [E Hl]]. cbn [snd] in E. subst o'.
      pose proof (Hk _ Hl) as K. unfold okeyed in K. cbn [fst snd] in K. subst k.
      split; [exact Hl|apply in_onames; now right].
  - pose proof (opts_all_app _ Hi) as Eall. cbn [f_opts f_base] in Eall. rewrite Eall.
    destruct Hi as (Hk & _ & _ & _ & Hb & _). destruct Hs as [Hs Hsb]. cbn [get_option_all] in H.
    rewrite Forall_forall in Hk.
    destruct (sget n os) as [o'|] eqn:E1.
    + inversion H; subst o'. apply sget_in in E1. pose proof (Hk _ E1) as K. unfold okeyed in K. cbn [fst snd] in K. subst n.
      split; [apply in_or_app; now left|apply in_onames; now left].
    + destruct (sget n oss) as [o'|] eqn:E2.
      * inversion H; subst o'.
        destruct (Hs n o E2) as [Hl Hsn]. apply in_map_iff in Hl as [[k o'] [E Hl]]. cbn [snd] in E. subst o'.
        pose proof (Hk _ Hl) as K. unfold okeyed in K. cbn [fst snd] in K. subst k.
        split; [apply in_or_app; now left|apply in_onames; now right].
      * destruct (IH Hb Hsb n o H) as [Hl Hn]. split; [apply in_or_app; now right|exact Hn].
Qed.

Lemma listed_option_has f : opts_inv f -> forall k o n,
  In (k, o) (get_options_all f) -> In n (onames o) -> has_option_all f n = true.
Proof. intros Hi. apply (opts_all_spec f Hi). Qed.

(* names_resolve, options: every listed option is listed under its long name, and its long name and its short
   name (if it has one) resolve to it; any name that resolves at all is one of the two *)
Theorem names_resolve_options_lemma f : names_inv f ->
  (forall k o, In (k, o) (get_options f true) ->
     k = o_long o /\ get_option f (o_long o) true = Ok o /\ has_option f (o_long o) true = true /\
     forall s, o_short o = Some s -> get_option f s true = Ok o /\ has_option f s true = true) /\
  (forall n o, get_option f n true = Ok o ->
     In (o_long o, o) (get_options f true) /\ (n = o_long o \/ o_short o = Some n)).
Proof.
  intros [(Ha & Hk & Ho) Hs]. cbn [get_options get_option has_option]. split.
  - intros k o Hin. destruct (opts_all_spec f Ho) as (_ & Hkeyed & _ & _).
    rewrite Forall_forall in Hkeyed. pose proof (Hkeyed _ Hin) as K. unfold okeyed in K. cbn [fst snd] in K.
    split; [exact K|]. split; [|split].
    + apply (listed_option_resolves f Ho Hs k o); [exact Hin|apply in_onames; now left].
    + apply (listed_option_has f Ho k o); [exact Hin|apply in_onames; now left].
    + intros s Hsn. split.
      * apply (listed_option_resolves f Ho Hs k o); [exact Hin|apply in_onames; now right].
      * apply (listed_option_has f Ho k o); [exact Hin|apply in_onames; now right].
  - intros n o H. destruct (resolved_option_listed f Ho Hs n o H) as [Hl Hn]. split; [exact Hl|].
    now apply in_onames.
Qed.

(* ---------- arguments ---------- *)
Theorem names_resolve_arguments_lemma f : names_inv f ->
  (forall i n a, nth_error (get_arguments f true) i = Some (n, a) ->
     n = a_name a /\
     get_argument f (APos (Z.of_nat i)) true = Ok a /\ get_argument f (AName n) true = Ok a /\
     has_argument f (APos (Z.of_nat i)) true = true /\ has_argument f (AName n) true = true) /\
  (forall r a, get_argument f r true = Ok a ->
     exists i, nth_error (get_arguments f true) i = Some (a_name a, a) /\
               (r = AName (a_name a) \/ r = APos (Z.of_nat i))).
Proof.
  intros [([Hai Hord] & Hk & _) _]. cbn [get_arguments].
  pose proof (args_all_nodup f Hai) as Hnd. pose proof (args_all_keyed f Hai Hk) as Hkeyed.
  rewrite Forall_forall in Hkeyed. split.
  - intros i n a H. pose proof (nth_error_In _ _ H) as Hin.
    pose proof (Hkeyed _ Hin) as K. unfold akeyed in K. cbn [fst snd] in K.
    assert (i < length (get_arguments_all f)) as Hlt by (apply nth_error_Some; congruence).
    pose proof (sget_nodup_in' _ n a Hnd Hin) as Hg.
    split; [exact K|]. unfold get_argument, has_argument. cbn [get_arguments].
    repeat split.
    + destruct (Z.leb_spec (Z.of_nat (length (get_arguments_all f))) (Z.of_nat i)); [lia|].
      destruct (Z.ltb_spec (Z.of_nat i) 0); [lia|]. rewrite Nat2Z.id, H. reflexivity.
    + cbv zeta. now rewrite Hg.
    + apply andb_true_intro. split; [apply Z.leb_le; lia|apply Z.ltb_lt; lia].
    + cbv zeta. unfold shas, ahas. unfold sget in Hg. now rewrite Hg.
  - intros r a H. unfold get_argument in H. cbn [get_arguments] in H. destruct r as [n|i].
    + destruct (sget n (get_arguments_all f)) as [a'|] eqn:E; [|discriminate]. inversion H; subst a'.
      apply sget_in in E. pose proof (Hkeyed _ E) as K. unfold akeyed in K. cbn [fst snd] in K. subst n.
      apply In_nth_error in E as [i E]. exists i. split; [exact E|now left].
    + destruct (Z.leb_spec (Z.of_nat (length (get_arguments_all f))) i); [discriminate|].
      destruct (Z.ltb_spec i 0); [discriminate|].
      destruct (nth_error (get_arguments_all f) (Z.to_nat i)) as [[n a']|] eqn:E; [|discriminate]. inversion H; subst a'.
      pose proof (nth_error_In _ _ E) as Hin. pose proof (Hkeyed _ Hin) as K. unfold akeyed in K. cbn [fst snd] in K. subst n.
      exists (Z.to_nat i). split; [exact E|right]. rewrite Z2Nat.id by lia. reflexivity.
Qed.

(* ---------- the read side of Args without the hypotheses that were the clause itself ---------- *)
Lemma access_agrees_options_inv f a k o s : names_inv f ->
  In (k, o) (get_options f true) -> o_short o = Some s ->
  args_option f a k = args_option f a s /\ args_is_option_set f a k = args_is_option_set f a s.
Proof.
  intros Hi Hin Hs. destruct (proj1 (names_resolve_options_lemma f Hi) k o Hin) as (-> & Hl & Hhl & Hsh).
  destruct (Hsh s Hs) as [Hg Hh]. split.
  - exact (option_access_agrees f a _ _ o Hl Hg).
  - exact (option_set_agrees f a _ _ o Hhl Hh Hl Hg).
Qed.
(* any name that resolves reads what the long name reads *)
Lemma access_by_any_name_inv f a n o : names_inv f -> get_option f n true = Ok o ->
  args_option f a n = args_option f a (o_long o) /\ args_is_option_set f a n = args_is_option_set f a (o_long o).
Proof.
  intros Hi H. destruct (proj2 (names_resolve_options_lemma f Hi) n o H) as [Hl Hn].
  destruct (proj1 (names_resolve_options_lemma f Hi) _ o Hl) as (_ & Hg & Hh & Hsh).
  destruct Hn as [->|Hs]; [split; reflexivity|]. destruct (Hsh n Hs) as [Hg' Hh']. split.
  - exact (option_access_agrees f a _ _ o Hg' Hg).
  - exact (option_set_agrees f a _ _ o Hh' Hh Hg' Hg).
Qed.
Lemma access_agrees_arguments_inv f a i n ar : names_inv f ->
  nth_error (get_arguments f true) i = Some (n, ar) ->
  args_argument f a (APos (Z.of_nat i)) = args_argument f a (AName n) /\
  args_is_argument_set f a (APos (Z.of_nat i)) = args_is_argument_set f a (AName n).
Proof.
  intros Hi H. destruct (proj1 (names_resolve_arguments_lemma f Hi) i n ar H) as (_ & G1 & G2 & H1 & H2). split.
  - exact (argument_access_agrees f a _ _ ar G1 G2).
  - exact (argument_set_agrees f a _ _ ar H1 H2 G1 G2).
Qed.
Lemma unset_option_default_inv f a k o n : names_inv f ->
  In (k, o) (get_options f true) -> sget (o_long o) (ar_opts a) = None ->
  n = o_long o \/ o_short o = Some n ->
  args_option f a n = Ok (if o_accepts o then o_default o else VBool false) /\ args_is_option_set f a n = false.
Proof.
  intros Hi Hin Hun Hn. destruct (proj1 (names_resolve_options_lemma f Hi) k o Hin) as (_ & Hl & Hhl & Hsh).
  assert (get_option f n true = Ok o /\ has_option f n true = true) as [Hg Hh].
  { destruct Hn as [->|Hs]; [split; assumption|exact (Hsh n Hs)]. }
  split; [exact (unset_option_default f a n o Hg Hun)|].
  unfold args_is_option_set. rewrite Hh, Hg. unfold shas, ahas. unfold sget in Hun. now rewrite Hun.
Qed.
Lemma unset_argument_default_inv f a i n ar : names_inv f ->
  nth_error (get_arguments f true) i = Some (n, ar) -> sget n (ar_args a) = None ->
  args_argument f a (APos (Z.of_nat i)) = Ok (a_default ar) /\ args_argument f a (AName n) = Ok (a_default ar) /\
  args_is_argument_set f a (APos (Z.of_nat i)) = false /\ args_is_argument_set f a (AName n) = false.
Proof.
  intros Hi H Hun. destruct (proj1 (names_resolve_arguments_lemma f Hi) i n ar H) as (-> & G1 & G2 & H1 & H2).
  repeat split.
  - exact (unset_argument_default f a _ ar G1 Hun).
  - exact (unset_argument_default f a _ ar G2 Hun).
  - unfold args_is_argument_set. rewrite H1, G1. unfold shas, ahas. unfold sget in Hun. now rewrite Hun.
  - unfold args_is_argument_set. rewrite H2, G2. unfold shas, ahas. unfold sget in Hun. now rewrite Hun.
Qed.

(* ---------- the same for api_format ---------- *)
Lemma access_agrees_options_api f a k o s : api_format f ->
  In (k, o) (get_options f true) -> o_short o = Some s ->
  args_option f a k = args_option f a s /\ args_is_option_set f a k = args_is_option_set f a s.
Proof. intros H. apply access_agrees_options_inv. now apply api_format_names_inv. Qed.
Lemma access_by_any_name_api f a n o : api_format f -> get_option f n true = Ok o ->
  args_option f a n = args_option f a (o_long o) /\ args_is_option_set f a n = args_is_option_set f a (o_long o).
Proof. intros H. apply access_by_any_name_inv. now apply api_format_names_inv. Qed.
Lemma access_agrees_arguments_api f a i n ar : api_format f ->
  nth_error (get_arguments f true) i = Some (n, ar) ->
  args_argument f a (APos (Z.of_nat i)) = args_argument f a (AName n) /\
  args_is_argument_set f a (APos (Z.of_nat i)) = args_is_argument_set f a (AName n).
Proof. intros H. apply access_agrees_arguments_inv. now apply api_format_names_inv. Qed.
Lemma unset_option_default_api f a k o n : api_format f ->
  In (k, o) (get_options f true) -> sget (o_long o) (ar_opts a) = None ->
  n = o_long o \/ o_short o = Some n ->
  args_option f a n = Ok (if o_accepts o then o_default o else VBool false) /\ args_is_option_set f a n = false.
Proof. intros H. apply unset_option_default_inv. now apply api_format_names_inv. Qed.
Lemma unset_argument_default_api f a i n ar : api_format f ->
  nth_error (get_arguments f true) i = Some (n, ar) -> sget n (ar_args a) = None ->
  args_argument f a (APos (Z.of_nat i)) = Ok (a_default ar) /\ args_argument f a (AName n) = Ok (a_default ar) /\
  args_is_argument_set f a (APos (Z.of_nat i)) = false /\ args_is_argument_set f a (AName n) = false.
Proof. intros H. apply unset_argument_default_inv. now apply api_format_names_inv. Qed.

(* ---------- instances ---------- *)
From Coq Require Import String Ascii.
From Clikit Require Import Proofs.SpellLemmas.
Module NamesResolveExamples.
  Import SpellExamples FmtOkExamples.
  (* fmt_inv does not suffice: the short index may point anywhere *)
  Definition Fbad := Fmt None [] [] [] [] [(s "verbose", o_verbose); (s "quiet", o_quiet)]
                         [(s "v", o_quiet); (s "q", o_quiet)] false false.
  Lemma Fbad_fmt_inv : fmt_inv Fbad.
  Proof.
    split; [|split].
    - split; [|reflexivity]. cbn. repeat split; constructor.
    - cbn. split; [constructor|exact I].
    - cbn. split; [repeat constructor|]. split.
      { repeat constructor; cbn; intuition discriminate. }
      split.
      { intros k o s0 [E|[E|[]]] Hs; inversion E; subst; cbn in Hs; inversion Hs; subst; reflexivity. }
      split; [|exact I]. split; [|split; [intros o' []|exact I]].
      intros o' [<-|[]] n H1 H2. cbn in H1, H2. intuition congruence.
  Qed.
  Example Fbad_resolves_differently :
    fmt_inv Fbad /\ fmt_ok Fbad = true /\ ~ short_inv Fbad /\
    get_option Fbad (s "verbose") true = Ok o_verbose /\ get_option Fbad (s "v") true = Ok o_quiet.
  Proof.
    split; [exact Fbad_fmt_inv|]. split; [vm_compute; reflexivity|]. split; [|split; vm_compute; reflexivity].
    intros [H _]. destruct (H (s "v") o_quiet) as [_ E]; [vm_compute; reflexivity|]. vm_compute in E. discriminate.
  Qed.

  (* G: options and arguments spread over a base (FmtOkExamples) *)
  Lemma G_names_inv : names_inv G.
  Proof. exact (api_format_names_inv G G_api). Qed.
  Example G_listing :
    map fst (get_options G true) = [s "num"; s "tag"; s "level"; s "verbose"; s "quiet"; s "color"] /\
    map fst (get_arguments G true) = [s "host"; s "port"; s "files"] /\
    In (s "color", o_color) (get_options G true) /\ In (s "tag", o_tag) (get_options G true) /\
    nth_error (get_arguments G true) 0 = Some (s "host", a_host) /\
    nth_error (get_arguments G true) 2 = Some (s "files", a_files).
  Proof. vm_compute. repeat split; auto 10. Qed.
  (* the inherited --color / -c and the own --tag / -t, read from the assignment the line D1 spells *)
  Example G_access_agrees :
    let A := denote G D1 in
    args_option G A (s "color") = args_option G A (s "c") /\ args_option G A (s "c") = Ok (VStr (s "auto")) /\
    args_option G A (s "tag") = args_option G A (s "t") /\
    args_argument G A (APos 2) = args_argument G A (AName (s "files")) /\
    args_argument G A (APos 0) = Ok (VStr (s "h1")).
  Proof.
    cbv zeta. destruct G_listing as (_ & _ & Hc & Ht & _ & Hf).
    split; [exact (proj1 (access_agrees_options_inv G _ _ o_color (s "c") G_names_inv Hc eq_refl))|].
    split; [vm_compute; reflexivity|].
    split; [exact (proj1 (access_agrees_options_inv G _ _ o_tag (s "t") G_names_inv Ht eq_refl))|].
    split; [exact (proj1 (access_agrees_arguments_inv G _ 2 _ a_files G_names_inv Hf))|].
    vm_compute. reflexivity.
  Qed.
  Example all_forms :
    ld_items D2 =
      [IVal o_num ShortSep (s "12"); IPos (s "h2"); IGroup [o_quiet; o_verbose] (Some (o_color, GGlued (s "red")));
       IVal o_level LongEq (s "null"); IVal o_num ShortGlued (s "7")] /\
    ld_items D3 =
      [IGroup [o_verbose; o_quiet; o_verbose] None; IPos (s "h3"); IFlag o_quiet false; IGroup [o_verbose] (Some (o_color, GBare))] /\
    render D2 = [s "-n"; s "12"; s "h2"; s "-qvcred"; s "--level=null"; s "-n7"] /\
    render D3 = [s "server"; s "-vqv"; s "h3"; s "-q"; s "-vc"; s "--"] /\
    wf_line F1 D2 = true /\ wf_line F1 D3 = true /\ wf_line G D2 = true /\ wf_line G D3 = true /\
    (forall lenient, parse G lenient (render D2) = Ok (denote G D2)) /\
    (forall lenient, parse G lenient (render D3) = Ok (denote G D3)) /\
    denote G D3 =
      {| ar_opts := [(s "verbose", VBool true); (s "quiet", VBool true); (s "color", VStr (s "auto"))];
         ar_args := [(s "host", VStr (s "h3"))] |}.
  Proof.
    repeat match goal with |- _ /\ _ => split end; vm_compute; reflexivity.
  Qed.
  Example G_instance :
    api_format G /\
    map fst (get_options G true) = [s "num"; s "tag"; s "level"; s "verbose"; s "quiet"; s "color"] /\
    map fst (get_arguments G true) = [s "host"; s "port"; s "files"] /\
    args_option G (denote G D1) (s "color") = args_option G (denote G D1) (s "c") /\
    args_option G (denote G D1) (s "c") = Ok (VStr (s "auto")) /\
    args_option G (denote G D1) (s "tag") = args_option G (denote G D1) (s "t") /\
    args_argument G (denote G D1) (APos 2) = args_argument G (denote G D1) (AName (s "files")) /\
    args_argument G (denote G D1) (APos 0) = Ok (VStr (s "h1")).
  Proof.
    split; [exact G_api|]. split; [exact (proj1 G_listing)|]. split; [exact (proj1 (proj2 G_listing))|].
    exact G_access_agrees.
  Qed.
End NamesResolveExamples.
