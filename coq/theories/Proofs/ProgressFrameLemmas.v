(* Proofs about the FRAMES Model/Progress.v writes (C16): which state a written frame is rendered from, what its
   pieces show, the terminal line on an ANSI output over whole histories, the section below on a section output. *)
From Coq Require Import Lia ZArith Arith.
From Clikit Require Import Base.Prelude Base.Res Base.Term Model.Conv Model.Markup Model.Section Model.Progress
  Proofs.TermLemmas Proofs.MarkupLemmas Proofs.SectionLemmas Proofs.ProgressLemmas.

(* ---------- 1. every frame a call writes is the frame of the state the call leaves ---------- *)
(* the fields of the output side that a change of the progress leaves alone *)
Definition same_out (p q : pbar) : Prop :=
  p_ansi q = p_ansi p /\ p_quiet q = p_quiet p /\ p_section q = p_section p /\ p_f q = p_f p /\ p_flc q = p_flc p /\
  p_custom q = p_custom p /\ p_pchar q = p_pchar p /\ p_last_len q = p_last_len p /\ p_secs q = p_secs p /\ p_w q = p_w p.
Lemma same_out_refl p : same_out p p.
Proof. repeat split. Qed.
Lemma same_out_trans p q r : same_out p q -> same_out q r -> same_out p r.
Proof. unfold same_out. intuition congruence. Qed.
Lemma sp_state_same p k : same_out p (sp_state p k).
Proof. unfold sp_state. destruct (0 <? sp_max p k)%Z; repeat split. Qed.
Lemma finish_state_same p : same_out p (finish_state p).
Proof. unfold finish_state. destruct (p_max p =? 0)%Z; repeat split. Qed.
Lemma start_state_same p now mx : same_out p (start_state p now mx).
Proof. destruct mx; repeat split. Qed.

Lemma set_progress_draws p now k p' es : set_progress p now k = Ok (p', es) ->
  display (sp_state p k) now = Ok (p', es) \/ (es = [] /\ p' = sp_state p k).
Proof.
  intros H. destruct (set_progress_cases p now k) as [[_ E]|[(_ & _ & E)|(_ & _ & [E|E])]]; rewrite E in H; auto;
    inversion H; auto.
Qed.

(* a call either displays the frame of its draw_state, or writes nothing (throttled; the frame of the maximum is already
   the last line of a plain output), or is clear / set_message / the write below *)
Lemma pstep_draws p now o p' es q : pstep p now o = Ok (p', es) -> draw_state p now o = Some q ->
  display q now = Ok (p', es) \/ (es = [] /\ same_out p p').
Proof.
  intros H Hq. destruct o as [mx|k|k| | | |m|t]; cbn [pstep draw_state] in *; inversion Hq; subst; clear Hq.
  - left. exact H.
  - destruct (set_progress_draws _ _ _ _ _ H) as [E|[E ->]]; auto. right. split; [exact E|apply sp_state_same].
  - destruct (set_progress_draws _ _ _ _ _ H) as [E|[E ->]]; auto. right. split; [exact E|apply sp_state_same].
  - left. exact H.
  - fold (finish_state p) in H. match type of H with (if ?c then _ else _) = _ => destruct c end.
    + injection H as <- <-. right. split; [reflexivity|apply finish_state_same].
    + destruct (set_progress_draws _ _ _ _ _ H) as [E|[E ->]]; auto. right. split; [exact E|].
      eapply same_out_trans; [apply finish_state_same|apply sp_state_same].
Qed.

(* display on an output that is not quiet: _overwrite of the frame rendered from the state with its format fixed *)
Lemma display_writes q now p' es : display q now = Ok (p', es) -> p_quiet q = false ->
  exists fm fr p2, frame_of (with_fmt q) now = Ok (fm, fr) /\
    overwrite (set_out (with_fmt q) fm (p_secs (with_fmt q))) now fr = Ok (p2, es) /\
    p' = set_drawn p2 (Some (p_step q, p_max q)).
Proof.
  unfold display. intros H Hq. rewrite Hq in H. bind_inv H fr Hfr. bind_inv H x Hx. inversion H; subst.
  destruct fr as [fm fr], x as [p2 e]. cbn [fst snd] in *. exists fm, fr, p2. repeat split; auto.
Qed.

Theorem frame_of_post_state p now o p' es q : pstep p now o = Ok (p', es) -> draw_state p now o = Some q -> es <> [] ->
  p_step q = p_step p' /\ p_max q = p_max p' /\
  exists fm fr p2, frame_of (with_fmt q) now = Ok (fm, fr) /\
    overwrite (set_out (with_fmt q) fm (p_secs (with_fmt q))) now fr = Ok (p2, es) /\
    p' = set_drawn p2 (Some (p_step q, p_max q)).
Proof.
  intros H Hq Hne. destruct (pstep_draws _ _ _ _ _ _ H Hq) as [D|[E _]]; [|contradiction].
  destruct (display_progress _ _ _ _ D) as (S1 & S2 & _). split; [auto|]. split; [auto|].
  apply display_writes; [exact D|]. destruct (p_quiet q) eqn:Q; [|reflexivity].
  rewrite (display_quiet _ _ Q) in D. inversion D; subst. contradiction.
Qed.

(* ---------- 2. what the pieces of a frame show ---------- *)
Definition message_text (q : pbar) : str := match p_message q with Some m => m | None => [37;109;101;115;115;97;103;101;37]%N end.
Definition shows (q : pbar) (now : Z) (x : piece) (part : str) : Prop :=
  match x with
  | PLit s => part = s
  | PCurrent => part = just (SRight (p_step_width q)) (dec_text (p_step q))
  | PMax => part = dec_text (p_max q)
  | PPercent s => part = just s (dec_text (percent_of q))
  | PElapsed s => part = just s (format_time (now - p_start q))
  | PMessage => part = message_text q
  | PBar => exists pc n, part = render_bar_with q pc n
  | PEstimated _ | PRemaining _ => (0 < p_max q)%Z
  end.
Lemma render_piece_shows q now fm x fm' part : (0 <= p_max q)%Z -> render_piece q now fm x = Ok (fm', part) -> shows q now x part.
Proof.
  intros Hm. destruct x; cbn [render_piece shows]; intros H; try (inversion H; reflexivity).
  - destruct (bar_full q); [inversion H; eauto|]. bind_inv H y Hy. inversion H; eauto.
  - destruct (Z.eqb_spec (p_max q) 0); [discriminate|lia].
  - destruct (Z.eqb_spec (p_max q) 0); [discriminate|lia].
Qed.
Lemma render_frame_pieces q now : (0 <= p_max q)%Z -> forall f fm fm' fr, render_frame q now fm f = Ok (fm', fr) ->
  exists parts, fr = concat parts /\ Forall2 (shows q now) f parts.
Proof.
  intros Hm. induction f as [|x r IH]; intros fm fm' fr H; cbn [render_frame] in H.
  - inversion H. exists []. split; [reflexivity|constructor].
  - bind_inv H a Ha. bind_inv H b Hb. inversion H; subst. destruct a as [f1 pa], b as [f2 pb]. cbn [fst snd] in *.
    destruct (IH _ _ _ Hb) as (parts & -> & HF). exists (pa :: parts). split; [reflexivity|].
    constructor; [|exact HF]. eapply render_piece_shows; eauto.
Qed.

(* the percentage a frame shows: between 0 and 100, floor(100 * step / max), 100 exactly at the maximum *)
Lemma percent_of_spec q : range q ->
  (0 <= percent_of q <= 100)%Z /\ ((0 < p_max q)%Z -> percent_of q = (p_step q * 100 / p_max q)%Z) /\
  ((0 < p_max q)%Z -> (percent_of q = 100%Z <-> p_step q = p_max q)).
Proof.
  intros Hr. unfold percent_of. destruct (Z.ltb_spec 0 (p_max q)) as [Hm|Hm].
  - split; [apply percent_bounds; assumption|]. split; [reflexivity|]. intros _. split.
    + apply percent_100_only_at_max; assumption.
    + apply percent_at_max; assumption.
  - split; [lia|]. split; intros; lia.
Qed.

(* ---------- 3. an ANSI output: the terminal line shows exactly the latest frame, over whole histories ---------- *)
Lemma lines_of_single l : no_lf l -> lines_of l = [l].
Proof. induction 1 as [|c r Hc Hr IH]; cbn [lines_of]; [reflexivity|]. now rewrite Hc, IH. Qed.
Lemma sp_blanks n : sp SPACE n = blanks n.
Proof. reflexivity. Qed.

Definition padded_to (last : nat) (v : str) : str :=
  if Nat.ltb (length v) last then v ++ sp SPACE (last - length v) else v.
Lemma padded_to_len last v : length (padded_to last v) = Nat.max last (length v).
Proof.
  unfold padded_to. destruct (Nat.ltb_spec (length v) last); [|lia]. rewrite app_length. unfold sp. rewrite repeat_length. lia.
Qed.

Section Line.
Variable w : nat.
Hypothesis w_pos : 1 <= w.

Lemma put_cell_over pre c rest : put_cell (pre ++ rest) (length pre) c = pre ++ c :: tl rest.
Proof. induction pre as [|x pre IH]; cbn; [destruct rest; reflexivity|]. now rewrite IH. Qed.

(* writing s from column |pre| over a row pre ++ rest with |rest| <= |s| leaves pre ++ s *)
Lemma feed_over : forall s R pre rest, length rest <= length s -> length pre + length s <= w ->
  feed w {| rows := R ++ [pre ++ rest]; cr := length R; cc := length pre |} (map Ch s)
  = {| rows := R ++ [pre ++ s ++ skipn (length s) rest]; cr := length R; cc := length pre + length s |}.
Proof.
  induction s as [|c s IH]; intros R pre rest Hr Hw.
  - destruct rest; [|cbn in Hr; lia]. cbn [map length skipn app]. unfold feed. cbn [fold_left].
    rewrite !app_nil_r, Nat.add_0_r. reflexivity.
  - cbn [map]. unfold feed. cbn [fold_left]. unfold feed1 at 2. cbn [cc cr rows].
    assert (Nat.eqb (length pre) w = false) as -> by (apply Nat.eqb_neq; cbn in Hw; lia).
    rewrite upd_row_last, put_cell_over.
    replace (pre ++ c :: tl rest) with ((pre ++ [c]) ++ tl rest) by (now rewrite <- app_assoc).
    replace (S (length pre)) with (length (pre ++ [c])) by (rewrite app_length; cbn; lia).
    fold (feed w {| rows := R ++ [(pre ++ [c]) ++ tl rest]; cr := length R; cc := length (pre ++ [c]) |} (map Ch s)).
    rewrite IH.
    + assert (length (pre ++ [c]) + length s = length pre + length (c :: s)) as -> by (rewrite app_length; cbn; lia).
      assert ((pre ++ [c]) ++ s ++ skipn (length s) (tl rest) = pre ++ (c :: s) ++ skipn (length (c :: s)) rest) as ->.
      { rewrite <- app_assoc. cbn [app length]. destruct rest; [now rewrite !skipn_nil|reflexivity]. }
      reflexivity.
    + destruct rest; cbn in *; lia.
    + rewrite app_length. cbn in *. lia.
Qed.

Lemma line_replaced R r s c : length r <= length s -> length s <= w ->
  feed w {| rows := R ++ [r]; cr := length R; cc := c |} (Cr :: map Ch s) = {| rows := R ++ [s]; cr := length R; cc := length s |}.
Proof.
  intros Hr Hs. unfold feed. cbn [fold_left feed1 rows cr].
  pose proof (feed_over s R [] r Hr ltac:(cbn; lia)) as H. cbn [app length] in H. unfold feed in H. rewrite H.
  rewrite skipn_all2 by lia. now rewrite app_nil_r.
Qed.

Variable sty : styles.

(* a line of good markup that stays good when blanks are appended: it does not end inside a tag *)
Definition okl (l : str) : Prop := okline sty l /\ closed l.
Lemma okl_pad l n : okl l -> okline sty (l ++ sp SPACE n) /\ vis sty (l ++ sp SPACE n) = vis sty l ++ sp SPACE n.
Proof.
  intros [(H1 & H2 & H3) Hc]. rewrite sp_blanks.
  pose proof (colorize_plain_app sty [] l (blanks n) [] (vis sty l) [] (blanks n) Hc H2 (mfine_blanks n) H3
                (colorize_plain_blanks sty [] n)) as HC.
  pose proof (vis_eq _ _ _ HC) as HV. split; [|exact HV]. split; [|split].
  - apply Forall_app. split; [exact H1|apply blanks_no_lf].
  - apply (mfine_app _ _ Hc H2 (mfine_blanks n)).
  - now rewrite HV.
Qed.
Lemma pad_to_ok last l : okl l ->
  okline sty (pad_to last l (vis sty l)) /\ vis sty (pad_to last l (vis sty l)) = padded_to last (vis sty l).
Proof.
  intros H. unfold pad_to, padded_to. destruct (Nat.ltb (length (vis sty l)) last); [apply okl_pad, H|].
  split; [apply H|reflexivity].
Qed.
Lemma okl_nil : okl [].
Proof. split; [apply okline_nil|apply closed_nil]. Qed.

(* a one-line format: the built-in ones are; a custom one when its text has no line break *)
Definition one_line (p : pbar) : Prop :=
  p_flc p = 0 /\ match p_custom p with Some f => count_nl (lits f) = 0 | None => True end.
Definition ansi_out (p : pbar) : Prop :=
  p_ansi p = true /\ p_quiet p = false /\ p_section p = false /\ fmt_ok sty (p_f p) /\ one_line p /\
  okline sty (p_pchar p) /\ p_last_len p <= w.
(* the cursor is in the last row of the screen, which holds r; the rows above are R *)
Definition on_line (R : list row) (r : row) (t : term) : Prop := exists c, t = {| rows := R ++ [r]; cr := length R; cc := c |}.

Lemma ansi_overwrite q now l p' es R r t :
  ansi_out q -> on_line R r t -> length r <= p_last_len q -> okl l -> length (vis sty l) <= w ->
  overwrite q now l = Ok (p', es) ->
  on_line R (padded_to (p_last_len q) (vis sty l)) (feed w t es) /\
  exists f', fmt_ok sty f' /\ p' = set_written (set_out q f' (p_secs q)) (length (padded_to (p_last_len q) (vis sty l))) now.
Proof.
  intros (Ha & Hq & Hs & Hf & (Hflc & _) & _ & Hw) (c & ->) Hr Hl Hfit H.
  pose proof Hl as [(L1 & L2 & L3) Hc].
  unfold overwrite in H. rewrite (lines_of_single l L1) in H. cbn [pad_lines] in H.
  destruct (remove_format_ok sty (p_f q) l (vis sty l) Hf L3) as (f1 & E1 & Hf1). rewrite E1 in H. cbn [bind fst snd] in H.
  destruct (pad_to_ok (p_last_len q) l Hl) as [(P1 & P2 & P3) PV].
  set (L := pad_to (p_last_len q) l (vis sty l)) in *.
  cbn [p_ansi p_section p_quiet p_flc set_out] in H. rewrite Ha, Hs, Hq, Hflc in H. cbn [bind fst snd] in H.
  unfold out_write in H. cbn [p_quiet p_section p_ansi p_f p_secs set_out] in H. rewrite Hq, Hs, Ha in H.
  cbn [join_with] in H.
  destruct (deco_of_plain sty L (vis sty L) f1 P2 P3 Hf1) as (f2 & a & E2 & Hf2 & Hs2). rewrite E2 in H. cbn [bind fst snd] in H.
  cbn [max_vis p_f set_out] in H.
  destruct (remove_format_ok sty f2 L (vis sty L) Hf2 P3) as (f3 & E3 & Hf3). rewrite E3 in H. cbn [bind fst snd max_vis] in H.
  inversion H; subst; clear H. rewrite PV. split.
  - exists (length (padded_to (p_last_len q) (vis sty l))).
    cbn [app]. rewrite app_nil_r. change (Cr :: emits_of_ansi a) with ([Cr] ++ emits_of_ansi a).
    rewrite feed_app, feed_ansi, Hs2, PV.
    assert (no_lf (padded_to (p_last_len q) (vis sty l))) as Hn by (rewrite <- PV; apply vis_no_lf; exact (conj P1 (conj P2 P3))).
    rewrite (emits_no_lf _ Hn), <- feed_app. cbn [app].
    pose proof (padded_to_len (p_last_len q) (vis sty l)) as HL.
    apply line_replaced; lia.
  - exists f3. split; [exact Hf3|]. reflexivity.
Qed.
(* rendering a frame leaves the formatter as it was (%bar% measures the progress character) *)
Lemma render_piece_fmt_ok q now x fm fm' part : okline sty (p_pchar q) -> fmt_ok sty fm ->
  render_piece q now fm x = Ok (fm', part) -> fmt_ok sty fm'.
Proof.
  intros (_ & _ & Hpc) Hf H. destruct x; cbn [render_piece] in H; try (inversion H; subst; exact Hf).
  - destruct (bar_full q); [inversion H; subst; exact Hf|].
    destruct (remove_format_ok sty fm (p_pchar q) _ Hf Hpc) as (f1 & E1 & Hf1). rewrite E1 in H. cbn [bind fst snd] in H.
    inversion H; subst. exact Hf1.
  - destruct (p_max q =? 0)%Z; [discriminate|]. inversion H; subst; exact Hf.
  - destruct (p_max q =? 0)%Z; [discriminate|]. inversion H; subst; exact Hf.
Qed.
Lemma render_frame_fmt_ok q now : okline sty (p_pchar q) -> forall f fm fm' fr, fmt_ok sty fm ->
  render_frame q now fm f = Ok (fm', fr) -> fmt_ok sty fm'.
Proof.
  intros Hpc. induction f as [|x r IH]; intros fm fm' fr Hf H; cbn [render_frame] in H.
  - now inversion H; subst.
  - bind_inv H a Ha. bind_inv H b Hb. inversion H; subst. destruct a as [f1 pa], b as [f2 pb]. cbn [fst snd] in *.
    eapply IH; [|exact Hb]. eapply render_piece_fmt_ok; eauto.
Qed.

Lemma best_format_one_line v b : count_nl (lits (best_format v b)) = 0.
Proof. unfold best_format. destruct (v =? 1)%Z, ((v =? 2)%Z || (v =? 4)%Z)%bool, b; reflexivity. Qed.
Lemma with_fmt_ansi_out p : ansi_out p -> ansi_out (with_fmt p) /\ p_last_len (with_fmt p) = p_last_len p /\
  p_pchar (with_fmt p) = p_pchar p.
Proof.
  intros Ho. pose proof Ho as (Ha & Hq & Hs & Hf & (Hflc & Hc) & Hpc & Hw). unfold with_fmt. destruct (p_fmt p).
  { split; [exact Ho|split; reflexivity]. }
  split; [|split; reflexivity]. unfold ansi_out, one_line. cbn.
  split; [exact Ha|]. split; [exact Hq|]. split; [exact Hs|]. split; [exact Hf|]. split; [|split; [exact Hpc|exact Hw]].
  split; [|exact Hc]. fold (lits (match p_custom p with Some f => f | None => best_format (p_verbosity p) (0 <? p_max p)%Z end)).
  destruct (p_custom p) as [f|]; [exact Hc|apply best_format_one_line].
Qed.
Lemma same_out_ansi p q : same_out p q -> ansi_out p -> ansi_out q.
Proof.
  intros (E1 & E2 & E3 & E4 & E5 & E6 & E7 & E8 & _) (Ha & Hq & Hs & Hf & (Hflc & Hc) & Hpc & Hw).
  unfold ansi_out, one_line. rewrite E1, E2, E3, E4, E5, E6, E7, E8.
  exact (conj Ha (conj Hq (conj Hs (conj Hf (conj (conj Hflc Hc) (conj Hpc Hw)))))).
Qed.

(* every frame the history draws is one line of good markup that fits the terminal line *)
Definition frame_fits (q : pbar) (now : Z) : Prop :=
  forall fm fr, frame_of (with_fmt q) now = Ok (fm, fr) -> okl fr /\ length (vis sty fr) <= w.

Lemma ansi_display q now p' es R r t :
  ansi_out q -> on_line R r t -> length r <= p_last_len q -> frame_fits q now -> display q now = Ok (p', es) ->
  exists fm fr, frame_of (with_fmt q) now = Ok (fm, fr) /\
    on_line R (padded_to (p_last_len q) (vis sty fr)) (feed w t es) /\
    ansi_out p' /\ p_last_len p' = length (padded_to (p_last_len q) (vis sty fr)).
Proof.
  intros Ho Hl Hr Hfit H. pose proof Ho as (_ & Hq & _).
  destruct (display_writes _ _ _ _ H Hq) as (fm & fr & p2 & Hfr & Hov & ->).
  destruct (with_fmt_ansi_out q Ho) as (Ho1 & EL & EP). destruct (Hfit fm fr Hfr) as [Hok Hlen].
  pose proof Ho1 as (Ha1 & Hq1 & Hs1 & Hf1 & Hol1 & Hpc1 & Hw1).
  assert (fmt_ok sty fm) as Hfm by (eapply (render_frame_fmt_ok _ now Hpc1); [exact Hf1|exact Hfr]).
  assert (ansi_out (set_out (with_fmt q) fm (p_secs (with_fmt q)))) as Ho2
    by exact (conj Ha1 (conj Hq1 (conj Hs1 (conj Hfm (conj Hol1 (conj Hpc1 Hw1)))))).
  destruct (ansi_overwrite _ now fr p2 es R r t Ho2 Hl ltac:(cbn; rewrite EL; exact Hr) Hok Hlen Hov) as (HL & f' & Hf' & ->).
  cbn [p_last_len set_out] in *. rewrite EL in *. exists fm, fr. split; [exact Hfr|]. split; [exact HL|]. split; [|reflexivity].
  refine (conj Ha1 (conj Hq1 (conj Hs1 (conj Hf' (conj Hol1 (conj Hpc1 _)))))). cbn. rewrite padded_to_len. lia.
Qed.

Definition step_fits (p : pbar) (now : Z) (o : pop) : Prop :=
  match draw_state p now o with Some q => frame_fits q now | None => True end.
(* what the line shows after a call that wrote: the visible text of its frame, padded with blanks up to the length of
   the frame before (a clear: blanks only) *)
Definition shown_by (p : pbar) (now : Z) (o : pop) : str :=
  match draw_state p now o with
  | Some q => match frame_of (with_fmt q) now with Ok (_, fr) => padded_to (p_last_len p) (vis sty fr) | Err _ => [] end
  | None => padded_to (p_last_len p) []
  end.

Lemma ansi_step p now o p' es R r t :
  ansi_out p -> on_line R r t -> length r <= p_last_len p -> step_fits p now o -> pstep p now o = Ok (p', es) ->
  ansi_out p' /\ on_line R (match es with [] => r | _ => shown_by p now o end) (feed w t es) /\
  length (match es with [] => r | _ => shown_by p now o end) <= p_last_len p'.
Proof.
  intros Ho Hl Hr Hfit H. unfold step_fits, shown_by in *.
  assert (forall q, draw_state p now o = Some q -> same_out p q) as Hsame.
  { intros q Hq. destruct o; cbn [draw_state] in Hq; inversion Hq; subst;
      [apply start_state_same|apply sp_state_same|apply sp_state_same|apply same_out_refl|].
    eapply same_out_trans; [apply finish_state_same|apply sp_state_same]. }
  destruct (draw_state p now o) as [q|] eqn:Hd.
  - pose proof (Hsame q eq_refl) as Sq. pose proof Sq as (_ & _ & _ & _ & _ & _ & _ & EL & _).
    destruct (pstep_draws _ _ _ _ _ _ H Hd) as [D|[-> Sp]].
    + destruct (ansi_display q now p' es R r t (same_out_ansi _ _ Sq Ho) Hl ltac:(rewrite EL; exact Hr) Hfit D)
        as (fm & fr & Hfr & HL & Ho' & ELL).
      rewrite Hfr, <- EL. assert (es <> []) as Hne.
      { pose proof (same_out_ansi _ _ Sq Ho) as (Ha & Hq & Hs & _). eapply display_draws; [| |exact D]; [|exact Ha].
        split; [exact Hq|]. intros E. congruence. }
      destruct es; [contradiction|]. split; [exact Ho'|]. split; [exact HL|]. lia.
    + cbn [feed fold_left]. pose proof Sp as (_ & _ & _ & _ & _ & _ & _ & EL' & _). split; [eapply same_out_ansi; eauto|].
      split; [exact Hl|]. lia.
  - destruct o as [mx|k|k| | | |m|tx]; cbn [draw_state] in Hd; try discriminate; cbn [pstep] in H.
    + (* clear *)
      pose proof Ho as (Ha & _). rewrite Ha in H. cbn [negb] in H.
      destruct (with_fmt_ansi_out p Ho) as (Ho1 & EL & _). pose proof Ho1 as (_ & _ & _ & _ & (Hflc & _) & _).
      rewrite Hflc in H. cbn [repeat] in H.
      destruct (ansi_overwrite (with_fmt p) now [] p' es R r t Ho1 Hl ltac:(rewrite EL; exact Hr) okl_nil) as (HL & f' & Hf' & ->);
        [destruct (okline_nil sty) as [_ ->]; cbn; lia|exact H|].
      destruct (okline_nil sty) as [_ EV]. rewrite EV, EL in *.
      assert (es <> []) as Hne.
      { pose proof Ho1 as (Ha1 & Hq1 & Hs1 & _). eapply overwrite_draws; [| |exact H]; [|exact Ha1]. split; [exact Hq1|]. congruence. }
      destruct es; [contradiction|]. split; [|split; [exact HL|cbn; lia]].
      pose proof Ho1 as (A1 & A2 & A3 & A4 & A5 & A6 & A7).
      refine (conj A1 (conj A2 (conj A3 (conj Hf' (conj A5 (conj A6 _)))))). cbn. rewrite padded_to_len. cbn. lia.
    + (* set_message *)
      injection H as <- <-. cbn [feed fold_left]. split; [|split; [exact Hl|exact Hr]].
      eapply same_out_ansi; [|exact Ho]. repeat split.
    + (* the write below: not a section output *)
      pose proof Ho as (_ & _ & Hs & _). rewrite Hs in H. injection H as <- <-. cbn [feed fold_left]. auto.
Qed.

(* whole histories *)
Fixpoint run_fits (p : pbar) (now : Z) (ops : list (Z * pop)) : Prop :=
  match ops with
  | [] => True
  | (dt, o) :: r => step_fits p (now + dt) o /\
                    match pstep p (now + dt) o with Ok (p', _) => run_fits p' (now + dt) r | Err _ => True end
  end.
(* what the line shows after a history: the frame of the latest call that wrote *)
Fixpoint run_shown (p : pbar) (now : Z) (ops : list (Z * pop)) (cur : str) : str :=
  match ops with
  | [] => cur
  | (dt, o) :: r => match pstep p (now + dt) o with
                    | Ok (p', es) => run_shown p' (now + dt) r (match es with [] => cur | _ => shown_by p (now + dt) o end)
                    | Err _ => cur
                    end
  end.
Lemma ansi_run : forall ops p now R r t trace pf,
  ansi_out p -> on_line R r t -> length r <= p_last_len p -> run_fits p now ops -> prun p now ops = Ok (trace, pf) ->
  ansi_out pf /\ on_line R (run_shown p now ops r) (feed w t (flat_map snd trace)) /\
  length (run_shown p now ops r) <= p_last_len pf.
Proof.
  induction ops as [|[dt o] rest IH]; intros p now R r t trace pf Ho Hl Hr Hfit H; cbn [prun run_shown run_fits] in *.
  - injection H as <- <-. cbn [flat_map feed fold_left]. auto.
  - bind_inv H a Ha. bind_inv H b Hb. injection H as <- <-. destruct a as [p1 es], b as [tr pf']. cbn [fst snd] in *.
    rewrite Ha in *. destruct Hfit as [Hf1 Hf2].
    destruct (ansi_step p (now + dt)%Z o p1 es R r t Ho Hl Hr Hf1 Ha) as (Ho1 & Hl1 & Hr1).
    cbn [flat_map snd]. rewrite feed_app. apply (IH p1 (now + dt)%Z R _ _ tr pf' Ho1 Hl1 Hr1 Hf2 Hb).
Qed.
End Line.

(* ---------- 4. a section output: the screen stays the stack of the sections, the section below is not touched ---------- *)
Lemma lines_of_app_nl l rest : no_lf l -> lines_of (l ++ NL :: rest) = l :: lines_of rest.
Proof. induction 1 as [|c r Hc Hr IH]; cbn [app lines_of]; [reflexivity|]. now rewrite Hc, IH. Qed.
Lemma lines_of_join ls : ls <> [] -> Forall no_lf ls -> lines_of (join_with NL ls) = ls.
Proof.
  induction ls as [|l r IH]; intros Hne H; [congruence|]. inversion H; subst. destruct r as [|l2 r].
  - cbn [join_with]. now apply lines_of_single.
  - change (join_with NL (l :: l2 :: r)) with (l ++ NL :: join_with NL (l2 :: r)).
    rewrite lines_of_app_nl by assumption. now rewrite IH by (assumption || discriminate).
Qed.
Lemma lines_of_repeat_lf n : lines_of (repeat LF n) = repeat [] (S n).
Proof. induction n as [|n IH]; cbn [repeat lines_of]; [reflexivity|]. now rewrite IH. Qed.

Lemma write0_below w st f text nl x : sstep_ansi w st f (SWrite 0 text nl) = Ok x ->
  skipn 1 (fst (fst x)) = skipn 1 st /\ (st <> [] -> fst (fst x) <> []).
Proof.
  intros H. cbn [sstep_ansi] in H. destruct st as [|s r]; cbn [nth_error] in H.
  - inversion H; subst. cbn. auto.
  - bind_inv H m Hm. bind_inv H a Ha. bind_inv H b Hb. inversion H; subst. cbn. split; [reflexivity|discriminate].
Qed.
Lemma clear0_below w st f n x : sstep_ansi w st f (SClear 0 n) = Ok x -> skipn 1 (fst (fst x)) = skipn 1 st.
Proof.
  intros H. cbn [sstep_ansi] in H. destruct st as [|s r]; cbn [nth_error] in H.
  - inversion H; subst. reflexivity.
  - destruct (sc_content s).
    + inversion H; subst. reflexivity.
    + bind_inv H kr Hkr. destruct kr as [[keep rc] f1]. bind_inv H y Hy. inversion H; subst. reflexivity.
Qed.

Section Sec.
Variable w : nat.
Hypothesis w_pos : 1 <= w.
Variable sty : styles.
Notation okl := (okl sty).

(* SectionLemmas.write_step for a text given by its lines (the padded lines of a frame) *)
Lemma write_step_lines st f t i text nl s :
  Inv w sty st f t -> nth_error st i = Some s -> Forall (okline sty) (lines_of text) ->
  exists st' f' es, sstep_ansi w st f (SWrite i text nl) = Ok (st', f', es) /\ Inv w sty st' f' (feed w t es).
Proof.
  intros (-> & Hok & Hf) Hn Hlines.
  destruct (Forall_split w sty st i s Hok Hn) as (HA & [Hl Hc] & HB). destruct (split_at st i s Hn) as [E _].
  cbn [sstep_ansi]. rewrite Hn. unfold erased, pop_ctl, newer.
  set (A := firstn i st) in *. set (B := skipn (S i) st) in *. set (n := sc_indent s) in *.
  destruct (content_lines_ok sty n text Hlines) as [Hcl _].
  destruct (measure_ok w w_pos sty (content_lines n text) f (sc_lines s) Hf Hcl) as (f1 & E1 & Hf1). rewrite E1. cbn [bind fst snd].
  destruct (write_ok w w_pos sty f1 n text (stacked w sty A ++ sec_rows w sty s) Hf1 Hlines) as (f2 & a & E2 & Hf2 & F2).
  rewrite E2. cbn [bind fst snd].
  destruct (reprint_ok w w_pos sty B f2 ((stacked w sty A ++ sec_rows w sty s) ++ vrows w sty (content_lines n text)) Hf2 HB)
    as (f3 & a2 & E3 & Hf3 & F3).
  rewrite E3. cbn [bind fst snd].
  eexists _, _, _. split; [reflexivity|]. split; [|split; [|exact Hf3]].
  - unfold screen. rewrite E at 1. rewrite stacked_app. cbn [stacked flat_map]. fold (stacked w sty B).
    rewrite !feed_app. cbn [Nat.add]. rewrite (sum_lines w w_pos sty B HB).
    rewrite (app_assoc (stacked w sty A) (sec_rows w sty s) (stacked w sty B)), (pop_feed w w_pos).
    rewrite <- (feed_app w _ (emits_of_ansi a) [Nl]), F2, F3.
    unfold set_sec. fold A B. rewrite stacked_app. cbn [stacked flat_map]. fold (stacked w sty B).
    unfold sec_rows at 2. cbn [sc_content]. rewrite vrows_app. fold (sec_rows w sty s). now rewrite <- !app_assoc.
  - unfold set_sec. fold A B. apply Forall_app. split; [exact HA|]. constructor; [|exact HB].
    split; cbn [sc_lines sc_content].
    + unfold sec_rows. cbn [sc_content]. rewrite vrows_app, app_length, Hl. reflexivity.
    + apply Forall_app. split; assumption.
Qed.

Lemma pad_lines_ok last : forall ls f, fmt_ok sty f -> Forall okl ls ->
  exists f', pad_lines last f ls = Ok (f', map (fun l => pad_to last l (vis sty l)) ls) /\ fmt_ok sty f'.
Proof.
  induction ls as [|l r IH]; intros f Hf H; cbn [pad_lines map].
  - exists f. auto.
  - inversion H as [|? ? [(L1 & L2 & L3) Hc] Hr]; subst.
    destruct (remove_format_ok sty f l (vis sty l) Hf L3) as (f1 & E1 & Hf1). rewrite E1. cbn [bind fst snd].
    destruct (IH f1 Hf1 Hr) as (f2 & E2 & Hf2). rewrite E2. cbn [bind fst snd]. exists f2. auto.
Qed.
Lemma max_vis_ok : forall ls f acc, fmt_ok sty f -> Forall (okline sty) ls ->
  exists f' n, max_vis f ls acc = Ok (f', n) /\ fmt_ok sty f'.
Proof.
  induction ls as [|l r IH]; intros f acc Hf H; cbn [max_vis].
  - exists f, acc. auto.
  - inversion H as [|? ? (L1 & L2 & L3) Hr]; subst.
    destruct (remove_format_ok sty f l (vis sty l) Hf L3) as (f1 & E1 & Hf1). rewrite E1. cbn [bind fst snd].
    apply IH; assumption.
Qed.

(* the bar's section is the first one; the screen is the stack of all sections (SectionLemmas.Inv) *)
Definition sec_out (p : pbar) (t : term) : Prop :=
  p_ansi p = true /\ p_quiet p = false /\ p_section p = true /\ p_w p = w /\ p_secs p <> [] /\ okline sty (p_pchar p) /\
  Inv w sty (p_secs p) (p_f p) t.
Lemma Inv_fmt st f f' t : Inv w sty st f t -> fmt_ok sty f' -> Inv w sty st f' t.
Proof. intros (H1 & H2 & _) H. exact (conj H1 (conj H2 H)). Qed.

Lemma sec_overwrite q now m p' es t : sec_out q t -> Forall okl (lines_of m) -> overwrite q now m = Ok (p', es) ->
  sec_out p' (feed w t es) /\ skipn 1 (p_secs p') = skipn 1 (p_secs q).
Proof.
  intros (Ha & Hq & Hs & Hw & Hne & Hpc & HI) Hm H. pose proof HI as (_ & _ & Hf).
  unfold overwrite in H.
  destruct (pad_lines_ok (p_last_len q) _ (p_f q) Hf Hm) as (f1 & E1 & Hf1). rewrite E1 in H. cbn [bind fst snd] in H.
  set (lines := map (fun l => pad_to (p_last_len q) l (vis sty l)) (lines_of m)) in *.
  assert (Forall (okline sty) lines) as Hlines.
  { unfold lines. apply Forall_map. eapply Forall_impl; [|exact Hm]. intros l Hl. apply (pad_to_ok sty), Hl. }
  assert (lines <> []) as Hlne by (unfold lines; pose proof (lines_of_ne m); destruct (lines_of m); [contradiction|discriminate]).
  cbn [p_ansi p_section set_out] in H. rewrite Ha, Hs in H.
  (* clear *)
  unfold out_clear in H. cbn [p_quiet p_w p_secs p_f p_flc set_out] in H. rewrite Hq, Hw in H.
  destruct (p_secs q) as [|s0 r0] eqn:Est; [contradiction|].
  set (n := length lines / w + p_flc q + 1) in *.
  destruct (clear_step w w_pos sty (s0 :: r0) f1 t 0 (Some n) s0 (Inv_fmt _ _ _ _ HI Hf1) eq_refl) as (st1 & f2 & e1 & E2 & HI1).
  rewrite E2 in H. cbn [bind fst snd] in H.
  pose proof (clear0_below _ _ _ _ _ E2) as B1. pose proof (clear0_secs _ _ _ _ _ E2 ltac:(discriminate)) as N1. cbn [fst] in B1, N1.
  (* write *)
  unfold out_write in H. cbn [p_quiet p_section p_ansi p_w p_secs p_f set_out] in H. rewrite Hq, Hs, Ha, Hw in H.
  destruct st1 as [|s1 r1]; [contradiction|].
  assert (Forall (okline sty) (lines_of (join_with NL lines))) as Hjl.
  { rewrite lines_of_join; [exact Hlines|exact Hlne|]. eapply Forall_impl; [|exact Hlines]. intros l Hl. apply Hl. }
  destruct (write_step_lines (s1 :: r1) f2 _ 0 (join_with NL lines) false s1 HI1 eq_refl Hjl) as (st2 & f3 & e2 & E3 & HI2).
  rewrite E3 in H. cbn [bind fst snd] in H.
  destruct (write0_below _ _ _ _ _ _ E3) as [B2 N2]. cbn [fst] in B2, N2.
  pose proof HI2 as (_ & _ & Hf3).
  cbn [p_f p_secs set_out] in H.
  destruct (max_vis_ok lines f3 0 Hf3 Hlines) as (f4 & ll & E4 & Hf4). rewrite E4 in H. cbn [bind fst snd] in H.
  injection H as <- <-. rewrite feed_app. cbn [p_secs set_written set_out]. split.
  - refine (conj Ha (conj Hq (conj Hs (conj Hw (conj (N2 ltac:(discriminate)) (conj Hpc _)))))). cbn.
    apply (Inv_fmt _ _ _ _ HI2 Hf4).
  - cbn in B1. now rewrite B2, B1.
Qed.

Lemma same_out_sec p q t : same_out p q -> sec_out p t -> sec_out q t.
Proof.
  intros (E1 & E2 & E3 & E4 & _ & _ & E7 & _ & E9 & E10) H. unfold sec_out. now rewrite E1, E2, E3, E4, E7, E9, E10.
Qed.

(* every line of the frame is good markup and does not end inside a tag *)
Definition frame_lines_ok (q : pbar) (now : Z) : Prop :=
  forall fm fr, frame_of (with_fmt q) now = Ok (fm, fr) -> Forall okl (lines_of fr).
Definition sec_step_ok (p : pbar) (now : Z) (o : pop) : Prop :=
  match draw_state p now o with Some q => frame_lines_ok q now | None => True end.

Lemma with_fmt_same p : same_out p (set_fmt (with_fmt p) (p_fmt p) (p_flc p)) /\ p_secs (with_fmt p) = p_secs p /\
  p_f (with_fmt p) = p_f p /\ p_pchar (with_fmt p) = p_pchar p /\ p_ansi (with_fmt p) = p_ansi p /\
  p_quiet (with_fmt p) = p_quiet p /\ p_section (with_fmt p) = p_section p /\ p_w (with_fmt p) = p_w p.
Proof. unfold with_fmt. destruct (p_fmt p); repeat split. Qed.

Lemma sec_display q now p' es t : sec_out q t -> frame_lines_ok q now -> display q now = Ok (p', es) ->
  sec_out p' (feed w t es) /\ skipn 1 (p_secs p') = skipn 1 (p_secs q).
Proof.
  intros Ho Hfit H. pose proof Ho as (Ha & Hq & Hs & Hw & Hne & Hpc & HI).
  destruct (display_writes _ _ _ _ H Hq) as (fm & fr & p2 & Hfr & Hov & ->).
  destruct (with_fmt_same q) as (_ & S1 & S2 & S3 & S4 & S5 & S6 & S7).
  pose proof HI as (_ & _ & Hf).
  assert (fmt_ok sty fm) as Hfm.
  { eapply (render_frame_fmt_ok sty (with_fmt q) now); [rewrite S3; exact Hpc| |exact Hfr]. rewrite S2. exact Hf. }
  assert (sec_out (set_out (with_fmt q) fm (p_secs (with_fmt q))) t) as Ho2.
  { unfold sec_out. cbn. rewrite S1, S3, S4, S5, S6, S7.
    exact (conj Ha (conj Hq (conj Hs (conj Hw (conj Hne (conj Hpc (Inv_fmt _ _ _ _ HI Hfm))))))). }
  destruct (sec_overwrite _ now fr p2 es t Ho2 (Hfit fm fr Hfr) Hov) as [Ho3 B]. cbn [p_secs set_out] in B. rewrite S1 in B.
  split; [exact Ho3|exact B].
Qed.

Lemma sec_step p now o p' es t : sec_out p t -> sec_step_ok p now o -> good_pop sty o = true -> pstep p now o = Ok (p', es) ->
  sec_out p' (feed w t es) /\ (bar_call o -> skipn 1 (p_secs p') = skipn 1 (p_secs p)).
Proof.
  intros Ho Hfit Hg H. unfold sec_step_ok in Hfit.
  assert (forall q, draw_state p now o = Some q -> same_out p q) as Hsame.
  { intros q Hq. destruct o; cbn [draw_state] in Hq; inversion Hq; subst;
      [apply start_state_same|apply sp_state_same|apply sp_state_same|apply same_out_refl|].
    eapply same_out_trans; [apply finish_state_same|apply sp_state_same]. }
  destruct (draw_state p now o) as [q|] eqn:Hd.
  - pose proof (Hsame q eq_refl) as Sq. pose proof Sq as (_ & _ & _ & _ & _ & _ & _ & _ & ES & _).
    destruct (pstep_draws _ _ _ _ _ _ H Hd) as [D|[-> Sp]].
    + destruct (sec_display q now p' es t (same_out_sec _ _ _ Sq Ho) Hfit D) as [Ho' B]. rewrite ES in B. auto.
    + cbn [feed fold_left]. pose proof Sp as (_ & _ & _ & _ & _ & _ & _ & _ & ES' & _). split; [eapply same_out_sec; eauto|intros _; now rewrite ES'].
  - pose proof Ho as (Ha & Hq & Hs & Hw & Hne & Hpc & HI).
    destruct o as [mx|k|k| | | |m|tx]; cbn [draw_state] in Hd; try discriminate; cbn [pstep] in H.
    + (* clear *)
      rewrite Ha in H. cbn [negb] in H. destruct (with_fmt_same p) as (_ & S1 & S2 & S3 & S4 & S5 & S6 & S7).
      assert (sec_out (with_fmt p) t) as Ho1 by (unfold sec_out; rewrite S1, S2, S3, S4, S5, S6, S7; exact Ho).
      assert (Forall okl (lines_of (repeat LF (p_flc (with_fmt p))))) as Hbl.
      { rewrite lines_of_repeat_lf. apply Forall_forall. intros x Hx. apply repeat_spec in Hx. subst. apply okl_nil. }
      destruct (sec_overwrite _ now _ p' es t Ho1 Hbl H) as [Ho2 B].
      rewrite S1 in B. auto.
    + injection H as <- <-. cbn [feed fold_left]. split; [|auto]. eapply same_out_sec; [|exact Ho]. repeat split.
    + (* a write to the section below *)
      rewrite Hs, Ha in H. bind_inv H x Hx. injection H as <- <-. cbn [good_pop] in Hg. split; [|intros []].
      destruct x as [[st' f'] e]. cbn [fst snd] in *.
      assert (st' <> [] /\ Inv w sty st' f' (feed w t e)) as [N I'].
      { rewrite Hw in Hx. destruct (nth_error (p_secs p) 1) as [s1|] eqn:Hn.
        - destruct (write_step w w_pos sty _ _ t 1 tx true s1 HI Hn Hg) as (st2 & f2 & e2 & E & I2). rewrite E in Hx.
          injection Hx as <- <- <-. split; [|exact I2]. cbn [sstep_ansi] in E. rewrite Hn in E.
          bind_inv E m1 Hm1. bind_inv E a1 Ha1. bind_inv E b1 Hb1. injection E as <- _ _. unfold set_sec.
          destruct (p_secs p); [contradiction|]. cbn. discriminate.
        - cbn [sstep_ansi] in Hx. rewrite Hn in Hx. injection Hx as <- <- <-. cbn [feed fold_left]. auto. }
      exact (conj Ha (conj Hq (conj Hs (conj Hw (conj N (conj Hpc I')))))).
Qed.

Fixpoint sec_run_ok (p : pbar) (now : Z) (ops : list (Z * pop)) : Prop :=
  match ops with
  | [] => True
  | (dt, o) :: r => sec_step_ok p (now + dt) o /\
                    match pstep p (now + dt) o with Ok (p', _) => sec_run_ok p' (now + dt) r | Err _ => True end
  end.
Lemma sec_run : forall ops p now t trace pf,
  sec_out p t -> sec_run_ok p now ops -> forallb (good_pop sty) (map snd ops) = true -> prun p now ops = Ok (trace, pf) ->
  sec_out pf (feed w t (flat_map snd trace)) /\
  (Forall bar_call (map snd ops) -> skipn 1 (p_secs pf) = skipn 1 (p_secs p)).
Proof.
  induction ops as [|[dt o] rest IH]; intros p now t trace pf Ho Hfit Hg H; cbn [prun sec_run_ok map forallb snd] in *.
  - injection H as <- <-. cbn [flat_map feed fold_left]. auto.
  - bind_inv H a Ha. bind_inv H b Hb. injection H as <- <-. destruct a as [p1 es], b as [tr pf']. cbn [fst snd] in *.
    rewrite Ha in *. destruct Hfit as [Hf1 Hf2]. apply Bool.andb_true_iff in Hg as [Hg1 Hg2].
    destruct (sec_step p (now + dt)%Z o p1 es t Ho Hf1 Hg1 Ha) as (Ho1 & B1).
    cbn [flat_map snd]. rewrite feed_app. destruct (IH p1 (now + dt)%Z _ tr pf' Ho1 Hf2 Hg2 Hb) as [Ho2 B2].
    split; [exact Ho2|]. intros HF. inversion HF; subst. rewrite (B2 ltac:(assumption)). auto.
Qed.
End Sec.

(* ---------- 5. the premises about the frames as checks that can be run ---------- *)
Lemma closedb_ok l : closedb l = true -> closed l.
Proof. unfold closedb, closed. destruct (l_cand _); intros H; try discriminate; reflexivity. Qed.
Lemma oklb_ok sty l : oklb sty l = true -> okl sty l.
Proof. unfold oklb. intros H. apply Bool.andb_true_iff in H as [H1 H2]. split; [apply good_line_ok, H1|apply closedb_ok, H2]. Qed.

Lemma frame_fitsb_ok w sty q now : frame_fitsb w sty q now = true -> frame_fits w sty q now.
Proof.
  unfold frame_fitsb, frame_fits. intros H fm fr E. rewrite E in H. apply Bool.andb_true_iff in H as [H1 H2].
  split; [apply oklb_ok, H1|apply Nat.leb_le, H2].
Qed.
Lemma run_fitsb_ok w sty : forall ops p now, run_fitsb w sty p now ops = true -> run_fits w sty p now ops.
Proof.
  induction ops as [|[dt o] r IH]; intros p now H; cbn [run_fitsb run_fits] in *; [exact I|].
  apply Bool.andb_true_iff in H as [H1 H2]. split.
  - unfold step_fitsb, step_fits in *. destruct (draw_state p (now + dt) o); [apply frame_fitsb_ok, H1|exact I].
  - destruct (pstep p (now + dt) o) as [[p' es]|]; [apply IH, H2|exact I].
Qed.

Lemma frame_lines_okb_ok sty q now : frame_lines_okb sty q now = true -> frame_lines_ok sty q now.
Proof.
  unfold frame_lines_okb, frame_lines_ok. intros H fm fr E. rewrite E in H. rewrite forallb_forall in H.
  apply Forall_forall. intros l Hl. apply oklb_ok, H, Hl.
Qed.
Lemma sec_run_okb_ok sty : forall ops p now, sec_run_okb sty p now ops = true -> sec_run_ok sty p now ops.
Proof.
  induction ops as [|[dt o] r IH]; intros p now H; cbn [sec_run_okb sec_run_ok] in *; [exact I|].
  apply Bool.andb_true_iff in H as [H1 H2]. split.
  - unfold sec_step_ok. destruct (draw_state p (now + dt) o); [apply frame_lines_okb_ok, H1|exact I].
  - destruct (pstep p (now + dt) o) as [[p' es]|]; [apply IH, H2|exact I].
Qed.
