(* C02, classification clauses: WHICH malformed command line gives WHICH error (strict mode).
   Everything is stated over the model of DefaultArgsParser in Model/Parser.v; f' is the augmented
   format the parser works on (aug_format f = Ok (f', arguments, command_names)).

   Plan of the file
     0. token shapes
     1. one iteration of the token loop as a function (step), "the loop gets as far as ..." (reach),
        "the loop processes all of pre" (scans); the first failing iteration decides the strict result
     2. clause 1  unknown option            -> NoSuchOption
     3. clause 2  value given to a flag     -> CannotParse
     4. clause 3  required value left out   -> CannotParse
     5. clause 5  too many positionals      -> CannotParse
     6. clause 4  required argument missing -> CannotParse
     7. clause 6  value does not convert    -> ValueError
     8. lenient counterparts, non-vacuity examples *)
From Coq Require Import Lia String Ascii.
From Clikit Require Import Base.Prelude Base.Res Model.Conv Model.Flags Model.Format Model.Parser
     Proofs.StrLemmas Proofs.FlagsLemmas Proofs.FormatLemmas Proofs.ParserLemmas.

(* ================= 0. token shapes ================= *)
Definition long_tok (body : str) : str := DASH :: DASH :: body.     (* "--" ++ body *)
Definition short_tok (body : str) : str := DASH :: body.            (* "-" ++ body *)
(* a non-empty token that starts with "-": never taken as the value of an option *)
Definition dashy (tok : str) : bool := nonempty tok && starts_dash tok.
Definition no_eq (s : str) : bool := forallb (fun c => negb (N.eqb c EQ)) s.

Lemma split_eq_found n v : forall acc, no_eq n = true -> split_eq (n ++ EQ :: v) acc = Some (rev acc ++ n, v).
Proof.
  induction n as [|c r IH]; intros acc Hn; cbn [app split_eq].
  - rewrite N.eqb_refl, app_nil_r. reflexivity.
  - cbn [no_eq forallb] in Hn. apply andb_prop in Hn as [Hc Hr].
    destruct (N.eqb c EQ); [discriminate|]. rewrite (IH (c :: acc) Hr). cbn [rev]. rewrite <- app_assoc. reflexivity.
Qed.
Lemma split_eq_none n : forall acc, no_eq n = true -> split_eq n acc = None.
Proof.
  induction n as [|c r IH]; intros acc Hn; cbn [split_eq]; [reflexivity|].
  cbn [no_eq forallb] in Hn. apply andb_prop in Hn as [Hc Hr].
  destruct (N.eqb c EQ); [discriminate|]. apply IH, Hr.
Qed.

(* ================= 1. the token loop, one iteration at a time ================= *)
(* the look-ahead of _add_long_option and what it stores, as separate functions *)
Definition look (acc : bool) (v : option str) (t : list str) : option str * list str :=
  match v, acc, t with
  | None, true, nxt :: rest =>
      if nonempty nxt && negb (starts_dash nxt) then (Some nxt, rest)
      else if negb (nonempty nxt) then (Some [], rest)
      else (None, t)
  | _, _, _ => (v, t)
  end.
Definition store (st : pstate) (name : str) (o : opt) (value : option str) (tokens : list str)
  : res (pstate * list str) :=
  match (match value with Some [] => None | v => v end) with
  | None =>
      if o_required o then Err CannotParse
      else if o_multi o then Err (Other 2)
      else
        let v := if o_optional o then ODefault (o_default o) else OTrue in
        Ok ({| ps_args := ps_args st; ps_opts := sset name v (ps_opts st) |}, tokens)
  | Some s =>
      if o_multi o then
        let l := match sget name (ps_opts st) with Some (OList l) => l | _ => [] end in
        Ok ({| ps_args := ps_args st; ps_opts := sset name (OList (l ++ [s])) (ps_opts st) |}, tokens)
      else Ok ({| ps_args := ps_args st; ps_opts := sset name (OStr s) (ps_opts st) |}, tokens)
  end.

Lemma add_long_eq f st n v t :
  add_long_option f st n v t =
  if negb (has_option f n true) then Err NoSuchOption else
  do o <- get_option f n true;
  if (match v with Some _ => negb (o_accepts o) | None => false end) then Err CannotParse else
  store st n o (fst (look (o_accepts o) v t)) (snd (look (o_accepts o) v t)).
Proof.
  unfold add_long_option, store, look.
  destruct (negb (has_option f n true)); [reflexivity|].
  destruct (get_option f n true) as [o|k]; cbn [bind]; [|reflexivity].
  destruct v as [s|]; [destruct (negb (o_accepts o)); reflexivity|].
  destruct (o_accepts o); [|reflexivity].
  destruct t as [|nxt rest]; [reflexivity|].
  destruct (nonempty nxt && negb (starts_dash nxt)); [reflexivity|].
  destruct (negb (nonempty nxt)); reflexivity.
Qed.

Lemma look_suffix acc v t : exists c, t = c ++ snd (look acc v t).
Proof.
  unfold look. destruct v as [s|]; [exists []; reflexivity|].
  destruct acc; [|exists []; reflexivity].
  destruct t as [|nxt rest]; [exists []; reflexivity|].
  destruct (nonempty nxt && negb (starts_dash nxt)); [exists [nxt]; reflexivity|].
  destruct (negb (nonempty nxt)); [exists [nxt]; reflexivity|exists []; reflexivity].
Qed.
(* a dashy token put behind the remaining tokens does not change the look-ahead *)
Lemma look_app acc v t tok r :
  (v <> None \/ t <> [] \/ dashy tok = true) ->
  look acc v (t ++ tok :: r) = (fst (look acc v t), snd (look acc v t) ++ tok :: r).
Proof.
  intros Hc. unfold look. destruct v as [s|]; [reflexivity|].
  destruct acc; [|reflexivity].
  destruct t as [|nxt rest]; cbn [app].
  - destruct Hc as [Hc|[Hc|Hc]]; [congruence|congruence|].
    unfold dashy in Hc. apply andb_prop in Hc as [H1 H2]. rewrite H1, H2. reflexivity.
  - destruct (nonempty nxt && negb (starts_dash nxt)); [reflexivity|].
    destruct (negb (nonempty nxt)); reflexivity.
Qed.
Lemma store_tokens st n o v t :
  store st n o v t = match store st n o v [] with Ok (st', _) => Ok (st', t) | Err k => Err k end.
Proof.
  unfold store. destruct (match v with Some [] => None | x => x end) as [s|].
  - destruct (o_multi o); reflexivity.
  - destruct (o_required o); [reflexivity|]. destruct (o_multi o); reflexivity.
Qed.
Lemma store_ok_tokens st n o v t st' t' : store st n o v t = Ok (st', t') -> t' = t.
Proof. rewrite store_tokens. destruct (store st n o v []) as [[s x]|k]; intros H; inversion H; reflexivity. Qed.
Lemma store_app st n o v t st' x : store st n o v t = Ok (st', t) -> store st n o v (t ++ x) = Ok (st', t ++ x).
Proof.
  rewrite (store_tokens st n o v t), (store_tokens st n o v (t ++ x)).
  destruct (store st n o v []) as [[s y]|k]; intros H; inversion H; reflexivity.
Qed.

Lemma add_long_suffix f st n v t st' t' : add_long_option f st n v t = Ok (st', t') -> exists c, t = c ++ t'.
Proof.
  rewrite add_long_eq. destruct (negb (has_option f n true)); [discriminate|].
  destruct (get_option f n true) as [o|k]; cbn [bind]; [|discriminate].
  destruct (match v with Some _ => negb (o_accepts o) | None => false end); [discriminate|].
  intros H. apply store_ok_tokens in H. subst t'. apply look_suffix.
Qed.
Lemma add_long_app f st n v t st' t' tok r :
  add_long_option f st n v t = Ok (st', t') -> (v <> None \/ t <> [] \/ dashy tok = true) ->
  add_long_option f st n v (t ++ tok :: r) = Ok (st', t' ++ tok :: r).
Proof.
  rewrite !add_long_eq. destruct (negb (has_option f n true)); [discriminate|].
  destruct (get_option f n true) as [o|k]; cbn [bind]; [|discriminate].
  destruct (match v with Some _ => negb (o_accepts o) | None => false end); [discriminate|].
  intros H Hc. rewrite (look_app _ _ _ _ _ Hc). cbn [fst snd].
  pose proof (store_ok_tokens _ _ _ _ _ _ _ H) as Ht. subst t'. apply store_app. exact H.
Qed.

Lemma take_value_suffix t : exists c, t = c ++ snd (take_value t).
Proof.
  destruct t as [|v r]; cbn [take_value]; [exists []; reflexivity|].
  destruct (nonempty v && starts_dash v); [exists []; reflexivity|exists [v]; reflexivity].
Qed.
Lemma take_value_app t tok r : (t <> [] \/ dashy tok = true) ->
  take_value (t ++ tok :: r) = (fst (take_value t), snd (take_value t) ++ tok :: r).
Proof.
  intros Hc. destruct t as [|v rest]; cbn [app take_value].
  - destruct Hc as [Hc|Hc]; [congruence|]. unfold dashy in Hc. rewrite Hc. reflexivity.
  - destruct (nonempty v && starts_dash v); reflexivity.
Qed.
(* what take_value leaves for the look-ahead of _add_long_option *)
Lemma take_value_cond t tok : (t <> [] \/ dashy tok = true) ->
  fst (take_value t) <> None \/ snd (take_value t) <> [] \/ dashy tok = true.
Proof.
  intros Hc. destruct t as [|v rest]; cbn [take_value].
  - destruct Hc as [Hc|Hc]; [congruence|auto].
  - destruct (nonempty v && starts_dash v); cbn [fst snd]; [right; left; discriminate|left; discriminate].
Qed.

Lemma app_suffix_trans {X} (t c1 t1 c2 t2 : list X) : t = c1 ++ t1 -> t1 = c2 ++ t2 -> exists c, t = c ++ t2.
Proof. intros -> ->. exists (c1 ++ c2). now rewrite app_assoc. Qed.

Lemma parse_long_suffix f st tk t st' t' : parse_long_option f st tk t = Ok (st', t') -> exists c, t = c ++ t'.
Proof.
  unfold parse_long_option. destruct (split_eq (skipn 2 tk) []) as [[n v]|]; [apply add_long_suffix|].
  destruct (accepts f (skipn 2 tk)); [|apply add_long_suffix].
  destruct (take_value_suffix t) as [c1 H1]. destruct (take_value t) as [v t2]. cbn [snd] in H1.
  intros H. apply add_long_suffix in H as [c2 H2]. eapply app_suffix_trans; eauto.
Qed.
Lemma parse_long_app f st tk t st' t' tok r :
  parse_long_option f st tk t = Ok (st', t') -> (t <> [] \/ dashy tok = true) ->
  parse_long_option f st tk (t ++ tok :: r) = Ok (st', t' ++ tok :: r).
Proof.
  unfold parse_long_option. intros H Hc.
  destruct (split_eq (skipn 2 tk) []) as [[n v]|].
  { apply add_long_app; [exact H|left; discriminate]. }
  destruct (accepts f (skipn 2 tk)).
  - rewrite (take_value_app _ _ _ Hc). pose proof (take_value_cond _ _ Hc) as Hc2.
    destruct (take_value t) as [v t2]. cbn [fst snd] in *. apply add_long_app; assumption.
  - apply add_long_app; [exact H|right; exact Hc].
Qed.

Lemma add_short_suffix f st n v t st' t' : add_short_option f st n v t = Ok (st', t') -> exists c, t = c ++ t'.
Proof.
  unfold add_short_option. destruct (negb (has_option f n true)); [discriminate|].
  destruct (get_option f n true) as [o|k]; cbn [bind]; [|discriminate]. apply add_long_suffix.
Qed.
Lemma add_short_app f st n v t st' t' tok r :
  add_short_option f st n v t = Ok (st', t') -> (v <> None \/ t <> [] \/ dashy tok = true) ->
  add_short_option f st n v (t ++ tok :: r) = Ok (st', t' ++ tok :: r).
Proof.
  unfold add_short_option. destruct (negb (has_option f n true)); [discriminate|].
  destruct (get_option f n true) as [o|k]; cbn [bind]; [|discriminate]. apply add_long_app.
Qed.

Lemma short_set_suffix f : forall name st t st' t',
  fst (short_set f st name t) = Ok (st', t') -> exists c, t = c ++ t'.
Proof.
  induction name as [|c rest IH]; intros st t st' t'; cbn [short_set fst].
  - intros H. inversion H. exists []. reflexivity.
  - destruct (negb (has_option f [c] true)); [discriminate|].
    destruct (get_option f [c] true) as [o|k]; [|discriminate].
    destruct (o_accepts o).
    + destruct (add_long_option f st (o_long o) _ t) as [[s1 t1]|k] eqn:E; cbn [fst]; [|discriminate].
      intros H. inversion H; subst. eapply add_long_suffix; eauto.
    + destruct (add_long_option f st (o_long o) None t) as [[s1 t1]|k] eqn:E; cbn [fst]; [|discriminate].
      intros H. apply add_long_suffix in E as [c1 E]. apply IH in H as [c2 H]. eapply app_suffix_trans; eauto.
Qed.
Lemma short_set_app f tok r : dashy tok = true -> forall name st t st' t',
  fst (short_set f st name t) = Ok (st', t') ->
  fst (short_set f st name (t ++ tok :: r)) = Ok (st', t' ++ tok :: r).
Proof.
  intros Hd. induction name as [|c rest IH]; intros st t st' t'; cbn [short_set fst].
  - intros H. inversion H. reflexivity.
  - destruct (negb (has_option f [c] true)); [discriminate|].
    destruct (get_option f [c] true) as [o|k]; [|discriminate].
    destruct (o_accepts o).
    + destruct (add_long_option f st (o_long o) _ t) as [[s1 t1]|k] eqn:E; cbn [fst]; [|discriminate].
      intros H. inversion H; subst.
      rewrite (add_long_app _ _ _ _ _ _ _ tok r E) by (right; right; exact Hd). reflexivity.
    + destruct (add_long_option f st (o_long o) None t) as [[s1 t1]|k] eqn:E; cbn [fst]; [|discriminate].
      intros H. rewrite (add_long_app _ _ _ _ _ _ _ tok r E) by (right; right; exact Hd). apply IH. exact H.
Qed.

Lemma parse_short_suffix f st tk t st' t' :
  fst (parse_short_option f st tk t) = Ok (st', t') -> exists c, t = c ++ t'.
Proof.
  unfold parse_short_option. destruct (skipn 1 tk) as [|c [|c2 rest]]; cbn [fst]; [discriminate| |].
  - destruct (accepts f [c]).
    + destruct (take_value_suffix t) as [c1 H1]. destruct (take_value t) as [v t2]. cbn [snd fst] in *.
      intros H. apply add_short_suffix in H as [c2 H2]. eapply app_suffix_trans; eauto.
    + cbn [fst]. apply add_short_suffix.
  - destruct (accepts f [c]); [cbn [fst]; apply add_short_suffix|apply short_set_suffix].
Qed.
Lemma parse_short_app f st tk t st' t' tok r : dashy tok = true ->
  fst (parse_short_option f st tk t) = Ok (st', t') ->
  fst (parse_short_option f st tk (t ++ tok :: r)) = Ok (st', t' ++ tok :: r).
Proof.
  intros Hd. unfold parse_short_option. destruct (skipn 1 tk) as [|c [|c2 rest]]; cbn [fst]; [discriminate| |].
  - destruct (accepts f [c]).
    + rewrite (take_value_app t tok r) by (right; exact Hd).
      destruct (take_value t) as [v t2]. cbn [fst snd]. intros H.
      rewrite (add_short_app _ _ _ _ _ _ _ tok r H) by (right; right; exact Hd). reflexivity.
    + cbn [fst]. intros H. rewrite (add_short_app _ _ _ _ _ _ _ tok r H) by (right; right; exact Hd). reflexivity.
  - destruct (accepts f [c]).
    + cbn [fst]. intros H. rewrite (add_short_app _ _ _ _ _ _ _ tok r H) by (left; discriminate). reflexivity.
    + apply short_set_app. exact Hd.
Qed.

(* ---- one iteration of the while loop of _parse: (parse_options, scratch state, remaining tokens) ---- *)
Definition step (f : fmt) (len p : bool) (st : pstate) (tok : str) (rest : list str)
  : res (bool * pstate * list str) :=
  if p && negb (nonempty tok) then
    match parse_argument f len st tok with Ok st' => Ok (p, st', rest) | Err k => Err k end
  else if p && is_dd tok then Ok (false, st, rest)
  else if p && starts_dd tok then
    match parse_long_option f st tok rest with Ok (st', rest') => Ok (p, st', rest') | Err k => Err k end
  else if p && starts_dash tok && negb (str_eqb tok [DASH]) then
    match fst (parse_short_option f st tok rest) with Ok (st', rest') => Ok (p, st', rest') | Err k => Err k end
  else
    match parse_argument f len st tok with Ok st' => Ok (p, st', rest) | Err k => Err k end.

Lemma loop_step_ok f len fuel p st tok rest p' st' rest' :
  step f len p st tok rest = Ok (p', st', rest') ->
  loop (S fuel) f len p st (tok :: rest) = loop fuel f len p' st' rest'.
Proof.
  unfold step. cbn [loop].
  destruct (p && negb (nonempty tok)).
  { destruct (parse_argument f len st tok) as [s|k]; intros H; inversion H; subst; reflexivity. }
  destruct (p && is_dd tok).
  { intros H; inversion H; subst; reflexivity. }
  destruct (p && starts_dd tok).
  { destruct (parse_long_option f st tok rest) as [[s r]|k]; intros H; inversion H; subst; reflexivity. }
  destruct (p && starts_dash tok && negb (str_eqb tok [DASH])).
  { destruct (parse_short_option f st tok rest) as [[[s r]|k] s2]; cbn [fst]; intros H; inversion H; subst; reflexivity. }
  destruct (parse_argument f len st tok) as [s|k]; intros H; inversion H; subst; reflexivity.
Qed.
Lemma loop_step_err f len fuel p st tok rest k :
  step f len p st tok rest = Err k -> snd (loop (S fuel) f len p st (tok :: rest)) = Some k.
Proof.
  unfold step. cbn [loop].
  destruct (p && negb (nonempty tok)).
  { destruct (parse_argument f len st tok) as [s|k']; intros H; inversion H; subst; reflexivity. }
  destruct (p && is_dd tok).
  { discriminate. }
  destruct (p && starts_dd tok).
  { destruct (parse_long_option f st tok rest) as [[s r]|k']; intros H; inversion H; subst; reflexivity. }
  destruct (p && starts_dash tok && negb (str_eqb tok [DASH])).
  { destruct (parse_short_option f st tok rest) as [[[s r]|k'] s2]; cbn [fst]; intros H; inversion H; subst; reflexivity. }
  destruct (parse_argument f len st tok) as [s|k']; intros H; inversion H; subst; reflexivity.
Qed.

Lemma step_suffix f len p st tok rest p' st' rest' :
  step f len p st tok rest = Ok (p', st', rest') ->
  (exists c, rest = c ++ rest') /\ p' = p && negb (is_dd tok).
Proof.
  unfold step.
  destruct (p && negb (nonempty tok)) eqn:C1.
  { destruct (parse_argument f len st tok) as [s|k]; intros H; inversion H; subst. split; [exists []; reflexivity|].
    apply andb_prop in C1 as [-> C1]. destruct tok; [reflexivity|discriminate]. }
  destruct (p && is_dd tok) eqn:C2.
  { intros H; inversion H; subst. split; [exists []; reflexivity|].
    apply andb_prop in C2 as [-> ->]. reflexivity. }
  assert (p = p && negb (is_dd tok)) as Hp.
  { destruct p; [|reflexivity]. cbn [andb] in C2. rewrite C2. reflexivity. }
  destruct (p && starts_dd tok).
  { destruct (parse_long_option f st tok rest) as [[s r]|k] eqn:E; intros H; inversion H; subst.
    split; [eapply parse_long_suffix; eauto|exact Hp]. }
  destruct (p && starts_dash tok && negb (str_eqb tok [DASH])).
  { destruct (fst (parse_short_option f st tok rest)) as [[s r]|k] eqn:E; intros H; inversion H; subst.
    split; [eapply parse_short_suffix; eauto|exact Hp]. }
  destruct (parse_argument f len st tok) as [s|k]; intros H; inversion H; subst.
  split; [exists []; reflexivity|exact Hp].
Qed.
Lemma step_len f len p st tok rest p' st' rest' :
  step f len p st tok rest = Ok (p', st', rest') -> length rest' <= length rest.
Proof. intros H. apply step_suffix in H as [[c ->] _]. rewrite app_length. lia. Qed.

Lemma step_app f len p st tok0 t p1 st1 t1 tok r : dashy tok = true ->
  step f len p st tok0 t = Ok (p1, st1, t1) ->
  step f len p st tok0 (t ++ tok :: r) = Ok (p1, st1, t1 ++ tok :: r).
Proof.
  intros Hd. unfold step.
  destruct (p && negb (nonempty tok0)).
  { destruct (parse_argument f len st tok0) as [s|k]; intros H; inversion H; subst; reflexivity. }
  destruct (p && is_dd tok0).
  { intros H; inversion H; subst; reflexivity. }
  destruct (p && starts_dd tok0).
  { destruct (parse_long_option f st tok0 t) as [[s x]|k] eqn:E; intros H; inversion H; subst.
    rewrite (parse_long_app _ _ _ _ _ _ tok r E) by (right; exact Hd). reflexivity. }
  destruct (p && starts_dash tok0 && negb (str_eqb tok0 [DASH])).
  { destruct (fst (parse_short_option f st tok0 t)) as [[s x]|k] eqn:E; intros H; inversion H; subst.
    rewrite (parse_short_app _ _ _ _ _ _ tok r Hd E). reflexivity. }
  destruct (parse_argument f len st tok0) as [s|k]; intros H; inversion H; subst; reflexivity.
Qed.

(* reach f len p st t p' st' t': iterating from (p, st, t) the loop arrives, without error, at (p', st', t') *)
Inductive reach (f : fmt) (len : bool) : bool -> pstate -> list str -> bool -> pstate -> list str -> Prop :=
| reach_here p st t : reach f len p st t p st t
| reach_next p st tok rest p1 st1 t1 p2 st2 t2 :
    step f len p st tok rest = Ok (p1, st1, t1) -> reach f len p1 st1 t1 p2 st2 t2 ->
    reach f len p st (tok :: rest) p2 st2 t2.

Lemma reach_loop f len p st t p' st' t' :
  reach f len p st t p' st' t' -> forall fuel, length t < fuel ->
  exists fuel', length t' < fuel' /\ loop fuel f len p st t = loop fuel' f len p' st' t'.
Proof.
  induction 1 as [p st t|p st tok rest p1 st1 t1 p2 st2 t2 Hs Hr IH]; intros fuel Hf.
  - exists fuel. split; [exact Hf|reflexivity].
  - destruct fuel as [|fuel]; [lia|]. cbn [length] in Hf.
    pose proof (step_len _ _ _ _ _ _ _ _ _ Hs) as Hl.
    destruct (IH fuel ltac:(lia)) as (fuel' & Hf' & Heq).
    exists fuel'. split; [exact Hf'|]. rewrite (loop_step_ok _ _ _ _ _ _ _ _ _ _ Hs). exact Heq.
Qed.

(* the strict token loop processes all of pre without error and ends in scratch state st *)
Definition scans (f : fmt) (pre : list str) (st : pstate) : Prop :=
  loop (S (length pre)) f false true ps_empty pre = (st, None).

Lemma scans_reach_gen f len tok r : dashy tok = true -> forall fuel pre p st0 st,
  length pre < fuel -> loop fuel f len p st0 pre = (st, None) -> existsb is_dd pre = false ->
  reach f len p st0 (pre ++ tok :: r) p st (tok :: r).
Proof.
  intros Hd. induction fuel as [|fuel IH]; intros pre p st0 st Hf Hl Hdd; [lia|].
  destruct pre as [|tok0 t].
  - cbn [loop] in Hl. inversion Hl; subst. apply reach_here.
  - cbn [length] in Hf. cbn [existsb] in Hdd. apply orb_false_elim in Hdd as [Hdd0 Hddt].
    destruct (step f len p st0 tok0 t) as [[[p1 st1] t1]|k] eqn:E.
    + rewrite (loop_step_ok _ _ _ _ _ _ _ _ _ _ E) in Hl.
      destruct (step_suffix _ _ _ _ _ _ _ _ _ E) as [[c Hc] Hp].
      rewrite Hdd0, andb_true_r in Hp. subst p1.
      cbn [app]. eapply reach_next; [apply step_app; eassumption|].
      apply IH; [subst t; rewrite app_length in Hf; lia|exact Hl|].
      subst t. rewrite existsb_app in Hddt. now apply orb_false_elim in Hddt as [_ ?].
    + pose proof (loop_step_err _ _ fuel _ _ _ _ _ E) as He. rewrite Hl in He. discriminate.
Qed.
Lemma scans_reach f pre st tok r :
  scans f pre st -> existsb is_dd pre = false -> dashy tok = true ->
  reach f false true ps_empty (pre ++ tok :: r) true st (tok :: r).
Proof. intros Hs Hdd Hd. eapply scans_reach_gen; eauto. Qed.

(* ---- the first failing iteration decides the result of a strict parse ---- *)
Theorem strict_error_at f f' ar cns toks p st tok rest k :
  aug_format f = Ok (f', ar, cns) ->
  reach f' false true ps_empty toks p st (tok :: rest) ->
  step f' false p st tok rest = Err k ->
  parse f false toks = Err k.
Proof.
  intros Haug Hr Hs. unfold parse, parse_on. rewrite Haug.
  destruct (reach_loop _ _ _ _ _ _ _ _ Hr (S (length toks)) ltac:(lia)) as (fuel' & Hf & Heq).
  rewrite Heq. destruct fuel' as [|fuel']; [cbn in Hf; lia|].
  pose proof (loop_step_err _ _ fuel' _ _ _ _ _ Hs) as He.
  destruct (loop (S fuel') f' false p st (tok :: rest)) as [st1 e]. cbn [snd] in He. subst e.
  destruct k; reflexivity.
Qed.

(* ================= a concrete format for the non-vacuity examples =================
   command names: server (alias srv), add;  arguments: src (required), count (optional, INTEGER);
   options: --verbose/-v, --quiet/-q (flags), --num/-n (value required, INTEGER), --opt/-o (value optional) *)
Definition S_ (x : string) : str := List.map N_of_ascii (list_ascii_of_string x).
Definition T (l : list string) : list str := List.map S_ l.
Definition mkopt (l : string) (s : option string) (fl : Z) (d : pyval) : opt :=
  {| o_long := S_ l; o_short := option_map S_ s;
     o_flags := opt_defaults fl (match s with Some _ => true | None => false end); o_default := d |}.
Definition mkarg (n : string) (fl : Z) (d : pyval) : arg :=
  {| a_name := S_ n; a_flags := arg_defaults fl; a_default := d |}.
Definition ex_opts : list element :=
  [ EOpt (mkopt "verbose" (Some "v") 4 VNone); EOpt (mkopt "quiet" (Some "q") 4 VNone);
    EOpt (mkopt "num" (Some "n") 520 VNone); EOpt (mkopt "opt" (Some "o") 16 (VStr (S_ "d"))) ]%string.
Definition ex_args : list element := [ EArg (mkarg "src" 1 VNone); EArg (mkarg "count" 66 VNone) ]%string.
Definition ex_cnames : list element :=
  [ ECName {| cn_name := S_ "server"; cn_aliases := [S_ "srv"] |}; ECName {| cn_name := S_ "add"; cn_aliases := [] |} ]%string.
Definition fmt_of (es : list element) : fmt :=
  match format_of_elements es None with Ok f => f | Err _ => empty_builder None end.
Definition aug_of (f : fmt) := match aug_format f with Ok x => x | Err _ => (f, [], []) end.
(* ex_f: with command names; ex_g: the same without command names *)
Definition ex_f : fmt := fmt_of (ex_cnames ++ ex_args ++ ex_opts).
Definition ex_g : fmt := fmt_of (ex_args ++ ex_opts).
Definition ex_f' := fst (fst (aug_of ex_f)).  Definition ex_far := snd (fst (aug_of ex_f)).  Definition ex_fcn := snd (aug_of ex_f).
Definition ex_g' := fst (fst (aug_of ex_g)).  Definition ex_gar := snd (fst (aug_of ex_g)).  Definition ex_gcn := snd (aug_of ex_g).
Lemma ex_f_aug : aug_format ex_f = Ok (ex_f', ex_far, ex_fcn).  Proof. vm_compute. reflexivity. Qed.
Lemma ex_g_aug : aug_format ex_g = Ok (ex_g', ex_gar, ex_gcn).  Proof. vm_compute. reflexivity. Qed.
(* the scratch state the strict loop ends in *)
Definition scan_st (f : fmt) (pre : list str) : pstate := fst (loop (S (length pre)) f false true ps_empty pre).
(* ================= 2. clause 1: unknown option -> NoSuchOption ================= *)
(* the name part of the body of a long option token: everything before the first "=" *)
Definition opt_name (body : str) : str := match split_eq body [] with Some (n, _) => n | None => body end.
Lemma opt_name_plain n : no_eq n = true -> opt_name n = n.
Proof. intros H. unfold opt_name. rewrite (split_eq_none n [] H). reflexivity. Qed.
Lemma opt_name_eq n v : no_eq n = true -> opt_name (n ++ EQ :: v) = n.
Proof. intros H. unfold opt_name. rewrite (split_eq_found n v [] H). reflexivity. Qed.

Lemma long_tok_dispatch f len st body rest : body <> [] ->
  step f len true st (long_tok body) rest =
  match parse_long_option f st (long_tok body) rest with Ok (st', rest') => Ok (true, st', rest') | Err k => Err k end.
Proof.
  intros Hb. unfold step, long_tok. cbn [andb nonempty negb].
  assert (is_dd (DASH :: DASH :: body) = false) as ->.
  { unfold is_dd. cbn [str_eqb]. rewrite N.eqb_refl. destruct body; [contradiction|reflexivity]. }
  assert (starts_dd (DASH :: DASH :: body) = true) as -> by (unfold starts_dd; rewrite N.eqb_refl; reflexivity).
  reflexivity.
Qed.

Lemma step_unknown_long f len st body rest :
  body <> [] -> has_option f (opt_name body) true = false ->
  step f len true st (long_tok body) rest = Err NoSuchOption.
Proof.
  intros Hb Hn. rewrite long_tok_dispatch by exact Hb.
  unfold parse_long_option, long_tok, opt_name in *. cbn [skipn].
  destruct (split_eq body []) as [[n v]|].
  - rewrite add_long_eq, Hn. reflexivity.
  - unfold accepts. rewrite Hn. cbn [andb]. rewrite add_long_eq, Hn. reflexivity.
Qed.

Theorem unknown_long_option_at f f' ar cns toks st body rest :
  aug_format f = Ok (f', ar, cns) ->
  reach f' false true ps_empty toks true st (long_tok body :: rest) ->
  body <> [] -> has_option f' (opt_name body) true = false ->
  parse f false toks = Err NoSuchOption.
Proof. intros Ha Hr Hb Hn. eapply strict_error_at; eauto. apply step_unknown_long; assumption. Qed.

Lemma dashy_long body : dashy (long_tok body) = true.
Proof. reflexivity. Qed.
Lemma dashy_short body : dashy (short_tok body) = true.
Proof. reflexivity. Qed.

(* "--name" / "--name=value" behind any prefix that the loop processes without error (no "--" in it) *)
Theorem unknown_long_option f f' ar cns pre st name rest :
  aug_format f = Ok (f', ar, cns) -> scans f' pre st -> existsb is_dd pre = false ->
  name <> [] -> no_eq name = true -> has_option f' name true = false ->
  parse f false (pre ++ long_tok name :: rest) = Err NoSuchOption.
Proof.
  intros Ha Hs Hdd Hne Hq Hn. apply (unknown_long_option_at f f' ar cns _ st name rest Ha).
  - apply scans_reach; auto.
  - exact Hne.
  - rewrite opt_name_plain; assumption.
Qed.
Theorem unknown_long_option_eq f f' ar cns pre st name value rest :
  aug_format f = Ok (f', ar, cns) -> scans f' pre st -> existsb is_dd pre = false ->
  no_eq name = true -> has_option f' name true = false ->
  parse f false (pre ++ long_tok (name ++ EQ :: value) :: rest) = Err NoSuchOption.
Proof.
  intros Ha Hs Hdd Hq Hn. apply (unknown_long_option_at f f' ar cns _ st (name ++ EQ :: value) rest Ha).
  - apply scans_reach; auto.
  - destruct name; discriminate.
  - rewrite opt_name_eq; assumption.
Qed.

(* short options: "-x...", also behind a group of known flags "-abx..." *)
Definition flag_ok (f : fmt) (x : N) : bool :=
  has_option f [x] true &&
  match get_option f [x] true with
  | Ok o => negb (o_accepts o) && has_option f (o_long o) true &&
            match get_option f (o_long o) true with
            | Ok o' => negb (o_accepts o') && negb (o_required o') && negb (o_multi o')
            | Err _ => false end
  | Err _ => false end.

Lemma flag_ok_inv f x : flag_ok f x = true ->
  exists o o', has_option f [x] true = true /\ get_option f [x] true = Ok o /\ o_accepts o = false /\
    has_option f (o_long o) true = true /\ get_option f (o_long o) true = Ok o' /\
    o_accepts o' = false /\ o_required o' = false /\ o_multi o' = false.
Proof.
  unfold flag_ok. intros H. apply andb_prop in H as [H1 H].
  destruct (get_option f [x] true) as [o|] eqn:E1; [|discriminate].
  apply andb_prop in H as [H H4]. apply andb_prop in H as [H2 H3].
  destruct (get_option f (o_long o) true) as [o'|] eqn:E2; [|discriminate].
  apply andb_prop in H4 as [H4 H6]. apply andb_prop in H4 as [H4 H5].
  apply negb_true_iff in H2, H4, H5, H6.
  exists o, o'. repeat split; assumption.
Qed.

Lemma short_set_unknown f c more : has_option f [c] true = false ->
  forall flags st t, forallb (flag_ok f) flags = true ->
  fst (short_set f st (flags ++ c :: more) t) = Err NoSuchOption.
Proof.
  intros Hn. induction flags as [|x fl IH]; intros st t Hf; cbn [app short_set].
  - rewrite Hn. reflexivity.
  - cbn [forallb] in Hf. apply andb_prop in Hf as [Hx Hfl].
    destruct (flag_ok_inv _ _ Hx) as (o & o' & H1 & H2 & H3 & H4 & H5 & H6 & H7 & H8).
    rewrite H1, H2, H3. cbn [negb]. rewrite add_long_eq, H4, H5. cbn [negb bind].
    rewrite H6. cbn [look fst snd]. unfold store. rewrite H7, H8. apply IH. exact Hfl.
Qed.

Lemma short_tok_dispatch f len st body rest : body <> [] -> starts_dash body = false ->
  step f len true st (short_tok body) rest =
  match fst (parse_short_option f st (short_tok body) rest) with Ok (st', rest') => Ok (true, st', rest') | Err k => Err k end.
Proof.
  intros Hb Hd. unfold step, short_tok. cbn [andb nonempty negb].
  destruct body as [|x body]; [contradiction|]. cbn [starts_dash] in Hd.
  assert (is_dd (DASH :: x :: body) = false) as ->.
  { unfold is_dd. cbn [str_eqb]. rewrite Hd, andb_false_r. reflexivity. }
  assert (starts_dd (DASH :: x :: body) = false) as -> by (unfold starts_dd; rewrite Hd, andb_false_r; reflexivity).
  assert (starts_dash (DASH :: x :: body) = true) as -> by (unfold starts_dash; apply N.eqb_refl).
  assert (str_eqb (DASH :: x :: body) [DASH] = false) as -> by (cbn [str_eqb]; apply andb_false_r).
  reflexivity.
Qed.

Lemma step_unknown_short f len st flags c more rest :
  starts_dash (flags ++ c :: more) = false -> forallb (flag_ok f) flags = true -> has_option f [c] true = false ->
  step f len true st (short_tok (flags ++ c :: more)) rest = Err NoSuchOption.
Proof.
  intros Hd Hf Hn. rewrite short_tok_dispatch; [|destruct flags; discriminate|exact Hd].
  unfold parse_short_option, short_tok. cbn [skipn].
  destruct flags as [|x fl]; cbn [app].
  - destruct more as [|m more].
    + unfold accepts. rewrite Hn. cbn [andb fst]. unfold add_short_option. rewrite Hn. reflexivity.
    + unfold accepts. rewrite Hn. cbn [andb].
      pose proof (short_set_unknown f c (m :: more) Hn [] st rest eq_refl) as Hx. cbn [app] in Hx.
      rewrite Hx. reflexivity.
  - cbn [forallb] in Hf. pose proof Hf as Hf0. apply andb_prop in Hf as [Hx Hfl].
    destruct (flag_ok_inv _ _ Hx) as (o & o' & H1 & H2 & H3 & _).
    assert (accepts f [x] = false) as Ha by (unfold accepts; rewrite H1, H2, H3; reflexivity).
    destruct (fl ++ c :: more) as [|y l] eqn:E; [destruct fl; discriminate|].
    rewrite Ha. rewrite <- E.
    change (x :: fl ++ c :: more) with ((x :: fl) ++ c :: more).
    rewrite (short_set_unknown f c more Hn (x :: fl) st rest Hf0). reflexivity.
Qed.

Theorem unknown_short_option_at f f' ar cns toks st flags c more rest :
  aug_format f = Ok (f', ar, cns) ->
  reach f' false true ps_empty toks true st (short_tok (flags ++ c :: more) :: rest) ->
  starts_dash (flags ++ c :: more) = false -> forallb (flag_ok f') flags = true ->
  has_option f' [c] true = false ->
  parse f false toks = Err NoSuchOption.
Proof. intros Ha Hr Hd Hf Hn. eapply strict_error_at; eauto. apply step_unknown_short; assumption. Qed.

Theorem unknown_short_option f f' ar cns pre st flags c more rest :
  aug_format f = Ok (f', ar, cns) -> scans f' pre st -> existsb is_dd pre = false ->
  starts_dash (flags ++ c :: more) = false -> forallb (flag_ok f') flags = true ->
  has_option f' [c] true = false ->
  parse f false (pre ++ short_tok (flags ++ c :: more) :: rest) = Err NoSuchOption.
Proof.
  intros Ha Hs Hdd Hd Hf Hn.
  apply (unknown_short_option_at f f' ar cns _ st flags c more rest Ha); try assumption.
  apply scans_reach; auto.
Qed.

Open Scope string_scope.
(* non-vacuity: every hypothesis holds for these lines *)
Example ex_unknown_long : parse ex_f false (T ["server"; "x"; "--opt"; "--nope"; "y"]) = Err NoSuchOption.
Proof.
  apply (unknown_long_option ex_f ex_f' ex_far ex_fcn (T ["server"; "x"; "--opt"]) (scan_st ex_f' (T ["server"; "x"; "--opt"]))
           (S_ "nope") (T ["y"]) ex_f_aug); vm_compute; try reflexivity; discriminate.
Qed.
Example ex_unknown_long_eq : parse ex_f false (T ["-v"; "--num"; "3"; "--nope=1"; "--also"]) = Err NoSuchOption.
Proof.
  apply (unknown_long_option_eq ex_f ex_f' ex_far ex_fcn (T ["-v"; "--num"; "3"]) (scan_st ex_f' (T ["-v"; "--num"; "3"]))
           (S_ "nope") (S_ "1") (T ["--also"]) ex_f_aug); vm_compute; reflexivity.
Qed.
Example ex_unknown_short : parse ex_f false (T ["x"; "-vqzn"; "3"]) = Err NoSuchOption.
Proof.
  apply (unknown_short_option ex_f ex_f' ex_far ex_fcn (T ["x"]) (scan_st ex_f' (T ["x"]))
           (S_ "vq") 122%N (S_ "n") (T ["3"]) ex_f_aug); vm_compute; reflexivity.
Qed.
Close Scope string_scope.
(* ================= 3. clause 2: a value given to a flag -> CannotParse ================= *)
Lemma step_flag_value f len st name value rest o :
  no_eq name = true -> has_option f name true = true -> get_option f name true = Ok o -> o_accepts o = false ->
  step f len true st (long_tok (name ++ EQ :: value)) rest = Err CannotParse.
Proof.
  intros Hq Hh Hg Ha. rewrite long_tok_dispatch by (destruct name; discriminate).
  unfold parse_long_option, long_tok. cbn [skipn]. rewrite (split_eq_found name value [] Hq). cbn [rev app].
  rewrite add_long_eq, Hh, Hg. cbn [negb bind]. rewrite Ha. reflexivity.
Qed.

Theorem flag_given_value_at f f' ar cns toks st name value rest o :
  aug_format f = Ok (f', ar, cns) ->
  reach f' false true ps_empty toks true st (long_tok (name ++ EQ :: value) :: rest) ->
  no_eq name = true -> has_option f' name true = true -> get_option f' name true = Ok o -> o_accepts o = false ->
  parse f false toks = Err CannotParse.
Proof. intros Ha Hr Hq Hh Hg Hacc. eapply strict_error_at; eauto. eapply step_flag_value; eauto. Qed.

Theorem flag_given_value f f' ar cns pre st name value rest o :
  aug_format f = Ok (f', ar, cns) -> scans f' pre st -> existsb is_dd pre = false ->
  no_eq name = true -> has_option f' name true = true -> get_option f' name true = Ok o -> o_accepts o = false ->
  parse f false (pre ++ long_tok (name ++ EQ :: value) :: rest) = Err CannotParse.
Proof.
  intros Ha Hs Hdd Hq Hh Hg Hacc.
  apply (flag_given_value_at f f' ar cns _ st name value rest o Ha); try assumption.
  apply scans_reach; auto.
Qed.

(* ================= 4. clause 3: a required option value left out -> CannotParse ================= *)
(* nothing follows, or what follows cannot be a value: an empty token or one that starts with "-" *)
Definition no_value_next (rest : list str) : bool :=
  match rest with [] => true | nxt :: _ => negb (nonempty nxt) || starts_dash nxt end.

Lemma add_long_missing f st n o (v : option str) (t : list str) :
  has_option f n true = true -> get_option f n true = Ok o -> o_required o = true ->
  (v = Some [] \/ (v = None /\ no_value_next t = true)) ->
  add_long_option f st n v t = Err CannotParse.
Proof.
  intros Hh Hg Hr Hv. rewrite add_long_eq, Hh, Hg. cbn [negb bind].
  destruct Hv as [->|[-> Hn]].
  - destruct (negb (o_accepts o)); [reflexivity|]. cbn [look fst snd]. unfold store. rewrite Hr. reflexivity.
  - unfold look. destruct (o_accepts o); [|cbn [fst snd]; unfold store; rewrite Hr; reflexivity].
    destruct t as [|nxt r]; [cbn [fst snd]; unfold store; rewrite Hr; reflexivity|].
    cbn [no_value_next] in Hn.
    destruct (nonempty nxt); cbn [negb orb andb] in *.
    + rewrite Hn. cbn [negb fst snd]. unfold store. rewrite Hr. reflexivity.
    + cbn [fst snd]. unfold store. rewrite Hr. reflexivity.
Qed.

Lemma take_value_no_value rest : no_value_next rest = true ->
  (fst (take_value rest) = Some ([] : str) \/ (fst (take_value rest) = None /\ no_value_next (snd (take_value rest)) = true)).
Proof.
  destruct rest as [|nxt r]; cbn [take_value no_value_next fst snd]; [auto|]. intros Hn.
  destruct (nonempty nxt) eqn:E; cbn [negb orb andb] in *.
  - rewrite Hn. cbn [fst snd no_value_next]. rewrite E, Hn. auto.
  - left. destruct nxt; [reflexivity|discriminate].
Qed.

(* "--name" with nothing usable behind it, and "--name=" *)
Lemma step_value_missing_long f len st name rest o :
  name <> [] -> no_eq name = true -> has_option f name true = true -> get_option f name true = Ok o ->
  o_required o = true -> no_value_next rest = true ->
  step f len true st (long_tok name) rest = Err CannotParse.
Proof.
  intros Hne Hq Hh Hg Hr Hn. rewrite long_tok_dispatch by exact Hne.
  unfold parse_long_option, long_tok. cbn [skipn]. rewrite (split_eq_none name [] Hq).
  destruct (accepts f name).
  - pose proof (take_value_no_value rest Hn) as Hv. destruct (take_value rest) as [v t']. cbn [fst snd] in Hv.
    rewrite (add_long_missing f st name o v t' Hh Hg Hr Hv). reflexivity.
  - rewrite (add_long_missing f st name o None rest Hh Hg Hr); [reflexivity|auto].
Qed.
Lemma step_value_missing_eq f len st name rest o :
  no_eq name = true -> has_option f name true = true -> get_option f name true = Ok o -> o_required o = true ->
  step f len true st (long_tok (name ++ [EQ])) rest = Err CannotParse.
Proof.
  intros Hq Hh Hg Hr. rewrite long_tok_dispatch by (destruct name; discriminate).
  unfold parse_long_option, long_tok. cbn [skipn]. rewrite (split_eq_found name [] [] Hq). cbn [rev app].
  match goal with |- context [add_long_option ?a ?b ?c ?d ?e] =>
    assert (add_long_option a b c d e = Err CannotParse) as HH by (eapply add_long_missing; eauto) end.
  rewrite HH. reflexivity.
Qed.

Theorem option_value_missing_at f f' ar cns toks st name rest o :
  aug_format f = Ok (f', ar, cns) ->
  reach f' false true ps_empty toks true st (long_tok name :: rest) ->
  name <> [] -> no_eq name = true -> has_option f' name true = true -> get_option f' name true = Ok o ->
  o_required o = true -> no_value_next rest = true ->
  parse f false toks = Err CannotParse.
Proof. intros Ha Hr Hne Hq Hh Hg Hreq Hn. eapply strict_error_at; eauto. eapply step_value_missing_long; eauto. Qed.

Theorem option_value_missing f f' ar cns pre st name rest o :
  aug_format f = Ok (f', ar, cns) -> scans f' pre st -> existsb is_dd pre = false ->
  name <> [] -> no_eq name = true -> has_option f' name true = true -> get_option f' name true = Ok o ->
  o_required o = true -> no_value_next rest = true ->
  parse f false (pre ++ long_tok name :: rest) = Err CannotParse.
Proof.
  intros Ha Hs Hdd Hne Hq Hh Hg Hreq Hn.
  apply (option_value_missing_at f f' ar cns _ st name rest o Ha); try assumption.
  apply scans_reach; auto.
Qed.
Theorem option_value_empty f f' ar cns pre st name rest o :
  aug_format f = Ok (f', ar, cns) -> scans f' pre st -> existsb is_dd pre = false ->
  no_eq name = true -> has_option f' name true = true -> get_option f' name true = Ok o -> o_required o = true ->
  parse f false (pre ++ long_tok (name ++ [EQ]) :: rest) = Err CannotParse.
Proof.
  intros Ha Hs Hdd Hq Hh Hg Hreq.
  apply (strict_error_at f f' ar cns _ true st (long_tok (name ++ [EQ])) rest CannotParse Ha).
  - apply scans_reach; auto.
  - eapply step_value_missing_eq; eauto.
Qed.

(* short form: "-n", also as the last letter of a group of flags "-abn" *)
Lemma short_set_missing f c o : has_option f [c] true = true -> get_option f [c] true = Ok o ->
  has_option f (o_long o) true = true -> get_option f (o_long o) true = Ok o -> o_required o = true ->
  forall flags st t, forallb (flag_ok f) flags = true -> no_value_next t = true ->
  fst (short_set f st (flags ++ [c]) t) = Err CannotParse.
Proof.
  intros Hh Hg Hhl Hgl Hr. induction flags as [|x fl IH]; intros st t Hf Hn; cbn [app short_set].
  - rewrite Hh, Hg. cbn [negb].
    rewrite (add_long_missing f st (o_long o) o None t Hhl Hgl Hr) by auto.
    destruct (o_accepts o); reflexivity.
  - cbn [forallb] in Hf. apply andb_prop in Hf as [Hx Hfl].
    destruct (flag_ok_inv _ _ Hx) as (o1 & o' & H1 & H2 & H3 & H4 & H5 & H6 & H7 & H8).
    rewrite H1, H2, H3. cbn [negb]. rewrite add_long_eq, H4, H5. cbn [negb bind].
    rewrite H6. cbn [look fst snd]. unfold store. rewrite H7, H8. apply IH; assumption.
Qed.

Lemma step_value_missing_short f len st flags c rest o :
  starts_dash (flags ++ [c]) = false -> forallb (flag_ok f) flags = true ->
  has_option f [c] true = true -> get_option f [c] true = Ok o ->
  has_option f (o_long o) true = true -> get_option f (o_long o) true = Ok o -> o_required o = true ->
  no_value_next rest = true ->
  step f len true st (short_tok (flags ++ [c])) rest = Err CannotParse.
Proof.
  intros Hd Hf Hh Hg Hhl Hgl Hr Hn. rewrite short_tok_dispatch; [|destruct flags; discriminate|exact Hd].
  unfold parse_short_option, short_tok. cbn [skipn].
  destruct flags as [|x fl]; cbn [app].
  - destruct (accepts f [c]).
    + pose proof (take_value_no_value rest Hn) as Hv. destruct (take_value rest) as [v t']. cbn [fst snd] in Hv.
      unfold add_short_option. rewrite Hh, Hg. cbn [negb bind].
      rewrite (add_long_missing f st (o_long o) o v t' Hhl Hgl Hr Hv). reflexivity.
    + unfold add_short_option. rewrite Hh, Hg. cbn [negb bind].
      rewrite (add_long_missing f st (o_long o) o None rest Hhl Hgl Hr) by auto. reflexivity.
  - cbn [forallb] in Hf. pose proof Hf as Hf0. apply andb_prop in Hf as [Hx Hfl].
    destruct (flag_ok_inv _ _ Hx) as (o1 & o' & H1 & H2 & H3 & _).
    assert (accepts f [x] = false) as Ha by (unfold accepts; rewrite H1, H2, H3; reflexivity).
    destruct (fl ++ [c]) as [|y l] eqn:E; [destruct fl; discriminate|].
    rewrite Ha. rewrite <- E. change (x :: fl ++ [c]) with ((x :: fl) ++ [c]).
    rewrite (short_set_missing f c o Hh Hg Hhl Hgl Hr (x :: fl) st rest Hf0 Hn). reflexivity.
Qed.

Theorem short_option_value_missing_at f f' ar cns toks st flags c rest o :
  aug_format f = Ok (f', ar, cns) ->
  reach f' false true ps_empty toks true st (short_tok (flags ++ [c]) :: rest) ->
  starts_dash (flags ++ [c]) = false -> forallb (flag_ok f') flags = true ->
  has_option f' [c] true = true -> get_option f' [c] true = Ok o ->
  has_option f' (o_long o) true = true -> get_option f' (o_long o) true = Ok o -> o_required o = true ->
  no_value_next rest = true ->
  parse f false toks = Err CannotParse.
Proof.
  intros Ha Hr Hd Hf Hh Hg Hhl Hgl Hreq Hn. eapply strict_error_at; eauto.
  eapply step_value_missing_short; eauto.
Qed.
Theorem short_option_value_missing f f' ar cns pre st flags c rest o :
  aug_format f = Ok (f', ar, cns) -> scans f' pre st -> existsb is_dd pre = false ->
  starts_dash (flags ++ [c]) = false -> forallb (flag_ok f') flags = true ->
  has_option f' [c] true = true -> get_option f' [c] true = Ok o ->
  has_option f' (o_long o) true = true -> get_option f' (o_long o) true = Ok o -> o_required o = true ->
  no_value_next rest = true ->
  parse f false (pre ++ short_tok (flags ++ [c]) :: rest) = Err CannotParse.
Proof.
  intros Ha Hs Hdd Hd Hf Hh Hg Hhl Hgl Hreq Hn.
  apply (short_option_value_missing_at f f' ar cns _ st flags c rest o Ha); try assumption.
  apply scans_reach; auto.
Qed.

Open Scope string_scope.
Example ex_flag_given_value : parse ex_f false (T ["srv"; "add"; "x"; "--verbose=1"; "--nope"]) = Err CannotParse.
Proof.
  apply (flag_given_value ex_f ex_f' ex_far ex_fcn (T ["srv"; "add"; "x"]) (scan_st ex_f' (T ["srv"; "add"; "x"]))
           (S_ "verbose") (S_ "1") (T ["--nope"]) (mkopt "verbose" (Some "v") 4 VNone) ex_f_aug); vm_compute; reflexivity.
Qed.
Example ex_option_value_missing : parse ex_f false (T ["x"; "--num"; "--verbose"]) = Err CannotParse.
Proof.
  apply (option_value_missing ex_f ex_f' ex_far ex_fcn (T ["x"]) (scan_st ex_f' (T ["x"]))
           (S_ "num") (T ["--verbose"]) (mkopt "num" (Some "n") 520 VNone) ex_f_aug); vm_compute; try reflexivity; discriminate.
Qed.
Example ex_option_value_missing_last : parse ex_f false (T ["x"; "--num"]) = Err CannotParse.
Proof.
  apply (option_value_missing ex_f ex_f' ex_far ex_fcn (T ["x"]) (scan_st ex_f' (T ["x"]))
           (S_ "num") [] (mkopt "num" (Some "n") 520 VNone) ex_f_aug); vm_compute; try reflexivity; discriminate.
Qed.
Example ex_option_value_empty : parse ex_f false (T ["x"; "--num="; "3"]) = Err CannotParse.
Proof.
  apply (option_value_empty ex_f ex_f' ex_far ex_fcn (T ["x"]) (scan_st ex_f' (T ["x"]))
           (S_ "num") (T ["3"]) (mkopt "num" (Some "n") 520 VNone) ex_f_aug); vm_compute; reflexivity.
Qed.
Example ex_short_option_value_missing : parse ex_f false (T ["x"; "-vqn"; ""; "7"]) = Err CannotParse.
Proof.
  apply (short_option_value_missing ex_f ex_f' ex_far ex_fcn (T ["x"]) (scan_st ex_f' (T ["x"]))
           (S_ "vq") 110%N (T [""; "7"]) (mkopt "num" (Some "n") 520 VNone) ex_f_aug); vm_compute; reflexivity.
Qed.
Close Scope string_scope.
